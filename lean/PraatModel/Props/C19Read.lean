import PraatModel.Props.C19

/-! # C19 — `_openNormalKlattgrid` on the layout of a written file (clause (e), whole file) -/

namespace C19
open Klatt

namespace Read

/-! ## generic: segments whose first row carries the keyword once -/

theorem lineHits_segments (kw : Txt) (segs : List (List Txt))
    (h : ∀ s ∈ segs, ∃ f r, s = f :: r ∧ (findAll kw f).length = 1 ∧ ∀ l ∈ r, findAll kw l = []) (o : Int) :
    lineHits kw segs.flatten o = (segStarts (segs.map (join ['\n'])) o).dropLast := by
  induction segs generalizing o with
  | nil => simp [lineHits, segStarts]
  | cons s rest ih =>
    obtain ⟨f, r, hs, h1, h0⟩ := h s (by simp)
    have hsp : span s = ((join ['\n'] s).length : Int) + 1 := by rw [← span_join s (by rw [hs]; simp)]
    simp only [List.flatten_cons, lineHits_append, List.map_cons, segStarts]
    rw [ih (fun x hx => h x (by simp [hx]))]
    have hfirst : lineHits kw s o = [o] := by
      rw [hs]
      simp only [lineHits]
      rw [lineHits_none kw r _ h0]
      match hl : findAll kw f, h1 with
      | [x], _ => simp
    rw [hfirst, hsp]
    have hne : segStarts (rest.map (join ['\n'])) (o + ↑(join ['\n'] s).length + 1) ≠ [] := by
      cases rest <;> simp [segStarts]
    rw [List.dropLast_cons_of_ne_nil hne]
    have : o + (↑(join ['\n'] s).length + 1) = o + ↑(join ['\n'] s).length + 1 := by omega
    rw [this]; rfl

theorem segStarts_last (segs : List Txt) (o : Int) :
    (segStarts segs o).getLast? = some (o + (segs.map fun s => (s.length : Int) + 1).sum) := by
  induction segs generalizing o with
  | nil => simp [segStarts]
  | cons s rest ih =>
    have hne : segStarts rest (o + ↑s.length + 1) ≠ [] := by cases rest <;> simp [segStarts]
    simp only [segStarts, List.map_cons, List.sum_cons]
    rw [List.getLast?_cons_of_ne_nil hne, ih]
    congr 1; omega

theorem join_length (segs : List Txt) (h : segs ≠ []) :
    ((join ['\n'] segs).length : Int) + 1 = (segs.map fun s => (s.length : Int) + 1).sum := by
  induction segs with
  | nil => exact absurd rfl h
  | cons s rest ih =>
    cases rest with
    | nil => simp [join]
    | cons s2 r2 =>
      rw [join_cons_cons]
      have := ih (by simp)
      simp only [List.map_cons, List.sum_cons, List.length_append, List.length_cons, List.length_nil] at this ⊢
      omega

theorem dropLast_append_getLast? {α} (l : List α) (x : α) (h : l.getLast? = some x) : l.dropLast ++ [x] = l := by
  have hne : l ≠ [] := by intro e; subst e; simp at h
  have := List.dropLast_concat_getLast hne
  rw [List.getLast?_eq_getLast hne] at h
  cases h
  exact this

/-! ## one section -/

def tail4 : List Txt → List Txt
  | [] => []
  | [l4] => [l4]
  | l4 :: l5 :: more => [l4, join ['\n'] (l5 :: more)]

theorem split4_lines (l1 l2 l3 : Txt) (rest : List Txt) (h1 : '\n' ∉ l1) (h2 : '\n' ∉ l2) (h3 : '\n' ∉ l3)
    (hr : ∀ l ∈ rest, '\n' ∉ l) :
    pySplitN '\n' 4 (join ['\n'] (l1 :: l2 :: l3 :: rest)) = l1 :: l2 :: l3 :: tail4 rest := by
  cases rest with
  | nil =>
    simp only [join_cons_cons, join, tail4]
    have e : l1 ++ ['\n'] ++ (l2 ++ ['\n'] ++ l3) = l1 ++ '\n' :: (l2 ++ '\n' :: l3) := by simp
    rw [e, pySplitN_hit _ _ _ _ h1, pySplitN_hit _ _ _ _ h2, pySplitN_no _ _ _ h3]
  | cons l4 more =>
    have h4 : '\n' ∉ l4 := hr l4 (by simp)
    cases more with
    | nil =>
      simp only [join_cons_cons, join, tail4]
      have e : l1 ++ ['\n'] ++ (l2 ++ ['\n'] ++ (l3 ++ ['\n'] ++ l4)) = l1 ++ '\n' :: (l2 ++ '\n' :: (l3 ++ '\n' :: l4)) := by simp
      rw [e, pySplitN_hit _ _ _ _ h1, pySplitN_hit _ _ _ _ h2, pySplitN_hit _ _ _ _ h3, pySplitN_no _ _ _ h4]
    | cons l5 more2 =>
      simp only [join_cons_cons, tail4]
      have e : l1 ++ ['\n'] ++ (l2 ++ ['\n'] ++ (l3 ++ ['\n'] ++ (l4 ++ ['\n'] ++ join ['\n'] (l5 :: more2))))
          = l1 ++ '\n' :: (l2 ++ '\n' :: (l3 ++ '\n' :: (l4 ++ '\n' :: join ['\n'] (l5 :: more2)))) := by simp
      rw [e, pySplitN_hit _ _ _ _ h1, pySplitN_hit _ _ _ _ h2, pySplitN_hit _ _ _ _ h3, pySplitN_hit _ _ _ _ h4, pySplitN_zero]

/-- numerals of a file that is read back as a whole: additionally without `<` (no `<exists>` inside a number) -/
def FNumeral (n : Txt) : Prop := KNumeral n ∧ '=' ∉ n ∧ '<' ∉ n

theorem FNumeral.of_lit {n : Txt} (h : Lit n) : FNumeral n :=
  ⟨.of_lit h, h.not_mem '=' (by decide), h.not_mem '<' (by decide)⟩
/-- `FNumeral` is exactly `Lit`: any string `float()` accepts and `strip()` leaves alone — every character
condition is a consequence (`fclass_chars`) -/
theorem fnumeral_iff (n : Txt) : FNumeral n ↔ Lit n := ⟨fun h => h.1.1.lit, FNumeral.of_lit⟩

/-- `_getSectionHeader` on a slice that is a top-level section `name? <exists>⏎xmin = a⏎xmax = b⏎rest…` -/
theorem getSectionHeader_section (data : Txt) (idx : List Int) (j : Nat) (a b : Int) (ha : idx[j]? = some a)
    (hb : idx[j + 1]? = some b) (name xa xb : Txt) (rest : List Txt)
    (hn1 : '\n' ∉ name) (hn2 : '?' ∉ name) (hn3 : stripList name = name)
    (hxa : FNumeral xa) (hxb : FNumeral xb) (hr : ∀ l ∈ rest, '\n' ∉ l)
    (hsd : stripList (pySlice data a b) = join ['\n'] ((name ++ t "? <exists>") :: (t "xmin = " ++ xa) :: (t "xmax = " ++ xb) :: rest)) :
    getSectionHeader data idx j
      = .ok (name, xa, xb, join ['\n'] ((name ++ t "? <exists>") :: (t "xmin = " ++ xa) :: (t "xmax = " ++ xb) :: rest), tail4 rest) := by
  obtain ⟨⟨⟨hs1, hf1, hl1⟩, _, _⟩, he1, _⟩ := hxa
  obtain ⟨⟨⟨hs2, hf2, hl2⟩, _, _⟩, he2, _⟩ := hxb
  unfold getSectionHeader
  simp only [ha, hb, hsd, bind, Except.bind, pure, Except.pure]
  have a1 : '\n' ∉ t "? <exists>" := by decide
  have a2 : '\n' ∉ t "xmin = " := by decide
  have a3 : '\n' ∉ t "xmax = " := by decide
  rw [split4_lines _ _ _ rest (by simp [hn1, a1]) (by simp [a2, hl1]) (by simp [a3, hl2]) hr]
  simp only
  have hq : name ++ t "? <exists>" = name ++ '?' :: t " <exists>" := by simp [t]
  rw [hq, Clean.pySplit_two '?' name _ hn2 (by decide)]
  simp only [List.headD_cons, hn3]
  have e1 : t "xmin = " ++ xa = t "xmin " ++ '=' :: ' ' :: xa := by simp [t]
  have e2 : t "xmax = " ++ xb = t "xmax " ++ '=' :: ' ' :: xb := by simp [t]
  rw [e1, e2, afterEq_row _ _ (by decide) he1 hs1 hf1, afterEq_row _ _ (by decide) he2 hs2 hf2]

/-- the rows of a tier section after the three header rows -/
def tierRest (p : PT) : List Txt :=
  (if noPointsHeader.contains p.name then [] else [t "points: size = " ++ natDec p.pts.length]) ++ pointRows [] 0 p.pts

theorem tierLines_eq (p : PT) : tierLines p = (p.name ++ t "? <exists>") :: (t "xmin = " ++ p.xmin) :: (t "xmax = " ++ p.xmax) :: tierRest p := by
  simp [tierLines, tierRest]

theorem natDec_stripped (n : Nat) : stripList (natDec n) = natDec n := by
  apply stripList_of_noEdge
  have hd := natDec_digits n
  have nsp : ∀ c, isDigit c = true → pyIsSpace c = false := by
    intro c hc
    have := digit_not_numSpace c hc
    obtain ⟨h1, h2⟩ := isDigit_toNat c hc
    simp only [isNumSpace, Bool.and_eq_false_iff] at this
    rcases this with h | h
    · exact h
    · simp at h; omega
  constructor
  · intro c rest hc; exact nsp c (hd c (by rw [hc]; simp))
  · intro c hc; exact nsp c (hd c (List.mem_of_getLast? hc))

/-- `_buildEntries` on the tail of a top-level tier section -/
theorem buildEntries_tier (p : PT) (hpts : ∀ q ∈ p.pts, Numeral q.1 ∧ Numeral q.2)
    (hho : noPointsHeader.contains p.name = true → p.pts = []) : buildEntries (tail4 (tierRest p)) = .ok p.pts := by
  unfold tierRest
  by_cases hh : noPointsHeader.contains p.name = true
  · have hh' : p.name ∈ noPointsHeader := by simpa using hh
    simp [hh', hho hh, pointRows, tail4, buildEntries]; rfl
  · simp only [hh, if_false, Bool.false_eq_true]
    by_cases hp : p.pts = []
    · simp [hp, pointRows, tail4, buildEntries]; rfl
    · obtain ⟨r1, rs, hrows⟩ : ∃ r1 rs, pointRows [] 0 p.pts = r1 :: rs := by
        cases h : pointRows [] 0 p.pts with
        | nil => exact absurd h (pointRows_ne_nil _ _ _ hp)
        | cons a as => exact ⟨a, as, rfl⟩
      simp only [List.cons_append, List.nil_append, hrows, tail4, buildEntries]
      have e : t "points: size = " ++ natDec p.pts.length = t "points: size " ++ '=' :: ' ' :: natDec p.pts.length := by simp [t]
      have hfc := fclass_natDec p.pts.length
      have hlen : p.pts.length ≠ 0 := by intro e; exact hp (List.length_eq_zero_iff.1 e)
      rw [e, afterEq_row _ _ (by decide) (eq_not_mem_natDec _) (natDec_stripped _) (by rw [hfc]; rfl)]
      simp only [bind, Except.bind, hfc, hlen, if_false, if_true]
      rw [← hrows]
      exact processSectionData_written [] (by simp) p.pts (fun q hq => ⟨(hpts q hq).1.lit, (hpts q hq).2.lit⟩)

/-! ## rows without `<` -/

theorem pointRows_nolt (ind : Txt) (hind : '<' ∉ ind) (pts : List (Txt × Txt)) (i : Nat)
    (h : ∀ q ∈ pts, '<' ∉ q.1 ∧ '<' ∉ q.2) : ∀ l ∈ pointRows ind i pts, '<' ∉ l := by
  induction pts generalizing i with
  | nil => intro l hl; simp [pointRows] at hl
  | cons q rest ih =>
    obtain ⟨n, v⟩ := q
    obtain ⟨hn, hv⟩ := h (n, v) (by simp)
    intro l hl
    simp only [pointRows, List.mem_cons] at hl
    have d := digits_no '<' (by decide) (i + 1)
    rcases hl with rfl | rfl | rfl | hl
    · have a : '<' ∉ t "points [" := by decide
      have b : '<' ∉ t "]:" := by decide
      simp [hind, a, b, d]
    · have a : '<' ∉ t "    number = " := by decide
      simp [hind, a, hn]
    · have a : '<' ∉ t "    value = " := by decide
      simp [hind, a, hv]
    · exact ih (i + 1) (fun q hq => h q (by simp [hq])) l hl

theorem canon_nolt : ∀ nm ∈ canon, '<' ∉ nm := by decide

theorem bodyLines_nolt (its : List IT) (h : Shape its)
    (hlt : ∀ i ∈ its, ∀ p ∈ i.subs, '<' ∉ p.xmin ∧ '<' ∉ p.xmax ∧ ∀ q ∈ p.pts, '<' ∉ q.1 ∧ '<' ∉ q.2) :
    ∀ l ∈ bodyLines its, '<' ∉ l := by
  intro l hl
  simp only [bodyLines, List.mem_flatten, List.mem_map] at hl
  obtain ⟨ls, ⟨i, hi, rfl⟩, hl⟩ := hl
  have hnm := canon_nolt i.name (mem_canon_of_shape h i hi)
  simp only [itLines, List.mem_cons, List.mem_flatten, List.mem_map] at hl
  rcases hl with rfl | ⟨ls, ⟨p, hp, rfl⟩, hl⟩
  · have a : '<' ∉ t ": size = " := by decide
    simp [hdrLine, hnm, a, digits_no '<' (by decide)]
  · obtain ⟨k, hk⟩ := (h.subs i hi p hp).name
    obtain ⟨h1, h2, h3⟩ := hlt i hi p hp
    simp only [subLines, List.mem_append, List.mem_cons, List.not_mem_nil, or_false] at hl
    rcases hl with (rfl | rfl | rfl | rfl) | hl
    · have a : '<' ∉ t " [" := by decide
      have b : '<' ∉ t "]" := by decide
      have c : '<' ∉ t ":" := by decide
      rw [hk]; simp [hnm, a, b, c, digits_no '<' (by decide)]
    · have a : '<' ∉ t "    xmin = " := by decide
      simp [a, h1]
    · have a : '<' ∉ t "    xmax = " := by decide
      simp [a, h2]
    · have a : '<' ∉ t "    points: size = " := by decide
      simp [a, digits_no '<' (by decide)]
    · exact pointRows_nolt (t "    ") (by decide) p.pts 0 h3 l hl

/-! ## what a readable file looks like -/

structure TierOk (p : PT) : Prop where
  name_nl : '\n' ∉ p.name
  name_q : '?' ∉ p.name
  name_lt : '<' ∉ p.name
  name_strip : stripList p.name = p.name
  notCont : containerNames.contains p.name = false
  xmin : FNumeral p.xmin
  xmax : FNumeral p.xmax
  pts : ∀ q ∈ p.pts, FNumeral q.1 ∧ FNumeral q.2
  headerOnly : noPointsHeader.contains p.name = true → p.pts = []

structure ContOk (name : Txt) (span : Option (Txt × Txt)) (its : List IT) : Prop where
  name : name ∈ containerNames
  span : ∃ a b, span = some (a, b) ∧ FNumeral a ∧ FNumeral b
  shape : Shape2 its
  /-- the intermediate tiers stand in Praat's order, the order the reader returns (`container_roundtrip_anyorder`) -/
  order : (its.map (·.name)).Sublist canon
  ne : its ≠ []
  lt : ∀ i ∈ its, ∀ p ∈ i.subs, '<' ∉ p.xmin ∧ '<' ∉ p.xmax ∧ ∀ q ∈ p.pts, '<' ∉ q.1 ∧ '<' ∉ q.2

def WSecOk (w : WSec) : Prop :=
  match w.sec with
  | .tier p => TierOk p
  | .cont n its => ContOk n w.span its

/-- the hypotheses of the whole-file reader theorem -/
structure ReadOk (xmin xmax : Txt) (secs : List WSec) : Prop where
  xmin : '\n' ∉ xmin ∧ '<' ∉ xmin
  xmax : '\n' ∉ xmax ∧ '<' ∉ xmax
  ok : ∀ w ∈ secs, WSecOk w
  names : (secs.map (·.sec.name)).Nodup
  /-- `_openNormalKlattgrid` looks for the word "points" first ("Not sure if this is needed") and raises if there
  is none: some section must be a container or a tier that has a `points: size` row -/
  points : ∃ w ∈ secs, match w.sec with
    | .tier p => noPointsHeader.contains p.name = false
    | .cont _ _ => True

def secText (w : WSec) : Txt := join ['\n'] (wsecLines w)

theorem containerNames_facts : ∀ nm ∈ containerNames, '\n' ∉ nm ∧ '?' ∉ nm ∧ '<' ∉ nm ∧ stripList nm = nm := by decide

/-- the rows of a section: the `name? <exists>` row, then rows without `<` -/
theorem wsecLines_shape (w : WSec) (h : WSecOk w) :
    ∃ xa xb rest, wsecLines w = (w.sec.name ++ t "? <exists>") :: (t "xmin = " ++ xa) :: (t "xmax = " ++ xb) :: rest ∧
      FNumeral xa ∧ FNumeral xb ∧ (∀ l ∈ rest, '\n' ∉ l ∧ '<' ∉ l) ∧
      '\n' ∉ w.sec.name ∧ '?' ∉ w.sec.name ∧ '<' ∉ w.sec.name ∧ stripList w.sec.name = w.sec.name := by
  obtain ⟨sec, span⟩ := w
  cases sec with
  | tier p =>
    have h : TierOk p := h
    refine ⟨p.xmin, p.xmax, tierRest p, tierLines_eq p, h.xmin, h.xmax, ?_, h.name_nl, h.name_q, h.name_lt, h.name_strip⟩
    intro l hl
    simp only [tierRest, List.mem_append] at hl
    rcases hl with hl | hl
    · by_cases hh : noPointsHeader.contains p.name = true
      · have hh' : p.name ∈ noPointsHeader := by simpa using hh
        simp [hh'] at hl
      · simp only [hh, if_false, Bool.false_eq_true, List.mem_singleton] at hl
        subst hl
        have a1 : '\n' ∉ t "points: size = " := by decide
        have a2 : '<' ∉ t "points: size = " := by decide
        exact ⟨by simp [a1, nl_not_mem_natDec], by simp [a2, digits_no '<' (by decide)]⟩
    · constructor
      · exact pointRows_nonl [] (by simp) p.pts 0 (fun q hq => ⟨(h.pts q hq).1.1.1.2.2, (h.pts q hq).2.1.1.2.2⟩) l hl
      · exact Read.pointRows_nolt [] (by simp) p.pts 0 (fun q hq => ⟨(h.pts q hq).1.2.2, (h.pts q hq).2.2.2⟩) l hl
  | cont n its =>
    have h : ContOk n span its := h
    obtain ⟨a, b, hsp, ha, hb⟩ := h.span
    obtain ⟨f1, f2, f3, f4⟩ := containerNames_facts n h.name
    refine ⟨a, b, bodyLines its, by simp [wsecLines, hsp, Sec.name], ha, hb, ?_, f1, f2, f3, f4⟩
    intro l hl
    exact ⟨bodyLines_nonl its h.shape.toShape l hl, Read.bodyLines_nolt its h.shape.toShape h.lt l hl⟩

/-! ## the `<exists>` hits and the section slices -/

def kwE : Txt := t "<exists>"

theorem hdr_hits (name : Txt) (h : '<' ∉ name) : (findAll kwE (name ++ t "? <exists>")).length = 1 := by
  have e : name ++ t "? <exists>" = name ++ '?' :: t " <exists>" := by simp [t]
  unfold findAll
  rw [e, findAllAt_append_sep kwE name _ '?' 0 (by decide) (by decide), findAllAt_none kwE name 0 '<' (by decide) h]
  rw [List.nil_append, findAllAt_length kwE _ _ 0]
  decide

theorem nohit_of_nolt (l : Txt) (h : '<' ∉ l) : findAll kwE l = [] := findAllAt_none kwE l 0 '<' (by decide) h

theorem segStarts_snoc_dropLast (init : List Txt) (x : Txt) (o : Int) :
    (segStarts (init ++ [x]) o).dropLast = segStarts init o := by
  induction init generalizing o with
  | nil => simp [segStarts]
  | cons s rest ih =>
    simp only [List.cons_append, segStarts]
    have hne : segStarts (rest ++ [x]) (o + ↑s.length + 1) ≠ [] := by
      cases rest <;> simp [segStarts]
    rw [List.dropLast_cons_of_ne_nil hne, ih]

/-- the section texts, the last one with the newline that ends the file -/
def segsOf (secs : List WSec) : List Txt :=
  match secs.reverse with
  | [] => []
  | w :: ws => (ws.reverse.map secText) ++ [secText w ++ ['\n']]

theorem segsOf_snoc (init : List WSec) (w : WSec) : segsOf (init ++ [w]) = init.map secText ++ [secText w ++ ['\n']] := by
  simp [segsOf]

theorem join_snoc_nl (segs : List Txt) (x : Txt) : join ['\n'] (segs ++ [x ++ ['\n']]) = join ['\n'] (segs ++ [x]) ++ ['\n'] := by
  induction segs with
  | nil => simp [join]
  | cons s rest ih =>
    cases rest with
    | nil => simp [join]
    | cons s2 r2 =>
      simp only [List.cons_append] at ih ⊢
      rw [join_cons_cons, join_cons_cons, ih]; simp

/-! ## a section's text has no blanks at its ends -/

theorem noEdge_of_head_last (tx : Txt) (c0 : Char) (r : Txt) (h1 : tx = c0 :: r) (hc0 : pyIsSpace c0 = false)
    (cl : Char) (h2 : tx.getLast? = some cl) (hcl : pyIsSpace cl = false) : stripList tx = tx := by
  apply stripList_of_noEdge
  constructor
  · intro c rest hc; rw [h1] at hc; cases hc; exact hc0
  · intro c hc; rw [h2] at hc; cases hc; exact hcl

theorem fnumeral_last {n : Txt} (h : FNumeral n) : ∃ cl, n.getLast? = some cl ∧ pyIsSpace cl = false :=
  last_of_stripped n h.1.1.1 (numeral_ne_nil h.1.1)

theorem lastLine_tier (p : PT) (h : TierOk p) : ∃ L cl, (tierLines p).getLast? = some L ∧ L.getLast? = some cl ∧ pyIsSpace cl = false := by
  by_cases hp : p.pts = []
  · by_cases hh : noPointsHeader.contains p.name = true
    · have hh' : p.name ∈ noPointsHeader := by simpa using hh
      obtain ⟨cl, h1, h2⟩ := fnumeral_last h.xmax
      refine ⟨t "xmax = " ++ p.xmax, cl, by simp [tierLines, hh', hp, pointRows], ?_, h2⟩
      rw [List.getLast?_append, h1]; rfl
    · have hh' : p.name ∉ noPointsHeader := by simpa using hh
      refine ⟨t "points: size = " ++ natDec 0, '0', by simp [tierLines, hh', hp, pointRows], by decide, by decide⟩
  · obtain ⟨q, hq, hrow⟩ := pointRows_last [] p.pts 0 hp
    obtain ⟨cl, h1, h2⟩ := fnumeral_last (h.pts q (List.mem_of_getLast? hq)).2
    refine ⟨[] ++ t "    value = " ++ q.2, cl, ?_, ?_, h2⟩
    · simp only [tierLines]; rw [List.getLast?_append, hrow]; rfl
    · rw [List.getLast?_append, h1]; rfl

theorem lastLine_cont (n : Txt) (span : Option (Txt × Txt)) (its : List IT) (h : ContOk n span its) :
    ∃ L cl, (wsecLines ⟨.cont n its, span⟩).getLast? = some L ∧ L.getLast? = some cl ∧ pyIsSpace cl = false := by
  -- the last row is the last row of the last sub tier of the last intermediate tier
  obtain ⟨i, hi⟩ : ∃ i, its.getLast? = some i := by
    cases hl : its.getLast? with
    | none => cases hs : its with
      | nil => exact absurd hs h.ne
      | cons a as => rw [hs] at hl; simp at hl
    | some i => exact ⟨i, rfl⟩
  have him := List.mem_of_getLast? hi
  obtain ⟨p, hp⟩ : ∃ p, i.subs.getLast? = some p := by
    cases hl : i.subs.getLast? with
    | none => cases hs : i.subs with
      | nil => exact absurd hs (h.shape.nonempty i him)
      | cons a as => rw [hs] at hl; simp at hl
    | some p => exact ⟨p, rfl⟩
  have hpm := List.mem_of_getLast? hp
  have hstr := subBody_stripped i.name (mem_canon_of_shape h.shape.toShape i him) p (h.shape.subs i him p hpm)
  have hne : subLines p ≠ [] := subLines_ne_nil p
  obtain ⟨L, hL⟩ : ∃ L, (subLines p).getLast? = some L := by
    cases hl : (subLines p).getLast? with
    | none => cases hs : subLines p with
      | nil => exact absurd hs hne
      | cons a as => rw [hs] at hl; simp at hl
    | some L => exact ⟨L, rfl⟩
  -- L is non-empty and ends in a non-blank because the whole sub tier text does
  have hLne : L ≠ [] := by
    have : L ∈ subLines p := List.mem_of_getLast? hL
    simp only [subLines, List.mem_append, List.mem_cons, List.not_mem_nil, or_false] at this
    rcases this with (rfl | rfl | rfl | rfl) | hl
    · simp [t]
    · simp [t]
    · simp [t]
    · simp [t]
    · intro e; subst e
      have : ∀ (pts : List (Txt × Txt)) (k : Nat), ([] : Txt) ∉ pointRows (t "    ") k pts := by
        intro pts
        induction pts with
        | nil => intro k; simp [pointRows]
        | cons q rest ih =>
          intro k; obtain ⟨a, b⟩ := q
          have := ih (k + 1)
          simp only [pointRows, List.mem_cons, not_or]
          exact ⟨by simp [t], by simp [t], by simp [t], this⟩
      exact this _ _ hl
  have hsb : (subBody p).getLast? = L.getLast? := join_getLast? _ _ L hL hLne
  have hsbne : subBody p ≠ [] := by
    intro e; rw [e] at hsb; cases L with
    | nil => exact hLne rfl
    | cons a as =>
      have : (a :: as).getLast? ≠ none := by simp
      exact this hsb.symm
  obtain ⟨cl, hcl, hsp⟩ := last_of_stripped (subBody p) hstr hsbne
  refine ⟨L, cl, ?_, by rw [← hsb]; exact hcl, hsp⟩
  -- last row of the section = last row of bodyLines = L
  have hb : (bodyLines its).getLast? = some L := by
    obtain ⟨its0, rfl⟩ : ∃ its0, its = its0 ++ [i] := ⟨its.dropLast, (dropLast_append_getLast? its i hi).symm⟩
    obtain ⟨ps0, hps0⟩ : ∃ ps0, i.subs = ps0 ++ [p] := ⟨i.subs.dropLast, (dropLast_append_getLast? i.subs p hp).symm⟩
    simp only [bodyLines, List.map_append, List.map_cons, List.map_nil, List.flatten_append, List.flatten_cons,
      List.flatten_nil, List.append_nil, itLines, hps0]
    rw [List.getLast?_append, List.getLast?_cons]
    simp only [List.getLast?_append, hL]
    rfl
  simp only [wsecLines]
  rw [List.getLast?_append, hb]; rfl

theorem secText_stripped (w : WSec) (h : WSecOk w) : stripList (secText w) = secText w := by
  obtain ⟨xa, xb, rest, hlines, _, _, _, _, _, _, hstrip⟩ := wsecLines_shape w h
  -- the first character
  have hhead : ∃ c0 r, secText w = c0 :: r ∧ pyIsSpace c0 = false := by
    unfold secText; rw [hlines, join_cons_cons]
    cases hn : w.sec.name with
    | nil => exact ⟨'?', _, by simp [t]; rfl, by decide⟩
    | cons c r =>
      exact ⟨c, _, by simp; rfl, head_of_stripped w.sec.name hstrip c r hn⟩
  obtain ⟨c0, r, h1, hc0⟩ := hhead
  -- the last character
  have hlast : ∃ L cl, (wsecLines w).getLast? = some L ∧ L.getLast? = some cl ∧ pyIsSpace cl = false := by
    obtain ⟨sec, span⟩ := w
    cases sec with
    | tier p => exact lastLine_tier p h
    | cont n its => exact lastLine_cont n span its h
  obtain ⟨L, cl, hL, hcl, hsp⟩ := hlast
  have hLne : L ≠ [] := by intro e; subst e; simp at hcl
  have h2 : (secText w).getLast? = some cl := by rw [secText, join_getLast? _ _ L hL hLne, hcl]
  exact noEdge_of_head_last _ c0 r h1 hc0 cl h2 hsp

/-! ## the whole file -/

def preamble : Txt := t "File type = \"ooTextFile\"\nObject class = \"KlattGrid\"\n\n"

theorem toss_header (r : Txt) : pyFind ['\n', '\n'] (preamble ++ r) 0 = some 51 ∧ (preamble ++ r).drop (51 + 2) = r := by
  constructor
  · simp [preamble, t, pyFind, findAt, List.isPrefixOf]
  · simp [preamble, t]

/-- the text after the tossed header: the file's `xmin`/`xmax` rows, then the sections -/
def dataOf (xmin xmax : Txt) (secs : List WSec) : Txt :=
  (t "xmin = " ++ xmin ++ '\n' :: (t "xmax = " ++ xmax)) ++ '\n' :: (join ['\n'] (segsOf secs) ++ [])

theorem wsecLines_ne_nil (w : WSec) : wsecLines w ≠ [] := by
  obtain ⟨sec, span⟩ := w
  cases sec <;> simp [wsecLines, tierLines]

theorem file_decomp (xmin xmax : Txt) (init : List WSec) (wl : WSec) :
    join ['\n'] (fileLines xmin xmax (init ++ [wl])) ++ ['\n'] = preamble ++ dataOf xmin xmax (init ++ [wl]) := by
  have hall : ((init ++ [wl]).map wsecLines).flatten ≠ [] := by
    simp only [List.map_append, List.map_cons, List.map_nil, List.flatten_append, List.flatten_cons, List.flatten_nil,
      List.append_nil, ne_eq, List.append_eq_nil_iff, not_and]
    intro _; exact wsecLines_ne_nil wl
  have hjoin : join ['\n'] ((init ++ [wl]).map wsecLines).flatten = join ['\n'] ((init ++ [wl]).map secText) := by
    rw [join_flatten _ _ (by intro l hl; obtain ⟨w, _, rfl⟩ := List.mem_map.1 hl; exact wsecLines_ne_nil w) (by simp), List.map_map]
    rfl
  unfold fileLines dataOf
  rw [segsOf_snoc, join_snoc_nl]
  have e : [t "File type = \"ooTextFile\"", t "Object class = \"KlattGrid\"", [], t "xmin = " ++ xmin, t "xmax = " ++ xmax] ++
      ((init ++ [wl]).map wsecLines).flatten
      = [t "File type = \"ooTextFile\"", t "Object class = \"KlattGrid\"", [], t "xmin = " ++ xmin, t "xmax = " ++ xmax] ++
      ((init ++ [wl]).map wsecLines).flatten := rfl
  rw [join_append _ _ _ (by simp) hall, hjoin]
  simp only [join_cons_cons, join, List.map_append, List.map_cons, List.map_nil]
  simp [preamble, t]

theorem find_occurrence (p a b : Txt) (k : Nat) : ∃ i, findAt p (a ++ (p ++ b)) k = some i ∧ i ≤ k + a.length := by
  induction a generalizing k with
  | nil =>
    refine ⟨k, ?_, by simp⟩
    have hp : p.isPrefixOf (p ++ b) = true := by
      induction p with
      | nil => simp [List.isPrefixOf]
      | cons x xs ih => simp [List.isPrefixOf, ih]
    cases hpb : p ++ b with
    | nil =>
      have : p = [] := by cases p with | nil => rfl | cons _ _ => simp at hpb
      subst this; simp [findAt]
    | cons c cs =>
      rw [hpb] at hp
      simp [findAt, hp]
  | cons x xs ih =>
    simp only [List.cons_append, findAt]
    split
    · exact ⟨k, rfl, by simp⟩
    · obtain ⟨i, hi, hle⟩ := ih (k + 1)
      exact ⟨i, hi, by simp only [List.length_cons]; omega⟩

theorem findAt_single_isSome (c : Char) (s : Txt) (i : Nat) (h : c ∈ s) : (findAt [c] s i).isSome = true := by
  induction s generalizing i with
  | nil => cases h
  | cons x xs ih =>
    simp only [findAt, List.isPrefixOf]
    by_cases hx : c = x
    · simp [hx]
    · have : c ∈ xs := by rcases List.mem_cons.1 h with e | e; exact absurd e hx; exact e
      simp [hx, ih _ this]

theorem join_mem_decomp (sep : Txt) (ls : List Txt) (l : Txt) (h : l ∈ ls) : ∃ P Q, join sep ls = P ++ (l ++ Q) := by
  induction ls with
  | nil => cases h
  | cons x rest ih =>
    cases rest with
    | nil => simp at h; subst h; exact ⟨[], [], by simp [join]⟩
    | cons y r =>
      rw [join_cons_cons]
      rcases List.mem_cons.1 h with e | e
      · subst e; exact ⟨[], sep ++ join sep (y :: r), by simp⟩
      · obtain ⟨P, Q, hPQ⟩ := ih e
        exact ⟨x ++ sep ++ P, Q, by rw [hPQ]; simp⟩

theorem dataOf_lines (xmin xmax : Txt) (init : List WSec) (wl : WSec) :
    dataOf xmin xmax (init ++ [wl])
      = join ['\n'] ([t "xmin = " ++ xmin, t "xmax = " ++ xmax] ++ (((init ++ [wl]).map wsecLines).flatten ++ [[]])) := by
  have hall : ((init ++ [wl]).map wsecLines).flatten ≠ [] := by
    simp only [List.map_append, List.map_cons, List.map_nil, List.flatten_append, List.flatten_cons, List.flatten_nil,
      List.append_nil, ne_eq, List.append_eq_nil_iff, not_and]
    intro _; exact wsecLines_ne_nil wl
  have hjoin : join ['\n'] ((init ++ [wl]).map wsecLines).flatten = join ['\n'] (init.map secText ++ [secText wl]) := by
    rw [join_flatten _ _ (by intro l hl; obtain ⟨w, _, rfl⟩ := List.mem_map.1 hl; exact wsecLines_ne_nil w) (by simp), List.map_map]
    simp only [List.map_append, List.map_cons, List.map_nil, Function.comp_def]
    rfl
  have hR : join ['\n'] ([t "xmin = " ++ xmin, t "xmax = " ++ xmax] ++ (((init ++ [wl]).map wsecLines).flatten ++ [[]]))
      = (t "xmin = " ++ xmin ++ '\n' :: (t "xmax = " ++ xmax)) ++ '\n' :: (join ['\n'] (init.map secText ++ [secText wl]) ++ ['\n']) := by
    rw [join_append _ _ _ (by simp) (by simp), Short.join_snoc_nil _ _ hall, hjoin]
    simp [join]
  rw [hR]
  unfold dataOf
  rw [segsOf_snoc, join_snoc_nl]
  simp

theorem idx_eq (xmin xmax : Txt) (init : List WSec) (wl : WSec) (h : ReadOk xmin xmax (init ++ [wl])) :
    findIndices (dataOf xmin xmax (init ++ [wl])) kwE ++ [((dataOf xmin xmax (init ++ [wl])).length : Int)]
      = segStarts (segsOf (init ++ [wl])) ((t "xmin = " ++ xmin ++ '\n' :: (t "xmax = " ++ xmax)).length : Int) := by
  have a1 : '\n' ∉ t "xmin = " := by decide
  have a2 : '\n' ∉ t "xmax = " := by decide
  have a3 : '<' ∉ t "xmin = " := by decide
  have a4 : '<' ∉ t "xmax = " := by decide
  have hnl1 : '\n' ∉ t "xmin = " ++ xmin := by simp [a1, h.xmin.1]
  have hnl2 : '\n' ∉ t "xmax = " ++ xmax := by simp [a2, h.xmax.1]
  have hlt1 : '<' ∉ t "xmin = " ++ xmin := by simp [a3, h.xmin.2]
  have hlt2 : '<' ∉ t "xmax = " ++ xmax := by simp [a4, h.xmax.2]
  -- all rows are newline-free
  have hrows : ∀ l ∈ [t "xmin = " ++ xmin, t "xmax = " ++ xmax] ++ (((init ++ [wl]).map wsecLines).flatten ++ [[]]), '\n' ∉ l := by
    intro l hl
    simp only [List.mem_append, List.mem_cons, List.not_mem_nil, or_false, List.mem_flatten, List.mem_map] at hl
    rcases hl with (rfl | rfl) | ⟨ls, ⟨w, hw, rfl⟩, hl⟩ | rfl
    · exact hnl1
    · exact hnl2
    · obtain ⟨xa, xb, rest, hlines, ha, hb, hrest, hn, _, _, _⟩ := wsecLines_shape w (h.ok w (by simpa using hw))
      rw [hlines] at hl
      simp only [List.mem_cons] at hl
      rcases hl with rfl | rfl | rfl | hl
      · have a : '\n' ∉ t "? <exists>" := by decide
        simp [hn, a]
      · have a : '\n' ∉ t "xmin = " := by decide
        simp [a, ha.1.1.2.2]
      · have a : '\n' ∉ t "xmax = " := by decide
        simp [a, hb.1.1.2.2]
      · exact (hrest l hl).1
    · simp
  rw [dataOf_lines, findIndices_lines kwE (by decide) (by decide) _ hrows, lineHits_append, lineHits_append]
  rw [lineHits_none kwE [t "xmin = " ++ xmin, t "xmax = " ++ xmax] _ (by
    intro l hl; simp only [List.mem_cons, List.not_mem_nil, or_false] at hl
    rcases hl with rfl | rfl
    · exact nohit_of_nolt _ hlt1
    · exact nohit_of_nolt _ hlt2)]
  rw [lineHits_none kwE [[]] _ (by intro l hl; simp at hl; subst hl; decide)]
  rw [lineHits_segments kwE ((init ++ [wl]).map wsecLines) (by
    intro s hs
    obtain ⟨w, hw, rfl⟩ := List.mem_map.1 hs
    obtain ⟨xa, xb, rest, hlines, ha, hb, hrest, _, _, hlt, _⟩ := wsecLines_shape w (h.ok w hw)
    refine ⟨_, _, hlines, hdr_hits _ hlt, ?_⟩
    intro l hl
    simp only [List.mem_cons] at hl
    rcases hl with rfl | rfl | hl
    · have a : '<' ∉ t "xmin = " := by decide
      exact nohit_of_nolt _ (by simp [a, ha.2.2])
    · have a : '<' ∉ t "xmax = " := by decide
      exact nohit_of_nolt _ (by simp [a, hb.2.2])
    · exact nohit_of_nolt _ (hrest l hl).2)]
  simp only [List.nil_append, List.append_nil, List.map_map]
  have hmap : ((init ++ [wl]).map (join ['\n'] ∘ wsecLines)) = init.map secText ++ [secText wl] := by
    simp [secText, Function.comp_def]
  have ho : (-1 : Int) + span [t "xmin = " ++ xmin, t "xmax = " ++ xmax]
      = ((t "xmin = " ++ xmin ++ '\n' :: (t "xmax = " ++ xmax)).length : Int) := by
    simp only [span, List.length_append, List.length_cons]; omega
  rw [hmap, ho, segStarts_snoc_dropLast, segsOf_snoc, ← segStarts_snoc_dropLast (init.map secText) (secText wl ++ ['\n'])]
  apply dropLast_append_getLast?
  rw [segStarts_last, ← join_length _ (by simp)]
  congr 1
  rw [← segsOf_snoc, ← dataOf_lines]
  simp only [dataOf, List.length_append, List.length_cons, List.append_nil]
  omega

/-! ## the loop over the sections -/

theorem segsOf_length (secs : List WSec) : (segsOf secs).length = secs.length := by
  cases h : secs.reverse with
  | nil => have : secs = [] := by simpa using h
           subst this; rfl
  | cons w ws =>
    have : secs = ws.reverse ++ [w] := by
      have := congrArg List.reverse h; simpa using this
    rw [this, segsOf_snoc]; simp

theorem segsOf_getD (secs : List WSec) (done rest : List WSec) (w : WSec) (h : secs = done ++ w :: rest) :
    ∃ w2, AllSpace w2 ∧ (segsOf secs).getD done.length [] = secText w ++ w2 := by
  cases hr : rest.reverse with
  | nil =>
    have : rest = [] := by simpa using hr
    subst this
    rw [h, segsOf_snoc]
    refine ⟨['\n'], by intro c hc; simp at hc; subst hc; decide, ?_⟩
    simp [List.getD_eq_getElem?_getD]
  | cons wl ws =>
    have hrest : rest = ws.reverse ++ [wl] := by
      have := congrArg List.reverse hr; simpa using this
    have : secs = (done ++ w :: ws.reverse) ++ [wl] := by rw [h, hrest]; simp
    rw [this, segsOf_snoc]
    refine ⟨[], ?_, ?_⟩
    · intro c hc; cases hc
    · simp [List.getD_eq_getElem?_getD, List.getElem?_append_left]

/-- the slice `_getSectionHeader` cuts for the section number `done.length` is that section's text -/
theorem slice_at (xmin xmax : Txt) (secs done rest : List WSec) (w : WSec) (hsecs : secs = done ++ w :: rest)
    (hw : WSecOk w) :
    let idx := segStarts (segsOf secs) ((t "xmin = " ++ xmin ++ '\n' :: (t "xmax = " ++ xmax)).length : Int)
    ∃ a b, idx[done.length]? = some a ∧ idx[done.length + 1]? = some b ∧
      stripList (pySlice (dataOf xmin xmax secs) a b) = secText w := by
  intro idx
  have hj : done.length < (segsOf secs).length := by rw [segsOf_length, hsecs]; simp
  have hlen : idx.length = (segsOf secs).length + 1 := segStarts_length _ _
  refine ⟨idx.getD done.length 0, idx.getD (done.length + 1) 0, getElem?_getD idx _ 0 (by omega), getElem?_getD idx _ 0 (by omega), ?_⟩
  have := window_slices (segsOf secs) (t "xmin = " ++ xmin ++ '\n' :: (t "xmax = " ++ xmax)) [] done.length hj
  unfold dataOf
  rw [this]
  obtain ⟨w2, hw2, hget⟩ := segsOf_getD secs done rest w hsecs
  rw [hget]
  have := stripList_pad ['\n'] (secText w) w2 (by intro c hc; simp at hc; subst hc; decide) hw2 (secText_stripped w hw)
  simpa using this

theorem spanless_false (its : List IT) (hne : its ≠ []) (hsub : ∀ i ∈ its, i.subs ≠ []) :
    its.all (fun i => i.subs.isEmpty) = false := by
  cases its with
  | nil => exact absurd rfl hne
  | cons i is =>
    have := hsub i (by simp)
    cases hs : i.subs with
    | nil => exact absurd hs this
    | cons p ps => simp [hs]

theorem containerSection_eq (n a b : Txt) (its : List IT) (hne : its ≠ []) :
    join ['\n'] ((n ++ t "? <exists>") :: (t "xmin = " ++ a) :: (t "xmax = " ++ b) :: bodyLines its)
      = containerSection (n ++ t "? <exists>") (t "xmin = " ++ a) (t "xmax = " ++ b) its := by
  obtain ⟨i, is, rfl⟩ : ∃ i is, its = i :: is := by
    cases its with
    | nil => exact absurd rfl hne
    | cons i is => exact ⟨i, is, rfl⟩
  obtain ⟨l, ls, hl⟩ : ∃ l ls, bodyLines (i :: is) = l :: ls := by
    cases h : bodyLines (i :: is) with
    | nil => exact absurd h (bodyLines_ne_nil i is)
    | cons l ls => exact ⟨l, ls, rfl⟩
  unfold containerSection
  rw [hl, join_cons_cons, join_cons_cons, join_cons_cons]
  simp

theorem sectionLoop_secs (xmin xmax : Txt) (secs : List WSec) (hok : ∀ w ∈ secs, WSecOk w)
    (hnd : (secs.map (·.sec.name)).Nodup) (rest : List WSec) :
    ∀ (done : List WSec) (hs : Bool), secs = done ++ rest →
    sectionLoop (dataOf xmin xmax secs)
        (segStarts (segsOf secs) ((t "xmin = " ++ xmin ++ '\n' :: (t "xmax = " ++ xmax)).length : Int))
        ((List.range rest.length).map (· + done.length)) hs (done.map (·.sec))
      = .ok (secs.map (·.sec)) := by
  induction rest with
  | nil => intro done hs h; simp [sectionLoop, h]; rfl
  | cons w rest' ih =>
    intro done hs hsecs
    have hwm : w ∈ secs := by rw [hsecs]; simp
    have hw := hok w hwm
    obtain ⟨a, b, ha, hb, hsd⟩ := slice_at xmin xmax secs done rest' w hsecs hw
    rw [List.length_cons, List.range_succ_eq_map, List.map_cons, List.map_map]
    simp only [Nat.zero_add, sectionLoop]
    -- the name is new
    have hnew : ((done.map (·.sec)).map Sec.name).contains w.sec.name = false := by
      cases hx : ((done.map (·.sec)).map Sec.name).contains w.sec.name with
      | false => rfl
      | true =>
        exfalso
        have hmem : w.sec.name ∈ done.map (·.sec.name) := by
          have : w.sec.name ∈ (done.map (·.sec)).map Sec.name := by simpa using hx
          simpa [List.map_map, Function.comp_def] using this
        rw [hsecs] at hnd
        simp only [List.map_append, List.map_cons] at hnd
        exact (List.nodup_append.1 hnd).2.2 _ hmem _ (by simp) rfl
    have hnext := fun hs' => ih (done ++ [w]) hs' (by rw [hsecs]; simp)
    have e : (fun x => x + done.length) ∘ Nat.succ = fun x => x + (done ++ [w]).length := by
      funext x; simp; omega
    obtain ⟨sec, span⟩ := w
    cases sec with
    | tier p =>
      have hp : TierOk p := hw
      have hsd' : stripList (pySlice (dataOf xmin xmax secs) a b)
          = join ['\n'] ((p.name ++ t "? <exists>") :: (t "xmin = " ++ p.xmin) :: (t "xmax = " ++ p.xmax) :: tierRest p) := by
        rw [hsd, secText]; simp only [wsecLines]; rw [tierLines_eq]
      have hrest : ∀ l ∈ tierRest p, '\n' ∉ l := by
        obtain ⟨xa, xb, rest, hlines, _, _, hr, _⟩ := wsecLines_shape ⟨.tier p, span⟩ hw
        simp only [wsecLines] at hlines
        rw [tierLines_eq] at hlines
        simp only [List.cons.injEq] at hlines
        intro l hl
        exact (hr l (by rw [← hlines.2.2.2]; exact hl)).1
      rw [getSectionHeader_section _ _ _ a b ha hb p.name p.xmin p.xmax (tierRest p) hp.name_nl hp.name_q hp.name_strip
        hp.xmin hp.xmax hrest hsd']
      simp only [bind, Except.bind, hp.notCont, Bool.false_eq_true, if_false]
      rw [buildEntries_tier p (fun q hq => ⟨(hp.pts q hq).1.1.1, (hp.pts q hq).2.1.1⟩) hp.headerOnly]
      simp only [pure, Except.pure]
      have hnew' : ((done.map (·.sec)).map Sec.name).contains p.name = false := hnew
      simp only [hnew', Bool.false_eq_true, if_false, Bool.false_and]
      have hp' : (⟨p.name, p.xmin, p.xmax, p.pts⟩ : PT) = p := rfl
      rw [hp', e]
      have := hnext (hs || !false)
      simpa using this
    | cont n its =>
      have hc : ContOk n span its := hw
      obtain ⟨xa, xb, hsp, hxa, hxb⟩ := hc.span
      obtain ⟨f1, f2, f3, f4⟩ := containerNames_facts n hc.name
      have hsd' : stripList (pySlice (dataOf xmin xmax secs) a b)
          = join ['\n'] ((n ++ t "? <exists>") :: (t "xmin = " ++ xa) :: (t "xmax = " ++ xb) :: bodyLines its) := by
        rw [hsd, secText]; simp [wsecLines, hsp]
      rw [getSectionHeader_section _ _ _ a b ha hb n xa xb (bodyLines its) f1 f2 f4 hxa hxb
        (bodyLines_nonl its hc.shape.toShape) hsd']
      have hcn : containerNames.contains n = true := by simpa using hc.name
      simp only [bind, Except.bind, hcn, if_true]
      have a1 : '\n' ∉ t "? <exists>" := by decide
      have a2 : '\n' ∉ t "xmin = " := by decide
      have a3 : '\n' ∉ t "xmax = " := by decide
      rw [containerSection_eq n xa xb its hc.ne,
        container_roundtrip _ _ _ (by simp [f1, a1]) (by simp [a2, hxa.1.1.2.2]) (by simp [a3, hxb.1.1.2.2]) its hc.shape hc.order]
      simp only [pure, Except.pure]
      have hnew' : ((done.map (·.sec)).map Sec.name).contains n = false := hnew
      simp only [hnew', Bool.false_eq_true, if_false, spanless_false its hc.ne hc.shape.nonempty, Bool.false_and]
      rw [e]
      have := hnext (hs || !false)
      simpa using this

/-- a row containing the word "points" exists -/
theorem points_row (xmin xmax : Txt) (secs : List WSec) (h : ReadOk xmin xmax secs) :
    ∃ w ∈ secs, ∃ l ∈ wsecLines w, ∃ a b, l = a ++ t "points" ++ b := by
  obtain ⟨w, hw, hk⟩ := h.points
  refine ⟨w, hw, ?_⟩
  have hok := h.ok w hw
  obtain ⟨sec, span⟩ := w
  cases sec with
  | tier p =>
    have hk' : noPointsHeader.contains p.name = false := hk
    refine ⟨t "points: size = " ++ natDec p.pts.length, ?_, [], t ": size = " ++ natDec p.pts.length, by simp [t]⟩
    have hk'' : p.name ∉ noPointsHeader := by simpa using hk'
    simp [wsecLines, tierLines, hk'']
  | cont n its =>
    have hc : ContOk n span its := hok
    obtain ⟨i, is, rfl⟩ : ∃ i is, its = i :: is := by
      cases its with
      | nil => exact absurd rfl hc.ne
      | cons i is => exact ⟨i, is, rfl⟩
    obtain ⟨p, ps, hps⟩ : ∃ p ps, i.subs = p :: ps := by
      cases hs : i.subs with
      | nil => exact absurd hs (hc.shape.nonempty i (by simp))
      | cons p ps => exact ⟨p, ps, rfl⟩
    refine ⟨t "    points: size = " ++ natDec p.pts.length, ?_, t "    ", t ": size = " ++ natDec p.pts.length, by simp [t]⟩
    simp [wsecLines, bodyLines, itLines, hps, subLines]

end Read

open Read in
/-- **(e), reader on a whole file** — `_openNormalKlattgrid` applied to a file in the writer's layout
(`fileLines`: header, span rows, then for every section its rows) returns exactly the sections, in order,
with their names, spans and point numerals, and for every container its intermediate and sub tiers.
`ReadOk` follows from the plain-terms hypothesis `KlattOk` of `Props/C19Whole.lean` (`KlattOk.readOk`): its
numeral conditions (`FNumeral`) say no more than "`float()` accepts it, `strip()` leaves it alone"
(`fnumeral_iff`); what it asks of names and structure is audited there, field by field. -/
theorem openNormal_layout (xmin xmax : Txt) (secs : List WSec) (h : Read.ReadOk xmin xmax secs) :
    openNormal (join ['\n'] (fileLines xmin xmax secs) ++ ['\n']) = .ok (secs.map (·.sec)) := by
  obtain ⟨wp, hwp, lp, hlp, ap, bp, hpts⟩ := Read.points_row xmin xmax secs h
  -- there is a last section
  obtain ⟨init, wl, hsecs⟩ : ∃ init wl, secs = init ++ [wl] := by
    have hne : secs ≠ [] := by intro e; subst e; cases hwp
    exact ⟨secs.dropLast, secs.getLast hne, (List.dropLast_concat_getLast hne).symm⟩
  subst hsecs
  rw [file_decomp]
  unfold openNormal
  obtain ⟨ht1, ht2⟩ := toss_header (dataOf xmin xmax (init ++ [wl]))
  simp only [ht1, bind, Except.bind, pure, Except.pure, ht2]
  -- "points" occurs, and a newline follows
  have hdata := dataOf_lines xmin xmax init wl
  have hmem : lp ∈ [t "xmin = " ++ xmin, t "xmax = " ++ xmax] ++ (((init ++ [wl]).map wsecLines).flatten ++ [[]]) := by
    apply List.mem_append_right
    apply List.mem_append_left
    exact List.mem_flatten.2 ⟨wsecLines wp, List.mem_map.2 ⟨wp, hwp, rfl⟩, hlp⟩
  obtain ⟨P, Q, hPQ⟩ := join_mem_decomp ['\n'] _ lp hmem
  have hd2 : dataOf xmin xmax (init ++ [wl]) = (P ++ ap) ++ (t "points" ++ (bp ++ Q)) := by
    rw [hdata, hPQ, hpts]; simp
  obtain ⟨i, hi, hile⟩ := find_occurrence (t "points") (P ++ ap) (bp ++ Q) 0
  have hfind : pyFind "points".toList (dataOf xmin xmax (init ++ [wl])) 0 = some i := by
    unfold pyFind; simp only [Nat.not_lt_zero, if_false, List.drop_zero]; rw [hd2]; exact hi
  obtain ⟨u, hu⟩ : ∃ u, dataOf xmin xmax (init ++ [wl]) = u ++ ['\n'] := by
    refine ⟨(t "xmin = " ++ xmin ++ '\n' :: (t "xmax = " ++ xmax)) ++ '\n' :: join ['\n'] (init.map secText ++ [secText wl]), ?_⟩
    unfold dataOf; rw [segsOf_snoc, join_snoc_nl]; simp
  have hiu : i ≤ u.length := by
    have h1 := congrArg List.length hd2
    have h2 := congrArg List.length hu
    simp only [List.length_append, List.length_cons, List.length_nil, t] at h1 h2 hile
    have : ("points".toList).length = 6 := by decide
    omega
  have hnl : (pyFind ['\n'] (dataOf xmin xmax (init ++ [wl])) i).isSome = true := by
    unfold pyFind
    have : ¬ (dataOf xmin xmax (init ++ [wl])).length < i := by rw [hu]; simp; omega
    simp only [this, if_false]
    apply findAt_single_isSome
    rw [hu, List.drop_append_of_le_length hiu]; simp
  obtain ⟨k, hk⟩ := Option.isSome_iff_exists.1 hnl
  simp only [hfind, hk]
  -- the sections
  rw [show "<exists>".toList = kwE from rfl, idx_eq xmin xmax init wl h]
  have hlen : (segStarts (segsOf (init ++ [wl])) ((t "xmin = " ++ xmin ++ '\n' :: (t "xmax = " ++ xmax)).length : Int)).length - 1
      = (init ++ [wl]).length := by
    rw [segStarts_length, segsOf_length]; simp
  rw [hlen]
  have := sectionLoop_secs xmin xmax (init ++ [wl]) h.ok h.names (init ++ [wl]) [] false rfl
  simpa using this

/-! ## cleaning a readable tree keeps it readable -/

namespace Read

set_option exponentiation.threshold 2000 in
theorem fnumeral_zero : FNumeral (t "0") :=
  ⟨⟨⟨by decide, by decide, by decide⟩, by decide, by decide⟩, by decide, by decide⟩

set_option exponentiation.threshold 2000 in
theorem fnumeral_negzero : FNumeral (t "-0") :=
  ⟨⟨⟨by decide, by decide, by decide⟩, by decide, by decide⟩, by decide, by decide⟩

theorem cz_cases (n : Txt) : cz n = n ∨ cz n = t "0" ∨ cz n = t "-0" := by
  unfold cz; split
  · exact Or.inl rfl
  · split
    · rcases Clean.zeroForm_cases n with e | e
      · exact Or.inr (Or.inl e)
      · exact Or.inr (Or.inr e)
    · exact Or.inl rfl

theorem fnumeral_cz {n : Txt} (h : FNumeral n) : FNumeral (cz n) := by
  rcases cz_cases n with e | e | e <;> rw [e]
  · exact h
  · exact fnumeral_zero
  · exact fnumeral_negzero

theorem cleanPT_shape (nm : Txt) (p : PT) (h : PTShape nm p) (hf : ∀ q ∈ p.pts, FNumeral q.1 ∧ FNumeral q.2) :
    PTShape nm (cleanPT p) := by
  refine ⟨h.name, h.xmin, h.xmax, ?_⟩
  intro q hq
  simp only [cleanPT, List.mem_map] at hq
  obtain ⟨q0, hq0, rfl⟩ := hq
  exact ⟨(fnumeral_cz (hf q0 hq0).1).1, (fnumeral_cz (hf q0 hq0).2).1⟩

theorem tierOk_clean (p : PT) (h : TierOk p) : TierOk (cleanPT p) := by
  refine ⟨h.name_nl, h.name_q, h.name_lt, h.name_strip, h.notCont, h.xmin, h.xmax, ?_, ?_⟩
  · intro q hq
    simp only [cleanPT, List.mem_map] at hq
    obtain ⟨q0, hq0, rfl⟩ := hq
    exact ⟨fnumeral_cz (h.pts q0 hq0).1, fnumeral_cz (h.pts q0 hq0).2⟩
  · intro hh; simp [cleanPT, h.headerOnly hh]

/-- what `ContOk` must say about the point numerals for the cleaned container to be readable: they are `FNumeral`s -/
def ContPts (its : List IT) : Prop := ∀ i ∈ its, ∀ p ∈ i.subs, ∀ q ∈ p.pts, FNumeral q.1 ∧ FNumeral q.2

theorem contOk_clean (n : Txt) (span : Option (Txt × Txt)) (its : List IT) (h : ContOk n span its) (hp : ContPts its) :
    ContOk n span (its.map cleanIT) := by
  have hnames : (its.map cleanIT).map (·.name) = its.map (·.name) := by
    simp [List.map_map, Function.comp_def, cleanIT]
  refine ⟨h.name, h.span, ⟨⟨?_, ?_, ?_⟩, ?_, ?_, ?_⟩, by rw [hnames]; exact h.order, by simpa using h.ne, ?_⟩
  · rw [hnames]; exact h.shape.nodup
  · intro i hi
    obtain ⟨i0, hi0, rfl⟩ := List.mem_map.1 hi
    exact h.shape.canonical i0 hi0
  · intro i hi p hpm
    obtain ⟨i0, hi0, rfl⟩ := List.mem_map.1 hi
    simp only [cleanIT, List.mem_map] at hpm
    obtain ⟨p0, hp0, rfl⟩ := hpm
    exact cleanPT_shape i0.name p0 (h.shape.subs i0 hi0 p0 hp0) (hp i0 hi0 p0 hp0)
  · intro i hi p hpm
    obtain ⟨i0, hi0, rfl⟩ := List.mem_map.1 hi
    simp only [cleanIT, List.mem_map] at hpm
    obtain ⟨p0, hp0, rfl⟩ := hpm
    exact h.shape.spans i0 hi0 p0 hp0
  · intro i hi
    obtain ⟨i0, hi0, rfl⟩ := List.mem_map.1 hi
    simpa [cleanIT] using h.shape.nonempty i0 hi0
  · intro i hi
    obtain ⟨i0, hi0, rfl⟩ := List.mem_map.1 hi
    have : (cleanIT i0).subs.map (·.name) = i0.subs.map (·.name) := by
      simp [cleanIT, cleanPT, List.map_map, Function.comp_def]
    rw [this]; exact h.shape.distinct i0 hi0
  · intro i hi p hpm
    obtain ⟨i0, hi0, rfl⟩ := List.mem_map.1 hi
    simp only [cleanIT, List.mem_map] at hpm
    obtain ⟨p0, hp0, rfl⟩ := hpm
    obtain ⟨l1, l2, _⟩ := h.lt i0 hi0 p0 hp0
    refine ⟨l1, l2, ?_⟩
    intro q hq
    simp only [cleanPT, List.mem_map] at hq
    obtain ⟨q0, hq0, rfl⟩ := hq
    exact ⟨(fnumeral_cz (hp i0 hi0 p0 hp0 q0 hq0).1).2.2, (fnumeral_cz (hp i0 hi0 p0 hp0 q0 hq0).2).2.2⟩

/-- the point numerals of every container are `FNumeral`s (for top-level tiers this is part of `TierOk`) -/
def PtsOk (secs : List WSec) : Prop :=
  ∀ w ∈ secs, match w.sec with | .tier _ => True | .cont _ its => ContPts its

theorem readOk_clean (xmin xmax : Txt) (secs : List WSec) (h : ReadOk xmin xmax secs) (hp : PtsOk secs) :
    ReadOk xmin xmax (secs.map cleanWSec) := by
  have hnames : (secs.map cleanWSec).map (·.sec.name) = secs.map (·.sec.name) := by
    rw [List.map_map]
    apply List.map_congr_left
    intro w _
    obtain ⟨sec, span⟩ := w
    cases sec <;> rfl
  refine ⟨h.xmin, h.xmax, ?_, by rw [hnames]; exact h.names, ?_⟩
  · intro w hw
    obtain ⟨w0, hw0, rfl⟩ := List.mem_map.1 hw
    have hok := h.ok w0 hw0
    have hpw := hp w0 hw0
    obtain ⟨sec, span⟩ := w0
    cases sec with
    | tier p => exact tierOk_clean p hok
    | cont n its => exact contOk_clean n span its hok hpw
  · obtain ⟨w, hw, hk⟩ := h.points
    refine ⟨cleanWSec w, List.mem_map.2 ⟨w, hw, rfl⟩, ?_⟩
    obtain ⟨sec, span⟩ := w
    cases sec with
    | tier p => exact hk
    | cont n its => trivial

end Read

end C19
