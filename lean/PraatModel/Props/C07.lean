import PraatModel.Lemmas.Shrink

/-!
# C07 — eraseRegion blanks exactly the region and shrinks time by exactly its length

Exact arithmetic (`Int` timestamps of any size, entry lists of any length).  No separation hypothesis: the
entries that `eraseRegion` deletes are members of the tier, and `deleteEntry` (exact match first) removes exactly
the member it is given, however close other entries are (`deleteIvs_of_mem`).
The floating-point clause of the property is carried by layer R at the end of this file plus the bit-exact
correspondence run.  Since fix A28 (both commits) what the region covers is removed / truncated with the region as given,
shrinking or not, and the shrink step — shift, re-join, new end — cuts out only the part of the region inside the span:
`erase_unfold_clip` (the code path for ANY region), `erase_shrink_clip` (a region sticking out of the span acts as its
clipped part), `erase_shrink_outside` (a region that meets the span in at most one time: shrinking does what not shrinking
does), `erase_shrink_any`, `erase_wf_any`; for a region inside the span clipping is the identity (`clip_in`) and the
in-span theorems read as before.
-/
namespace C07

theorem erase_rejects (t : ITier Int) (a b : Int) (m : EraseMode) (sh : Bool) (h : b ≤ a) :
    t.eraseRegion a b m sh = .error .ArgumentError := by
  simp [ITier.eraseRegion, C06.crop_rejects t a b .lax false h, bind, Except.bind]

/-- a point-tier region with `b ≤ a` is refused with ArgumentError — by EVERY tier (no well-formedness needed: the
copy `self.new()` made first cannot fail, both bounds being given) -/
theorem perase_rejects (t : PTier Int) (a b : Int) (sh : Bool) (h : b ≤ a) :
    t.eraseRegion a b sh = .error .ArgumentError := by
  unfold PTier.eraseRegion PTier.new mkPTier
  simp only [Option.getD_none, Option.toList_some, pyMinList_append_single, pyMaxList_append_single]
  simp [bind, Except.bind, PTier.crop, h]

/-! ### the clipping step (fix A28): when shrinking, only the part of the region inside the span is cut out -/

theorem clip_true (lo hi a b : Int) : clipLo true lo a = max a lo ∧ clipHi true hi b = min b hi := by
  simp only [clipLo, clipHi, if_true, pyMax2, pyMin2]
  constructor <;> split <;> omega

/-- clipping is the identity when not shrinking, and for a region inside the span -/
theorem clip_in (sh : Bool) (lo hi a b : Int) (hin : sh = true → lo ≤ a ∧ b ≤ hi) :
    clipLo sh lo a = a ∧ clipHi sh hi b = b := by
  cases sh with
  | false => exact ⟨rfl, rfl⟩
  | true =>
    obtain ⟨h1, h2⟩ := hin rfl
    obtain ⟨e1, e2⟩ := clip_true lo hi a b
    rw [e1, e2]
    constructor <;> omega

/-- the code path in closed form, ANY region `a < b`: the lax match list is the list of entries overlapping the region;
deletion and truncation work with the region as given, exactly as without shrinking; the shrink step works on the clipped
region and is skipped when that is empty -/
theorem erase_unfold_clip (t : ITier Int) (hwf : t.WF) (a b : Int) (hab : a < b) (m : EraseMode) (sh : Bool) :
    t.eraseRegion a b m sh =
      (do let nt1 ← eraseCore t (t.es.filter (ov a b)) a b m
          if sh = true ∧ clipLo sh t.lo a < clipHi sh t.hi b
          then shrinkStep nt1 (clipLo sh t.lo a) (clipHi sh t.hi b) else pure nt1) := by
  obtain ⟨mt, hc, _, _, hmt, _, _⟩ := C06.crop_norebase t hwf a b hab .lax
  unfold ITier.eraseRegion
  rw [hc, new_of_wf t hwf]
  simp only [bind, Except.bind]
  rw [hmt, getIvs_lax_eq_filter a b hab t.es hwf.pos]
  cases eraseCore t (t.es.filter (ov a b)) a b m with
  | error e => rfl
  | ok v =>
    simp only
    by_cases h : sh = true ∧ clipLo sh t.lo a < clipHi sh t.hi b
    · rw [if_pos h]
      obtain ⟨rfl, h2⟩ := h
      have h' : (true && decide (clipLo true t.lo a < clipHi true t.hi b)) = true := by simpa using h2
      simp only [h', if_true]
    · rw [if_neg h]
      have h' : (sh && decide (clipLo sh t.lo a < clipHi sh t.hi b)) = false := by
        cases sh with
        | false => rfl
        | true => simpa using h
      simp only [h', Bool.false_eq_true, if_false]

/-- … and with the region as given when not shrinking or when the region lies inside the span -/
theorem erase_unfold (t : ITier Int) (hwf : t.WF) (a b : Int) (hab : a < b) (m : EraseMode) (sh : Bool)
    (hin : sh = true → t.lo ≤ a ∧ b ≤ t.hi) :
    t.eraseRegion a b m sh =
      (do let nt1 ← eraseCore t (t.es.filter (ov a b)) a b m
          if sh then shrinkStep nt1 a b else pure nt1) := by
  rw [erase_unfold_clip t hwf a b hab m sh]
  obtain ⟨e1, e2⟩ := clip_in sh t.lo t.hi a b hin
  rw [e1, e2]
  cases sh with
  | false => simp
  | true => simp [hab]

/-- 'error' mode: `CollisionError` exactly when some interval overlaps the region -/
theorem erase_error_mode (t : ITier Int) (hwf : t.WF) (a b : Int) (hab : a < b) (sh : Bool) :
    ((∃ iv ∈ t.es, iv.s < b ∧ a < iv.e) → t.eraseRegion a b .error sh = .error .CollisionError) ∧
    ((∀ iv ∈ t.es, ¬ (iv.s < b ∧ a < iv.e)) → t.eraseRegion a b .error false = .ok t) := by
  constructor
  · rintro ⟨iv, hiv, ho⟩
    rw [erase_unfold_clip t hwf a b hab .error sh]
    have hm : iv ∈ t.es.filter (ov a b) := List.mem_filter.2 ⟨hiv, by simp [ov, ho]⟩
    cases hf : t.es.filter (ov a b) with
    | nil => rw [hf] at hm; simp at hm
    | cons y ys =>
      obtain ⟨g, hg⟩ : ∃ g, (y :: ys).getLast? = some g := ⟨_, List.getLast?_eq_some_getLast (by simp)⟩
      simp [eraseCore, hg, bind, Except.bind, throw, throwThe, MonadExceptOf.throw]
  · intro hno
    rw [erase_unfold t hwf a b hab .error false (by simp)]
    have hf : t.es.filter (ov a b) = [] := by
      apply List.filter_eq_nil_iff.2
      intro iv hiv; have := hno iv hiv; simp [ov]; omega
    simp [eraseCore, hf, bind, Except.bind, pure, Except.pure]

/-- **no shrinking** (truncate / categorical): the call succeeds; the result is well-formed, keeps name and span,
and its entries are exactly the pieces of the original entries that lie outside the region -/
theorem erase_noshrink (t : ITier Int) (hwf : t.WF) (a b : Int) (hab : a < b)
    (mode : EraseMode) (hm : mode ≠ .error) :
    ∃ t', t.eraseRegion a b mode false = .ok t' ∧ IsErased a b mode t t' := by
  obtain ⟨t', h1, h2⟩ := eraseCore_spec t hwf a b hab mode hm
  refine ⟨t', ?_, h2⟩
  rw [erase_unfold t hwf a b hab mode false (by simp), h1]
  rfl

/-- the label-at-time function of an erased tier (pieces characterisation, truncate mode) -/
theorem isErased_labelAt (t t' : ITier Int) (hwf : t.WF) (a b : Int) (hab : a < b)
    (h : IsErased a b .truncate t t') (x : Int) :
    labelAt t'.es x = if a ≤ x ∧ x < b then none else labelAt t.es x := by
  apply Option.ext
  intro l
  rw [labelAt_some_iff _ h.wf.pos h.wf.disj.setDisj]
  by_cases hx : a ≤ x ∧ x < b
  · simp only [hx, and_self, if_true]
    constructor
    · rintro ⟨y, hy, h1, h2, _⟩
      obtain ⟨iv, hiv, hyp⟩ := (h.mem y).1 hy
      have := pieces_within a b hab .truncate iv y (hwf.pos iv hiv) hyp
      omega
    · intro h'; cases h'
  · simp only [hx, if_false]
    rw [labelAt_some_iff _ hwf.pos hwf.disj.setDisj]
    constructor
    · rintro ⟨y, hy, h1, h2, h3⟩
      obtain ⟨iv, hiv, hyp⟩ := (h.mem y).1 hy
      have := pieces_within a b hab .truncate iv y (hwf.pos iv hiv) hyp
      exact ⟨iv, hiv, by omega, by omega, by rw [← this.2.2.2.1]; exact h3⟩
    · rintro ⟨iv, hiv, h1, h2, h3⟩
      by_cases ho : ov a b iv = true
      · have ho' : iv.s < b ∧ a < iv.e := by simpa [ov] using ho
        by_cases hxa : x < a
        · refine ⟨⟨iv.s, a, iv.l⟩, (h.mem _).2 ⟨iv, hiv, ?_⟩, h1, hxa, h3⟩
          simp [pieces, ho, show iv.s < a by omega]
        · have hxb : b ≤ x := by omega
          refine ⟨⟨b, iv.e, iv.l⟩, (h.mem _).2 ⟨iv, hiv, ?_⟩, hxb, h2, h3⟩
          simp [pieces, ho, show b < iv.e by omega]
      · have ho' : ov a b iv = false := by simpa using ho
        exact ⟨iv, (h.mem _).2 ⟨iv, hiv, (mem_pieces_of_not_ov ho').2 rfl⟩, h1, h2, h3⟩

/-- **truncate, no shrinking**: nothing is labelled inside `[a, b)`, everything outside is unchanged -/
theorem erase_noshrink_labelAt (t : ITier Int) (hwf : t.WF) (a b : Int) (hab : a < b)
    (t' : ITier Int) (h : t.eraseRegion a b .truncate false = .ok t') (x : Int) :
    labelAt t'.es x = if a ≤ x ∧ x < b then none else labelAt t.es x := by
  obtain ⟨t'', h1, h2⟩ := erase_noshrink t hwf a b hab .truncate (by decide)
  rw [h] at h1; cases h1
  exact isErased_labelAt t t' hwf a b hab h2 x

/-- **categorical**: every interval overlapping the region disappears entirely, all others stay -/
theorem erase_categorical_entries (t : ITier Int) (hwf : t.WF) (a b : Int) (hab : a < b)
    (t' : ITier Int) (h : t.eraseRegion a b .categorical false = .ok t') (x : Iv Int) :
    x ∈ t'.es ↔ x ∈ t.es ∧ ¬ (x.s < b ∧ a < x.e) := by
  obtain ⟨t'', h1, h2⟩ := erase_noshrink t hwf a b hab .categorical (by decide)
  rw [h] at h1; cases h1
  rw [h2.mem]
  constructor
  · rintro ⟨iv, hiv, hx⟩
    by_cases ho : ov a b iv = true
    · simp [pieces, ho] at hx
    · have ho' : ov a b iv = false := by simpa using ho
      rw [mem_pieces_of_not_ov ho'] at hx; subst hx
      exact ⟨hiv, by simpa [ov] using ho'⟩
  · rintro ⟨hx, hno⟩
    exact ⟨x, hx, (mem_pieces_of_not_ov (by simpa [ov] using hno)).2 rfl⟩

/-- entries of an erased tier are clear of the region -/
theorem isErased_clear (t t' : ITier Int) (hwf : t.WF) (a b : Int) (hab : a < b) (mode : EraseMode)
    (h : IsErased a b mode t t') : Clear a b t'.es := by
  intro y hy
  obtain ⟨iv, hiv, hyp⟩ := (h.mem y).1 hy
  exact (pieces_within a b hab mode iv y (hwf.pos iv hiv) hyp).2.2.2.2

/-- **shrinking** (truncate / categorical, region inside the span): the call succeeds; the result is well-formed;
the span's end decreases by exactly `b - a`; with `u` the no-shrink result, every time before `a` sees `u`
and every later time sees `u` exactly `b - a` later -/
theorem erase_shrink (t : ITier Int) (hwf : t.WF) (a b : Int) (hab : a < b)
    (hlo : t.lo ≤ a) (hhi : b ≤ t.hi) (mode : EraseMode) (hm : mode ≠ .error) :
    ∃ u t', IsErased a b mode t u ∧ t.eraseRegion a b mode true = .ok t' ∧ t'.WF ∧ t'.name = t.name ∧
      t'.lo = t.lo ∧ t'.hi = t.hi - (b - a) ∧
      t'.es = rejoin a (u.es.map (shOne a b)) ∧
      ∀ x, labelAt t'.es x = if x < a then labelAt u.es x else labelAt u.es (x + (b - a)) := by
  obtain ⟨u, h1, h2⟩ := eraseCore_spec t hwf a b hab mode hm
  have hclear := isErased_clear t u hwf a b hab mode h2
  have hw := map_shOne_wf a b hab u.es h2.wf.pos h2.wf.disj h2.wf.stripped hclear
  have hr := rejoin_wf a _ hw.1 hw.2.1 hw.2.2
  obtain ⟨t', e1, e2, e3, e4, e5, e6⟩ :=
    mkITier_wf u.name (rejoin a (u.es.map (shOne a b))) u.lo (shiftBack a b u.hi)
      (by rw [h2.lo, h2.hi]; unfold shiftBack; omega) hr.1 hr.2.1 hr.2.2.1
  -- bounds of the shifted, re-joined entries
  have hb : ∀ z ∈ rejoin a (u.es.map (shOne a b)), t.lo ≤ z.s ∧ z.e ≤ t.hi - (b - a) := by
    have hmapb : ∀ z ∈ u.es.map (shOne a b), t.lo ≤ z.s ∧ z.e ≤ t.hi - (b - a) := by
      intro z hz
      obtain ⟨iv, hiv, rfl⟩ := List.mem_map.1 hz
      have p := shOne_props a b hab iv (h2.wf.pos iv hiv) (hclear iv hiv)
      have l1 := h2.wf.inLo iv hiv
      have l2 := h2.wf.inHi iv hiv
      rw [h2.lo] at l1; rw [h2.hi] at l2
      rcases hclear iv hiv with h | h
      · rw [p.2.2.1 h]; omega
      · have := p.2.2.2 h; omega
    -- rejoin only fuses neighbours: starts and ends come from members
    intro z hz
    have hend : ∀ (l : List (Iv Int)) (z : Iv Int), z ∈ rejoin a l → ∃ w ∈ l, z.e = w.e := by
      intro l
      induction l using rejoin.induct a with
      | case1 x y rest h =>
        intro z hz
        rw [rejoin, if_pos h] at hz
        rcases List.mem_cons.1 hz with rfl | hz
        · exact ⟨y, by simp, rfl⟩
        · exact ⟨z, by simp [hz], rfl⟩
      | case2 x y rest h ih =>
        intro z hz
        rw [rejoin, if_neg h] at hz
        rcases List.mem_cons.1 hz with rfl | hz
        · exact ⟨z, by simp, rfl⟩
        · obtain ⟨w, hw, h1⟩ := ih z hz
          exact ⟨w, List.mem_cons_of_mem _ hw, h1⟩
      | case3 l h =>
        intro z hz
        have : rejoin a l = l := by
          unfold rejoin
          split
          · rename_i x y rest; exact absurd rfl (h x y rest)
          · rfl
        rw [this] at hz
        exact ⟨z, hz, rfl⟩
    obtain ⟨w1, hw1, es1, _⟩ := rejoin_starts a _ z hz
    obtain ⟨w2, hw2, ee2⟩ := hend _ z hz
    have := (hmapb w1 hw1).1
    have := (hmapb w2 hw2).2
    omega
  refine ⟨u, t', h2, ?_, e2, ?_, ?_, ?_, e3, ?_⟩
  · rw [erase_unfold t hwf a b hab mode true (fun _ => ⟨hlo, hhi⟩), h1]
    simp only [bind, Except.bind, if_true, shrinkStep, ITier.new, Option.getD_some, Option.getD_none]
    rw [shrinkIvs_eq_map a b u.es hclear]
    exact e1
  · rw [e4, h2.name]
  · rw [e5]
    rw [hullMin_eq_of_le _ _ (by
      intro x hx; obtain ⟨z, hz, rfl⟩ := List.mem_map.1 hx; rw [h2.lo]; exact (hb z hz).1)]
    exact h2.lo
  · rw [e6]
    rw [hullMax_eq_of_ge _ _ (by
      intro x hx; obtain ⟨z, hz, rfl⟩ := List.mem_map.1 hx
      have := (hb z hz).2; rw [h2.hi]; unfold shiftBack; omega)]
    rw [h2.hi]; unfold shiftBack; omega
  · intro x
    rw [e3, hr.2.2.2 x]
    exact labelAt_map_shOne a b hab u.es h2.wf.pos h2.wf.disj h2.wf.stripped hclear x

/-- **truncate with shrinking**, stated on the original tier: times before `a` are unchanged, every later time `x`
carries what the tier carried at `x + (b - a)` -/
theorem erase_shrink_labelAt (t : ITier Int) (hwf : t.WF) (a b : Int) (hab : a < b)
    (hlo : t.lo ≤ a) (hhi : b ≤ t.hi) (t' : ITier Int) (h : t.eraseRegion a b .truncate true = .ok t') (x : Int) :
    labelAt t'.es x = if x < a then labelAt t.es x else labelAt t.es (x + (b - a)) := by
  obtain ⟨u, t'', hu, h1, _, _, _, _, _, hl⟩ := erase_shrink t hwf a b hab hlo hhi .truncate (by decide)
  rw [h] at h1; cases h1
  rw [hl x]
  by_cases hx : x < a
  · simp only [hx, if_true]
    rw [isErased_labelAt t u hwf a b hab hu x]
    simp [show ¬ (a ≤ x ∧ x < b) by omega]
  · simp only [hx, if_false]
    rw [isErased_labelAt t u hwf a b hab hu (x + (b - a))]
    simp [show ¬ (a ≤ x + (b - a) ∧ x + (b - a) < b) by omega]

/-- **straddler**: an interval with `s < a` and `b < e` comes out as the one interval `⟨s, e - (b - a), l⟩` -/
theorem erase_shrink_straddler (t : ITier Int) (hwf : t.WF) (a b : Int) (hab : a < b)
    (hlo : t.lo ≤ a) (hhi : b ≤ t.hi) (t' : ITier Int) (h : t.eraseRegion a b .truncate true = .ok t')
    (iv : Iv Int) (hiv : iv ∈ t.es) (hs : iv.s < a) (he : b < iv.e) :
    (⟨iv.s, iv.e - (b - a), iv.l⟩ : Iv Int) ∈ t'.es := by
  obtain ⟨u, t'', hu, h1, _, _, _, _, hes, _⟩ := erase_shrink t hwf a b hab hlo hhi .truncate (by decide)
  rw [h] at h1; cases h1
  have hclear := isErased_clear t u hwf a b hab .truncate hu
  have hw := map_shOne_wf a b hab u.es hu.wf.pos hu.wf.disj hu.wf.stripped hclear
  have ho : ov a b iv = true := by have := hwf.pos iv hiv; simp [ov]; omega
  have hL : (⟨iv.s, a, iv.l⟩ : Iv Int) ∈ u.es := (hu.mem _).2 ⟨iv, hiv, by simp [pieces, ho, hs]⟩
  have hR : (⟨b, iv.e, iv.l⟩ : Iv Int) ∈ u.es := (hu.mem _).2 ⟨iv, hiv, by simp [pieces, ho, he]⟩
  have hL' : shOne a b ⟨iv.s, a, iv.l⟩ = ⟨iv.s, a, iv.l⟩ := by simp [shOne]
  have hR' : shOne a b ⟨b, iv.e, iv.l⟩ = ⟨a, iv.e - (b - a), iv.l⟩ := by
    simp only [shOne, shiftBack, show ¬ iv.e ≤ a by omega, if_false, Iv.mk.injEq, and_true]
    constructor <;> omega
  have := rejoin_fuses a (u.es.map (shOne a b)) hw.1 hw.2.1 ⟨iv.s, a, iv.l⟩ ⟨a, iv.e - (b - a), iv.l⟩
    (by rw [← hL']; exact List.mem_map_of_mem hL) (by rw [← hR']; exact List.mem_map_of_mem hR) rfl rfl rfl
  rw [hes]; exact this

/-! ## shrinking with a region that sticks out of the span (fix A28): only the part inside the span is cut out -/

/-- **a region that meets the span in at most one time** (`min b hi ≤ max a lo`: wholly before, wholly after, or touching
an end): shrinking does exactly what not shrinking does — what the region covers is removed / truncated (or, in mode
`error`, refused), nothing is shifted, the span is unchanged -/
theorem erase_shrink_outside (t : ITier Int) (hwf : t.WF) (a b : Int) (hab : a < b) (m : EraseMode)
    (hout : min b t.hi ≤ max a t.lo) : t.eraseRegion a b m true = t.eraseRegion a b m false := by
  rw [erase_unfold_clip t hwf a b hab m true, erase_unfold_clip t hwf a b hab m false]
  obtain ⟨e1, e2⟩ := clip_true t.lo t.hi a b
  rw [e1, e2]
  have h1 : ¬ max a t.lo < min b t.hi := by omega
  simp [h1]

/-- deletion and truncation with the region as given are deletion and truncation with the clipped region: the first
match starts, and the last match ends, inside the span -/
theorem eraseCore_clip (t : ITier Int) (hwf : t.WF) (a b : Int) (m : EraseMode) :
    eraseCore t (t.es.filter (ov a b)) a b m =
      eraseCore t (t.es.filter (ov a b)) (max a t.lo) (min b t.hi) m := by
  unfold eraseCore
  cases hh : (t.es.filter (ov a b)).head? with
  | none => rfl
  | some f =>
    cases hg : (t.es.filter (ov a b)).getLast? with
    | none => rfl
    | some g =>
      have hf : f ∈ t.es := (List.mem_filter.1 (List.mem_of_mem_head? (by rw [hh]; rfl))).1
      have hgm : g ∈ t.es := (List.mem_filter.1 (List.mem_of_getLast? hg)).1
      have := hwf.inLo f hf
      have := hwf.inHi g hgm
      simp only
      by_cases h1 : f.s < a
      · have e1 : max a t.lo = a := by omega
        by_cases h2 : b < g.e
        · have e2 : min b t.hi = b := by omega
          rw [e1, e2]
        · have h2' : ¬ min b t.hi < g.e := by omega
          rw [e1]
          simp only [h2, h2', if_false]
      · have h1' : ¬ f.s < max a t.lo := by omega
        by_cases h2 : b < g.e
        · have e2 : min b t.hi = b := by omega
          rw [e2]
          simp only [h1, h1', if_false]
        · have h2' : ¬ min b t.hi < g.e := by omega
          simp only [h1, h1', h2, h2', if_false]

/-- **erase_shrink_clip**: for ANY region `a < b` whose part inside the span is not empty, shrinking it out is shrinking
its clipped part `[max a lo, min b hi]` out (every entry lies inside the span: the match list of the region as given is
the match list of the clipped region, and the truncation remnants are the same) -/
theorem erase_shrink_clip (t : ITier Int) (hwf : t.WF) (a b : Int) (hab : a < b) (m : EraseMode)
    (hne : max a t.lo < min b t.hi) :
    t.eraseRegion a b m true = t.eraseRegion (max a t.lo) (min b t.hi) m true := by
  rw [erase_unfold_clip t hwf a b hab m true, erase_unfold_clip t hwf _ _ hne m true]
  obtain ⟨e1, e2⟩ := clip_true t.lo t.hi a b
  obtain ⟨e3, e4⟩ := clip_true t.lo t.hi (max a t.lo) (min b t.hi)
  have e5 : max (max a t.lo) t.lo = max a t.lo := by omega
  have e6 : min (min b t.hi) t.hi = min b t.hi := by omega
  rw [e1, e2, e3, e4, e5, e6]
  have hf : t.es.filter (ov (max a t.lo) (min b t.hi)) = t.es.filter (ov a b) := by
    apply List.filter_congr
    intro iv hiv
    have := hwf.pos iv hiv; have := hwf.inLo iv hiv; have := hwf.inHi iv hiv
    simp only [ov, decide_eq_decide]
    omega
  rw [hf, eraseCore_clip t hwf a b m]

/-- **shrinking, ANY region `a < b`** (truncate / categorical): the call succeeds, the result is well-formed, keeps name
and span start, and the span end decreases by exactly the length of the part of the region inside the span -/
theorem erase_shrink_any (t : ITier Int) (hwf : t.WF) (a b : Int) (hab : a < b) (mode : EraseMode) (hm : mode ≠ .error) :
    ∃ t', t.eraseRegion a b mode true = .ok t' ∧ t'.WF ∧ t'.name = t.name ∧ t'.lo = t.lo ∧
      t'.hi = t.hi - max 0 (min b t.hi - max a t.lo) := by
  by_cases hne : max a t.lo < min b t.hi
  · obtain ⟨_, t', _, e1, e2, e3, e4, e5, _⟩ :=
      erase_shrink t hwf (max a t.lo) (min b t.hi) hne (by omega) (by omega) mode hm
    refine ⟨t', ?_, e2, e3, e4, ?_⟩
    · rw [erase_shrink_clip t hwf a b hab mode hne]; exact e1
    · rw [e5]; omega
  · obtain ⟨t', e, w⟩ := erase_noshrink t hwf a b hab mode hm
    refine ⟨t', ?_, w.wf, w.name, w.lo, ?_⟩
    · rw [erase_shrink_outside t hwf a b hab mode (by omega)]; exact e
    · rw [w.hi]; omega

/-- 'error' mode when nothing overlaps the region: the call does what 'truncate' does (nothing to delete; when shrinking,
the later entries move) -/
theorem erase_error_mode_clear (t : ITier Int) (hwf : t.WF) (a b : Int) (hab : a < b) (sh : Bool)
    (hno : ∀ iv ∈ t.es, ¬ (iv.s < b ∧ a < iv.e)) :
    t.eraseRegion a b .error sh = t.eraseRegion a b .truncate sh := by
  rw [erase_unfold_clip t hwf a b hab .error sh, erase_unfold_clip t hwf a b hab .truncate sh]
  have hf : t.es.filter (ov a b) = [] := by
    apply List.filter_eq_nil_iff.2
    intro iv hiv; have := hno iv hiv; simp [ov]; omega
  simp only [hf, eraseCore, List.head?_nil]

/-- **every mode, every region, shrinking or not**: whatever `eraseRegion` returns for a well-formed tier is well-formed
(since fix A28 also for regions sticking out of the span) -/
theorem erase_wf_any (t : ITier Int) (hwf : t.WF) (a b : Int) (m : EraseMode) (sh : Bool) (t' : ITier Int)
    (h : t.eraseRegion a b m sh = .ok t') : t'.WF := by
  by_cases hab : a < b
  · have key : ∀ m', m' ≠ .error → t.eraseRegion a b m' sh = .ok t' → t'.WF := by
      intro m' hm' h'
      cases sh with
      | false =>
        obtain ⟨t'', e, w⟩ := erase_noshrink t hwf a b hab m' hm'
        rw [h'] at e; cases e; exact w.wf
      | true =>
        obtain ⟨t'', e, w, _⟩ := erase_shrink_any t hwf a b hab m' hm'
        rw [h'] at e; cases e; exact w
    by_cases hm : m = .error
    · subst hm
      by_cases hov : ∃ iv ∈ t.es, iv.s < b ∧ a < iv.e
      · rw [(erase_error_mode t hwf a b hab sh).1 hov] at h; cases h
      · rw [erase_error_mode_clear t hwf a b hab sh (fun iv hiv ho => hov ⟨iv, hiv, ho⟩)] at h
        exact key .truncate (by decide) h
    · exact key m hm h
  · rw [erase_rejects t a b m sh (by omega)] at h; cases h

/-! ## layer R: the repaired shift `a + (x - b)` cannot create overlap under any monotone rounding -/

/-- arithmetic with rounding: only laws that round-to-nearest addition/subtraction satisfy -/
structure RArith (T : Type) [LE T] where
  add : T → T → T
  sub : T → T → T
  zero : T
  le_refl : ∀ a : T, a ≤ a
  le_trans : ∀ a b c : T, a ≤ b → b ≤ c → a ≤ c
  add_mono : ∀ a x y, x ≤ y → add a x ≤ add a y
  sub_mono : ∀ b x y, x ≤ y → sub x b ≤ sub y b
  sub_self : ∀ b, sub b b = zero
  add_zero : ∀ a, add a zero = a

section
variable {T : Type} [LE T] (R : RArith T)

def shiftR (a b x : T) : T := R.add a (R.sub x b)

/-- the region end maps exactly onto the region start (so the re-join test `== start` succeeds) -/
theorem shiftR_end (a b : T) : shiftR R a b b = a := by
  simp [shiftR, R.sub_self, R.add_zero]

theorem shiftR_mono (a b x y : T) (h : x ≤ y) : shiftR R a b x ≤ shiftR R a b y :=
  R.add_mono _ _ _ (R.sub_mono _ _ _ h)

/-- a shifted time never lands before the region start (no overlap with what precedes the region) -/
theorem shiftR_ge (a b x : T) (h : b ≤ x) : a ≤ shiftR R a b x := by
  have := shiftR_mono R a b b x h
  rwa [shiftR_end] at this

/-- shifted entries keep their order: rounding cannot make two of them overlap -/
theorem shift_pairwise (a b : T) (es : List (T × T)) (hp : es.Pairwise (fun u v => u.2 ≤ v.1)) :
    (es.map fun u => (shiftR R a b u.1, shiftR R a b u.2)).Pairwise (fun u v => u.2 ≤ v.1) := by
  rw [List.pairwise_map]
  exact hp.imp (fun h => shiftR_mono R a b _ _ h)
end

/-- non-vacuity of layer R: exact integer arithmetic satisfies the laws -/
def intR : RArith Int where
  add := (· + ·)
  sub := (· - ·)
  zero := 0
  le_refl := Int.le_refl
  le_trans := fun _ _ _ => Int.le_trans
  add_mono := by intros; omega
  sub_mono := by intros; omega
  sub_self := by intros; omega
  add_zero := by intros; omega

/-! ## non-vacuity -/
def exTier : ITier Int := ⟨"T", [⟨10, 30, "a"⟩, ⟨30, 60, "b"⟩, ⟨80, 90, "c"⟩], 0, 100⟩

theorem exTier_wf : exTier.WF := by
  refine ⟨?_, ?_, ?_, ?_, ?_, ?_⟩ <;> simp [exTier, Pos, Disj, Stripped] <;> decide

/-- a well-formed tier with two distinct entries that are equal under the tolerant `Interval.__eq__` (such tiers were
excluded by the former separation hypothesis `NoClose`): the theorems of this file apply to it, and erasing the
second of the two close entries removes that one, not the first -/
def closeTier : ITier Int :=
  ⟨"T", [⟨0, 10000000000, "a"⟩, ⟨10000000000, 10000000005, "x"⟩, ⟨10000000005, 10000000010, "x"⟩,
         ⟨10000000010, 20000000000, "b"⟩], 0, 20000000000⟩

theorem closeTier_wf : closeTier.WF := by
  refine ⟨?_, ?_, ?_, ?_, ?_, ?_⟩ <;> simp [closeTier, Pos, Disj, Stripped] <;> decide

theorem closeTier_close : ¬ NoClose closeTier.es := by
  intro h
  exact absurd (h ⟨10000000000, 10000000005, "x"⟩ (by simp [closeTier]) ⟨10000000005, 10000000010, "x"⟩
    (by simp [closeTier]) (by decide)) (by decide)

example : ∃ t', closeTier.eraseRegion 10000000005 10000000010 .truncate false = .ok t' ∧
    IsErased 10000000005 10000000010 .truncate closeTier t' :=
  erase_noshrink closeTier closeTier_wf _ _ (by decide) .truncate (by decide)

#guard (closeTier.eraseRegion 10000000005 10000000010 .truncate false).toOption.map (·.es) ==
  some [⟨0, 10000000000, "a"⟩, ⟨10000000000, 10000000005, "x"⟩, ⟨10000000010, 20000000000, "b"⟩]

#guard (exTier.eraseRegion 20 85 .truncate true).toOption.map (fun t => (t.es, t.lo, t.hi)) ==
  some ([⟨10, 20, "a"⟩, ⟨20, 25, "c"⟩], 0, 35)
#guard (exTier.eraseRegion 20 40 .truncate true).toOption.map (·.es) == some [⟨10, 20, "a"⟩, ⟨20, 40, "b"⟩, ⟨60, 70, "c"⟩]

end C07
