import PraatModel.Lemmas.Sort
import PraatModel.Textgrid

/-!
# C09 — editTimestamps moves every entry by exactly the offset; appendTier concatenates in time

Exact arithmetic (`Int` timestamps of any size, entry lists of any length).
-/
namespace C09

/-! ## helpers -/

/-- the entry that survives one iteration of `IntervalTier.editTimestamps` (independent of the old span) -/
theorem shiftClip_snd (o lo hi : Int) (iv : Iv Int) :
    (shiftClip o lo hi iv).2 =
      if o + iv.e ≤ 0 then none else some ⟨max (o + iv.s) 0, o + iv.e, iv.l⟩ := by
  have h : (if o + iv.s < 0 then (0 : Int) else o + iv.s) = max (o + iv.s) 0 := by
    split <;> omega
  simp only [shiftClip, Tm.zero, h]

theorem shiftClip_fst (o lo hi : Int) (iv : Iv Int) :
    (shiftClip o lo hi iv).1 = true ↔ (o + iv.s < lo ∨ hi < o + iv.e) := by
  simp [shiftClip]

theorem clip_some {o lo hi : Int} {iv r : Iv Int} (h : (shiftClip o lo hi iv).2 = some r) :
    0 < o + iv.e ∧ r = ⟨max (o + iv.s) 0, o + iv.e, iv.l⟩ := by
  rw [shiftClip_snd] at h
  split at h
  · cases h
  · exact ⟨by omega, (Option.some.inj h).symm⟩

/-- moving (and clipping at 0) keeps positive lengths, time order and stripped labels -/
theorem clip_wf (o lo hi : Int) (es : List (Iv Int)) (hp : Pos es) (hd : Disj es) (hs : Stripped es) :
    Pos (es.filterMap fun iv => (shiftClip o lo hi iv).2) ∧
    Disj (es.filterMap fun iv => (shiftClip o lo hi iv).2) ∧
    Stripped (es.filterMap fun iv => (shiftClip o lo hi iv).2) := by
  refine ⟨?_, ?_, ?_⟩
  · intro r hr
    obtain ⟨iv, hiv, hf⟩ := List.mem_filterMap.1 hr
    obtain ⟨h0, rfl⟩ := clip_some hf
    have := hp iv hiv
    simp only; omega
  · unfold Disj at *
    refine List.Pairwise.filterMap _ ?_ hd
    intro x y hxy r hr r' hr'
    obtain ⟨h0, rfl⟩ := clip_some hr
    obtain ⟨h0', rfl⟩ := clip_some hr'
    simp only; omega
  · intro r hr
    obtain ⟨iv, hiv, hf⟩ := List.mem_filterMap.1 hr
    obtain ⟨h0, rfl⟩ := clip_some hf
    exact hs iv hiv

theorem filterMap_congr' {β γ : Type} {f g : β → Option γ} {l : List β} (h : ∀ x ∈ l, f x = g x) :
    l.filterMap f = l.filterMap g := by
  induction l with
  | nil => rfl
  | cons x xs ih =>
    have hx := h x (by simp)
    have ih' := ih (fun y hy => h y (List.mem_cons_of_mem _ hy))
    simp only [List.filterMap_cons, hx, ih']

theorem filterMap_eq_map' {β γ : Type} {f : β → Option γ} {g : β → γ} {l : List β}
    (h : ∀ x ∈ l, f x = some (g x)) : l.filterMap f = l.map g := by
  rw [← List.filterMap_eq_map]
  exact filterMap_congr' h

theorem hullMin_idem (xs : List Int) (a : Int) : hullMin xs (hullMin xs a) = hullMin xs a :=
  hullMin_eq_of_le _ _ (hullMin_le xs a).2

theorem hullMax_idem (xs : List Int) (a : Int) : hullMax xs (hullMax xs a) = hullMax xs a :=
  hullMax_eq_of_ge _ _ (hullMax_ge xs a).2

/-- `editTimestamps` past the reporting step -/
theorem edit_unfold (t : ITier Int) (o : Int) (rep : Report)
    (h : rep ≠ .error ∨ ∀ iv ∈ t.es, ¬ (o + iv.s < t.lo ∨ t.hi < o + iv.e)) :
    t.editTimestamps o rep =
      mkITier t.name (t.es.filterMap fun iv => (shiftClip o t.lo t.hi iv).2)
        (some (hullMin ((t.es.filterMap fun iv => (shiftClip o t.lo t.hi iv).2).map (·.s)) t.lo))
        (some (hullMax ((t.es.filterMap fun iv => (shiftClip o t.lo t.hi iv).2).map (·.e)) t.hi)) := by
  have hc : ¬ (rep = .error ∧ (t.es.map (shiftClip o t.lo t.hi)).any (·.1) = true) := by
    rintro ⟨h1, h2⟩
    rcases h with h | h
    · exact h h1
    · simp only [List.any_map, List.any_eq_true, Function.comp] at h2
      obtain ⟨iv, hiv, hb⟩ := h2
      exact h iv hiv ((shiftClip_fst o t.lo t.hi iv).1 hb)
  unfold ITier.editTimestamps
  simp only [hc, if_false, List.filterMap_map, foldl_pyMin2, foldl_pyMax2, hullMin, hullMax]
  rfl

/-- the common core of the non-raising paths -/
theorem edit_core (t : ITier Int) (hwf : t.WF) (o : Int) (rep : Report)
    (h : rep ≠ .error ∨ ∀ iv ∈ t.es, ¬ (o + iv.s < t.lo ∨ t.hi < o + iv.e)) :
    ∃ t', t.editTimestamps o rep = .ok t' ∧ t'.WF ∧ t'.name = t.name ∧
      t'.es = t.es.filterMap (fun iv => (shiftClip o t.lo t.hi iv).2) ∧
      t'.lo = hullMin (t'.es.map (·.s)) t.lo ∧ t'.hi = hullMax (t'.es.map (·.e)) t.hi := by
  have hw := clip_wf o t.lo t.hi t.es hwf.pos hwf.disj hwf.stripped
  have h1 := hullMin_le ((t.es.filterMap fun iv => (shiftClip o t.lo t.hi iv).2).map (·.s)) t.lo
  have h2 := hullMax_ge ((t.es.filterMap fun iv => (shiftClip o t.lo t.hi iv).2).map (·.e)) t.hi
  have hsp := hwf.span
  obtain ⟨t', e1, e2, e3, e4, e5, e6⟩ := mkITier_wf t.name
    (t.es.filterMap fun iv => (shiftClip o t.lo t.hi iv).2)
    (hullMin ((t.es.filterMap fun iv => (shiftClip o t.lo t.hi iv).2).map (·.s)) t.lo)
    (hullMax ((t.es.filterMap fun iv => (shiftClip o t.lo t.hi iv).2).map (·.e)) t.hi)
    (by omega) hw.1 hw.2.1 hw.2.2
  refine ⟨t', ?_, e2, e4, e3, ?_, ?_⟩
  · rw [edit_unfold t o rep h]; exact e1
  · rw [e5, e3, hullMin_idem]
  · rw [e6, e3, hullMax_idem]

/-! ## 2. one iteration of the loop -/

theorem shiftClip_spec (o lo hi : Int) (iv : Iv Int) :
    ((shiftClip o lo hi iv).2 =
      if o + iv.e ≤ 0 then none else some ⟨max (o + iv.s) 0, o + iv.e, iv.l⟩) ∧
    ((shiftClip o lo hi iv).1 = true ↔ (o + iv.s < lo ∨ hi < o + iv.e)) :=
  ⟨shiftClip_snd o lo hi iv, shiftClip_fst o lo hi iv⟩

/-! ## 1. the non-raising reporting modes -/

theorem shift_ok (t : ITier Int) (hwf : t.WF) (o : Int) (rep : Report) (hrep : rep ≠ .error) :
    ∃ t', t.editTimestamps o rep = .ok t' ∧ t'.WF ∧ t'.name = t.name ∧
      t'.es = t.es.filterMap (fun iv => (shiftClip o t.lo t.hi iv).2) ∧
      t'.lo ≤ t.lo ∧ t.hi ≤ t'.hi := by
  obtain ⟨t', h1, h2, h3, h4, h5, h6⟩ := edit_core t hwf o rep (Or.inl hrep)
  refine ⟨t', h1, h2, h3, h4, ?_, ?_⟩
  · rw [h5]; exact (hullMin_le _ _).1
  · rw [h6]; exact (hullMax_ge _ _).1

/-! ## 3. reporting mode `error` -/

theorem shift_error_mode (t : ITier Int) (hwf : t.WF) (o : Int) :
    (t.editTimestamps o .error = .error .OutOfBounds ↔
      ∃ iv ∈ t.es, o + iv.s < t.lo ∨ t.hi < o + iv.e) ∧
    ((∀ iv ∈ t.es, ¬ (o + iv.s < t.lo ∨ t.hi < o + iv.e)) →
      t.editTimestamps o .error = t.editTimestamps o .silence) := by
  constructor
  · constructor
    · intro h
      apply Classical.byContradiction
      intro hno
      have hno' : ∀ iv ∈ t.es, ¬ (o + iv.s < t.lo ∨ t.hi < o + iv.e) :=
        fun iv hiv hc => hno ⟨iv, hiv, hc⟩
      obtain ⟨t', h1, _⟩ := edit_core t hwf o .error (Or.inr hno')
      rw [h] at h1; cases h1
    · rintro ⟨iv, hiv, hc⟩
      have : (t.es.map (shiftClip o t.lo t.hi)).any (·.1) = true := by
        simp only [List.any_map, List.any_eq_true, Function.comp]
        exact ⟨iv, hiv, (shiftClip_fst o t.lo t.hi iv).2 hc⟩
      simp [ITier.editTimestamps, this]
  · intro hno
    rw [edit_unfold t o .error (Or.inr hno), edit_unfold t o .silence (Or.inl (by decide))]

/-- in `error` mode an in-bounds shift behaves as in 1. (and then nothing is dropped or clipped when `0 ≤ t.lo`) -/
theorem shift_error_mode_ok (t : ITier Int) (hwf : t.WF) (o : Int)
    (hin : ∀ iv ∈ t.es, ¬ (o + iv.s < t.lo ∨ t.hi < o + iv.e)) :
    ∃ t', t.editTimestamps o .error = .ok t' ∧ t'.WF ∧ t'.name = t.name ∧
      t'.es = t.es.filterMap (fun iv => (shiftClip o t.lo t.hi iv).2) ∧
      t'.lo = t.lo ∧ t'.hi = t.hi := by
  obtain ⟨t', h1, h2, h3, h4, h5, h6⟩ := edit_core t hwf o .error (Or.inr hin)
  refine ⟨t', h1, h2, h3, h4, ?_, ?_⟩
  · rw [h5]; apply hullMin_eq_of_le
    intro x hx
    obtain ⟨r, hr, rfl⟩ := List.mem_map.1 hx
    rw [h4] at hr
    obtain ⟨iv, hiv, hf⟩ := List.mem_filterMap.1 hr
    obtain ⟨_, rfl⟩ := clip_some hf
    have := hin iv hiv
    simp only; omega
  · rw [h6]; apply hullMax_eq_of_ge
    intro x hx
    obtain ⟨r, hr, rfl⟩ := List.mem_map.1 hx
    rw [h4] at hr
    obtain ⟨iv, hiv, hf⟩ := List.mem_filterMap.1 hr
    obtain ⟨_, rfl⟩ := clip_some hf
    have := hin iv hiv
    simp only; omega

/-! ## 4. the span grows just enough -/

theorem shift_span (t : ITier Int) (hwf : t.WF) (o : Int) (rep : Report) (hrep : rep ≠ .error)
    (t' : ITier Int) (h : t.editTimestamps o rep = .ok t') :
    t'.lo = (t'.es.map (·.s)).foldl min t.lo ∧ t'.hi = (t'.es.map (·.e)).foldl max t.hi := by
  obtain ⟨t'', h1, _, _, _, h5, h6⟩ := edit_core t hwf o rep (Or.inl hrep)
  rw [h] at h1; cases h1
  exact ⟨h5, h6⟩

/-- the same, spelled out: the new bounds contain the old span and every moved entry, and each is attained
by the old bound or by a moved entry -/
theorem shift_span_attained (t : ITier Int) (hwf : t.WF) (o : Int) (rep : Report) (hrep : rep ≠ .error)
    (t' : ITier Int) (h : t.editTimestamps o rep = .ok t') :
    (t'.lo ≤ t.lo ∧ (∀ r ∈ t'.es, t'.lo ≤ r.s) ∧ (t'.lo = t.lo ∨ ∃ r ∈ t'.es, t'.lo = r.s)) ∧
    (t.hi ≤ t'.hi ∧ (∀ r ∈ t'.es, r.e ≤ t'.hi) ∧ (t'.hi = t.hi ∨ ∃ r ∈ t'.es, t'.hi = r.e)) := by
  obtain ⟨h5, h6⟩ := shift_span t hwf o rep hrep t' h
  refine ⟨⟨?_, ?_, ?_⟩, ?_, ?_, ?_⟩
  · rw [h5]; exact (foldl_min_le _ _).1
  · intro r hr; rw [h5]; exact (foldl_min_le _ _).2 _ (List.mem_map_of_mem hr)
  · rw [h5]; rcases foldl_min_mem (t'.es.map (·.s)) t.lo with h' | h'
    · left; exact h'
    · right; obtain ⟨r, hr, he⟩ := List.mem_map.1 h'; exact ⟨r, hr, he.symm⟩
  · rw [h6]; exact (foldl_max_ge _ _).1
  · intro r hr; rw [h6]; exact (foldl_max_ge _ _).2 _ (List.mem_map_of_mem hr)
  · rw [h6]; rcases foldl_max_mem (t'.es.map (·.e)) t.hi with h' | h'
    · left; exact h'
    · right; obtain ⟨r, hr, he⟩ := List.mem_map.1 h'; exact ⟨r, hr, he.symm⟩

/-- when nothing ends at or before 0 and nothing crosses 0 after the move, the entries are exactly the moved ones -/
theorem shift_noclip (t : ITier Int) (hwf : t.WF) (o : Int) (rep : Report) (hrep : rep ≠ .error)
    (hnc : ∀ iv ∈ t.es, 0 ≤ o + iv.s) (t' : ITier Int) (h : t.editTimestamps o rep = .ok t') :
    t'.es = t.es.map (fun iv => ⟨o + iv.s, o + iv.e, iv.l⟩) := by
  obtain ⟨t'', h1, _, _, h4, _, _⟩ := edit_core t hwf o rep (Or.inl hrep)
  rw [h] at h1; cases h1
  rw [h4]
  apply filterMap_eq_map'
  intro iv hiv
  have := hnc iv hiv
  have := hwf.pos iv hiv
  rw [shiftClip_snd, if_neg (by omega), Int.max_eq_left (by omega)]

/-! ## 5. shifting by `+o` then `-o` -/

/-- Exact description of the round trip when the first shift clips nothing: the second shift is applied to a
tier whose times are the original ones, so entries of the *original* tier that end at or before 0 are dropped
and one crossing 0 is clipped — the round trip is `editTimestamps 0`. -/
theorem shift_unshift_clip (t : ITier Int) (hwf : t.WF) (o : Int)
    (hnc : ∀ iv ∈ t.es, 0 ≤ o + iv.s) (t1 t2 : ITier Int)
    (h1 : t.editTimestamps o .silence = .ok t1) (h2 : t1.editTimestamps (-o) .silence = .ok t2) :
    t2.es = t.es.filterMap (fun iv => (shiftClip 0 t.lo t.hi iv).2) := by
  obtain ⟨t1', e1, hwf1, _, _, _, _⟩ := shift_ok t hwf o .silence (by decide)
  rw [h1] at e1; cases e1
  have hes1 := shift_noclip t hwf o .silence (by decide) hnc t1 h1
  obtain ⟨t2', e2, _, _, hes2, _, _⟩ := shift_ok t1 hwf1 (-o) .silence (by decide)
  rw [h2] at e2; cases e2
  rw [hes2, hes1, List.filterMap_map]
  apply filterMap_congr'
  intro iv _
  simp only [Function.comp, shiftClip_snd]
  have ha : -o + (o + iv.e) = iv.e := by omega
  have hb : -o + (o + iv.s) = iv.s := by omega
  have hc : 0 + iv.e = iv.e := by omega
  have hd : 0 + iv.s = iv.s := by omega
  rw [ha, hb, hc, hd]

/-- `filterMap f l = l` forces `f` to keep every member as it is -/
theorem filterMap_eq_self {β : Type} {f : β → Option β} {l : List β} (h : l.filterMap f = l) :
    ∀ x ∈ l, f x = some x := by
  induction l with
  | nil => intro x hx; cases hx
  | cons y ys ih =>
    cases hy : f y with
    | none =>
      rw [List.filterMap_cons, hy] at h
      have h' := congrArg List.length h
      have := List.length_filterMap_le f ys
      simp only [List.length_cons] at h'
      omega
    | some z =>
      rw [List.filterMap_cons, hy] at h
      simp only [List.cons.injEq] at h
      obtain ⟨rfl, h⟩ := h
      intro x hx
      rcases List.mem_cons.1 hx with rfl | hx
      · exact hy
      · exact ih h x hx

/-- **5 (partial: one more hypothesis than requested).**  The requested statement is false of the model when the
original tier has an entry starting before time 0 (see `shift_unshift_counterexample`): that entry is moved to a
non-negative time by `+o` and dropped or clipped by `-o`.  With `0 ≤ iv.s` for the original entries the round trip
restores every entry. -/
theorem shift_unshift_partial (t : ITier Int) (hwf : t.WF) (o : Int)
    (hnc : ∀ iv ∈ t.es, 0 ≤ o + iv.s) (hnn : ∀ iv ∈ t.es, 0 ≤ iv.s) (t1 t2 : ITier Int)
    (h1 : t.editTimestamps o .silence = .ok t1) (h2 : t1.editTimestamps (-o) .silence = .ok t2) :
    t2.es = t.es := by
  rw [shift_unshift_clip t hwf o hnc t1 t2 h1 h2]
  conv => rhs; rw [← List.filterMap_some (l := t.es)]
  apply filterMap_congr'
  intro iv hiv
  have := hnn iv hiv
  have := hwf.pos iv hiv
  rw [shiftClip_snd, if_neg (by omega), Int.max_eq_left (by omega)]
  obtain ⟨s, e, l⟩ := iv
  simp

/-- … and the extra hypothesis is exactly what is needed: under the hypotheses of the requested statement the
round trip restores the entries iff no original entry starts before 0. -/
theorem shift_unshift_iff (t : ITier Int) (hwf : t.WF) (o : Int)
    (hnc : ∀ iv ∈ t.es, 0 ≤ o + iv.s) (t1 t2 : ITier Int)
    (h1 : t.editTimestamps o .silence = .ok t1) (h2 : t1.editTimestamps (-o) .silence = .ok t2) :
    t2.es = t.es ↔ ∀ iv ∈ t.es, 0 ≤ iv.s := by
  constructor
  · intro h iv hiv
    rw [shift_unshift_clip t hwf o hnc t1 t2 h1 h2] at h
    have := filterMap_eq_self h iv hiv
    obtain ⟨_, he⟩ := clip_some this
    have hs := congrArg Iv.s he
    simp only at hs
    omega
  · intro hnn; exact shift_unshift_partial t hwf o hnc hnn t1 t2 h1 h2

/-- the two calls of the round trip always succeed (non-vacuity of the hypotheses `h1`, `h2` above) -/
theorem shift_unshift_ok (t : ITier Int) (hwf : t.WF) (o : Int) :
    ∃ t1 t2, t.editTimestamps o .silence = .ok t1 ∧ t1.editTimestamps (-o) .silence = .ok t2 := by
  obtain ⟨t1, e1, hwf1, _⟩ := shift_ok t hwf o .silence (by decide)
  obtain ⟨t2, e2, _⟩ := shift_ok t1 hwf1 (-o) .silence (by decide)
  exact ⟨t1, t2, e1, e2⟩

def cexTier : ITier Int := ⟨"T", [⟨-5, -3, "a"⟩], -5, 0⟩

theorem cexTier_wf : cexTier.WF := by
  refine ⟨?_, ?_, ?_, ?_, ?_, ?_⟩ <;> simp [cexTier, Pos, Disj, Stripped] <;> decide

/-- the requested form of 5 (without `0 ≤ iv.s`) fails on a concrete well-formed tier -/
theorem shift_unshift_counterexample :
    ∃ t1 t2, cexTier.WF ∧ (∀ iv ∈ cexTier.es, 0 ≤ 10 + iv.s) ∧
      cexTier.editTimestamps 10 .silence = .ok t1 ∧ t1.editTimestamps (-10) .silence = .ok t2 ∧
      t2.es ≠ cexTier.es := by
  obtain ⟨t1, t2, e1, e2⟩ := shift_unshift_ok cexTier cexTier_wf 10
  have hnc : ∀ iv ∈ cexTier.es, 0 ≤ 10 + iv.s := by simp [cexTier]
  refine ⟨t1, t2, cexTier_wf, hnc, e1, e2, ?_⟩
  rw [shift_unshift_clip cexTier cexTier_wf 10 hnc t1 t2 e1 e2]
  simp [cexTier, shiftClip_snd]

/-! ## 6. point tiers -/

/-- the surviving point of one iteration of `PointTier.editTimestamps` -/
def pshift (o : Int) (p : Pt Int) : Option (Pt Int) :=
  if p.t + o < 0 then none else some ⟨p.t + o, p.l⟩

theorem pshift_some {o : Int} {p r : Pt Int} (h : pshift o p = some r) :
    0 ≤ p.t + o ∧ r = ⟨p.t + o, p.l⟩ := by
  unfold pshift at h
  split at h
  · cases h
  · exact ⟨by omega, (Option.some.inj h).symm⟩

theorem pedit_unfold (t : PTier Int) (o : Int) (rep : Report)
    (h : rep ≠ .error ∨ ∀ p ∈ t.ps, ¬ (p.t + o < t.lo ∨ t.hi < p.t + o)) :
    t.editTimestamps o rep =
      mkPTier t.name (t.ps.filterMap (pshift o))
        (some (hullMin ((t.ps.filterMap (pshift o)).map (·.t)) t.lo))
        (some (hullMax ((t.ps.filterMap (pshift o)).map (·.t)) t.hi)) := by
  have hc : ¬ (rep = .error ∧ ((t.ps.map fun p => (p.t + o, p.l)).any
      (fun x => decide (x.1 < t.lo) || decide (t.hi < x.1))) = true) := by
    rintro ⟨h1, h2⟩
    rcases h with h | h
    · exact h h1
    · simp only [List.any_map, List.any_eq_true, Function.comp, Bool.or_eq_true, decide_eq_true_eq] at h2
      obtain ⟨p, hp, hb⟩ := h2
      exact h p hp hb
  unfold PTier.editTimestamps
  simp only [hc, if_false, List.filterMap_map, foldl_pyMin2, foldl_pyMax2, hullMin, hullMax, Tm.zero]
  rfl

theorem pedit_core (t : PTier Int) (hwf : t.WF) (o : Int) (rep : Report)
    (h : rep ≠ .error ∨ ∀ p ∈ t.ps, ¬ (p.t + o < t.lo ∨ t.hi < p.t + o)) :
    ∃ t', t.editTimestamps o rep = .ok t' ∧ t'.WF ∧ t'.name = t.name ∧
      t'.ps = t.ps.filterMap (pshift o) ∧
      t'.lo = hullMin (t'.ps.map (·.t)) t.lo ∧ t'.hi = hullMax (t'.ps.map (·.t)) t.hi := by
  have hsrt : (t.ps.filterMap (pshift o)).Pairwise (fun a b => Pt.le a b = true) := by
    refine List.Pairwise.filterMap _ ?_ hwf.sorted
    intro x y hxy r hr r' hr'
    obtain ⟨_, rfl⟩ := pshift_some hr
    obtain ⟨_, rfl⟩ := pshift_some hr'
    simp only [Pt.le] at hxy ⊢
    grind
  have hstr : ∀ r ∈ t.ps.filterMap (pshift o), pyStrip r.l = r.l := by
    intro r hr
    obtain ⟨p, hp, hf⟩ := List.mem_filterMap.1 hr
    obtain ⟨_, rfl⟩ := pshift_some hf
    exact hwf.stripped p hp
  have h1 := hullMin_le ((t.ps.filterMap (pshift o)).map (·.t)) t.lo
  have h2 := hullMax_ge ((t.ps.filterMap (pshift o)).map (·.t)) t.hi
  have hsp := hwf.span
  obtain ⟨t', e1, e2, e3, e4, e5, e6⟩ := mkPTier_wf t.name (t.ps.filterMap (pshift o))
    (hullMin ((t.ps.filterMap (pshift o)).map (·.t)) t.lo)
    (hullMax ((t.ps.filterMap (pshift o)).map (·.t)) t.hi) hsrt hstr
    (fun r hr => h1.2 _ (List.mem_map_of_mem hr)) (fun r hr => h2.2 _ (List.mem_map_of_mem hr)) (by omega)
  refine ⟨t', ?_, e2, e4, e3, ?_, ?_⟩
  · rw [pedit_unfold t o rep h]; exact e1
  · rw [e5, e3]
  · rw [e6, e3]

/-- points whose new time is negative are dropped, the others are moved by exactly `o` with label and order kept;
the call never fails in the non-raising modes, the result is well-formed, the span is the hull of the old span
and the moved points (so it never shrinks) -/
theorem pshift_ok (t : PTier Int) (hwf : t.WF) (o : Int) (rep : Report) (hrep : rep ≠ .error) :
    ∃ t', t.editTimestamps o rep = .ok t' ∧ t'.WF ∧ t'.name = t.name ∧
      t'.ps = t.ps.filterMap (fun p => if p.t + o < 0 then none else some ⟨p.t + o, p.l⟩) ∧
      t'.lo = (t'.ps.map (·.t)).foldl min t.lo ∧ t'.hi = (t'.ps.map (·.t)).foldl max t.hi ∧
      t'.lo ≤ t.lo ∧ t.hi ≤ t'.hi := by
  obtain ⟨t', h1, h2, h3, h4, h5, h6⟩ := pedit_core t hwf o rep (Or.inl hrep)
  refine ⟨t', h1, h2, h3, h4, h5, h6, ?_, ?_⟩
  · rw [h5]; exact (hullMin_le _ _).1
  · rw [h6]; exact (hullMax_ge _ _).1

/-- reporting mode `error` for point tiers -/
theorem pshift_error_mode (t : PTier Int) (hwf : t.WF) (o : Int) :
    (t.editTimestamps o .error = .error .OutOfBounds ↔
      ∃ p ∈ t.ps, p.t + o < t.lo ∨ t.hi < p.t + o) ∧
    ((∀ p ∈ t.ps, ¬ (p.t + o < t.lo ∨ t.hi < p.t + o)) →
      t.editTimestamps o .error = t.editTimestamps o .silence) := by
  constructor
  · constructor
    · intro h
      apply Classical.byContradiction
      intro hno
      have hno' : ∀ p ∈ t.ps, ¬ (p.t + o < t.lo ∨ t.hi < p.t + o) :=
        fun p hp hc => hno ⟨p, hp, hc⟩
      obtain ⟨t', h1, _⟩ := pedit_core t hwf o .error (Or.inr hno')
      rw [h] at h1; cases h1
    · rintro ⟨p, hp, hc⟩
      have : ((t.ps.map fun p => (p.t + o, p.l)).any
          (fun x => decide (x.1 < t.lo) || decide (t.hi < x.1))) = true := by
        simp only [List.any_map, List.any_eq_true, Function.comp, Bool.or_eq_true, decide_eq_true_eq]
        exact ⟨p, hp, hc⟩
      simp [PTier.editTimestamps, this]
  · intro hno
    rw [pedit_unfold t o .error (Or.inr hno), pedit_unfold t o .silence (Or.inl (by decide))]

/-! ## 7. appendTier -/

/-- **appendTier on non-negative times**: `A`'s entries unchanged, followed by `B`'s entries moved by exactly `A`'s
end; the span ends at the sum of both ends.  `0 ≤ u.lo` and `0 ≤ t.hi` ("both tiers live on non-negative times") are
NOT enforced by the code and are needed: `appendTier` moves `B` with `editTimestamps`, which drops what lands before time
0 and clips what crosses it — see `append_negative_counterexample` (replayed on the class). -/
theorem append_spec (t u : ITier Int) (ht : t.WF) (hu : u.WF) (hulo : 0 ≤ u.lo) (hthi : 0 ≤ t.hi) :
    ∃ r, t.appendTier u = .ok r ∧ r.WF ∧ r.name = t.name ∧
      r.es = t.es ++ u.es.map (fun iv => ⟨t.hi + iv.s, t.hi + iv.e, iv.l⟩) ∧
      r.lo = t.lo ∧ r.hi = t.hi + u.hi := by
  obtain ⟨u', e1, hu', _, _, _, _⟩ := shift_ok u hu t.hi .silence (by decide)
  have hnc : ∀ iv ∈ u.es, 0 ≤ t.hi + iv.s := by
    intro iv hiv; have := hu.inLo iv hiv; omega
  have hes := shift_noclip u hu t.hi .silence (by decide) hnc u' e1
  have hp : Pos (t.es ++ u'.es) := by
    intro iv hiv
    rcases List.mem_append.1 hiv with h | h
    · exact ht.pos iv h
    · exact hu'.pos iv h
  have hd : Disj (t.es ++ u'.es) := by
    unfold Disj
    rw [List.pairwise_append]
    refine ⟨ht.disj, hu'.disj, ?_⟩
    intro a ha b hb
    rw [hes] at hb
    obtain ⟨iv, hiv, rfl⟩ := List.mem_map.1 hb
    have := ht.inHi a ha
    have := hnc iv hiv
    have := hu.inLo iv hiv
    simp only; omega
  have hs : Stripped (t.es ++ u'.es) := by
    intro iv hiv
    rcases List.mem_append.1 hiv with h | h
    · exact ht.stripped iv h
    · exact hu'.stripped iv h
  obtain ⟨r, r1, r2, r3, r4, r5, r6⟩ := mkITier_wf t.name (t.es ++ u'.es) t.lo (t.hi + u.hi)
    (by have := ht.span; have := hu.span; omega) hp hd hs
  refine ⟨r, ?_, r2, r4, ?_, ?_, ?_⟩
  · unfold ITier.appendTier ITier.new
    rw [e1]
    simp only [bind, Except.bind, Option.getD_some, Option.getD_none, sortIvs_of_wf _ hp hd]
    exact r1
  · rw [r3, hes]
  · rw [r5]; apply hullMin_eq_of_le
    intro x hx
    obtain ⟨iv, hiv, rfl⟩ := List.mem_map.1 hx
    rcases List.mem_append.1 hiv with h | h
    · exact ht.inLo iv h
    · rw [hes] at h
      obtain ⟨iv', hiv', rfl⟩ := List.mem_map.1 h
      have := hu.inLo iv' hiv'; have := ht.span
      simp only; omega
  · rw [r6]; apply hullMax_eq_of_ge
    intro x hx
    obtain ⟨iv, hiv, rfl⟩ := List.mem_map.1 hx
    rcases List.mem_append.1 hiv with h | h
    · have := ht.inHi iv h; have := hu.span; omega
    · rw [hes] at h
      obtain ⟨iv', hiv', rfl⟩ := List.mem_map.1 h
      have := hu.inHi iv' hiv'
      simp only; omega

/-! ## 8. Textgrid level -/

theorem bind_ok {β γ : Type} {x : Except Err β} {f : β → Except Err γ} {r : γ}
    (h : (x >>= f) = .ok r) : ∃ a, x = .ok a ∧ f a = .ok r := by
  cases x with
  | error e => simp [bind, Except.bind] at h
  | ok a => exact ⟨a, rfl, h⟩

theorem map_ok {β γ : Type} {x : Except Err β} {f : β → γ} {r : γ}
    (h : (f <$> x) = .ok r) : ∃ a, x = .ok a ∧ r = f a := by
  cases x with
  | error e => simp [Functor.map, Except.map] at h
  | ok a =>
    simp only [Functor.map, Except.map, Except.ok.injEq] at h
    exact ⟨a, rfl, h.symm⟩

theorem ite_err {β : Type} {c : Prop} [Decidable c] {e : Err} {y : Except Err β} {r : β}
    (h : (if c then .error e else y) = .ok r) : y = .ok r := by
  split at h
  · cases h
  · exact h

theorem mkITier_name {n : String} {es : List (Iv Int)} {a b : Option Int} {t : ITier Int}
    (h : mkITier n es a b = .ok t) : t.name = n := by
  unfold mkITier at h
  simp only at h
  split at h
  · split at h
    · cases h; rfl
    · cases h
  · cases h

theorem mkPTier_name {n : String} {ps : List (Pt Int)} {a b : Option Int} {t : PTier Int}
    (h : mkPTier n ps a b = .ok t) : t.name = n := by
  unfold mkPTier at h
  simp only at h
  split at h
  · cases h; rfl
  · cases h

theorem edit_name {t t' : ITier Int} {o : Int} {rep : Report}
    (h : t.editTimestamps o rep = .ok t') : t'.name = t.name := by
  unfold ITier.editTimestamps at h
  simp only at h
  split at h
  · cases h
  · exact mkITier_name h

theorem pedit_name {t t' : PTier Int} {o : Int} {rep : Report}
    (h : t.editTimestamps o rep = .ok t') : t'.name = t.name := by
  unfold PTier.editTimestamps at h
  simp only at h
  split at h
  · cases h
  · exact mkPTier_name h

theorem any_edit_name {t t' : AnyTier Int} {o : Int} {rep : Report}
    (h : t.editTimestamps o rep = .ok t') : t'.name = t.name := by
  cases t with
  | I t =>
    obtain ⟨a, ha, rfl⟩ := map_ok h
    exact edit_name ha
  | P t =>
    obtain ⟨a, ha, rfl⟩ := map_ok h
    exact pedit_name ha

theorem addTier_names {g g' : Tg Int} {t : AnyTier Int} {rep : Report}
    (h : g.addTier t none rep = .ok g') : g'.names = g.names ++ [t.name] := by
  unfold Tg.addTier at h
  have h := ite_err h
  simp only at h
  have h := ite_err h
  cases h; simp [Tg.names]

theorem foldl_names_gen {β : Type} (S : Tg Int → β → Except Err (Tg Int)) (nm : β → String)
    (hS : ∀ acc x acc', S acc x = .ok acc' → acc'.names = acc.names ++ [nm x]) :
    ∀ (xs : List β) (acc r : Tg Int), xs.foldlM S acc = .ok r → r.names = acc.names ++ xs.map nm := by
  intro xs
  induction xs with
  | nil => intro acc r h; cases h; simp
  | cons x xs ih =>
    intro acc r h
    rw [List.foldlM_cons] at h
    obtain ⟨acc', h1, h2⟩ := bind_ok h
    rw [ih acc' r h2, hS acc x acc' h1]
    simp

/-- `Textgrid.editTimestamps` keeps the tier names and their order -/
theorem tg_shift_names (g g' : Tg Int) (o : Int) (rep : Report)
    (h : g.editTimestamps o rep = .ok g') : g'.names = g.names := by
  unfold Tg.editTimestamps at h
  have := foldl_names_gen _ (fun t : AnyTier Int => t.name)
    (by
      intro acc t acc' hs
      simp only at hs
      split at hs
      · obtain ⟨t', h3, h4⟩ := bind_ok hs
        cases h3
        exact addTier_names h4
      · obtain ⟨t', h3, h4⟩ := bind_ok hs
        rw [addTier_names h4, any_edit_name h3]) g.tiers (Tg.ofSpan g.lo g.hi) g' h
  rw [this]
  simp [Tg.names, Tg.ofSpan]

/-! ### appendTextgrid -/

theorem getTier_name {g : Tg Int} {n : String} {t : AnyTier Int} (h : g.getTier n = .ok t) :
    t.name = n := by
  unfold Tg.getTier at h
  split at h
  · rename_i t' hf
    cases h
    have := List.find?_some hf
    simpa using this
  · cases h

theorem new_name {t r : ITier Int} {nm : Option String} {es : Option (List (Iv Int))} {lo hi : Option Int}
    (h : t.new nm es lo hi = .ok r) : r.name = nm.getD t.name := mkITier_name h

theorem pnew_name {t r : PTier Int} {nm : Option String} {ps : Option (List (Pt Int))} {lo hi : Option Int}
    (h : t.new nm ps lo hi = .ok r) : r.name = nm.getD t.name := mkPTier_name h

theorem renew_name {t r : AnyTier Int} {lo hi : Option Int}
    (h : t.renew none lo hi = .ok r) : r.name = t.name := by
  cases t with
  | I t => obtain ⟨a, ha, rfl⟩ := map_ok h; exact new_name ha
  | P t => obtain ⟨a, ha, rfl⟩ := map_ok h; exact pnew_name ha

theorem catTier_name {t u r : AnyTier Int} {lo hi : Option Int}
    (h : Tg.catTier t u lo hi = .ok r) : r.name = t.name := by
  cases t with
  | I t =>
    cases u with
    | I u => obtain ⟨a, ha, rfl⟩ := map_ok h; exact new_name ha
    | P u => cases h
  | P t =>
    cases u with
    | I u => cases h
    | P u => obtain ⟨a, ha, rfl⟩ := map_ok h; exact pnew_name ha

theorem pyListInsert_nat {β : Type} (l : List β) (i : Nat) (x : β) :
    pyListInsert l (i : Int) x = l.take i ++ x :: l.drop i := by
  unfold pyListInsert
  simp only
  rw [if_neg (by omega : ¬ ((i : Int) < 0))]
  by_cases h : (i : Int) > (l.length : Int)
  · rw [if_pos h]
    have : l.length ≤ i := by omega
    simp [List.take_of_length_le this, List.drop_of_length_le this]
  · rw [if_neg h]; simp

/-- popping the (unique) name `n` and re-inserting it at its old index gives the old order -/
theorem reinsert_names (l : List String) (n : String) (hn : l.Nodup) :
    ∀ i, l.findIdx? (· == n) = some i →
      (l.filter (· != n)).take i ++ n :: (l.filter (· != n)).drop i = l := by
  induction l with
  | nil => intro i hi; simp at hi
  | cons x xs ih =>
    intro i hi
    obtain ⟨hx, hxs⟩ := List.nodup_cons.1 hn
    rw [List.findIdx?_cons] at hi
    by_cases hxn : x = n
    · subst hxn
      simp only [beq_self_eq_true, if_true, Option.some.injEq] at hi
      subst hi
      have : xs.filter (· != x) = xs := by
        apply List.filter_eq_self.2
        intro a ha
        have : a ≠ x := fun h => hx (h ▸ ha)
        simpa using this
      simp [this]
    · have hb : (x == n) = false := by simpa using hxn
      simp only [hb] at hi
      cases hj : xs.findIdx? (· == n) with
      | none => simp [hj] at hi
      | some j =>
        simp only [hj, Option.map_some, Bool.false_eq_true, if_false, Option.some.injEq] at hi
        subst hi
        have hne : (x != n) = true := by simpa using hxn
        simp only [List.filter_cons, hne, if_true, List.take_succ_cons, List.drop_succ_cons,
          List.cons_append]
        rw [ih hxs j hj]

theorem replaceTier_names {g g' : Tg Int} {n : String} {t : AnyTier Int} {rep : Report}
    (hn : g.names.Nodup) (ht : t.name = n) (h : g.replaceTier n t rep = .ok g') :
    g'.names = g.names := by
  unfold Tg.replaceTier at h
  split at h
  · cases h
  · rename_i i hi
    obtain ⟨g1, h1, h2⟩ := bind_ok h
    unfold Tg.removeTier at h1
    split at h1
    · cases h1
      unfold Tg.addTier at h2
      have h2 := ite_err h2
      simp only at h2
      have h2 := ite_err h2
      cases h2
      unfold Tg.indexOf at hi
      have := reinsert_names g.names n hn i hi
      simp only [Tg.names, pyListInsert_nat, List.map_append, List.map_cons, List.map_take, List.map_drop,
        ht] at this ⊢
      rw [List.filter_map] at this
      exact this
    · cases h1

/-- appending a name unless it is already there -/
def addNew (acc : List String) (n : String) : List String := if acc.contains n then acc else acc ++ [n]

theorem addNew_nodup {acc : List String} (n : String) (h : acc.Nodup) : (addNew acc n).Nodup := by
  unfold addNew
  split
  · exact h
  · rename_i hc
    have : n ∉ acc := by simpa using hc
    rw [List.nodup_append]
    refine ⟨h, by simp, ?_⟩
    intro a ha b hb
    simp only [List.mem_singleton] at hb
    subst hb
    exact fun hab => this (hab ▸ ha)

theorem foldl_addNew_old (L acc : List String) (h : ∀ n ∈ L, n ∈ acc) : L.foldl addNew acc = acc := by
  induction L with
  | nil => rfl
  | cons x xs ih =>
    have hx : acc.contains x = true := by simpa using h x (by simp)
    rw [List.foldl_cons, addNew, if_pos hx]
    exact ih (fun n hn => h n (List.mem_cons_of_mem _ hn))

theorem foldl_addNew_new (L : List String) (hL : L.Nodup) :
    ∀ acc : List String, (∀ n ∈ L, n ∉ acc) → L.foldl addNew acc = acc ++ L := by
  induction L with
  | nil => intro acc _; simp
  | cons x xs ih =>
    intro acc h
    obtain ⟨hx, hxs⟩ := List.nodup_cons.1 hL
    have hc : ¬ (acc.contains x = true) := by simpa using h x (by simp)
    rw [List.foldl_cons, addNew, if_neg hc, ih hxs]
    · simp
    · intro n hn hm
      rcases List.mem_append.1 hm with hm | hm
      · exact h n (List.mem_cons_of_mem _ hn) hm
      · simp only [List.mem_singleton] at hm
        subst hm
        exact hx hn

theorem foldl_names_addNew (S : Tg Int → String → Except Err (Tg Int))
    (hS : ∀ acc n acc', acc.names.Nodup → S acc n = .ok acc' → acc'.names = addNew acc.names n) :
    ∀ (L : List String) (acc r : Tg Int), acc.names.Nodup → L.foldlM S acc = .ok r →
      r.names = L.foldl addNew acc.names := by
  intro L
  induction L with
  | nil => intro acc r _ h; cases h; rfl
  | cons x xs ih =>
    intro acc r hn h
    rw [List.foldlM_cons] at h
    obtain ⟨acc', h1, h2⟩ := bind_ok h
    have e := hS acc x acc' hn h1
    rw [ih acc' r (e ▸ addNew_nodup x hn) h2, e]
    rfl

theorem names_lemA (A B : List String) :
    (A ++ B.filter (fun n => !A.contains n)).filter A.contains = A := by
  rw [List.filter_append, List.filter_filter]
  have h1 : A.filter A.contains = A := List.filter_eq_self.2 (by intro a ha; simpa using ha)
  have h2 : B.filter (fun a => A.contains a && !A.contains a) = [] :=
    List.filter_eq_nil_iff.2 (by intro a _; simp)
  rw [h1, h2, List.append_nil]

theorem names_lemB (A B : List String) :
    (A ++ B.filter (fun n => !A.contains n)).filter B.contains =
      A.filter B.contains ++ B.filter (fun n => !A.contains n) := by
  rw [List.filter_append]
  congr 1
  apply List.filter_eq_self.2
  intro a ha
  simpa using (List.mem_filter.1 ha).1

theorem names_lemC (A B : List String) :
    (A ++ B.filter (fun n => !A.contains n)).filter (fun n => A.contains n && B.contains n) =
      A.filter B.contains := by
  rw [List.filter_append, List.filter_filter]
  have h2 : B.filter (fun a => (A.contains a && B.contains a) && !A.contains a) = [] :=
    List.filter_eq_nil_iff.2 (by intro a _; cases A.contains a <;> simp)
  rw [h2, List.append_nil]
  apply List.filter_congr
  intro a ha
  have : A.contains a = true := by simpa using ha
  rw [this, Bool.true_and]

theorem names_lemD (A B : List String) :
    (A.filter B.contains).filter A.contains = A.filter B.contains := by
  apply List.filter_eq_self.2
  intro a ha
  simpa using (List.mem_filter.1 ha).1

theorem names_lemE (A B : List String) :
    (A.filter B.contains).filter B.contains = A.filter B.contains := by
  apply List.filter_eq_self.2
  intro a ha
  exact (List.mem_filter.1 ha).2

theorem names_comb_nodup (A B : List String) (hA : A.Nodup) (hB : B.Nodup) :
    (A ++ B.filter (fun n => !A.contains n)).Nodup := by
  rw [List.nodup_append]
  refine ⟨hA, hB.filter _, ?_⟩
  intro a ha b hb hab
  subst hab
  have := (List.mem_filter.1 hb).2
  simp [ha] at this

theorem appendTg_names (g h r : Tg Int) (om : Bool) (hg : g.names.Nodup) (hh : h.names.Nodup)
    (hr : g.appendTextgrid h om = .ok r) :
    r.names = (if om then g.names.filter (h.names.contains ·)
               else g.names ++ h.names.filter (fun n => !g.names.contains n)) := by
  unfold Tg.appendTextgrid at hr
  split at hr
  · rename_i ghi hhi _ _
    simp only at hr
    obtain ⟨r1, h1, h2⟩ := bind_ok hr
    -- first loop: the selected tiers of `g`, in order
    have e1 := foldl_names_gen _ (fun n : String => n)
      (by
        intro acc n acc' hs
        obtain ⟨t, ht, ha⟩ := bind_ok hs
        rw [addTier_names ha, getTier_name ht]) _ _ _ h1
    have hof : (Tg.ofSpan g.lo (some (ghi + hhi)) : Tg Int).names = [] := rfl
    rw [hof, List.nil_append, List.map_id'] at e1
    have hn1 : r1.names.Nodup := by
      have hc := names_comb_nodup g.names h.names hg hh
      rw [e1]
      refine List.Pairwise.filter _ ?_
      split
      · exact hc.filter _
      · exact hc
    -- second loop: a matching tier is replaced in place, a new one is added at the end
    have e2 := foldl_names_addNew _
      (by
        intro acc n acc' hn hs
        obtain ⟨t, ht, hs⟩ := bind_ok hs
        obtain ⟨t1, ht1, hs⟩ := bind_ok hs
        obtain ⟨t2, ht2, hs⟩ := bind_ok hs
        have hname : t2.name = n := by
          rw [any_edit_name ht2, renew_name ht1, getTier_name ht]
        unfold addNew
        split at hs
        · rename_i hc
          obtain ⟨cur, hcur, hs⟩ := bind_ok hs
          obtain ⟨nt, hnt, hs⟩ := bind_ok hs
          rw [if_pos hc]
          exact replaceTier_names hn (by rw [catTier_name hnt, getTier_name hcur]) hs
        · rename_i hc
          obtain ⟨nt, hnt, hs⟩ := bind_ok hs
          rw [if_neg hc, addTier_names hs, renew_name hnt, hname]) _ r1 r hn1 h2
    cases om with
    | false =>
      simp only [Bool.false_eq_true, if_false] at e1 e2 ⊢
      rw [names_lemA] at e1
      rw [e2, e1, names_lemB, List.foldl_append,
        foldl_addNew_old _ _ (fun n hn => (List.mem_filter.1 hn).1)]
      apply foldl_addNew_new _ (hh.filter _)
      intro n hn
      simpa using (List.mem_filter.1 hn).2
    | true =>
      simp only [if_true] at e1 e2 ⊢
      rw [names_lemC, names_lemD] at e1
      rw [names_lemC, names_lemE] at e2
      rw [e2, e1]
      exact foldl_addNew_old _ _ (fun n hn => hn)
  · cases hr

/-! ## the excluded case of `append_spec`: tiers on negative times -/

def negA : ITier Int := ⟨"A", [⟨-4, -3, "a"⟩], -5, -2⟩
def posB : ITier Int := ⟨"B", [⟨1, 2, "b"⟩], 0, 3⟩
def posA : ITier Int := ⟨"A", [⟨1, 2, "a"⟩], 0, 4⟩
def negB : ITier Int := ⟨"B", [⟨-6, -5, "x"⟩, ⟨-2, 1, "y"⟩, ⟨1, 2, "b"⟩], -7, 3⟩
def posA2 : ITier Int := ⟨"A", [⟨2, 4, "a"⟩], 0, 8⟩
def negB2 : ITier Int := ⟨"B", [⟨-10, -7, "x"⟩], -10, 6⟩

theorem negA_wf : negA.WF := by
  refine ⟨?_, ?_, ?_, ?_, ?_, ?_⟩ <;> simp [negA, Pos, Disj, Stripped] <;> decide
theorem posB_wf : posB.WF := by
  refine ⟨?_, ?_, ?_, ?_, ?_, ?_⟩ <;> simp [posB, Pos, Disj, Stripped] <;> decide
theorem posA_wf : posA.WF := by
  refine ⟨?_, ?_, ?_, ?_, ?_, ?_⟩ <;> simp [posA, Pos, Disj, Stripped] <;> decide
theorem negB_wf : negB.WF := by
  refine ⟨?_, ?_, ?_, ?_, ?_, ?_⟩ <;> simp [negB, Pos, Disj, Stripped] <;> decide
theorem posA2_wf : posA2.WF := by
  refine ⟨?_, ?_, ?_, ?_, ?_, ?_⟩ <;> simp [posA2, Pos, Disj, Stripped] <;> decide
theorem negB2_wf : negB2.WF := by
  refine ⟨?_, ?_, ?_, ?_, ?_, ?_⟩ <;> simp [negB2, Pos, Disj, Stripped] <;> decide

/-- `appendTier` evaluated, no hypothesis on signs: `B`'s entries are moved by `A`'s end, those landing wholly before
time 0 are dropped and one crossing 0 is clipped (`shiftClip`); if the sorted concatenation `R` is an admissible entry
list, the result has exactly these entries, and its span is the hull of `R`, `A`'s start and the sum of both ends
(the two ends in order: the constructor swaps them if an entry-less result comes out reversed, fix 9432f3b) -/
theorem append_eval (t u : ITier Int) (hu : u.WF) (R : List (Iv Int))
    (hR : sortIvs (t.es ++ u.es.filterMap (fun iv => (shiftClip t.hi u.lo u.hi iv).2)) = R)
    (hp : Pos R) (hd : Disj R) (hs : Stripped R) :
    t.appendTier u = .ok ⟨t.name, R,
      min (hullMin (R.map (·.s)) t.lo) (hullMax (R.map (·.e)) (t.hi + u.hi)),
      max (hullMin (R.map (·.s)) t.lo) (hullMax (R.map (·.e)) (t.hi + u.hi))⟩ := by
  obtain ⟨u', e1, _, _, hes, _, _⟩ := shift_ok u hu t.hi .silence (by decide)
  unfold ITier.appendTier ITier.new
  rw [e1]
  simp only [bind, Except.bind, Option.getD_some, Option.getD_none, hes, hR]
  exact mkITier_of_wf_any t.name R t.lo (t.hi + u.hi) hp hd hs

/-- **FINDING (replayed on the real class) — `appendTier` on negative times loses entries silently.**
The property text says: appending `B` to `A` yields `A`'s entries unchanged followed by `B`'s entries shifted by `A`'s end
time.  All six tiers below are well-formed (they pass the constructor and `validate()`).

1. `A` ends before time 0 (`0 ≤ t.hi` fails): `IntervalTier('A',[(-4,-3,'a')],-5,-2).appendTier(IntervalTier('B',[(1,2,'b')],0,3))`
   returns entries `[(-4,-3,'a')]`, span `[-5, 1]` — `B`'s only entry (it would be `(-1, 0, 'b')`) is gone, no error, no warning.
2. `B` starts before time 0 (`0 ≤ u.lo` fails): `IntervalTier('A',[(1,2,'a')],0,4).appendTier(IntervalTier('B',[(-6,-5,'x'),(-2,1,'y'),(1,2,'b')],-7,3))`
   returns `[(1,2,'a'),(2,5,'y'),(5,6,'b')]` — `'x'` (it would be `(-2,-1)`) is dropped.
3. `IntervalTier('A',[(2,4,'a')],0,8).appendTier(IntervalTier('B',[(-10,-7,'x')],-10,6))` returns `[(0,1,'x'),(2,4,'a')]`:
   `B`'s entry, moved to `(-2, 1)`, is clipped to `(0, 1)` and stands BEFORE `A`'s entry.
4. entry-less tiers: `IntervalTier('A',[],0,1).appendTier(IntervalTier('B',[],-5,-3))` returns a tier spanning `[-2, 0]`:
   the requested span `[0, 1 + (-3)]` is reversed and the constructor puts it in order (fix 9432f3b, finding A29; before
   the fix the tier spanned `[0, -2]`) — well-formed, but the start of `A` is not kept.

Expected per the property text: (1) `[(-4,-3,'a'),(-1,0,'b')]`, (2) `'x'` kept at `(-2,-1)` or a praatio error,
(3) `(-2,1,'x')` or a praatio error.  Cause: `appendTier`
shifts `B` with `editTimestamps(self.maxTimestamp)`, whose dropping/clipping at time 0 (documented for `editTimestamps`
itself) is a side effect here.  `Textgrid.appendTextgrid` behaves the same on (1) and (2) (replayed). -/
theorem append_negative_counterexample :
    negA.WF ∧ posB.WF ∧ negA.appendTier posB = .ok ⟨"A", [⟨-4, -3, "a"⟩], -5, 1⟩ ∧
    posA.WF ∧ negB.WF ∧ posA.appendTier negB = .ok ⟨"A", [⟨1, 2, "a"⟩, ⟨2, 5, "y"⟩, ⟨5, 6, "b"⟩], 0, 7⟩ ∧
    posA2.WF ∧ negB2.WF ∧ posA2.appendTier negB2 = .ok ⟨"A", [⟨0, 1, "x"⟩, ⟨2, 4, "a"⟩], 0, 14⟩ ∧
    (⟨"A", [], 0, 1⟩ : ITier Int).appendTier ⟨"B", [], -5, -3⟩ = .ok ⟨"A", [], -2, 0⟩ := by
  have wfR2 : (⟨"R", [⟨1, 2, "a"⟩, ⟨2, 5, "y"⟩, ⟨5, 6, "b"⟩], 0, 7⟩ : ITier Int).WF := by
    refine ⟨?_, ?_, ?_, ?_, ?_, ?_⟩ <;> simp [Pos, Disj, Stripped] <;> decide
  have wfR3 : (⟨"R", [⟨0, 1, "x"⟩, ⟨2, 4, "a"⟩], 0, 14⟩ : ITier Int).WF := by
    refine ⟨?_, ?_, ?_, ?_, ?_, ?_⟩ <;> simp [Pos, Disj, Stripped] <;> decide
  have wfE : (⟨"B", [], -5, -3⟩ : ITier Int).WF := by
    refine ⟨?_, ?_, ?_, ?_, ?_, ?_⟩ <;> simp [Pos, Disj, Stripped]
  refine ⟨negA_wf, posB_wf, ?_, posA_wf, negB_wf, ?_, posA2_wf, negB2_wf, ?_, ?_⟩
  · rw [append_eval negA posB posB_wf [⟨-4, -3, "a"⟩] (by
      have : posB.es.filterMap (fun iv => (shiftClip negA.hi posB.lo posB.hi iv).2) = [] := by decide
      rw [this]; exact sortIvs_of_wf _ negA_wf.pos negA_wf.disj) negA_wf.pos negA_wf.disj negA_wf.stripped]
    rfl
  · rw [append_eval posA negB negB_wf [⟨1, 2, "a"⟩, ⟨2, 5, "y"⟩, ⟨5, 6, "b"⟩] (by
      have : posA.es ++ negB.es.filterMap (fun iv => (shiftClip posA.hi negB.lo negB.hi iv).2) =
          [⟨1, 2, "a"⟩, ⟨2, 5, "y"⟩, ⟨5, 6, "b"⟩] := by decide
      rw [this]; exact sortIvs_of_wf _ wfR2.pos wfR2.disj) wfR2.pos wfR2.disj wfR2.stripped]
    rfl
  · rw [append_eval posA2 negB2 negB2_wf [⟨0, 1, "x"⟩, ⟨2, 4, "a"⟩] (by
      have : posA2.es ++ negB2.es.filterMap (fun iv => (shiftClip posA2.hi negB2.lo negB2.hi iv).2) =
          [⟨2, 4, "a"⟩, ⟨0, 1, "x"⟩] := by decide
      rw [this]
      simp [sortIvs, List.mergeSort, List.MergeSort.Internal.splitInTwo, Iv.le]) wfR3.pos wfR3.disj wfR3.stripped]
    rfl
  · rw [append_eval ⟨"A", [], 0, 1⟩ ⟨"B", [], -5, -3⟩ wfE [] (by simp [sortIvs]) (by simp [Pos]) (by simp [Disj])
      (by simp [Stripped])]
    rfl

/-! ## non-vacuity: concrete well-formed tiers meet the hypotheses -/

def exTier : ITier Int := ⟨"T", [⟨1, 3, "a"⟩, ⟨3, 6, "b"⟩, ⟨8, 9, "c"⟩], 0, 10⟩
def exTier2 : ITier Int := ⟨"U", [⟨0, 2, "x"⟩, ⟨4, 5, "y"⟩], 0, 5⟩
def exPTier : PTier Int := ⟨"P", [⟨1, "p"⟩, ⟨4, "q"⟩, ⟨4, "r"⟩], 0, 10⟩

theorem exTier_wf : exTier.WF := by
  refine ⟨?_, ?_, ?_, ?_, ?_, ?_⟩ <;> simp [exTier, Pos, Disj, Stripped] <;> decide

theorem exTier2_wf : exTier2.WF := by
  refine ⟨?_, ?_, ?_, ?_, ?_, ?_⟩ <;> simp [exTier2, Pos, Disj, Stripped] <;> decide

theorem exPTier_wf : exPTier.WF := by
  refine ⟨?_, ?_, ?_, ?_, ?_⟩ <;> simp [exPTier, Pt.le] <;> decide

example : exTier.WF ∧ exTier2.WF ∧ (0 : Int) ≤ exTier2.lo ∧ (0 : Int) ≤ exTier.hi :=
  ⟨exTier_wf, exTier2_wf, by decide, by decide⟩
example : ∀ iv ∈ exTier.es, (0 : Int) ≤ 5 + iv.s ∧ 0 ≤ iv.s := by simp [exTier]

-- evaluated illustrations (interpreter tests, not proofs)
-- moved by +5: the span grows at the right end only
#guard (exTier.editTimestamps 5 .silence).toOption.map (fun t => (t.es, t.lo, t.hi)) ==
    some ([⟨6, 8, "a"⟩, ⟨8, 11, "b"⟩, ⟨13, 14, "c"⟩], 0, 14)
-- moved by -4: "a" ends before 0 and is dropped, "b" crosses 0 and is clipped; the span never shrinks
#guard (exTier.editTimestamps (-4) .warning).toOption.map (fun t => (t.es, t.lo, t.hi)) ==
    some ([⟨0, 2, "b"⟩, ⟨4, 5, "c"⟩], 0, 10)
-- everything dropped: an empty tier with the old span, not an error
#guard (exTier.editTimestamps (-20) .silence).toOption.map (fun t => (t.es, t.lo, t.hi)) == some ([], 0, 10)
-- `error` mode raises exactly when an entry leaves the old span
#guard (match exTier.editTimestamps 5 .error with | .error .OutOfBounds => true | _ => false)
#guard (exTier.editTimestamps 1 .error).toOption.map (fun t => (t.es, t.lo, t.hi)) ==
    some ([⟨2, 4, "a"⟩, ⟨4, 7, "b"⟩, ⟨9, 10, "c"⟩], 0, 10)
-- +5 then -5
#guard ((exTier.editTimestamps 5 .silence).toOption.bind fun t1 =>
    (t1.editTimestamps (-5) .silence).toOption.map (·.es)) == some exTier.es
-- the counterexample to the unconditional round trip
#guard ((cexTier.editTimestamps 10 .silence).toOption.bind fun t1 =>
    (t1.editTimestamps (-10) .silence).toOption.map (·.es)) == some []
-- appendTier
#guard (exTier.appendTier exTier2).toOption.map (fun t => (t.name, t.es, t.lo, t.hi)) ==
    some ("T", [⟨1, 3, "a"⟩, ⟨3, 6, "b"⟩, ⟨8, 9, "c"⟩, ⟨10, 12, "x"⟩, ⟨14, 15, "y"⟩], 0, 15)
-- point tier: the point at 1 is dropped by -2
#guard (exPTier.editTimestamps (-2) .silence).toOption.map (fun t => (t.ps, t.lo, t.hi)) ==
    some ([⟨2, "q"⟩, ⟨2, "r"⟩], 0, 10)
-- textgrid level
#guard ((⟨[.I exTier, .P exPTier], some 0, some 10⟩ : Tg Int).editTimestamps 3 .silence).toOption.map (·.names) ==
    some ["T", "P"]
#guard ((⟨[.I exTier, .P exPTier], some 0, some 10⟩ : Tg Int).appendTextgrid
    ⟨[.I exTier2, .I exTier], some 0, some 10⟩ false).toOption.map (·.names) == some ["T", "P", "U"]
#guard ((⟨[.I exTier, .P exPTier], some 0, some 10⟩ : Tg Int).appendTextgrid
    ⟨[.I exTier2, .I exTier], some 0, some 10⟩ true).toOption.map (·.names) == some ["T"]

end C09
