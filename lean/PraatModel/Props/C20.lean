/-! # C20 — property theorems (to be filled) -/
