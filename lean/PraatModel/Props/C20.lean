import PraatModel.Numeric
import PraatModel.Lemmas.Tier

/-!
# C20 — numeric series helpers match their textbook definitions

Theorems about the model `PraatModel/Numeric.lean`.  Series are lists of unbounded `Int` (every finite set
of binary64 values is a set of integers after one power-of-two scaling, and the functions here only
compare and select); the jump test of `detectPitchErrors` multiplies and divides, so its theorems are over
the exact rationals `Rat` (Lean core).  Lists have any length, windows any size.
`mean`/`stdev`/`sqrt`/`rms`/z-normalisation are not modelled (checked by the Python oracle only).
-/
namespace C20
open Numeric

/-! ## the textbook window: `[xs[clamp (i + k)] | k = -off .. off]` -/

/-- clamp an index to `[0, n-1]` -/
def clampIdx (n : Nat) (j : Int) : Nat := (min (max j 0) ((n : Int) - 1)).toNat

theorem clampIdx_lt {n : Nat} (h : 0 < n) (j : Int) : clampIdx n j < n := by
  unfold clampIdx; omega

/-- `[xs[clamp (i - off)], …, xs[i], …, xs[clamp (i + off)]]` (`d` is only a default for `getD`; by
`clampedWindow_getElem` it is never used on a non-empty list) -/
def clampedWindow {α : Type} (xs : List α) (d : α) (i off : Nat) : List α :=
  (List.range (2 * off + 1)).map fun (k : Nat) => xs.getD (clampIdx xs.length ((i : Int) + (k : Int) - (off : Int))) d

theorem clampedWindow_length {α : Type} (xs : List α) (d : α) (i off : Nat) :
    (clampedWindow xs d i off).length = 2 * off + 1 := by
  simp [clampedWindow]

theorem clampedWindow_getElem {α : Type} (xs : List α) (d : α) (i off k : Nat) (hn : 0 < xs.length)
    (hk : k < 2 * off + 1) :
    (clampedWindow xs d i off)[k]'(by simpa [clampedWindow] using hk) =
      xs[clampIdx xs.length ((i : Int) + (k : Int) - (off : Int))]'(clampIdx_lt hn _) := by
  simp [clampedWindow, List.getD_eq_getElem?_getD, clampIdx_lt hn]

/-! ## the inner loop of `_stepFilter` -/

theorem ctxLoop_succ {α : Type} (dist : List α) (v : α) (x n k : Nat) :
    ctxLoop dist v x n (k + 1) = ctxStep dist v x n (ctxLoop dist v x n k) (k + 1) := by
  unfold ctxLoop
  rw [List.range'_concat, List.foldl_append]
  simp [Nat.add_comm]

/-- `lastKnownLargeIndex` after `k` rounds: still 0 if nothing to the right exists, else `min (x+k) (n-1)` -/
theorem ctx_last {α : Type} (dist : List α) (v : α) (x n k : Nat) (hx : x < n) :
    (ctxLoop dist v x n k).last = if 0 < k ∧ x + 1 < n then min (x + k) (n - 1) else 0 := by
  induction k with
  | zero => simp [ctxLoop]
  | succ k ih =>
    rw [ctxLoop_succ]
    simp only [ctxStep, largeIndex, ih]
    by_cases h1 : x + (k + 1) ≥ n
    · simp only [h1, if_true]
      split <;> split <;> omega
    · simp only [h1, if_false]
      split <;> omega

/-- the `lastKnownLargeIndex` device computes `min (x + y) (n - 1)`: the right neighbour, clamped -/
theorem largeIndex_eq {α : Type} (dist : List α) (v : α) (x n k : Nat) (hx : x < n) :
    (largeIndex x n (ctxLoop dist v x n k).last (k + 1)).1 = min (x + (k + 1)) (n - 1) := by
  rw [ctx_last dist v x n k hx]
  unfold largeIndex
  by_cases h1 : x + (k + 1) ≥ n
  · by_cases h2 : 0 < k ∧ x + 1 < n
    · have h3 : ¬ (min (x + k) (n - 1) = 0) := by omega
      simp only [h1, h2, if_true, and_self, beq_iff_eq, h3, if_false]; omega
    · simp only [h1, h2, if_true, if_false, beq_self_eq_true]; omega
  · simp only [h1, if_false]; omega

theorem largeIndex_lt {α : Type} (dist : List α) (v : α) (x n k : Nat) (hx : x < n) :
    (largeIndex x n (ctxLoop dist v x n k).last (k + 1)).1 < n := by
  rw [largeIndex_eq dist v x n k hx]; omega

theorem smallIndex_eq (x y : Nat) : smallIndex x y = x - y := by
  unfold smallIndex; split <;> omega

theorem ctx_post {α : Type} (dist : List α) (v : α) (x n k : Nat) (hx : x < n) :
    (ctxLoop dist v x n k).post = (List.range k).map fun j => dist.getD (min (x + (j + 1)) (n - 1)) v := by
  induction k with
  | zero => simp [ctxLoop]
  | succ k ih =>
    rw [ctxLoop_succ]
    simp only [ctxStep]
    rw [largeIndex_eq dist v x n k hx, ih, List.range_succ, List.map_append]
    simp

theorem ctx_pre {α : Type} (dist : List α) (v : α) (x n k : Nat) :
    (ctxLoop dist v x n k).pre = (List.range k).map fun j => dist.getD (x - (k - j)) v := by
  induction k with
  | zero => simp [ctxLoop]
  | succ k ih =>
    rw [ctxLoop_succ]
    simp only [ctxStep]
    rw [smallIndex_eq, ih, List.range_succ_eq_map, List.map_cons, List.map_map]
    simp [Function.comp_def]

/-! ## `_stepFilter` against the textbook window -/

/-- the window handed to the filter function always has odd length `2 * offset + 1` (any position) -/
theorem window_odd_length {α : Type} (dist : List α) (v : α) (x off : Nat) :
    (dataToFilter dist v x off).length = 2 * off + 1 := by
  simp only [dataToFilter, List.length_append, ctx_pre, List.length_map, List.length_range,
    List.length_cons, List.length_nil]
  have : (ctxLoop dist v x dist.length off).post.length = off := by
    induction off with
    | zero => simp [ctxLoop]
    | succ k ih => rw [ctxLoop_succ]; simp [ctxStep, ih]
  omega

/-- what `_stepFilter` hands to the filter function at position `x` is the clamped window around `x` -/
theorem dataToFilter_eq {α : Type} (xs : List α) (x off : Nat) (hx : x < xs.length) :
    dataToFilter xs xs[x] x off = clampedWindow xs xs[x] x off := by
  apply List.ext_getElem
  · rw [window_odd_length, clampedWindow_length]
  · intro m h1 h2
    rw [clampedWindow_length] at h2
    rw [clampedWindow_getElem xs xs[x] x off m (by omega) h2]
    simp only [dataToFilter, ctx_pre, ctx_post xs xs[x] x xs.length off hx]
    by_cases hm : m < off
    · rw [List.getElem_append_left (by simp; omega), List.getElem_append_left (by simp; omega)]
      simp only [List.getElem_map, List.getElem_range]
      have : clampIdx xs.length ((x : Int) + (m : Int) - (off : Int)) = x - (off - m) := by
        unfold clampIdx; omega
      simp only [this]
      rw [List.getD_eq_getElem?_getD, List.getElem?_eq_getElem (by omega)]; rfl
    · by_cases hm2 : m = off
      · subst hm2
        rw [List.getElem_append_left (by simp), List.getElem_append_right (by simp)]
        have : clampIdx xs.length (x : Int) = x := by
          unfold clampIdx; omega
        simp [this]
      · rw [List.getElem_append_right (by simp; omega)]
        simp only [List.length_append, List.length_map, List.length_range, List.length_cons,
          List.length_nil, List.getElem_map, List.getElem_range]
        have : clampIdx xs.length ((x : Int) + (m : Int) - (off : Int)) =
            min (x + (m - (off + (0 + 1)) + 1)) (xs.length - 1) := by
          unfold clampIdx; omega
        simp only [this]
        rw [List.getD_eq_getElem?_getD, List.getElem?_eq_getElem (by omega)]; rfl

/-- `_stepFilter` preserves the length, for every filter function, window and padding flag -/
theorem stepFilter_length {α : Type} (f : List α → α) (xs : List α) (window : Nat) (pad : Bool) :
    (stepFilter f xs window pad).length = xs.length := by
  simp [stepFilter]

/-- **`_stepFilter` is the clamped sliding window.**  For every filter function `f`, series, window size and
padding flag, element `i` of the result is `f [xs[clamp (i + k)] | k = -off .. off]` with
`off = window / 2` and indices clamped to `[0, n-1]` when padding is on or the window fits
(`off ≤ i ∧ i + off < n`), and `xs[i]` unchanged otherwise. -/
theorem stepFilter_spec {α : Type} (f : List α → α) (xs : List α) (window : Nat) (pad : Bool) (i : Nat)
    (hi : i < xs.length) :
    (stepFilter f xs window pad)[i]'(by rw [stepFilter_length]; exact hi) =
      if pad = true ∨ (window / 2 ≤ i ∧ i + window / 2 < xs.length) then
        f (clampedWindow xs xs[i] i (window / 2))
      else xs[i] := by
  simp only [stepFilter, List.getElem_map, List.getElem_zipIdx, Nat.zero_add]
  rw [dataToFilter_eq xs i (window / 2) hi]
  simp only [Bool.or_eq_true, Bool.and_eq_true, decide_eq_true_eq]

/-- without padding the first and last `window / 2` elements are returned unchanged -/
theorem stepFilter_edges {α : Type} (f : List α → α) (xs : List α) (window : Nat) (i : Nat)
    (hi : i < xs.length) (hedge : i < window / 2 ∨ xs.length ≤ i + window / 2) :
    (stepFilter f xs window false)[i]'(by rw [stepFilter_length]; exact hi) = xs[i] := by
  rw [stepFilter_spec f xs window false i hi, if_neg]
  simp only [Bool.false_eq_true, false_or]; omega

/-! ## the median of an odd-length window is the middle element of its sort: no arithmetic -/

theorem pySorted_perm (w : List Int) : (pySorted w).Perm w := List.mergeSort_perm _ _

theorem pySorted_length (w : List Int) : (pySorted w).length = w.length := (pySorted_perm w).length_eq

theorem pySorted_sorted (w : List Int) : (pySorted w).Pairwise (· ≤ ·) := by
  have h := List.pairwise_mergeSort (le := fun (a b : Int) => decide (a ≤ b))
    (by intro a b c; simp only [decide_eq_true_eq]; omega)
    (by intro a b; simp only [Bool.or_eq_true, decide_eq_true_eq]; omega) w
  exact h.imp (by intro a b; simp)

theorem sorted_le {s : List Int} (hs : s.Pairwise (· ≤ ·)) (i j : Nat) (hj : j < s.length) (hij : i ≤ j) :
    s[i]'(by omega) ≤ s[j] := by
  rcases Nat.lt_or_ge i j with h | h
  · exact (List.pairwise_iff_getElem.1 hs) i j (by omega) hj h
  · have : i = j := by omega
    subst this; exact Int.le_refl _

/-- `statistics.median` of a window of odd length `2k+1` is element `k` of the sorted window -/
theorem median_mid (w : List Int) (k : Nat) (h : w.length = 2 * k + 1) :
    (pySorted w)[k]? = some (median w) ∧ (pySorted w).Perm w ∧ (pySorted w).Pairwise (· ≤ ·) := by
  refine ⟨?_, pySorted_perm w, pySorted_sorted w⟩
  have hk : k < (pySorted w).length := by rw [pySorted_length]; omega
  have : w.length / 2 = k := by omega
  simp [median, this, List.getD_eq_getElem?_getD, List.getElem?_eq_getElem hk]

theorem median_mem (w : List Int) (h : w ≠ []) : median w ∈ w := by
  have hl : 0 < w.length := List.length_pos_iff.2 h
  have hk : w.length / 2 < (pySorted w).length := by rw [pySorted_length]; omega
  have : median w = (pySorted w)[w.length / 2] := by
    simp [median, List.getD_eq_getElem?_getD, List.getElem?_eq_getElem hk]
  rw [this]
  exact (pySorted_perm w).mem_iff.1 (List.getElem_mem hk)

/-- the textbook characterisation: at most `k` elements of the `2k+1` are smaller than the median and at most
`k` are larger -/
theorem median_rank (w : List Int) (k : Nat) (h : w.length = 2 * k + 1) :
    w.countP (fun x => decide (x < median w)) ≤ k ∧ w.countP (fun x => decide (median w < x)) ≤ k := by
  obtain ⟨hm, hp, hs⟩ := median_mid w k h
  have hlen : (pySorted w).length = 2 * k + 1 := by rw [pySorted_length, h]
  have hk : k < (pySorted w).length := by omega
  have hmk : median w = (pySorted w)[k] := by
    rw [List.getElem?_eq_getElem hk] at hm; exact (Option.some.inj hm).symm
  rw [← hp.countP_eq, ← hp.countP_eq]
  generalize pySorted w = s at *
  constructor
  · rw [← List.take_append_drop k s, List.countP_append]
    have h0 : (List.drop k s).countP (fun x => decide (x < median w)) = 0 := by
      rw [List.countP_eq_zero]
      intro a ha
      obtain ⟨j, hj, rfl⟩ := List.mem_drop_iff_getElem.1 ha
      have := sorted_le hs k (k + j) (by omega) (by omega)
      simp only [decide_eq_true_eq, hmk]; omega
    have h1 := List.countP_le_length (p := fun x => decide (x < median w)) (l := List.take k s)
    rw [List.length_take] at h1
    omega
  · rw [← List.take_append_drop (k + 1) s, List.countP_append]
    have h0 : (List.take (k + 1) s).countP (fun x => decide (median w < x)) = 0 := by
      rw [List.countP_eq_zero]
      intro a ha
      obtain ⟨j, hj, rfl⟩ := List.mem_take_iff_getElem.1 ha
      have hj' : j < k + 1 := by omega
      have := sorted_le hs j k hk (by omega)
      simp only [decide_eq_true_eq, hmk]; omega
    have h1 := List.countP_le_length (p := fun x => decide (median w < x)) (l := List.drop (k + 1) s)
    rw [List.length_drop] at h1
    omega

/-- … and that characterisation determines the median: it does not depend on how ties are ordered -/
theorem median_unique (w : List Int) (k : Nat) (h : w.length = 2 * k + 1) (m : Int)
    (hlt : w.countP (fun x => decide (x < m)) ≤ k) (hgt : w.countP (fun x => decide (m < x)) ≤ k) :
    m = median w := by
  obtain ⟨h1, h2⟩ := median_rank w k h
  have e1 := List.length_eq_countP_add_countP (fun x => decide (x < m)) (l := w)
  have e2 := List.length_eq_countP_add_countP (fun x => decide (m < x)) (l := w)
  have e3 := List.length_eq_countP_add_countP (fun x => decide (x < median w)) (l := w)
  have e4 := List.length_eq_countP_add_countP (fun x => decide (median w < x)) (l := w)
  rcases Int.lt_trichotomy m (median w) with hlt' | heq | hgt'
  · -- everything not above m is below the median: more than k such elements
    have := List.countP_mono_left (l := w) (p := fun a => decide ¬(decide (m < a)) = true)
      (q := fun x => decide (x < median w)) (by intro x _; simp only [decide_eq_true_eq]; omega)
    omega
  · exact heq
  · have := List.countP_mono_left (l := w) (p := fun a => decide ¬(decide (a < m)) = true)
      (q := fun x => decide (median w < x)) (by intro x _; simp only [decide_eq_true_eq]; omega)
    omega

/-! ## `medianFilter` -/

theorem medianFilter_length (xs : List Int) (window : Nat) (pad : Bool) :
    (medianFilter xs window pad).length = xs.length := stepFilter_length _ _ _ _

/-- **`medianFilter`**: element `i` is the middle element (index `off`) of the sorted clamped window
`[xs[clamp (i-off)] … xs[clamp (i+off)]]`, `off = window / 2`, when padding is on or the window fits; the
element is unchanged otherwise. -/
theorem medianFilter_spec (xs : List Int) (window : Nat) (pad : Bool) (i : Nat) (hi : i < xs.length) :
    (pad = true ∨ (window / 2 ≤ i ∧ i + window / 2 < xs.length) →
      (pySorted (clampedWindow xs xs[i] i (window / 2)))[window / 2]? =
        some ((medianFilter xs window pad)[i]'(by rw [medianFilter_length]; exact hi))) ∧
    (¬ (pad = true ∨ (window / 2 ≤ i ∧ i + window / 2 < xs.length)) →
      (medianFilter xs window pad)[i]'(by rw [medianFilter_length]; exact hi) = xs[i]) := by
  have h := stepFilter_spec median xs window pad i hi
  constructor
  · intro hc
    rw [if_pos hc] at h
    have := (median_mid (clampedWindow xs xs[i] i (window / 2)) (window / 2) (clampedWindow_length _ _ _ _)).1
    rw [this]; simp only [medianFilter]; rw [h]
  · intro hc
    rw [if_neg hc] at h
    simpa only [medianFilter] using h

theorem clampedWindow_mem {α : Type} (xs : List α) (i off : Nat) (hi : i < xs.length) :
    ∀ a ∈ clampedWindow xs xs[i] i off, a ∈ xs := by
  intro a ha
  obtain ⟨k, hk, rfl⟩ := List.mem_iff_getElem.1 ha
  rw [clampedWindow_length] at hk
  rw [clampedWindow_getElem xs xs[i] i off k (by omega) hk]
  exact List.getElem_mem _

/-- median filtering invents no values: every output element is an element of the input -/
theorem medianFilter_mem (xs : List Int) (window : Nat) (pad : Bool) :
    ∀ a ∈ medianFilter xs window pad, a ∈ xs := by
  intro a ha
  obtain ⟨i, hi, rfl⟩ := List.mem_iff_getElem.1 ha
  rw [medianFilter_length] at hi
  simp only [medianFilter]
  rw [stepFilter_spec median xs window pad i hi]
  split
  · apply clampedWindow_mem xs i (window / 2) hi
    apply median_mem
    intro h0
    have := clampedWindow_length xs xs[i] i (window / 2)
    rw [h0] at this; simp at this
  · exact List.getElem_mem _

/-- a constant series is a fixed point of the median filter (any window, either padding mode) -/
theorem medianFilter_const (n : Nat) (c : Int) (window : Nat) (pad : Bool) :
    medianFilter (List.replicate n c) window pad = List.replicate n c := by
  apply List.ext_getElem
  · rw [medianFilter_length]
  · intro i h1 h2
    have := medianFilter_mem (List.replicate n c) window pad _ (List.getElem_mem h1)
    rw [List.getElem_replicate]
    exact (List.mem_replicate.1 this).2

/-- window sizes 0 and 1 (offset 0) are the identity -/
theorem medianFilter_window0 (xs : List Int) (window : Nat) (hw : window ≤ 1) (pad : Bool) :
    medianFilter xs window pad = xs := by
  apply List.ext_getElem
  · rw [medianFilter_length]
  · intro i h1 h2
    have h0 : window / 2 = 0 := by omega
    simp only [medianFilter]
    rw [stepFilter_spec median xs window pad i h2, h0]
    have hc : clampIdx xs.length (i : Int) = i := by unfold clampIdx; omega
    have hw1 : clampedWindow xs xs[i] i 0 = [xs[i]] := by
      simp [clampedWindow, hc, List.getElem?_eq_getElem h2]
    simp [hw1, median, pySorted]

/-! ## `detectPitchErrors` (exact rational arithmetic) -/

/-- `zip l l[1:]` is the list of consecutive pairs `(l[i-1], l[i])`, `i = 1 .. len-1`, in order -/
theorem pairs_spec {β : Type} (l : List β) :
    (l.zip l.tail).length = l.length - 1 ∧
    ∀ j (h : j + 1 < l.length), (l.zip l.tail)[j]? = some (l[j], l[j + 1]) := by
  constructor
  · simp only [List.length_zip, List.length_tail]; omega
  · intro j h
    rw [List.getElem?_eq_getElem (by simp only [List.length_zip, List.length_tail]; omega)]
    simp [List.getElem_zip, List.getElem_tail]

theorem filterMap_ite {β γ : Type} (p : β → Bool) (f : β → γ) (l : List β) :
    l.filterMap (fun x => if p x then some (f x) else none) = (l.filter p).map f := by
  induction l with
  | nil => rfl
  | cons a l ih => by_cases h : p a <;> simp [h, ih]

theorem jumpFires_iff (thr last cur : Rat) :
    jumpFires thr last cur = true ↔ (last ≤ cur * thr ∨ cur / thr ≤ last) := by
  simp [jumpFires]

/-- for positive pitches and a positive threshold the test is the textbook one on the ratio `cur / last`:
the pitch jumped down to at most `thr` times, or up to at least `1 / thr` times, its previous value -/
theorem jump_ratio (thr last cur : Rat) (ht : 0 < thr) (hl : 0 < last) :
    jumpFires thr last cur = true ↔ (cur / last ≤ thr ∨ 1 / thr ≤ cur / last) := by
  rw [jumpFires_iff]
  have e1 : (last ≤ cur * thr) ↔ (1 / thr ≤ cur / last) := by
    rw [← Rat.not_lt, ← Rat.not_lt (a := cur / last), Rat.div_lt_iff hl]
    have : 1 / thr * last = last / thr := by grind
    rw [this, Rat.lt_div_iff ht]
  have e2 : (cur / thr ≤ last) ↔ (cur / last ≤ thr) := by
    rw [← Rat.not_lt, ← Rat.not_lt (a := thr), Rat.lt_div_iff ht, Rat.lt_div_iff hl, Rat.mul_comm]
  rw [e1, e2]; exact Or.comm

theorem detectLoop_ok {τ : Type} (thr : Rat) (ht : thr ≠ 0) (pairs : List ((τ × Rat) × (τ × Rat)))
    (hnz : ∀ pc ∈ pairs, jumpFires thr pc.1.2 pc.2.2 = true → pc.1.2 ≠ 0) :
    detectLoop thr pairs = .ok ((pairs.filter fun pc => jumpFires thr pc.1.2 pc.2.2).map
      fun pc => (pc.2.1, pc.2.2 / pc.1.2)) := by
  induction pairs with
  | nil => rfl
  | cons pc rest ih =>
    have ih' := ih (fun q hq => hnz q (List.mem_cons_of_mem _ hq))
    have h0 := hnz pc List.mem_cons_self
    simp only [detectLoop, ih', detectStep]
    have ht' : (thr == 0) = false := by simpa using ht
    by_cases hf : jumpFires thr pc.1.2 pc.2.2 = true
    · have hz : (pc.1.2 == 0) = false := by simpa using h0 hf
      simp [ht', hf, hz]
    · simp [ht', hf]

/-- **`detectPitchErrors`**: for a threshold in `(0, 1]`, the reported points are exactly the positions
`i ≥ 1` at which `p[i-1] ≤ p[i]·thr ∨ p[i-1] ≥ p[i]/thr`, in order, with time `t[i]` and the quotient
`p[i]/p[i-1]` (whose `str` is the label).  Partial: it needs `p[i-1] ≠ 0` wherever the test fires —
otherwise the code raises (`detect_zero_pitch_counterexample`). -/
theorem detect_spec_partial {τ : Type} (pl : List (τ × Rat)) (thr : Rat) (h0 : 0 < thr) (h1 : thr ≤ 1)
    (hnz : ∀ pc ∈ pl.zip pl.tail, jumpFires thr pc.1.2 pc.2.2 = true → pc.1.2 ≠ 0) :
    detectPitchErrors pl thr = .ok (((pl.zip pl.tail).filter fun pc => jumpFires thr pc.1.2 pc.2.2).map
      fun pc => (pc.2.1, pc.2.2 / pc.1.2)) := by
  have hr : ¬ (thr < 0 ∨ thr > 1) := by grind
  simp only [detectPitchErrors, hr, if_false]
  exact detectLoop_ok thr (Rat.ne_of_lt h0).symm _ hnz

/-- a threshold outside `[0, 1]` is rejected with `ArgumentError` -/
theorem detect_rejects {τ : Type} (pl : List (τ × Rat)) (thr : Rat) (h : thr < 0 ∨ 1 < thr) :
    detectPitchErrors pl thr = .error .ArgumentError := by
  simp only [detectPitchErrors]
  rw [if_pos]; exact h

/-- counter-example to the unrestricted statement: a track whose previous sample is 0 (the usual encoding of
an unvoiced frame) followed by any non-negative sample raises `ZeroDivisionError` for every threshold in
`(0, 1]` -/
theorem detect_zero_pitch_counterexample {τ : Type} (t0 t1 : τ) (cur thr : Rat) (hc : 0 ≤ cur)
    (h0 : 0 < thr) (h1 : thr ≤ 1) :
    detectPitchErrors [(t0, 0), (t1, cur)] thr = .error .ZeroDivisionError := by
  have hr : ¬ (thr < 0 ∨ thr > 1) := by grind
  have ht' : (thr == 0) = false := by simpa using (Rat.ne_of_lt h0).symm
  have hf : jumpFires thr 0 cur = true := by
    rw [jumpFires_iff]; left
    have := Rat.mul_le_mul_of_nonneg_right hc (Rat.le_of_lt h0)
    simpa using this
  simp [detectPitchErrors, hr, detectLoop, detectStep, ht', hf]

/-! ## `loadTimeSeriesData` -/

/-- `"--" in value`, as a statement about the characters -/
theorem hasMarkerL_iff (cs : List Char) :
    hasMarkerL cs = true ↔ ∃ pre post, cs = pre ++ '-' :: '-' :: post := by
  induction cs with
  | nil => simp [hasMarkerL]
  | cons a cs ih =>
    cases cs with
    | nil =>
      simp only [hasMarkerL, Bool.false_eq_true, false_iff]
      rintro ⟨pre, post, h⟩
      have := congrArg List.length h
      simp at this; omega
    | cons b cs =>
      simp only [hasMarkerL, Bool.or_eq_true, Bool.and_eq_true, beq_iff_eq, ih]
      constructor
      · rintro (⟨rfl, rfl⟩ | ⟨pre, post, h⟩)
        · exact ⟨[], cs, rfl⟩
        · exact ⟨a :: pre, post, by rw [h]; rfl⟩
      · rintro ⟨pre, post, h⟩
        cases pre with
        | nil =>
          simp only [List.nil_append, List.cons.injEq] at h
          exact Or.inl ⟨h.1, h.2.1⟩
        | cons c pre =>
          simp only [List.cons_append, List.cons.injEq] at h
          exact Or.inr ⟨pre, post, h.2⟩

/-- the rows after the header test: the first row is dropped iff its first field is exactly `time` -/
def body : List (List String) → List (List String)
  | (h :: hs) :: rest => if h = "time" then rest else (h :: hs) :: rest
  | rows => rows

/-- no value field (any column after the time) carries an undefined marker -/
def rowClean (row : List String) : Bool := row.tail.all fun v => !hasMarker v

/-- every marker in a value column replaced by `u`, every other field converted -/
def rowSubst (num : String → Int) (u : Int) : List String → List Int
  | [] => []
  | t :: vs => num t :: vs.map fun v => if hasMarker v then u else num v

theorem loadValues_some (num : String → Int) (u : Int) (vs : List String) (entry : List Int) :
    loadValues (fun s => .ok (num s)) (some u) vs entry =
      .ok (some (entry ++ vs.map fun v => if hasMarker v then u else num v)) := by
  induction vs generalizing entry with
  | nil => simp [loadValues]
  | cons v vs ih =>
    by_cases h : hasMarker v = true
    · simp [loadValues, h, ih]
    · simp [loadValues, h, ih]

theorem loadValues_none (num : String → Int) (vs : List String) (entry : List Int) :
    loadValues (fun s => .ok (num s)) none vs entry =
      .ok (if vs.all (fun v => !hasMarker v) then some (entry ++ vs.map num) else none) := by
  induction vs generalizing entry with
  | nil => simp [loadValues]
  | cons v vs ih =>
    by_cases h : hasMarker v = true
    · simp [loadValues, h]
    · simp [loadValues, h, ih]

theorem loadRows_some (num : String → Int) (u : Int) (rows : List (List String)) (hr : ∀ r ∈ rows, r ≠ []) :
    loadRows (fun s => .ok (num s)) (some u) rows = .ok (rows.map (rowSubst num u)) := by
  induction rows with
  | nil => rfl
  | cons r rows ih =>
    have ih' := ih (fun q hq => hr q (List.mem_cons_of_mem _ hq))
    cases r with
    | nil => exact absurd rfl (hr [] List.mem_cons_self)
    | cons t vs => simp [loadRows, loadRow, loadValues_some, ih', rowSubst]

theorem loadRows_none (num : String → Int) (rows : List (List String)) (hr : ∀ r ∈ rows, r ≠ []) :
    loadRows (fun s => .ok (num s)) none rows = .ok ((rows.filter rowClean).map (·.map num)) := by
  induction rows with
  | nil => rfl
  | cons r rows ih =>
    have ih' := ih (fun q hq => hr q (List.mem_cons_of_mem _ hq))
    cases r with
    | nil => exact absurd rfl (hr [] List.mem_cons_self)
    | cons t vs =>
      by_cases hc : vs.all (fun v => !hasMarker v) = true
      · have : rowClean (t :: vs) = true := by simpa [rowClean] using hc
        simp only [loadRows, loadRow, loadValues_none, ih', hc, if_true, List.filter_cons, this]
        simp
      · have : rowClean (t :: vs) = false := by simpa [rowClean] using hc
        simp only [loadRows, loadRow, loadValues_none, ih', hc, List.filter_cons, this]
        simp

theorem dropHeader_body (rows : List (List String)) (hr : ∀ r ∈ rows, r ≠ []) :
    dropHeader rows = .ok (body rows) := by
  cases rows with
  | nil => rfl
  | cons r rest =>
    cases r with
    | nil => exact absurd rfl (hr [] List.mem_cons_self)
    | cons h hs => simp [dropHeader, body]

theorem body_sub (rows : List (List String)) : ∀ r ∈ body rows, r ∈ rows := by
  intro r hr
  unfold body at hr
  split at hr
  · split at hr
    · exact List.mem_cons_of_mem _ hr
    · exact hr
  · exact hr

/-- **`loadTimeSeriesData`** on any listing — zero or more rows, every row with ≥ 1 field, as `split` guarantees —
whose fields all convert (`float` total): the header row is dropped iff its first field is `time`; with no
substitute exactly the rows without a marker in a value column are kept, fully converted, once, in file order;
with a substitute `u` every row is kept and each marked value field becomes `u`.  In particular the empty
listing gives the empty list (`load_empty`). -/
theorem load_spec (num : String → Int) (undef : Option Int) (rows : List (List String))
    (hr : ∀ r ∈ rows, r ≠ []) :
    loadTimeSeriesData (fun s => .ok (num s)) undef rows = .ok (
      match undef with
      | none => ((body rows).filter rowClean).map (·.map num)
      | some u => (body rows).map (rowSubst num u)) := by
  have hb : ∀ r ∈ body rows, r ≠ [] := fun r h => hr r (body_sub rows r h)
  simp only [loadTimeSeriesData, dropHeader_body rows hr]
  cases undef with
  | none => exact loadRows_none num (body rows) hb
  | some u => exact loadRows_some num u (body rows) hb

theorem loadRows_length_le {α : Type} (float : String → Except Err α) (undef : Option α) (rows : List (List String))
    (out : List (List α)) (h : loadRows float undef rows = .ok out) : out.length ≤ rows.length := by
  induction rows generalizing out with
  | nil => simp only [loadRows] at h; cases h; simp
  | cons r rows ih =>
    simp only [loadRows] at h
    split at h
    · cases h
    · split at h
      · cases h
      · rename_i o ho
        have := ih o ho
        cases h
        split <;> simp <;> omega

/-- the number of rows never grows, whatever `float` does and whatever the substitute is -/
theorem load_length_le {α : Type} (float : String → Except Err α) (undef : Option α) (rows : List (List String))
    (out : List (List α)) (h : loadTimeSeriesData float undef rows = .ok out) : out.length ≤ rows.length := by
  simp only [loadTimeSeriesData] at h
  split at h
  · cases h
  · rename_i b hb
    have h1 := loadRows_length_le float undef b out h
    have h2 : b.length ≤ rows.length := by
      unfold dropHeader at hb
      split at hb
      · cases hb; simp
      · cases hb
      · cases hb; split <;> simp
    omega

/-- with a substitute no row is lost: the result has exactly one row per non-header row -/
theorem load_subst_length (num : String → Int) (u : Int) (rows : List (List String))
    (hr : ∀ r ∈ rows, r ≠ []) (out : List (List Int))
    (h : loadTimeSeriesData (fun s => .ok (num s)) (some u) rows = .ok out) :
    out.length = (body rows).length := by
  rw [load_spec num (some u) rows hr] at h
  cases h; simp

/-- a listing without any row (an empty file) gives the empty list, whatever `float` and the substitute are -/
theorem load_empty {α : Type} (float : String → Except Err α) (undef : Option α) :
    loadTimeSeriesData float undef [] = .ok [] := rfl

/-- a field that `float()` rejects in a row that is reached makes the whole call raise: e.g. a header row whose
first field is not exactly `time` -/
theorem load_bad_header {α : Type} (float : String → Except Err α) (undef : Option α) (h : String) (hs : List String)
    (rest : List (List String)) (hh : h ≠ "time") (e : Err) (hf : float h = .error e) :
    loadTimeSeriesData float undef ((h :: hs) :: rest) = .error e := by
  simp [loadTimeSeriesData, dropHeader, hh, loadRows, loadRow, hf]

/-! ## `getPitchMeasures` -/

/-- the list the aggregates see: median filter (edge padding on) first, zero removal second; never longer than
the input -/
theorem pitchValues_length_le (xs : List Int) (mw : Option Nat) (fz : Bool) :
    (pitchValues xs mw fz).length ≤ xs.length := by
  cases mw with
  | none => cases fz <;> simp [pitchValues, List.length_filter_le]
  | some w =>
    cases fz
    · simp [pitchValues, medianFilter_length]
    · simp only [pitchValues, if_true]
      exact Nat.le_trans (List.length_filter_le _ _) (Nat.le_of_eq (medianFilter_length xs w true))

theorem pitchValues_plain (xs : List Int) : pitchValues xs none false = xs := rfl

/-- zero removal drops exactly the zeros, keeping the order of the rest -/
theorem pitchValues_filter (xs : List Int) :
    pitchValues xs none true = xs.filter (fun v => decide (v ≠ 0)) := by
  simp only [pitchValues, if_true, Tm.zero]
  congr 1; funext v
  by_cases h : v = 0 <;> simp [h]

/-- **`getPitchMeasures`**: on a non-empty processed list `l = pitchValues …` the result is
`(mean l, max l, min l, max l - min l, variance l (mean l), sqrt (variance …))` where `max l`/`min l` are the
greatest / least element of `l`; on an empty one it is all zeros. -/
theorem pitch_measures_def (A : PitchArith Int) (xs : List Int) (mw : Option Nat) (fz : Bool) :
    let l := pitchValues xs mw fz
    let r := getPitchMeasures A xs mw fz
    (l = [] → r = (0, 0, 0, 0, 0, 0)) ∧
    (l ≠ [] →
      r.1 = A.mean l ∧
      (r.2.1 ∈ l ∧ ∀ v ∈ l, v ≤ r.2.1) ∧
      (r.2.2.1 ∈ l ∧ ∀ v ∈ l, r.2.2.1 ≤ v) ∧
      r.2.2.2.1 = r.2.1 - r.2.2.1 ∧
      r.2.2.2.2.1 = A.variance l (A.mean l) ∧
      r.2.2.2.2.2 = A.sqrt (A.variance l (A.mean l))) := by
  intro l r
  constructor
  · intro h
    simp only [r, getPitchMeasures]
    rw [show pitchValues xs mw fz = [] from h]
    simp [Tm.zero]
  · intro h
    obtain ⟨a, as, hl⟩ := List.exists_cons_of_ne_nil h
    have hl' : pitchValues xs mw fz = a :: as := hl
    simp only [r, getPitchMeasures, hl', List.length_cons, pyMaxList, pyMinList, Option.getD_some,
      foldl_pyMax2, foldl_pyMin2]
    have hlz : (as.length + 1 == 0) = false := by simp
    simp only [hlz, Bool.false_eq_true, if_false]
    refine ⟨?_, ⟨?_, ?_⟩, ⟨?_, ?_⟩, ?_, ?_, ?_⟩
    · rw [hl]
    · rw [hl]
      rcases foldl_max_mem as a with h' | h'
      · rw [h']; exact List.mem_cons_self
      · exact List.mem_cons_of_mem _ h'
    · intro v hv
      rw [hl] at hv
      rcases List.mem_cons.1 hv with rfl | hv
      · exact (foldl_max_ge as v).1
      · exact (foldl_max_ge as a).2 v hv
    · rw [hl]
      rcases foldl_min_mem as a with h' | h'
      · rw [h']; exact List.mem_cons_self
      · exact List.mem_cons_of_mem _ h'
    · intro v hv
      rw [hl] at hv
      rcases List.mem_cons.1 hv with rfl | hv
      · exact (foldl_min_le as v).1
      · exact (foldl_min_le as a).2 v hv
    · trivial
    · rw [hl]
    · rw [hl]

/-! ## non-vacuity and evaluated illustrations (interpreter tests, not proofs) -/

-- the example in the docstring of `medianFilter`
#guard medianFilter [1, 1, 1, 9, 5, 2, 4, 7, 4, 5, 1, 5] 5 false == ([1, 1, 1, 2, 4, 5, 4, 4, 4, 5, 1, 5] : List Int)
#guard medianFilter [1, 1, 1, 9, 5, 2, 4, 7, 4, 5, 1, 5] 5 true == ([1, 1, 1, 2, 4, 5, 4, 4, 4, 5, 5, 5] : List Int)
#guard clampedWindow ([10, 20, 30] : List Int) 0 0 2 == [10, 10, 10, 20, 30]
#guard dataToFilter ([10, 20, 30] : List Int) 30 2 2 == [10, 20, 30, 30, 30]
#guard stepFilter (fun w => w.foldl (· + ·) 0) ([1, 2, 4] : List Int) 8 true == [19, 22, 25]
#guard stepFilter (fun w => w.foldl (· + ·) 0) ([1, 2, 4] : List Int) 2 false == [1, 7, 4]
#guard median ([3, 1, 2] : List Int) == 2
#guard (detectPitchErrors [((0 : Int), (100 : Rat)), (1, 200), (2, 100), (3, 69), (4, 100)] (7 / 10)).toOption
    == some [(1, 2), (2, 1 / 2), (3, 69 / 100), (4, 100 / 69)]
#guard hasMarker "--undefined--" && !hasMarker "-5" && !hasMarker "1e-5"

/-- the hypotheses of `detect_spec_partial` are satisfiable with a non-empty result -/
example : (0 : Rat) < 7 / 10 ∧ (7 / 10 : Rat) ≤ 1 ∧
    (∀ pc ∈ [((0 : Int), (100 : Rat)), (1, 200)].zip [((0 : Int), (100 : Rat)), (1, 200)].tail,
      jumpFires (7 / 10) pc.1.2 pc.2.2 = true → pc.1.2 ≠ 0) ∧
    jumpFires (7 / 10 : Rat) 100 200 = true := by
  have hf : jumpFires (7 / 10 : Rat) 100 200 = true := by
    rw [jumpFires_iff]; left; grind
  refine ⟨by grind, by grind, ?_, hf⟩
  intro pc hpc
  simp only [List.tail_cons, List.zip_cons_cons, List.zip_nil_right, List.mem_singleton] at hpc
  subst hpc
  intro _; grind

def exFloat (s : String) : Except Err Int :=
  match s with
  | "0.1" => .ok 1 | "0.2" => .ok 2 | "0.3" => .ok 3 | "100" => .ok 100 | "120" => .ok 120
  | _ => .error .ValueError

def exListing : List (List String) :=
  [["time", "pitch", "intensity"], ["0.1", "100", "--undefined--"], ["0.2", "120", "100"], ["0.3", "--undefined--", "100"]]

#guard (loadTimeSeriesData exFloat none exListing).toOption == some [[2, 120, 100]]
#guard (loadTimeSeriesData exFloat (some 0) exListing).toOption == some [[1, 100, 0], [2, 120, 100], [3, 0, 100]]
#guard (loadTimeSeriesData exFloat none exListing.tail).toOption == some [[2, 120, 100]]
#guard (loadTimeSeriesData exFloat none [["Time", "pitch"], ["0.1", "100"]]).toOption == none

#guard (loadTimeSeriesData exFloat none []).toOption == some []
#guard pitchValues ([0, 5, 0, 7] : List Int) none true == [5, 7]

/-- the hypothesis of `load_spec` is met by a listing with a header and markers, and the kept rows are a proper
non-empty subset -/
example : (∀ r ∈ exListing, r ≠ []) ∧ (body exListing).length = 3 ∧
    ((body exListing).filter rowClean).length = 1 := by
  refine ⟨by decide, by decide, by decide⟩

/-- the hypotheses of `medianFilter_spec` (filtered branch and unchanged branch) both occur -/
example : (5 / 2 ≤ 3 ∧ 3 + 5 / 2 < 12) ∧ ¬ (false = true ∨ (5 / 2 ≤ 0 ∧ 0 + 5 / 2 < 12)) := by decide

end C20
