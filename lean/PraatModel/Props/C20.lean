import PraatModel.Numeric
import PraatModel.Lemmas.Tier

/-!
# C20 — numeric series helpers match their textbook definitions

Theorems about the model `PraatModel/Numeric.lean`.  Series are lists of unbounded `Int` (every finite set
of binary64 values is a set of integers after one power-of-two scaling, and the functions here only
compare and select); the jump test of `detectPitchErrors` multiplies and divides, so its theorems are over
the exact rationals `Rat` (Lean core).  Lists have any length, windows any size.
`mean`/`stdev`/`sqrt`/`rms`/z-normalisation are not modelled (checked by the Python oracle only).

## Hypothesis audit (every hypothesis of every registered theorem; replays on /repo HEAD 91f0238)

* index hypotheses (`i < xs.length`, `k < 2·off+1`, `j + 1 < l.length`, `0 < xs.length` in `clampedWindow_getElem`,
  which is implied by the existence of an index `i`) are the "element i" of the property text; window sizes carry
  no hypothesis anywhere (even, 0, 1, larger than the series: `medianFilter_even_window`, `medianFilter_window0`,
  `medianFilter_window_large`); the empty series is covered (`stepFilter_length`, `medianFilter_length`).
* odd window length / non-empty window (`median_*`): enforced by `_stepFilter` (`window_odd_length`).
* `detectPitchErrors`: `0 < thr ≤ 1` is the quantifier; `hnz` (no zero where the test fires) and `0 ≤ cur`, `0 < last`
  were conveniences: `detect_spec` is total, the counter-example no longer restricts `cur`, negative samples and
  the thresholds 0 and 1 have their own theorems.
* `loadTimeSeriesData`: "`float` total" was a hidden convenience: `load_spec_float` + `load_error` hold for every
  `float`; `load_subst_length` needs nothing; a marker in the time column raises
  (`load_marker_in_time_column_counterexample`); "every row has ≥ 1 field" is enforced by `str.split`.
* not modelled, replayed only (no theorem possible here): `znormalizeData` raises `StatisticsError` on `[]` and on one
  element and `ZeroDivisionError` on a constant series; `znormWindowFilter` raises `StatisticsError` for *every*
  non-empty series with window 0 or 1 and `ZeroDivisionError` as soon as one window is constant (e.g. two equal
  leading values with padding on, window 3); `rms([])` raises `ZeroDivisionError`; `filterTimeSeriesData` builds its
  length-mismatch `ArgumentError` without raising it, so a filter function returning fewer values silently drops rows
  (cannot happen with `medianFilter`: `medianFilter_length`).
-/
namespace C20
open Numeric

/-! ## the textbook window: `[xs[clamp (i + k)] | k = -off .. off]` -/

/-- clamp an index to `[0, n-1]` -/
def clampIdx (n : Nat) (j : Int) : Nat := (min (max j 0) ((n : Int) - 1)).toNat

theorem clampIdx_lt {n : Nat} (h : 0 < n) (j : Int) : clampIdx n j < n := by
  unfold clampIdx; omega

/-- `[xs[clamp (i - off)], …, xs[i], …, xs[clamp (i + off)]]` (`d` is only a default for `getD`; by
`clampedWindow_getElem` it is never used on a non-empty list) -/
def clampedWindow {α : Type} (xs : List α) (d : α) (i off : Nat) : List α :=
  (List.range (2 * off + 1)).map fun (k : Nat) => xs.getD (clampIdx xs.length ((i : Int) + (k : Int) - (off : Int))) d

theorem clampedWindow_length {α : Type} (xs : List α) (d : α) (i off : Nat) :
    (clampedWindow xs d i off).length = 2 * off + 1 := by
  simp [clampedWindow]

theorem clampedWindow_getElem {α : Type} (xs : List α) (d : α) (i off k : Nat) (hn : 0 < xs.length)
    (hk : k < 2 * off + 1) :
    (clampedWindow xs d i off)[k]'(by simpa [clampedWindow] using hk) =
      xs[clampIdx xs.length ((i : Int) + (k : Int) - (off : Int))]'(clampIdx_lt hn _) := by
  simp [clampedWindow, List.getD_eq_getElem?_getD, clampIdx_lt hn]

/-! ## the inner loop of `_stepFilter` -/

theorem ctxLoop_succ {α : Type} (dist : List α) (v : α) (x n k : Nat) :
    ctxLoop dist v x n (k + 1) = ctxStep dist v x n (ctxLoop dist v x n k) (k + 1) := by
  unfold ctxLoop
  rw [List.range'_concat, List.foldl_append]
  simp [Nat.add_comm]

/-- `lastKnownLargeIndex` after `k` rounds: still 0 if nothing to the right exists, else `min (x+k) (n-1)` -/
theorem ctx_last {α : Type} (dist : List α) (v : α) (x n k : Nat) (hx : x < n) :
    (ctxLoop dist v x n k).last = if 0 < k ∧ x + 1 < n then min (x + k) (n - 1) else 0 := by
  induction k with
  | zero => simp [ctxLoop]
  | succ k ih =>
    rw [ctxLoop_succ]
    simp only [ctxStep, largeIndex, ih]
    by_cases h1 : x + (k + 1) ≥ n
    · simp only [h1, if_true]
      split <;> split <;> omega
    · simp only [h1, if_false]
      split <;> omega

/-- the `lastKnownLargeIndex` device computes `min (x + y) (n - 1)`: the right neighbour, clamped.
Hypothesis audit: `x < n` is enforced by the code (`for x in range(length)`); there is no excluded case to replay
(for an empty series the loop body never runs: `medianFilter([], w, pad) == []`, `stepFilter_length`). -/
theorem largeIndex_eq {α : Type} (dist : List α) (v : α) (x n k : Nat) (hx : x < n) :
    (largeIndex x n (ctxLoop dist v x n k).last (k + 1)).1 = min (x + (k + 1)) (n - 1) := by
  rw [ctx_last dist v x n k hx]
  unfold largeIndex
  by_cases h1 : x + (k + 1) ≥ n
  · by_cases h2 : 0 < k ∧ x + 1 < n
    · have h3 : ¬ (min (x + k) (n - 1) = 0) := by omega
      simp only [h1, h2, if_true, and_self, beq_iff_eq, h3, if_false]; omega
    · simp only [h1, h2, if_true, if_false, beq_self_eq_true]; omega
  · simp only [h1, if_false]; omega

theorem largeIndex_lt {α : Type} (dist : List α) (v : α) (x n k : Nat) (hx : x < n) :
    (largeIndex x n (ctxLoop dist v x n k).last (k + 1)).1 < n := by
  rw [largeIndex_eq dist v x n k hx]; omega

theorem smallIndex_eq (x y : Nat) : smallIndex x y = x - y := by
  unfold smallIndex; split <;> omega

theorem ctx_post {α : Type} (dist : List α) (v : α) (x n k : Nat) (hx : x < n) :
    (ctxLoop dist v x n k).post = (List.range k).map fun j => dist.getD (min (x + (j + 1)) (n - 1)) v := by
  induction k with
  | zero => simp [ctxLoop]
  | succ k ih =>
    rw [ctxLoop_succ]
    simp only [ctxStep]
    rw [largeIndex_eq dist v x n k hx, ih, List.range_succ, List.map_append]
    simp

theorem ctx_pre {α : Type} (dist : List α) (v : α) (x n k : Nat) :
    (ctxLoop dist v x n k).pre = (List.range k).map fun j => dist.getD (x - (k - j)) v := by
  induction k with
  | zero => simp [ctxLoop]
  | succ k ih =>
    rw [ctxLoop_succ]
    simp only [ctxStep]
    rw [smallIndex_eq, ih, List.range_succ_eq_map, List.map_cons, List.map_map]
    simp [Function.comp_def]

/-! ## `_stepFilter` against the textbook window -/

/-- the window handed to the filter function always has odd length `2 * offset + 1` (any position) -/
theorem window_odd_length {α : Type} (dist : List α) (v : α) (x off : Nat) :
    (dataToFilter dist v x off).length = 2 * off + 1 := by
  simp only [dataToFilter, List.length_append, ctx_pre, List.length_map, List.length_range,
    List.length_cons, List.length_nil]
  have : (ctxLoop dist v x dist.length off).post.length = off := by
    induction off with
    | zero => simp [ctxLoop]
    | succ k ih => rw [ctxLoop_succ]; simp [ctxStep, ih]
  omega

/-- what `_stepFilter` hands to the filter function at position `x` is the clamped window around `x`
(`x < len` is the loop range of the code; any offset, in particular offsets larger than the series) -/
theorem dataToFilter_eq {α : Type} (xs : List α) (x off : Nat) (hx : x < xs.length) :
    dataToFilter xs xs[x] x off = clampedWindow xs xs[x] x off := by
  apply List.ext_getElem
  · rw [window_odd_length, clampedWindow_length]
  · intro m h1 h2
    rw [clampedWindow_length] at h2
    rw [clampedWindow_getElem xs xs[x] x off m (by omega) h2]
    simp only [dataToFilter, ctx_pre, ctx_post xs xs[x] x xs.length off hx]
    by_cases hm : m < off
    · rw [List.getElem_append_left (by simp; omega), List.getElem_append_left (by simp; omega)]
      simp only [List.getElem_map, List.getElem_range]
      have : clampIdx xs.length ((x : Int) + (m : Int) - (off : Int)) = x - (off - m) := by
        unfold clampIdx; omega
      simp only [this]
      rw [List.getD_eq_getElem?_getD, List.getElem?_eq_getElem (by omega)]; rfl
    · by_cases hm2 : m = off
      · subst hm2
        rw [List.getElem_append_left (by simp), List.getElem_append_right (by simp)]
        have : clampIdx xs.length (x : Int) = x := by
          unfold clampIdx; omega
        simp [this]
      · rw [List.getElem_append_right (by simp; omega)]
        simp only [List.length_append, List.length_map, List.length_range, List.length_cons,
          List.length_nil, List.getElem_map, List.getElem_range]
        have : clampIdx xs.length ((x : Int) + (m : Int) - (off : Int)) =
            min (x + (m - (off + (0 + 1)) + 1)) (xs.length - 1) := by
          unfold clampIdx; omega
        simp only [this]
        rw [List.getD_eq_getElem?_getD, List.getElem?_eq_getElem (by omega)]; rfl

/-- `_stepFilter` preserves the length, for every filter function, window and padding flag -/
theorem stepFilter_length {α : Type} (f : List α → α) (xs : List α) (window : Nat) (pad : Bool) :
    (stepFilter f xs window pad).length = xs.length := by
  simp [stepFilter]

/-- **`_stepFilter` is the clamped sliding window.**  For every filter function `f`, series, window size and
padding flag, element `i` of the result is `f [xs[clamp (i + k)] | k = -off .. off]` with
`off = window / 2` and indices clamped to `[0, n-1]` when padding is on or the window fits
(`off ≤ i ∧ i + off < n`), and `xs[i]` unchanged otherwise. -/
theorem stepFilter_spec {α : Type} (f : List α → α) (xs : List α) (window : Nat) (pad : Bool) (i : Nat)
    (hi : i < xs.length) :
    (stepFilter f xs window pad)[i]'(by rw [stepFilter_length]; exact hi) =
      if pad = true ∨ (window / 2 ≤ i ∧ i + window / 2 < xs.length) then
        f (clampedWindow xs xs[i] i (window / 2))
      else xs[i] := by
  simp only [stepFilter, List.getElem_map, List.getElem_zipIdx, Nat.zero_add]
  rw [dataToFilter_eq xs i (window / 2) hi]
  simp only [Bool.or_eq_true, Bool.and_eq_true, decide_eq_true_eq]

/-- without padding the first and last `window / 2` elements are returned unchanged -/
theorem stepFilter_edges {α : Type} (f : List α → α) (xs : List α) (window : Nat) (i : Nat)
    (hi : i < xs.length) (hedge : i < window / 2 ∨ xs.length ≤ i + window / 2) :
    (stepFilter f xs window false)[i]'(by rw [stepFilter_length]; exact hi) = xs[i] := by
  rw [stepFilter_spec f xs window false i hi, if_neg]
  simp only [Bool.false_eq_true, false_or]; omega

/-! ## the median of an odd-length window is the middle element of its sort: no arithmetic -/

theorem pySorted_perm (w : List Int) : (pySorted w).Perm w := List.mergeSort_perm _ _

theorem pySorted_length (w : List Int) : (pySorted w).length = w.length := (pySorted_perm w).length_eq

theorem pySorted_sorted (w : List Int) : (pySorted w).Pairwise (· ≤ ·) := by
  have h := List.pairwise_mergeSort (le := fun (a b : Int) => decide (a ≤ b))
    (by intro a b c; simp only [decide_eq_true_eq]; omega)
    (by intro a b; simp only [Bool.or_eq_true, decide_eq_true_eq]; omega) w
  exact h.imp (by intro a b; simp)

theorem sorted_le {s : List Int} (hs : s.Pairwise (· ≤ ·)) (i j : Nat) (hj : j < s.length) (hij : i ≤ j) :
    s[i]'(by omega) ≤ s[j] := by
  rcases Nat.lt_or_ge i j with h | h
  · exact (List.pairwise_iff_getElem.1 hs) i j (by omega) hj h
  · have : i = j := by omega
    subst this; exact Int.le_refl _

/-- `statistics.median` of a window of odd length `2k+1` is element `k` of the sorted window.
Hypothesis audit: the odd length is enforced by the code for every window size, even ones included
(`window_odd_length`: `_stepFilter` always builds `2·⌊window/2⌋+1` elements, which is also what the property text
"element i and its floor(window/2) neighbours on either side" says); `statistics.median` on even-length data (mean
of the two middle elements) and on `[]` (`StatisticsError`) is not modelled and never reached. -/
theorem median_mid (w : List Int) (k : Nat) (h : w.length = 2 * k + 1) :
    (pySorted w)[k]? = some (median w) ∧ (pySorted w).Perm w ∧ (pySorted w).Pairwise (· ≤ ·) := by
  refine ⟨?_, pySorted_perm w, pySorted_sorted w⟩
  have hk : k < (pySorted w).length := by rw [pySorted_length]; omega
  have : w.length / 2 = k := by omega
  simp [median, this, List.getD_eq_getElem?_getD, List.getElem?_eq_getElem hk]

/-- the model's median of a non-empty window is one of its elements.  Hypothesis audit: `w ≠ []` is enforced by the
code — `_stepFilter` only hands over windows of length `2·offset+1 ≥ 1` (`window_odd_length`); on `[]` the real
`statistics.median` raises `StatisticsError` (not modelled, never reached).  Caveat: the model's `median` is
`statistics.median` only on odd-length data; for an even-length list Python returns the mean of the two middle
elements, which need not be a member — this statement is about the model and is used on odd windows only
(`medianFilter_mem`). -/
theorem median_mem (w : List Int) (h : w ≠ []) : median w ∈ w := by
  have hl : 0 < w.length := List.length_pos_iff.2 h
  have hk : w.length / 2 < (pySorted w).length := by rw [pySorted_length]; omega
  have : median w = (pySorted w)[w.length / 2] := by
    simp [median, List.getD_eq_getElem?_getD, List.getElem?_eq_getElem hk]
  rw [this]
  exact (pySorted_perm w).mem_iff.1 (List.getElem_mem hk)

/-- the textbook characterisation: at most `k` elements of the `2k+1` are smaller than the median and at most
`k` are larger -/
theorem median_rank (w : List Int) (k : Nat) (h : w.length = 2 * k + 1) :
    w.countP (fun x => decide (x < median w)) ≤ k ∧ w.countP (fun x => decide (median w < x)) ≤ k := by
  obtain ⟨hm, hp, hs⟩ := median_mid w k h
  have hlen : (pySorted w).length = 2 * k + 1 := by rw [pySorted_length, h]
  have hk : k < (pySorted w).length := by omega
  have hmk : median w = (pySorted w)[k] := by
    rw [List.getElem?_eq_getElem hk] at hm; exact (Option.some.inj hm).symm
  rw [← hp.countP_eq, ← hp.countP_eq]
  generalize pySorted w = s at *
  constructor
  · rw [← List.take_append_drop k s, List.countP_append]
    have h0 : (List.drop k s).countP (fun x => decide (x < median w)) = 0 := by
      rw [List.countP_eq_zero]
      intro a ha
      obtain ⟨j, hj, rfl⟩ := List.mem_drop_iff_getElem.1 ha
      have := sorted_le hs k (k + j) (by omega) (by omega)
      simp only [decide_eq_true_eq, hmk]; omega
    have h1 := List.countP_le_length (p := fun x => decide (x < median w)) (l := List.take k s)
    rw [List.length_take] at h1
    omega
  · rw [← List.take_append_drop (k + 1) s, List.countP_append]
    have h0 : (List.take (k + 1) s).countP (fun x => decide (median w < x)) = 0 := by
      rw [List.countP_eq_zero]
      intro a ha
      obtain ⟨j, hj, rfl⟩ := List.mem_take_iff_getElem.1 ha
      have hj' : j < k + 1 := by omega
      have := sorted_le hs j k hk (by omega)
      simp only [decide_eq_true_eq, hmk]; omega
    have h1 := List.countP_le_length (p := fun x => decide (median w < x)) (l := List.drop (k + 1) s)
    rw [List.length_drop] at h1
    omega

/-- … and that characterisation determines the median: it does not depend on how ties are ordered -/
theorem median_unique (w : List Int) (k : Nat) (h : w.length = 2 * k + 1) (m : Int)
    (hlt : w.countP (fun x => decide (x < m)) ≤ k) (hgt : w.countP (fun x => decide (m < x)) ≤ k) :
    m = median w := by
  obtain ⟨h1, h2⟩ := median_rank w k h
  have e1 := List.length_eq_countP_add_countP (fun x => decide (x < m)) (l := w)
  have e2 := List.length_eq_countP_add_countP (fun x => decide (m < x)) (l := w)
  have e3 := List.length_eq_countP_add_countP (fun x => decide (x < median w)) (l := w)
  have e4 := List.length_eq_countP_add_countP (fun x => decide (median w < x)) (l := w)
  rcases Int.lt_trichotomy m (median w) with hlt' | heq | hgt'
  · -- everything not above m is below the median: more than k such elements
    have := List.countP_mono_left (l := w) (p := fun a => decide ¬(decide (m < a)) = true)
      (q := fun x => decide (x < median w)) (by intro x _; simp only [decide_eq_true_eq]; omega)
    omega
  · exact heq
  · have := List.countP_mono_left (l := w) (p := fun a => decide ¬(decide (a < m)) = true)
      (q := fun x => decide (median w < x)) (by intro x _; simp only [decide_eq_true_eq]; omega)
    omega

/-! ## `medianFilter` -/

theorem medianFilter_length (xs : List Int) (window : Nat) (pad : Bool) :
    (medianFilter xs window pad).length = xs.length := stepFilter_length _ _ _ _

/-- **`medianFilter`**: element `i` is the middle element (index `off`) of the sorted clamped window
`[xs[clamp (i-off)] … xs[clamp (i+off)]]`, `off = window / 2`, when padding is on or the window fits; the
element is unchanged otherwise. -/
theorem medianFilter_spec (xs : List Int) (window : Nat) (pad : Bool) (i : Nat) (hi : i < xs.length) :
    (pad = true ∨ (window / 2 ≤ i ∧ i + window / 2 < xs.length) →
      (pySorted (clampedWindow xs xs[i] i (window / 2)))[window / 2]? =
        some ((medianFilter xs window pad)[i]'(by rw [medianFilter_length]; exact hi))) ∧
    (¬ (pad = true ∨ (window / 2 ≤ i ∧ i + window / 2 < xs.length)) →
      (medianFilter xs window pad)[i]'(by rw [medianFilter_length]; exact hi) = xs[i]) := by
  have h := stepFilter_spec median xs window pad i hi
  constructor
  · intro hc
    rw [if_pos hc] at h
    have := (median_mid (clampedWindow xs xs[i] i (window / 2)) (window / 2) (clampedWindow_length _ _ _ _)).1
    rw [this]; simp only [medianFilter]; rw [h]
  · intro hc
    rw [if_neg hc] at h
    simpa only [medianFilter] using h

theorem clampedWindow_mem {α : Type} (xs : List α) (i off : Nat) (hi : i < xs.length) :
    ∀ a ∈ clampedWindow xs xs[i] i off, a ∈ xs := by
  intro a ha
  obtain ⟨k, hk, rfl⟩ := List.mem_iff_getElem.1 ha
  rw [clampedWindow_length] at hk
  rw [clampedWindow_getElem xs xs[i] i off k (by omega) hk]
  exact List.getElem_mem _

/-- median filtering invents no values: every output element is an element of the input -/
theorem medianFilter_mem (xs : List Int) (window : Nat) (pad : Bool) :
    ∀ a ∈ medianFilter xs window pad, a ∈ xs := by
  intro a ha
  obtain ⟨i, hi, rfl⟩ := List.mem_iff_getElem.1 ha
  rw [medianFilter_length] at hi
  simp only [medianFilter]
  rw [stepFilter_spec median xs window pad i hi]
  split
  · apply clampedWindow_mem xs i (window / 2) hi
    apply median_mem
    intro h0
    have := clampedWindow_length xs xs[i] i (window / 2)
    rw [h0] at this; simp at this
  · exact List.getElem_mem _

/-- a constant series is a fixed point of the median filter (any window, either padding mode) -/
theorem medianFilter_const (n : Nat) (c : Int) (window : Nat) (pad : Bool) :
    medianFilter (List.replicate n c) window pad = List.replicate n c := by
  apply List.ext_getElem
  · rw [medianFilter_length]
  · intro i h1 h2
    have := medianFilter_mem (List.replicate n c) window pad _ (List.getElem_mem h1)
    rw [List.getElem_replicate]
    exact (List.mem_replicate.1 this).2

/-- window sizes 0 and 1 (offset 0) are the identity (`window ≤ 1` is the subject of the statement; every other
window size is covered by `medianFilter_spec`, which has no hypothesis on the window) -/
theorem medianFilter_window0 (xs : List Int) (window : Nat) (hw : window ≤ 1) (pad : Bool) :
    medianFilter xs window pad = xs := by
  apply List.ext_getElem
  · rw [medianFilter_length]
  · intro i h1 h2
    have h0 : window / 2 = 0 := by omega
    simp only [medianFilter]
    rw [stepFilter_spec median xs window pad i h2, h0]
    have hc : clampIdx xs.length (i : Int) = i := by unfold clampIdx; omega
    have hw1 : clampedWindow xs xs[i] i 0 = [xs[i]] := by
      simp [clampedWindow, hc, List.getElem?_eq_getElem h2]
    simp [hw1, median, pySorted]

/-- an even window size `2k` behaves exactly like the odd size `2k+1` (only `⌊window/2⌋` is used): `k` neighbours on
either side, as the property text says ("element i and its floor(window/2) neighbours on either side") — so a
"window of 4" looks at 5 elements.  Real code: `medianFilter(xs, 4, p) == medianFilter(xs, 5, p)`. -/
theorem medianFilter_even_window (xs : List Int) (k : Nat) (pad : Bool) :
    medianFilter xs (2 * k) pad = medianFilter xs (2 * k + 1) pad := by
  have h : (2 * k + 1) / 2 = 2 * k / 2 := by omega
  simp only [medianFilter, stepFilter, h]

/-- a window that does not fit anywhere (`len ≤ 2·⌊window/2⌋`, e.g. any window larger than the series) without
padding: nothing is filtered, the series comes back unchanged.  Real code:
`medianFilter([1, 9, 2, 8, 3], 8, False) == [1, 9, 2, 8, 3]`. -/
theorem medianFilter_window_large (xs : List Int) (window : Nat) (h : xs.length ≤ 2 * (window / 2)) :
    medianFilter xs window false = xs := by
  apply List.ext_getElem
  · rw [medianFilter_length]
  · intro i h1 h2
    simp only [medianFilter]
    exact stepFilter_edges median xs window i h2 (by omega)

/-! ## `detectPitchErrors` (exact rational arithmetic) -/

/-- `zip l l[1:]` is the list of consecutive pairs `(l[i-1], l[i])`, `i = 1 .. len-1`, in order -/
theorem pairs_spec {β : Type} (l : List β) :
    (l.zip l.tail).length = l.length - 1 ∧
    ∀ j (h : j + 1 < l.length), (l.zip l.tail)[j]? = some (l[j], l[j + 1]) := by
  constructor
  · simp only [List.length_zip, List.length_tail]; omega
  · intro j h
    rw [List.getElem?_eq_getElem (by simp only [List.length_zip, List.length_tail]; omega)]
    simp [List.getElem_zip, List.getElem_tail]

theorem filterMap_ite {β γ : Type} (p : β → Bool) (f : β → γ) (l : List β) :
    l.filterMap (fun x => if p x then some (f x) else none) = (l.filter p).map f := by
  induction l with
  | nil => rfl
  | cons a l ih => by_cases h : p a <;> simp [h, ih]

theorem jumpFires_iff (thr last cur : Rat) :
    jumpFires thr last cur = true ↔ (last ≤ cur * thr ∨ cur / thr ≤ last) := by
  simp [jumpFires]

/-- for positive pitches and a positive threshold the test is the textbook one on the ratio `cur / last`:
the pitch jumped down to at most `thr` times, or up to at least `1 / thr` times, its previous value.
Hypothesis audit: `0 < thr` is the property's quantifier (thresholds in `(0, 1]`; `thr = 0`: `detect_threshold_zero`).
`0 < last` is *not* enforced by the code; the two excluded cases are covered: `last = 0` — the test always fires
(`jump_zero_fires`) and the label then divides by zero (`detect_spec`, `detect_zero_pitch_counterexample`);
`last < 0` — the test always fires, whatever the ratio (`jump_negative_fires`,
`detect_negative_pitch_counterexample`). -/
theorem jump_ratio (thr last cur : Rat) (ht : 0 < thr) (hl : 0 < last) :
    jumpFires thr last cur = true ↔ (cur / last ≤ thr ∨ 1 / thr ≤ cur / last) := by
  rw [jumpFires_iff]
  have e1 : (last ≤ cur * thr) ↔ (1 / thr ≤ cur / last) := by
    rw [← Rat.not_lt, ← Rat.not_lt (a := cur / last), Rat.div_lt_iff hl]
    have : 1 / thr * last = last / thr := by grind
    rw [this, Rat.lt_div_iff ht]
  have e2 : (cur / thr ≤ last) ↔ (cur / last ≤ thr) := by
    rw [← Rat.not_lt, ← Rat.not_lt (a := thr), Rat.lt_div_iff ht, Rat.lt_div_iff hl, Rat.mul_comm]
  rw [e1, e2]; exact Or.comm

/-- after a zero sample the test fires whatever the current sample is (any positive threshold): the case
`last = 0` excluded from `jump_ratio` -/
theorem jump_zero_fires (thr cur : Rat) (ht : 0 < thr) : jumpFires thr 0 cur = true := by
  rw [jumpFires_iff]
  rcases Rat.le_total (a := 0) (b := cur) with h | h
  · left; exact Rat.mul_nonneg h (Rat.le_of_lt ht)
  · right
    rw [← Rat.not_lt, Rat.lt_div_iff ht, Rat.zero_mul, Rat.not_lt]; exact h

theorem neg_le_mul (x thr : Rat) (hx : x ≤ 0) (h1 : thr ≤ 1) : x ≤ x * thr := by
  have h := Rat.mul_nonneg (a := -x) (b := 1 - thr) (by grind) (by grind)
  grind

/-- after a negative sample the test fires whatever the current sample is (threshold in `(0, 1]`): the case
`last < 0` excluded from `jump_ratio`.  In terms of the ratio `r = cur / last` the two tests become `r ≤ 1/thr` and
`r ≥ thr`, and one of them always holds since `thr ≤ 1 ≤ 1/thr` — e.g. two equal negative samples (ratio 1) are
reported (`detect_negative_pitch_counterexample`). -/
theorem jump_negative_fires (thr last cur : Rat) (ht : 0 < thr) (h1 : thr ≤ 1) (hl : last < 0) :
    jumpFires thr last cur = true := by
  rw [jumpFires_iff]
  apply Classical.byContradiction
  intro hn
  have ha : cur * thr < last := by
    rw [← Rat.not_le]; intro h; exact hn (Or.inl h)
  have hb : last * thr < cur := by
    rw [← Rat.lt_div_iff ht, ← Rat.not_le]; intro h; exact hn (Or.inr h)
  have h2 := neg_le_mul last thr (Rat.le_of_lt hl) h1
  rcases Rat.le_total (a := 0) (b := cur) with h | h
  · have := Rat.mul_nonneg h (Rat.le_of_lt ht)
    grind
  · have := neg_le_mul cur thr h h1
    grind

/-- with the largest allowed threshold, 1, the test fires on every pair (the comparisons are not strict), equal
consecutive samples included -/
theorem jump_one_fires (last cur : Rat) : jumpFires 1 last cur = true := by
  rw [jumpFires_iff]
  rcases Rat.le_total (a := last) (b := cur) with h | h
  · left; grind
  · right; grind

theorem detectLoop_ok {τ : Type} (thr : Rat) (ht : thr ≠ 0) (pairs : List ((τ × Rat) × (τ × Rat)))
    (hnz : ∀ pc ∈ pairs, jumpFires thr pc.1.2 pc.2.2 = true → pc.1.2 ≠ 0) :
    detectLoop thr pairs = .ok ((pairs.filter fun pc => jumpFires thr pc.1.2 pc.2.2).map
      fun pc => (pc.2.1, pc.2.2 / pc.1.2)) := by
  induction pairs with
  | nil => rfl
  | cons pc rest ih =>
    have ih' := ih (fun q hq => hnz q (List.mem_cons_of_mem _ hq))
    have h0 := hnz pc List.mem_cons_self
    simp only [detectLoop, ih', detectStep]
    have ht' : (thr == 0) = false := by simpa using ht
    by_cases hf : jumpFires thr pc.1.2 pc.2.2 = true
    · have hz : (pc.1.2 == 0) = false := by simpa using h0 hf
      simp [ht', hf, hz]
    · simp [ht', hf]

/-- **`detectPitchErrors`**: for a threshold in `(0, 1]`, the reported points are exactly the positions
`i ≥ 1` at which `p[i-1] ≤ p[i]·thr ∨ p[i-1] ≥ p[i]/thr`, in order, with time `t[i]` and the quotient
`p[i]/p[i-1]` (whose `str` is the label).  Partial: it needs `p[i-1] ≠ 0` wherever the test fires —
otherwise the code raises (`detect_zero_pitch_counterexample`).  The total statement, without `hnz`, is
`detect_spec`; `h0`, `h1` are the property's quantifier (thresholds in `(0, 1]`; outside: `detect_rejects`,
`detect_threshold_zero`). -/
theorem detect_spec_partial {τ : Type} (pl : List (τ × Rat)) (thr : Rat) (h0 : 0 < thr) (h1 : thr ≤ 1)
    (hnz : ∀ pc ∈ pl.zip pl.tail, jumpFires thr pc.1.2 pc.2.2 = true → pc.1.2 ≠ 0) :
    detectPitchErrors pl thr = .ok (((pl.zip pl.tail).filter fun pc => jumpFires thr pc.1.2 pc.2.2).map
      fun pc => (pc.2.1, pc.2.2 / pc.1.2)) := by
  have hr : ¬ (thr < 0 ∨ thr > 1) := by grind
  simp only [detectPitchErrors, hr, if_false]
  exact detectLoop_ok thr (Rat.ne_of_lt h0).symm _ hnz

theorem zip_tail_fst {β : Type} : ∀ (l : List β), (l.zip l.tail).map Prod.fst = l.dropLast
  | [] => rfl
  | [_] => rfl
  | a :: b :: t => by
    have ih := zip_tail_fst (b :: t)
    simp only [List.tail_cons] at ih
    simp [ih]

theorem detectLoop_zero {τ : Type} (thr : Rat) (ht : 0 < thr) (pairs : List ((τ × Rat) × (τ × Rat)))
    (hz : ∃ pc ∈ pairs, pc.1.2 = 0) : detectLoop thr pairs = .error .ZeroDivisionError := by
  have ht' : (thr == 0) = false := by simpa using (Rat.ne_of_lt ht).symm
  induction pairs with
  | nil => obtain ⟨pc, h, _⟩ := hz; cases h
  | cons pc rest ih =>
    by_cases hp : pc.1.2 = 0
    · have hf : jumpFires thr 0 pc.2.2 = true := jump_zero_fires thr pc.2.2 ht
      simp [detectLoop, detectStep, ht', hp, hf]
    · have hrest : ∃ q ∈ rest, q.1.2 = 0 := by
        obtain ⟨q, hq, hq0⟩ := hz
        rcases List.mem_cons.1 hq with rfl | hq
        · exact absurd hq0 hp
        · exact ⟨q, hq, hq0⟩
      have hz' : (pc.1.2 == 0) = false := by simpa using hp
      by_cases hf : jumpFires thr pc.1.2 pc.2.2 = true
      · simp [detectLoop, detectStep, ht', hf, hz', ih hrest]
      · simp [detectLoop, detectStep, ht', hf, ih hrest]

/-- **`detectPitchErrors`, total** (every track, every threshold in `(0, 1]`; no hypothesis on the samples):
if a sample other than the last one is 0 the call raises `ZeroDivisionError` (open finding C20-3), otherwise the
reported points are exactly the positions `i ≥ 1` at which `p[i-1] ≤ p[i]·thr ∨ p[i-1] ≥ p[i]/thr`, in order, with
time `t[i]` and the quotient `p[i]/p[i-1]`.  Tracks of length 0 and 1 give `[]`. -/
theorem detect_spec {τ : Type} (pl : List (τ × Rat)) (thr : Rat) (h0 : 0 < thr) (h1 : thr ≤ 1) :
    detectPitchErrors pl thr =
      if ∃ p ∈ pl.dropLast, p.2 = 0 then .error .ZeroDivisionError
      else .ok (((pl.zip pl.tail).filter fun pc => jumpFires thr pc.1.2 pc.2.2).map
        fun pc => (pc.2.1, pc.2.2 / pc.1.2)) := by
  split
  · rename_i hz
    have hr : ¬ (thr < 0 ∨ thr > 1) := by grind
    simp only [detectPitchErrors, hr, if_false]
    apply detectLoop_zero thr h0
    obtain ⟨p, hp, hp0⟩ := hz
    rw [← zip_tail_fst, List.mem_map] at hp
    obtain ⟨pc, hpc, rfl⟩ := hp
    exact ⟨pc, hpc, hp0⟩
  · rename_i hz
    apply detect_spec_partial pl thr h0 h1
    intro pc hpc _ h
    apply hz
    refine ⟨pc.1, ?_, h⟩
    rw [← zip_tail_fst, List.mem_map]
    exact ⟨pc, hpc, rfl⟩

/-- the threshold 0 passes the range check (`maxJumpThreshold < 0 or > 1`) but is outside the property's quantifier
`(0, 1]`: the first pair divides by it (`currentPitch / maxJumpThreshold`), so every track with at least two
samples raises `ZeroDivisionError`; shorter tracks give `[]` -/
theorem detect_threshold_zero {τ : Type} (pl : List (τ × Rat)) :
    detectPitchErrors pl 0 = if pl.length ≤ 1 then .ok [] else .error .ZeroDivisionError := by
  have hr : ¬ ((1 : Rat) < 0) := by decide
  match pl with
  | [] => simp [detectPitchErrors, hr, detectLoop]
  | [_] => simp [detectPitchErrors, hr, detectLoop]
  | a :: b :: t => simp [detectPitchErrors, hr, detectLoop, detectStep]

/-- a threshold outside `[0, 1]` is rejected with `ArgumentError` -/
theorem detect_rejects {τ : Type} (pl : List (τ × Rat)) (thr : Rat) (h : thr < 0 ∨ 1 < thr) :
    detectPitchErrors pl thr = .error .ArgumentError := by
  simp only [detectPitchErrors]
  rw [if_pos]; exact h

/-- counter-example to the unrestricted statement: a track whose previous sample is 0 (the usual encoding of
an unvoiced frame) followed by *any* sample (the former hypothesis `0 ≤ cur` was a convenience and is gone) raises
`ZeroDivisionError` for every threshold in `(0, 1]` -/
theorem detect_zero_pitch_counterexample {τ : Type} (t0 t1 : τ) (cur thr : Rat)
    (h0 : 0 < thr) (h1 : thr ≤ 1) :
    detectPitchErrors [(t0, 0), (t1, cur)] thr = .error .ZeroDivisionError := by
  rw [detect_spec _ _ h0 h1, if_pos]
  exact ⟨(t0, 0), by simp, rfl⟩

/-- negative samples (outside a pitch track in Hz, but not rejected by the code): two equal negative samples —
ratio exactly 1, no jump — are reported as a pitch error.  Real code:
`detectPitchErrors([(0, -100.0), (1, -100.0)], 0.7)[0] == [Point(1, '1.0')]`. -/
theorem detect_negative_pitch_counterexample :
    detectPitchErrors [((0 : Int), (-100 : Rat)), (1, -100)] (7 / 10) = .ok [(1, 1)] := by
  have hf : jumpFires (7 / 10 : Rat) (-100) (-100) = true :=
    jump_negative_fires _ _ _ (by grind) (by grind) (by grind)
  have hd : (-100 : Rat) / (-100) = 1 := by grind
  have hz : ¬ ((-100 : Rat) = 0) := by grind
  rw [detect_spec _ _ (by grind) (by grind)]
  simp [hf, hd, hz]

/-- the closed end of the quantifier's `(0, 1]`: with threshold 1 two equal samples — no jump at all, and certainly
not one "by more than the given ratio" — are reported (the comparisons are `<=` / `>=`, `jump_one_fires`).  Real code:
`detectPitchErrors([(0, 100.0), (1, 100.0)], 1.0)[0] == [Point(1, '1.0')]`. -/
theorem detect_threshold_one_counterexample :
    detectPitchErrors [((0 : Int), (100 : Rat)), (1, 100)] 1 = .ok [(1, 1)] := by
  have hf : jumpFires (1 : Rat) 100 100 = true := jump_one_fires _ _
  have hd : (100 : Rat) / 100 = 1 := by grind
  have hz : ¬ ((100 : Rat) = 0) := by grind
  rw [detect_spec _ _ (by grind) (by grind)]
  simp [hf, hd, hz]

/-! ## `loadTimeSeriesData` -/

/-- `"--" in value`, as a statement about the characters -/
theorem hasMarkerL_iff (cs : List Char) :
    hasMarkerL cs = true ↔ ∃ pre post, cs = pre ++ '-' :: '-' :: post := by
  induction cs with
  | nil => simp [hasMarkerL]
  | cons a cs ih =>
    cases cs with
    | nil =>
      simp only [hasMarkerL, Bool.false_eq_true, false_iff]
      rintro ⟨pre, post, h⟩
      have := congrArg List.length h
      simp at this; omega
    | cons b cs =>
      simp only [hasMarkerL, Bool.or_eq_true, Bool.and_eq_true, beq_iff_eq, ih]
      constructor
      · rintro (⟨rfl, rfl⟩ | ⟨pre, post, h⟩)
        · exact ⟨[], cs, rfl⟩
        · exact ⟨a :: pre, post, by rw [h]; rfl⟩
      · rintro ⟨pre, post, h⟩
        cases pre with
        | nil =>
          simp only [List.nil_append, List.cons.injEq] at h
          exact Or.inl ⟨h.1, h.2.1⟩
        | cons c pre =>
          simp only [List.cons_append, List.cons.injEq] at h
          exact Or.inr ⟨pre, post, h.2⟩

/-- the rows after the header test: the first row is dropped iff its first field is exactly `time` -/
def body : List (List String) → List (List String)
  | (h :: hs) :: rest => if h = "time" then rest else (h :: hs) :: rest
  | rows => rows

/-- no value field (any column after the time) carries an undefined marker -/
def rowClean (row : List String) : Bool := row.tail.all fun v => !hasMarker v

/-- every marker in a value column replaced by `u`, every other field converted -/
def rowSubst {α : Type} (num : String → α) (u : α) : List String → List α
  | [] => []
  | t :: vs => num t :: vs.map fun v => if hasMarker v then u else num v

/-! ### which fields `float()` is applied to, and the first one it rejects

The former `load_spec` took `float` total (`fun s => .ok (num s)`): a hidden convenience hypothesis.  The real `float()`
raises `ValueError`; `load_spec_float` / `load_error` below are stated for an arbitrary `float` and together cover
every listing (`firstErr_none_iff`, `firstErr_some_iff`). -/

/-- the value fields `float()` is applied to: with a substitute every field without a marker; without one the
fields before the first marker (`doSkip = True; break`) -/
def reachedVals {α : Type} (undef : Option α) (vs : List String) : List String :=
  match undef with
  | some _ => vs.filter fun v => !hasMarker v
  | none => vs.takeWhile fun v => !hasMarker v

/-- the fields of one row `float()` is applied to, in order: the time field (always, no marker test) and then
`reachedVals` of the value fields -/
def reached {α : Type} (undef : Option α) : List String → List String
  | [] => []
  | t :: vs => t :: reachedVals undef vs

/-- the error of the first field of the list that `float()` rejects, if any -/
def firstErr {α : Type} (float : String → Except Err α) : List String → Option Err
  | [] => none
  | s :: ss => match float s with
    | .error e => some e
    | .ok _ => firstErr float ss

theorem firstErr_append {α : Type} (float : String → Except Err α) (a b : List String) :
    firstErr float (a ++ b) = match firstErr float a with | some e => some e | none => firstErr float b := by
  induction a with
  | nil => rfl
  | cons s ss ih =>
    simp only [List.cons_append, firstErr]
    split <;> simp_all

/-- `firstErr = none`: every field converts -/
theorem firstErr_none_iff {α : Type} (float : String → Except Err α) (l : List String) :
    firstErr float l = none ↔ ∀ s ∈ l, ∃ x, float s = .ok x := by
  induction l with
  | nil => simp [firstErr]
  | cons s ss ih =>
    simp only [firstErr, List.mem_cons, forall_eq_or_imp]
    split
    · rename_i e he; simp [he]
    · rename_i x hx; simp [hx, ih]

/-- `firstErr = some e`: some field is rejected with `e` and every field before it converts -/
theorem firstErr_some_iff {α : Type} (float : String → Except Err α) (l : List String) (e : Err) :
    firstErr float l = some e ↔
      ∃ a s b, l = a ++ s :: b ∧ (∀ t ∈ a, ∃ x, float t = .ok x) ∧ float s = .error e := by
  induction l with
  | nil => simp [firstErr]
  | cons s ss ih =>
    simp only [firstErr]
    split
    · rename_i e' he
      constructor
      · intro h; cases h; exact ⟨[], s, ss, rfl, by simp, he⟩
      · rintro ⟨a, s', b, hl, ha, hs⟩
        cases a with
        | nil => simp only [List.nil_append, List.cons.injEq] at hl; rw [← hl.1, he] at hs; cases hs; rfl
        | cons t a =>
          simp only [List.cons_append, List.cons.injEq] at hl
          obtain ⟨x, hx⟩ := ha t List.mem_cons_self
          rw [← hl.1, he] at hx; cases hx
    · rename_i x hx
      rw [ih]
      constructor
      · rintro ⟨a, s', b, hl, ha, hs⟩
        refine ⟨s :: a, s', b, by simp [hl], ?_, hs⟩
        intro t ht
        rcases List.mem_cons.1 ht with rfl | ht
        · exact ⟨x, hx⟩
        · exact ha t ht
      · rintro ⟨a, s', b, hl, ha, hs⟩
        cases a with
        | nil => simp only [List.nil_append, List.cons.injEq] at hl; rw [← hl.1, hx] at hs; cases hs
        | cons t a =>
          simp only [List.cons_append, List.cons.injEq] at hl
          exact ⟨a, s', b, hl.2, fun t' ht' => ha t' (List.mem_cons_of_mem _ ht'), hs⟩

/-- value fields: the first reached field that `float()` rejects aborts -/
theorem loadValues_err {α : Type} (float : String → Except Err α) (undef : Option α) (vs : List String)
    (entry : List α) (e : Err) (h : firstErr float (reachedVals undef vs) = some e) :
    loadValues float undef vs entry = .error e := by
  induction vs generalizing entry with
  | nil => cases undef <;> simp [reachedVals, firstErr] at h
  | cons v vs ih =>
    by_cases hm : hasMarker v = true
    · cases undef with
      | none => simp [reachedVals, hm, firstErr] at h
      | some u =>
        simp only [loadValues, hm, if_true]
        apply ih
        simpa [reachedVals, hm] using h
    · have hr : reachedVals undef (v :: vs) = v :: reachedVals undef vs := by
        cases undef <;> simp [reachedVals, hm]
      rw [hr] at h
      simp only [firstErr] at h
      simp only [loadValues, hm]
      split at h
      · rename_i e' he; cases h; simp [he]
      · rename_i x hx; simp only [hx]; exact ih _ h

/-- value fields, when every reached field converts (`float s = ok (num s)`) -/
theorem loadValues_ok {α : Type} (float : String → Except Err α) (num : String → α) (undef : Option α)
    (vs : List String) (entry : List α) (h : ∀ s ∈ reachedVals undef vs, float s = .ok (num s)) :
    loadValues float undef vs entry = .ok (
      match undef with
      | some u => some (entry ++ vs.map fun v => if hasMarker v then u else num v)
      | none => if vs.all (fun v => !hasMarker v) then some (entry ++ vs.map num) else none) := by
  induction vs generalizing entry with
  | nil => cases undef <;> simp [loadValues]
  | cons v vs ih =>
    by_cases hm : hasMarker v = true
    · cases undef with
      | none => simp [loadValues, hm]
      | some u =>
        have h' : ∀ s ∈ reachedVals (some u) vs, float s = .ok (num s) := by
          intro s hs; apply h; simpa [reachedVals, hm] using hs
        simp [loadValues, hm, ih _ h']
    · have hr : reachedVals undef (v :: vs) = v :: reachedVals undef vs := by
        cases undef <;> simp [reachedVals, hm]
      rw [hr] at h
      have hv := h v List.mem_cons_self
      have h' : ∀ s ∈ reachedVals undef vs, float s = .ok (num s) :=
        fun s hs => h s (List.mem_cons_of_mem _ hs)
      cases undef with
      | none => simp [loadValues, hm, hv, ih _ h']
      | some u => simp [loadValues, hm, hv, ih _ h']

theorem loadRow_err {α : Type} (float : String → Except Err α) (undef : Option α) (row : List String) (e : Err)
    (h : firstErr float (reached undef row) = some e) : loadRow float undef row = .error e := by
  cases row with
  | nil => simp [reached, firstErr] at h
  | cons t vs =>
    simp only [reached, firstErr] at h
    simp only [loadRow]
    split at h
    · rename_i e' he; cases h; simp [he]
    · rename_i x hx; simp only [hx]; exact loadValues_err float undef vs [x] e h

theorem loadRow_ok {α : Type} (float : String → Except Err α) (num : String → α) (undef : Option α)
    (t : String) (vs : List String) (h : ∀ s ∈ reached undef (t :: vs), float s = .ok (num s)) :
    loadRow float undef (t :: vs) = .ok (
      match undef with
      | some u => some (rowSubst num u (t :: vs))
      | none => if rowClean (t :: vs) then some ((t :: vs).map num) else none) := by
  have ht := h t (by simp [reached])
  have hv : ∀ s ∈ reachedVals undef vs, float s = .ok (num s) := fun s hs => h s (by simp [reached, hs])
  simp only [loadRow, ht, loadValues_ok float num undef vs [num t] hv]
  cases undef <;> simp [rowSubst, rowClean]

theorem loadRow_isOk {α : Type} (float : String → Except Err α) (undef : Option α) (row : List String)
    (hne : row ≠ []) (h : firstErr float (reached undef row) = none) : ∃ o, loadRow float undef row = .ok o := by
  cases row with
  | nil => exact absurd rfl hne
  | cons t vs =>
    rw [firstErr_none_iff] at h
    obtain ⟨x, hx⟩ := h t (by simp [reached])
    let num : String → α := fun s => match float s with | .ok y => y | .error _ => x
    have hn : ∀ s ∈ reached undef (t :: vs), float s = .ok (num s) := by
      intro s hs
      obtain ⟨y, hy⟩ := h s hs
      simp [num, hy]
    exact ⟨_, loadRow_ok float num undef t vs hn⟩

theorem loadRows_err {α : Type} (float : String → Except Err α) (undef : Option α) (rows : List (List String))
    (hr : ∀ r ∈ rows, r ≠ []) (e : Err) (h : firstErr float (rows.flatMap (reached undef)) = some e) :
    loadRows float undef rows = .error e := by
  induction rows with
  | nil => simp [firstErr] at h
  | cons r rows ih =>
    rw [List.flatMap_cons, firstErr_append] at h
    simp only [loadRows]
    split at h
    · rename_i e' he; cases h; rw [loadRow_err float undef r _ he]
    · rename_i hn
      obtain ⟨o, ho⟩ := loadRow_isOk float undef r (hr r List.mem_cons_self) hn
      rw [ho]; simp only
      rw [ih (fun q hq => hr q (List.mem_cons_of_mem _ hq)) h]

/-- what a listing whose reached fields all convert is loaded as (rows after the header test) -/
def loadExpected {α : Type} (num : String → α) (undef : Option α) (rows : List (List String)) : List (List α) :=
  match undef with
  | none => (rows.filter rowClean).map (·.map num)
  | some u => rows.map (rowSubst num u)

theorem loadRows_ok {α : Type} (float : String → Except Err α) (num : String → α) (undef : Option α)
    (rows : List (List String)) (hr : ∀ r ∈ rows, r ≠ [])
    (h : ∀ r ∈ rows, ∀ s ∈ reached undef r, float s = .ok (num s)) :
    loadRows float undef rows = .ok (loadExpected num undef rows) := by
  unfold loadExpected
  induction rows with
  | nil => cases undef <;> rfl
  | cons r rows ih =>
    have ih' := ih (fun q hq => hr q (List.mem_cons_of_mem _ hq)) (fun q hq => h q (List.mem_cons_of_mem _ hq))
    cases r with
    | nil => exact absurd rfl (hr [] List.mem_cons_self)
    | cons t vs =>
      simp only [loadRows, loadRow_ok float num undef t vs (h _ List.mem_cons_self), ih']
      cases undef with
      | some u => simp
      | none =>
        by_cases hc : rowClean (t :: vs) = true
        · simp [hc]
        · simp [hc]

theorem dropHeader_body (rows : List (List String)) (hr : ∀ r ∈ rows, r ≠ []) :
    dropHeader rows = .ok (body rows) := by
  cases rows with
  | nil => rfl
  | cons r rest =>
    cases r with
    | nil => exact absurd rfl (hr [] List.mem_cons_self)
    | cons h hs => simp [dropHeader, body]

theorem body_sub (rows : List (List String)) : ∀ r ∈ body rows, r ∈ rows := by
  intro r hr
  unfold body at hr
  split at hr
  · split at hr
    · exact List.mem_cons_of_mem _ hr
    · exact hr
  · exact hr

/-- **`loadTimeSeriesData`, success case, for an arbitrary `float()`** (it may reject any string): on any listing —
zero or more rows, every row with ≥ 1 field, as `str.split` guarantees — such that every field `float()` is actually
applied to converts (`reached`: the time field of every non-header row, and the value fields without a marker —
only those before the first marker when there is no substitute, so a malformed field *after* a marker in a skipped
row is never looked at): the header row is dropped iff its first field is `time`; with no substitute exactly the
rows without a marker in a value column are kept, fully converted, once, in file order; with a substitute `u` every
row is kept and each marked value field becomes `u`.  Rows may have different numbers of fields.
Hypothesis audit: `hr` is enforced by the code (`"".split(",") == [""]`, never `[]`; blank lines are filtered
before); `hconv` is the well-formedness of the listing, its negation is `load_error`. -/
theorem load_spec_float {α : Type} (float : String → Except Err α) (num : String → α) (undef : Option α)
    (rows : List (List String)) (hr : ∀ r ∈ rows, r ≠ [])
    (hconv : ∀ r ∈ body rows, ∀ s ∈ reached undef r, float s = .ok (num s)) :
    loadTimeSeriesData float undef rows = .ok (loadExpected num undef (body rows)) := by
  have hb : ∀ r ∈ body rows, r ≠ [] := fun r h => hr r (body_sub rows r h)
  simp only [loadTimeSeriesData, dropHeader_body rows hr]
  exact loadRows_ok float num undef (body rows) hb hconv

/-- **`loadTimeSeriesData`, failure case**: if some field `float()` is applied to is rejected, the call raises the
error of the first such field in file order (rows after the header test, fields left to right) — whatever the
substitute.  With `firstErr_none_iff` / `firstErr_some_iff` this and `load_spec_float` cover every listing. -/
theorem load_error {α : Type} (float : String → Except Err α) (undef : Option α)
    (rows : List (List String)) (hr : ∀ r ∈ rows, r ≠ []) (e : Err)
    (h : firstErr float ((body rows).flatMap (reached undef)) = some e) :
    loadTimeSeriesData float undef rows = .error e := by
  have hb : ∀ r ∈ body rows, r ≠ [] := fun r h => hr r (body_sub rows r h)
  simp only [loadTimeSeriesData, dropHeader_body rows hr]
  exact loadRows_err float undef (body rows) hb e h

/-- **`loadTimeSeriesData`** on any listing — zero or more rows, every row with ≥ 1 field, as `split` guarantees —
whose fields all convert (`float` total; see `load_spec_float` / `load_error` for an arbitrary `float`): the header row
is dropped iff its first field is `time`; with no substitute exactly the rows without a marker in a value column are
kept, fully converted, once, in file order; with a substitute `u` every row is kept and each marked value field
becomes `u`.  In particular the empty listing gives the empty list (`load_empty`). -/
theorem load_spec (num : String → Int) (undef : Option Int) (rows : List (List String))
    (hr : ∀ r ∈ rows, r ≠ []) :
    loadTimeSeriesData (fun s => .ok (num s)) undef rows = .ok (
      match undef with
      | none => ((body rows).filter rowClean).map (·.map num)
      | some u => (body rows).map (rowSubst num u)) := by
  have h := load_spec_float (fun s => .ok (num s)) num undef rows hr (fun _ _ _ _ => rfl)
  cases undef <;> simpa [loadExpected] using h

/-- counter-example to "undefined markers in any column": a marker in the *time* column is neither skipped nor
substituted — the time field goes to `float()` without a marker test, so with the real `float()` (which rejects
`--undefined--`) the whole call raises `ValueError`, with or without a substitute.  Real code: a file
`time,pitch\n--undefined--,100\n0.2,120\n` gives `ValueError: could not convert string to float: '--undefined--'`
for `undefinedValue` `None` and `0`. -/
theorem load_marker_in_time_column_counterexample {α : Type} (float : String → Except Err α) (undef : Option α)
    (hfloat : float "--undefined--" = .error .ValueError) (vs : List String) (rest : List (List String)) :
    hasMarker "--undefined--" = true ∧
    loadTimeSeriesData float undef (["time", "pitch"] :: ("--undefined--" :: vs) :: rest) = .error .ValueError ∧
    loadTimeSeriesData float undef (("--undefined--" :: vs) :: rest) = .error .ValueError := by
  refine ⟨by decide, ?_, ?_⟩
  · simp [loadTimeSeriesData, dropHeader, loadRows, loadRow, hfloat]
  · simp [loadTimeSeriesData, dropHeader, loadRows, loadRow, hfloat]

theorem loadRows_length_le {α : Type} (float : String → Except Err α) (undef : Option α) (rows : List (List String))
    (out : List (List α)) (h : loadRows float undef rows = .ok out) : out.length ≤ rows.length := by
  induction rows generalizing out with
  | nil => simp only [loadRows] at h; cases h; simp
  | cons r rows ih =>
    simp only [loadRows] at h
    split at h
    · cases h
    · split at h
      · cases h
      · rename_i o ho
        have := ih o ho
        cases h
        split <;> simp <;> omega

/-- the number of rows never grows, whatever `float` does and whatever the substitute is (`h`: the call returned;
when it raises there is no result to speak of — `load_error` says when) -/
theorem load_length_le {α : Type} (float : String → Except Err α) (undef : Option α) (rows : List (List String))
    (out : List (List α)) (h : loadTimeSeriesData float undef rows = .ok out) : out.length ≤ rows.length := by
  simp only [loadTimeSeriesData] at h
  split at h
  · cases h
  · rename_i b hb
    have h1 := loadRows_length_le float undef b out h
    have h2 : b.length ≤ rows.length := by
      unfold dropHeader at hb
      split at hb
      · cases hb; simp
      · cases hb
      · cases hb; split <;> simp
    omega

theorem loadValues_some_isSome {α : Type} (float : String → Except Err α) (u : α) (vs : List String)
    (entry : List α) (o : Option (List α)) (h : loadValues float (some u) vs entry = .ok o) : ∃ en, o = some en := by
  induction vs generalizing entry with
  | nil => simp only [loadValues] at h; cases h; exact ⟨_, rfl⟩
  | cons v vs ih =>
    simp only [loadValues] at h
    split at h
    · exact ih _ h
    · split at h
      · cases h
      · exact ih _ h

theorem loadRows_some_length {α : Type} (float : String → Except Err α) (u : α) (rows : List (List String))
    (out : List (List α)) (h : loadRows float (some u) rows = .ok out) : out.length = rows.length := by
  induction rows generalizing out with
  | nil => simp only [loadRows] at h; cases h; rfl
  | cons r rows ih =>
    simp only [loadRows] at h
    split at h
    · cases h
    · rename_i o ho
      split at h
      · cases h
      · rename_i out' hout
        have := ih out' hout
        cases h
        have hsome : ∃ en, o = some en := by
          cases r with
          | nil => simp [loadRow] at ho
          | cons t vs =>
            simp only [loadRow] at ho
            split at ho
            · cases ho
            · exact loadValues_some_isSome float u vs _ o ho
        obtain ⟨en, rfl⟩ := hsome
        simp [this]

/-- with a substitute no row is lost: whenever the call succeeds the result has exactly one row per non-header row —
for an arbitrary `float()` and any rows (the former hypotheses "`float` total" and "no row without fields" were
conveniences and are gone: a rejected field or a field-less row makes the call raise, it never drops a row) -/
theorem load_subst_length {α : Type} (float : String → Except Err α) (u : α) (rows : List (List String))
    (out : List (List α)) (h : loadTimeSeriesData float (some u) rows = .ok out) :
    out.length = (body rows).length := by
  simp only [loadTimeSeriesData] at h
  split at h
  · cases h
  · rename_i b hb
    have h1 := loadRows_some_length float u b out h
    have h2 : b = body rows := by
      unfold dropHeader at hb
      split at hb
      · cases hb; rfl
      · cases hb
      · cases hb; simp [body]
    rw [h1, h2]

/-- a listing without any row (an empty file) gives the empty list, whatever `float` and the substitute are -/
theorem load_empty {α : Type} (float : String → Except Err α) (undef : Option α) :
    loadTimeSeriesData float undef [] = .ok [] := rfl

/-- a field that `float()` rejects in a row that is reached makes the whole call raise: e.g. a header row whose
first field is not exactly `time` (`Time`, ` time`, a BOM before `time`, a second header further down).  The general
statement — any rejected field that is reached, anywhere — is `load_error`. -/
theorem load_bad_header {α : Type} (float : String → Except Err α) (undef : Option α) (h : String) (hs : List String)
    (rest : List (List String)) (hh : h ≠ "time") (e : Err) (hf : float h = .error e) :
    loadTimeSeriesData float undef ((h :: hs) :: rest) = .error e := by
  simp [loadTimeSeriesData, dropHeader, hh, loadRows, loadRow, hf]

/-! ## `getPitchMeasures` -/

/-- the list the aggregates see: median filter (edge padding on) first, zero removal second; never longer than
the input -/
theorem pitchValues_length_le (xs : List Int) (mw : Option Nat) (fz : Bool) :
    (pitchValues xs mw fz).length ≤ xs.length := by
  cases mw with
  | none => cases fz <;> simp [pitchValues, List.length_filter_le]
  | some w =>
    cases fz
    · simp [pitchValues, medianFilter_length]
    · simp only [pitchValues, if_true]
      exact Nat.le_trans (List.length_filter_le _ _) (Nat.le_of_eq (medianFilter_length xs w true))

theorem pitchValues_plain (xs : List Int) : pitchValues xs none false = xs := rfl

/-- zero removal drops exactly the zeros, keeping the order of the rest — of the series itself without median
filtering, of the median-filtered series (edge padding on, any window) with it (the former statement covered
`medianFilterWindowSize = None` only) -/
theorem pitchValues_filter (xs : List Int) (mw : Option Nat) :
    pitchValues xs mw true =
      (match mw with | none => xs | some w => medianFilter xs w true).filter (fun v => decide (v ≠ 0)) := by
  have hf : (fun (f0Val : Int) => !(f0Val == Tm.zero)) = (fun v => decide (v ≠ 0)) := by
    funext v
    by_cases h : v = 0 <;> simp [h, Tm.zero]
  cases mw <;> simp only [pitchValues, if_true, hf]

/-- **`getPitchMeasures`**: on a non-empty processed list `l = pitchValues …` the result is
`(mean l, max l, min l, max l - min l, variance l (mean l), sqrt (variance …))` where `max l`/`min l` are the
greatest / least element of `l`; on an empty one it is all zeros.  No hypothesis: the empty series, a series of
zeros with zero removal (nothing left) and a median window of any size (even, 0, larger than the series) are all
covered (`l = []` / `l ≠ []` are the two branches of the code, not restrictions). -/
theorem pitch_measures_def (A : PitchArith Int) (xs : List Int) (mw : Option Nat) (fz : Bool) :
    let l := pitchValues xs mw fz
    let r := getPitchMeasures A xs mw fz
    (l = [] → r = (0, 0, 0, 0, 0, 0)) ∧
    (l ≠ [] →
      r.1 = A.mean l ∧
      (r.2.1 ∈ l ∧ ∀ v ∈ l, v ≤ r.2.1) ∧
      (r.2.2.1 ∈ l ∧ ∀ v ∈ l, r.2.2.1 ≤ v) ∧
      r.2.2.2.1 = r.2.1 - r.2.2.1 ∧
      r.2.2.2.2.1 = A.variance l (A.mean l) ∧
      r.2.2.2.2.2 = A.sqrt (A.variance l (A.mean l))) := by
  intro l r
  constructor
  · intro h
    simp only [r, getPitchMeasures]
    rw [show pitchValues xs mw fz = [] from h]
    simp [Tm.zero]
  · intro h
    obtain ⟨a, as, hl⟩ := List.exists_cons_of_ne_nil h
    have hl' : pitchValues xs mw fz = a :: as := hl
    simp only [r, getPitchMeasures, hl', List.length_cons, pyMaxList, pyMinList, Option.getD_some,
      foldl_pyMax2, foldl_pyMin2]
    have hlz : (as.length + 1 == 0) = false := by simp
    simp only [hlz, Bool.false_eq_true, if_false]
    refine ⟨?_, ⟨?_, ?_⟩, ⟨?_, ?_⟩, ?_, ?_, ?_⟩
    · rw [hl]
    · rw [hl]
      rcases foldl_max_mem as a with h' | h'
      · rw [h']; exact List.mem_cons_self
      · exact List.mem_cons_of_mem _ h'
    · intro v hv
      rw [hl] at hv
      rcases List.mem_cons.1 hv with rfl | hv
      · exact (foldl_max_ge as v).1
      · exact (foldl_max_ge as a).2 v hv
    · rw [hl]
      rcases foldl_min_mem as a with h' | h'
      · rw [h']; exact List.mem_cons_self
      · exact List.mem_cons_of_mem _ h'
    · intro v hv
      rw [hl] at hv
      rcases List.mem_cons.1 hv with rfl | hv
      · exact (foldl_min_le as v).1
      · exact (foldl_min_le as a).2 v hv
    · trivial
    · rw [hl]
    · rw [hl]

/-! ## non-vacuity and evaluated illustrations (interpreter tests, not proofs) -/

-- the example in the docstring of `medianFilter`
#guard medianFilter [1, 1, 1, 9, 5, 2, 4, 7, 4, 5, 1, 5] 5 false == ([1, 1, 1, 2, 4, 5, 4, 4, 4, 5, 1, 5] : List Int)
#guard medianFilter [1, 1, 1, 9, 5, 2, 4, 7, 4, 5, 1, 5] 5 true == ([1, 1, 1, 2, 4, 5, 4, 4, 4, 5, 5, 5] : List Int)
#guard clampedWindow ([10, 20, 30] : List Int) 0 0 2 == [10, 10, 10, 20, 30]
#guard dataToFilter ([10, 20, 30] : List Int) 30 2 2 == [10, 20, 30, 30, 30]
#guard stepFilter (fun w => w.foldl (· + ·) 0) ([1, 2, 4] : List Int) 8 true == [19, 22, 25]
#guard stepFilter (fun w => w.foldl (· + ·) 0) ([1, 2, 4] : List Int) 2 false == [1, 7, 4]
#guard median ([3, 1, 2] : List Int) == 2
#guard (detectPitchErrors [((0 : Int), (100 : Rat)), (1, 200), (2, 100), (3, 69), (4, 100)] (7 / 10)).toOption
    == some [(1, 2), (2, 1 / 2), (3, 69 / 100), (4, 100 / 69)]
#guard hasMarker "--undefined--" && !hasMarker "-5" && !hasMarker "1e-5"

/-- the hypotheses of `detect_spec_partial` are satisfiable with a non-empty result -/
example : (0 : Rat) < 7 / 10 ∧ (7 / 10 : Rat) ≤ 1 ∧
    (∀ pc ∈ [((0 : Int), (100 : Rat)), (1, 200)].zip [((0 : Int), (100 : Rat)), (1, 200)].tail,
      jumpFires (7 / 10) pc.1.2 pc.2.2 = true → pc.1.2 ≠ 0) ∧
    jumpFires (7 / 10 : Rat) 100 200 = true := by
  have hf : jumpFires (7 / 10 : Rat) 100 200 = true := by
    rw [jumpFires_iff]; left; grind
  refine ⟨by grind, by grind, ?_, hf⟩
  intro pc hpc
  simp only [List.tail_cons, List.zip_cons_cons, List.zip_nil_right, List.mem_singleton] at hpc
  subst hpc
  intro _; grind

def exFloat (s : String) : Except Err Int :=
  match s with
  | "0.1" => .ok 1 | "0.2" => .ok 2 | "0.3" => .ok 3 | "100" => .ok 100 | "120" => .ok 120
  | _ => .error .ValueError

def exListing : List (List String) :=
  [["time", "pitch", "intensity"], ["0.1", "100", "--undefined--"], ["0.2", "120", "100"], ["0.3", "--undefined--", "100"]]

#guard (loadTimeSeriesData exFloat none exListing).toOption == some [[2, 120, 100]]
#guard (loadTimeSeriesData exFloat (some 0) exListing).toOption == some [[1, 100, 0], [2, 120, 100], [3, 0, 100]]
#guard (loadTimeSeriesData exFloat none exListing.tail).toOption == some [[2, 120, 100]]
#guard (loadTimeSeriesData exFloat none [["Time", "pitch"], ["0.1", "100"]]).toOption == none

#guard (loadTimeSeriesData exFloat none []).toOption == some []
#guard pitchValues ([0, 5, 0, 7] : List Int) none true == [5, 7]

/-- both branches of `detect_spec` occur: a zero before the last sample, and none -/
example : (∃ p ∈ [((0 : Int), (100 : Rat)), (1, 0), (2, 100)].dropLast, p.2 = 0) ∧
    ¬ (∃ p ∈ [((0 : Int), (100 : Rat)), (1, 200), (2, 0)].dropLast, p.2 = 0) := by
  refine ⟨⟨(1, 0), by simp, rfl⟩, ?_⟩
  have h1 : ¬ ((100 : Rat) = 0) := by grind
  have h2 : ¬ ((200 : Rat) = 0) := by grind
  simp [h1, h2]

/-- the hypothesis of `load_spec_float` is met, for a `float` that rejects most strings (`exFloat`), by the example
listing with no substitute although it has markers (they are not reached; `firstErr_none_iff`); the hypothesis of `load_error` is met by
the listing with a misspelt header, and the listing `0.1,--undefined--,abc` is fine without a substitute (`abc` is not
reached) but raises with one -/
example : firstErr exFloat ((body exListing).flatMap (reached (none : Option Int))) = none ∧
    firstErr exFloat ((body [["Time", "pitch"], ["0.1", "100"]]).flatMap (reached (none : Option Int))) = some .ValueError ∧
    firstErr exFloat ((body [["0.1", "--undefined--", "abc"]]).flatMap (reached (none : Option Int))) = none ∧
    firstErr exFloat ((body [["0.1", "--undefined--", "abc"]]).flatMap (reached (some (0 : Int)))) = some .ValueError := by
  refine ⟨by decide, by decide, by decide, by decide⟩

/-- the hypothesis of `load_spec` is met by a listing with a header and markers, and the kept rows are a proper
non-empty subset -/
example : (∀ r ∈ exListing, r ≠ []) ∧ (body exListing).length = 3 ∧
    ((body exListing).filter rowClean).length = 1 := by
  refine ⟨by decide, by decide, by decide⟩

/-- the hypotheses of `medianFilter_spec` (filtered branch and unchanged branch) both occur -/
example : (5 / 2 ≤ 3 ∧ 3 + 5 / 2 < 12) ∧ ¬ (false = true ∨ (5 / 2 ≤ 0 ∧ 0 + 5 / 2 < 12)) := by decide

end C20
