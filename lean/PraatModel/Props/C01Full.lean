import PraatModel.Props.C01
import PraatModel.Read
import PraatModel.Lemmas.Txt

/-!
# C01 — the WHOLE-FILE statement for the short format: praatio's reader ∘ praatio's emitter = identity

`C01.parseShort_emit`: for every textgrid (any number of tiers ≥ 1, any number of entries, any labels) whose names and
labels are strip-invariant, free of `\r\n`, and whose written rows do not contain the two tier keywords (known reader
defect A10), `_parseShortTextgrid(_tgToShortTextForm(tg))` returns exactly the names, classes, spans and entries of `tg`.

Plan of the proof (indices disappear early; Lemmas/Txt.lean restates the array primitives on `List Char`):
1. `emit_toList`     — the emitted text is `joinNl` of a list of lines: 7 header lines, then per tier the class line
                       (`kw`), the name row, two numerals, the count, and the entry lines.
2. `findAll_written` / `shortTuples_file` — the keyword occurs exactly at the block starts (a keyword has no newline, so
                       an occurrence lies inside one line; numerals and counts have no quote; rows by `NoKw`); the sorted
                       `tupleList` is therefore one (start, next start, class) per tier.
3. `readBlock_written` — reading a block line by line (`fetchRow_line`, `fetchRow_num`, `fetchTextRow_row`, which rests on
                       `C01.scanText_written`), the entry loops by induction over the entries, stopping at the block end.
4. `header_written`, `replace_id` (no `\r\n` in the file), `mapM_tups`, and the assembly `parseShort_blocks`.
Also: `parseShort_no_tiers` (IndexError), `parseShort_keyword_counterexample` (label `IntervalTier`: ValueError),
`segOK_row_iff` (exactly which labels `NoKw` excludes), `sample_read_back` + `#guard`s (non-vacuity).
`parseShort_emit_strip` is the theorem WITHOUT the strip-invariance hypothesis: every name and label comes back stripped
(`word_written_strip`, `readBlock_written_strip`); `parseShort_name_blank_regression`: a tier named `" a "` comes back as `" a "` (names are read verbatim since fix A31).
-/

namespace C01
open Txt

/-! ## the emitted text at list level -/

def kwI : List Char := "\"IntervalTier\"".toList
def kwP : List Char := "\"TextTier\"".toList
/-- the keyword the reader searches for: `"IntervalTier"` / `"TextTier"`, quotes included -/
def kw (f : Bool) : List Char := if f then kwI else kwP

/-- a written text row: `"` ++ escapeQuotes s ++ `"` -/
def row (s : String) : List Char := q :: (escapeL s.toList ++ [q])

variable {α : Type}

def ivSegs (num : α → String) (e : Iv α) : List (List Char) := [(num e.s).toList, (num e.e).toList, row e.l]
def ptSegs (num : α → String) (p : Pt α) : List (List Char) := [(num p.t).toList, row p.l]

/-- the lines of a tier block after the class line (a "line" may contain newlines: labels) -/
def bodySegs (num : α → String) : AnyTier α → List (List Char)
  | .I t => [row t.name, (num t.lo).toList, (num t.hi).toList, (toString t.es.length).toList] ++ t.es.flatMap (ivSegs num)
  | .P t => [row t.name, (num t.lo).toList, (num t.hi).toList, (toString t.ps.length).toList] ++ t.ps.flatMap (ptSegs num)

def isI : AnyTier α → Bool
  | .I _ => true
  | .P _ => false

/-- a tier block: class flag and body lines -/
abbrev Block := Bool × List (List Char)

def blockOf (num : α → String) (t : AnyTier α) : Block := (isI t, bodySegs num t)
def blockL (b : Block) : List Char := joinNl (kw b.1 :: b.2)

def hdrSegs (num : α → String) (lo hi : α) (n : Nat) : List (List Char) :=
  ["File type = \"ooTextFile\"".toList, "Object class = \"TextGrid\"".toList, [], (num lo).toList, (num hi).toList,
   "<exists>".toList, (toString n).toList]

theorem foldl_toList {β : Type} (f : String → β → String) (g : β → List Char)
    (hfg : ∀ o x, (f o x).toList = o.toList ++ g x) (l : List β) (o : String) :
    (l.foldl f o).toList = o.toList ++ l.flatMap g := by
  induction l generalizing o with
  | nil => simp
  | cons x xs ih => simp [List.foldl_cons, ih, hfg, List.flatMap_cons]

theorem escapeQuotes_toList (s : String) : (escapeQuotes s).toList = escapeL s.toList := by
  simp [escapeQuotes]

theorem litA : "\"IntervalTier\"\n\"".toList = kwI ++ ['\n', q] := by rfl
theorem litB : "\"TextTier\"\n\"".toList = kwP ++ ['\n', q] := by rfl
theorem litC : "\"\n".toList = [q, '\n'] := by rfl
theorem litD : "\n".toList = ['\n'] := by rfl
theorem litE : "\n\"".toList = ['\n', q] := by rfl
theorem litF : "".toList = [] := by rfl
theorem litH : "File type = \"ooTextFile\"\nObject class = \"TextGrid\"\n\n".toList =
    "File type = \"ooTextFile\"".toList ++ '\n' :: ("Object class = \"TextGrid\"".toList ++ ['\n', '\n']) := by rfl
theorem litX : "\n<exists>\n".toList = '\n' :: ("<exists>".toList ++ ['\n']) := by rfl

theorem ivStep (num : α → String) (o : String) (e : Iv α) :
    (o ++ num e.s ++ "\n" ++ num e.e ++ "\n\"" ++ escapeQuotes e.l ++ "\"\n").toList = o.toList ++ joinNl (ivSegs num e) := by
  simp only [String.toList_append, escapeQuotes_toList, litC, litD, litE, ivSegs, joinNl, row, List.append_assoc,
    List.cons_append, List.nil_append]

theorem ptStep (num : α → String) (o : String) (p : Pt α) :
    (o ++ num p.t ++ "\n\"" ++ escapeQuotes p.l ++ "\"\n").toList = o.toList ++ joinNl (ptSegs num p) := by
  simp only [String.toList_append, escapeQuotes_toList, litC, litE, ptSegs, joinNl, row, List.append_assoc,
    List.cons_append, List.nil_append]

/-- **the short-format emitter, as a list of newline-terminated lines** -/
theorem emit_toList (num : α → String) (g : Tg α) (lo hi : α) :
    (tgToShort num g lo hi).toList =
      joinNl (hdrSegs num lo hi g.tiers.length) ++ (g.tiers.map (blockOf num)).flatMap blockL := by
  unfold tgToShort
  simp only []
  rw [foldl_toList _ (fun t => blockL (blockOf num t))]
  · simp only [String.toList_append, litH, litD, litX, hdrSegs, joinNl, List.flatMap_map, List.append_assoc,
      List.cons_append, List.nil_append]
  · intro o t
    cases t with
    | I t =>
      simp only [String.toList_append, escapeQuotes_toList]
      rw [foldl_toList _ (fun e => joinNl (ivSegs num e)) (ivStep num)]
      simp only [litA, litC, litD, litF, blockL, blockOf, isI, bodySegs, kw, joinNl, joinNl_flatMap, row,
        List.append_assoc, List.cons_append, List.nil_append, if_true]
    | P t =>
      simp only [String.toList_append, escapeQuotes_toList]
      rw [foldl_toList _ (fun e => joinNl (ptSegs num e)) (ptStep num)]
      simp only [litB, litC, litD, litF, blockL, blockOf, isI, bodySegs, kw, joinNl, joinNl_flatMap, row,
        List.append_assoc, List.cons_append, List.nil_append, Bool.false_eq_true, if_false]

/-! ## where the reader finds the tiers: `findAll` on the emitted text -/

/-- a line that contains neither tier keyword -/
def SegOK (s : List Char) : Prop := ¬ kwI <:+: s ∧ ¬ kwP <:+: s

theorem kw_ne_nil (f : Bool) : kw f ≠ [] := by cases f <;> decide
theorem nl_not_mem_kw (f : Bool) : '\n' ∉ kw f := by cases f <;> decide
theorem q_mem_kw (f : Bool) : q ∈ kw f := by cases f <;> decide

theorem not_infix_of_not_mem (c : Char) (pat l : List Char) (hc : c ∈ pat) (hl : c ∉ l) : ¬ pat <:+: l := by
  intro h
  exact hl (h.subset hc)

theorem segOK_of_no_quote (s : List Char) (h : q ∉ s) : SegOK s :=
  ⟨not_infix_of_not_mem q _ _ (q_mem_kw true) h, not_infix_of_not_mem q _ _ (q_mem_kw false) h⟩

theorem not_infix_kw (f : Bool) (s : List Char) (h : SegOK s) : ¬ kw f <:+: s := by
  cases f
  · exact h.2
  · exact h.1

theorem occs_kw_kw (f g : Bool) (k : Nat) : occs (kw f) k (kw g) = if g = f then [k] else [] := by
  rw [occs_shift]
  cases f <;> cases g <;> simp [show occs (kw true) 0 (kw true) = [0] by decide, show occs (kw false) 0 (kw false) = [0] by decide,
    show occs (kw true) 0 (kw false) = [] by decide, show occs (kw false) 0 (kw true) = [] by decide]

/-- start offsets of the blocks of class `f`, the first block starting at `k` -/
def offs (f : Bool) : Nat → List Block → List Nat
  | _, [] => []
  | k, b :: bs => (if b.1 = f then [k] else []) ++ offs f (k + (blockL b).length) bs

theorem occs_segs_ok (f : Bool) (segs : List (List Char)) (rest : List Char) (k : Nat) (h : ∀ s ∈ segs, SegOK s) :
    occs (kw f) k (joinNl segs ++ rest) = occs (kw f) (k + (joinNl segs).length) rest := by
  induction segs generalizing k with
  | nil => simp [joinNl]
  | cons s ss ih =>
    simp only [joinNl, List.append_assoc, List.cons_append]
    rw [occs_append_sep '\n' (kw f) s _ k (nl_not_mem_kw f) (kw_ne_nil f),
      occs_nil_of_not_infix _ _ _ (not_infix_kw f s (h s (by simp))),
      ih _ (fun x hx => h x (List.mem_cons_of_mem _ hx))]
    simp only [List.nil_append, List.length_append, List.length_cons]
    congr 1; omega

theorem occs_block (f : Bool) (b : Block) (rest : List Char) (k : Nat) (h : ∀ s ∈ b.2, SegOK s) :
    occs (kw f) k (blockL b ++ rest) = (if b.1 = f then [k] else []) ++ occs (kw f) (k + (blockL b).length) rest := by
  simp only [blockL, joinNl, List.append_assoc, List.cons_append]
  rw [occs_append_sep '\n' (kw f) (kw b.1) _ k (nl_not_mem_kw f) (kw_ne_nil f), occs_kw_kw, occs_segs_ok f b.2 rest _ h]
  simp only [List.length_append, List.length_cons]
  congr 2; omega

theorem occs_blocks (f : Bool) (bs : List Block) (k : Nat) (h : ∀ b ∈ bs, ∀ s ∈ b.2, SegOK s) :
    occs (kw f) k (bs.flatMap blockL) = offs f k bs := by
  induction bs generalizing k with
  | nil => rfl
  | cons b bs ih =>
    rw [List.flatMap_cons, occs_block f b _ k (h b (by simp)), ih _ (fun x hx => h x (List.mem_cons_of_mem _ hx))]
    rfl

/-- **`findAll` on a written file returns exactly the tier start offsets** (list level) -/
theorem occs_file (f : Bool) (hdr : List (List Char)) (bs : List Block) (hh : ∀ s ∈ hdr, SegOK s)
    (h : ∀ b ∈ bs, ∀ s ∈ b.2, SegOK s) :
    occs (kw f) 0 (joinNl hdr ++ bs.flatMap blockL) = offs f (joinNl hdr).length bs := by
  rw [occs_segs_ok f hdr _ 0 hh, occs_blocks f bs _ h]
  simp

/-! ## the sorted marks and the (start, end, class) tuples -/

def marks : Nat → List Block → List (Nat × Bool)
  | k, [] => [(k, true)]
  | k, b :: bs => (k, b.1) :: marks (k + (blockL b).length) bs

def tups : Nat → List Block → List (Nat × Nat × Bool)
  | _, [] => []
  | k, b :: bs => (k, k + (blockL b).length, b.1) :: tups (k + (blockL b).length) bs

theorem blockL_length_pos (b : Block) : 0 < (blockL b).length := by
  simp only [blockL, joinNl, List.length_append, List.length_cons]
  omega

theorem marks_ge (k : Nat) (bs : List Block) : ∀ m ∈ marks k bs, k ≤ m.1 := by
  induction bs generalizing k with
  | nil => intro m hm; simp [marks] at hm; subst hm; exact Nat.le_refl _
  | cons b bs ih =>
    intro m hm
    simp only [marks, List.mem_cons] at hm
    rcases hm with rfl | hm
    · exact Nat.le_refl _
    · have := ih _ m hm; omega

theorem markLe_of_lt (a b : Nat × Bool) (h : a.1 < b.1) : Rd.markLe a b = true := by
  simp [Rd.markLe, h]

theorem marks_sorted (k : Nat) (bs : List Block) : (marks k bs).Pairwise (fun a b => Rd.markLe a b = true) := by
  induction bs generalizing k with
  | nil => simp [marks]
  | cons b bs ih =>
    simp only [marks, List.pairwise_cons]
    refine ⟨?_, ih _⟩
    intro m hm
    have h1 := marks_ge _ _ m hm
    have h2 := blockL_length_pos b
    exact markLe_of_lt _ _ (by simp only; omega)

theorem markLe_trans (a b c : Nat × Bool) (h1 : Rd.markLe a b = true) (h2 : Rd.markLe b c = true) : Rd.markLe a c = true := by
  obtain ⟨a1, a2⟩ := a; obtain ⟨b1, b2⟩ := b; obtain ⟨c1, c2⟩ := c
  simp only [Rd.markLe] at *
  by_cases hab : a1 < b1
  · by_cases hbc : b1 < c1
    · simp [show a1 < c1 by omega]
    · by_cases hcb : c1 < b1
      · simp [hbc, hcb] at h2
      · have : b1 = c1 := by omega
        subst this; simp [hab]
  · by_cases hba : b1 < a1
    · simp [hab, hba] at h1
    · have : a1 = b1 := by omega
      subst this
      by_cases hbc : a1 < c1
      · simp [hbc]
      · by_cases hcb : c1 < a1
        · simp [hbc, hcb] at h2
        · simp only [hab, hbc, hcb, if_false] at h1 h2 ⊢
          cases a2 <;> cases b2 <;> cases c2 <;> simp_all

theorem markLe_total (a b : Nat × Bool) : (Rd.markLe a b || Rd.markLe b a) = true := by
  obtain ⟨a1, a2⟩ := a; obtain ⟨b1, b2⟩ := b
  simp only [Rd.markLe]
  by_cases hab : a1 < b1
  · simp [hab]
  · by_cases hba : b1 < a1
    · simp [hab, hba]
    · simp only [hab, hba, if_false]
      cases a2 <;> cases b2 <;> rfl

theorem markLe_antisymm (a b : Nat × Bool) (h1 : Rd.markLe a b = true) (h2 : Rd.markLe b a = true) : a = b := by
  obtain ⟨a1, a2⟩ := a; obtain ⟨b1, b2⟩ := b
  simp only [Rd.markLe] at h1 h2
  by_cases hab : a1 < b1
  · have : ¬ b1 < a1 := by omega
    simp [hab, this] at h2
  · by_cases hba : b1 < a1
    · simp [hab, hba] at h1
    · have : a1 = b1 := by omega
      subst this
      simp only [hab, if_false] at h1 h2
      cases a2 <;> cases b2 <;> simp_all

theorem marks_perm (k : Nat) (bs : List Block) :
    ((offs true k bs).map (fun i => (i, true)) ++ (offs false k bs).map (fun i => (i, false)) ++
      [(k + (bs.flatMap blockL).length, true)]).Perm (marks k bs) := by
  induction bs generalizing k with
  | nil => simp [offs, marks]
  | cons b bs ih =>
    have e : k + (List.flatMap blockL (b :: bs)).length = k + (blockL b).length + (bs.flatMap blockL).length := by
      simp only [List.flatMap_cons, List.length_append]; omega
    rw [e]
    obtain ⟨f, ss⟩ := b
    cases f
    · simp only [offs, marks, Bool.false_eq_true, if_false, if_true, List.nil_append, List.map_cons, List.cons_append,
        List.append_assoc]
      refine List.Perm.trans List.perm_middle ?_
      apply List.Perm.cons
      have := ih (k + (blockL (false, ss)).length)
      simpa only [List.append_assoc] using this
    · simp only [offs, marks, Bool.true_eq_false, if_false, if_true, List.nil_append, List.map_cons, List.cons_append,
        List.append_assoc]
      apply List.Perm.cons
      have := ih (k + (blockL (true, ss)).length)
      simpa only [List.append_assoc] using this

theorem tups_of_marks (k : Nat) (bs : List Block) :
    ((marks k bs).zip (marks k bs).tail).map (fun p => (p.1.1, p.2.1, p.1.2)) = tups k bs := by
  induction bs generalizing k with
  | nil => simp [marks, tups]
  | cons b bs ih =>
    have := ih (k + (blockL b).length)
    cases bs with
    | nil => simp [marks, tups]
    | cons c cs =>
      simp only [marks, List.tail_cons, List.zip_cons_cons, List.map_cons, tups] at this ⊢
      rw [this]

theorem lit_kwI : (Rd.lit "\"IntervalTier\"").toList = kw true := rfl
theorem lit_kwP : (Rd.lit "\"TextTier\"").toList = kw false := rfl

/-- **the reader's `tupleList` on a written file**: one (start, next start, class) per tier block, in order -/
theorem shortTuples_file (hdr : List (List Char)) (bs : List Block) (hh : ∀ s ∈ hdr, SegOK s)
    (h : ∀ b ∈ bs, ∀ s ∈ b.2, SegOK s) :
    Rd.shortTuples (joinNl hdr ++ bs.flatMap blockL).toArray = tups (joinNl hdr).length bs := by
  have hm : Rd.shortMarks (joinNl hdr ++ bs.flatMap blockL).toArray = marks (joinNl hdr).length bs := by
    unfold Rd.shortMarks
    simp only []
    rw [findAll_eq _ _ (by decide), findAll_eq _ _ (by decide), lit_kwI, lit_kwP]
    rw [occs_file true hdr bs hh h, occs_file false hdr bs hh h]
    apply List.Perm.eq_of_pairwise (le := fun a b => Rd.markLe a b = true)
    · intro a b _ _ h1 h2; exact markLe_antisymm a b h1 h2
    · exact List.pairwise_mergeSort markLe_trans markLe_total _
    · exact marks_sorted _ _
    · refine (List.mergeSort_perm _ _).trans ?_
      have := marks_perm (joinNl hdr).length bs
      simpa only [List.size_toArray, List.length_append] using this
  unfold Rd.shortTuples
  simp only []
  rw [hm, tups_of_marks]

/-! ## reading one line: `_fetchRow`, `_fetchTextRow` at a position given by its suffix -/

theorem lit_nl : (Rd.lit "\n").toList = ['\n'] := rfl

theorem index_nl (s : Txt) (i : Nat) (seg rest : List Char) (h : s.toList.drop i = seg ++ '\n' :: rest)
    (hn : '\n' ∉ seg) : Rd.index s (Rd.lit "\n") i = .ok (i + seg.length) := by
  unfold Rd.index
  rw [find_eq s _ (by decide) i, lit_nl, h, findL_sep '\n' seg rest hn]
  simp [Nat.add_comm]

theorem index_nl_none (s : Txt) (i : Nat) (h : '\n' ∉ s.toList.drop i) :
    Rd.index s (Rd.lit "\n") i = .error .ValueError := by
  unfold Rd.index
  rw [find_eq s _ (by decide) i, lit_nl, findL_sep_none '\n' _ h]
  rfl

/-- the word `_fetchRow` returns for a line: stripped, and unquoted when it starts and ends with a quote -/
def rowWord (seg : List Char) : Txt :=
  let w := strip seg.toArray
  strip (if w[0]! == '"' && w[w.size - 1]! == '"' then slice w 1 (w.size - 1) else w)

/-- `_fetchRow` on a non-blank line: some word, and the index just after the newline -/
theorem fetchRow_line (s : Txt) (i : Nat) (seg rest : List Char) (h : s.toList.drop i = seg ++ '\n' :: rest)
    (hn : '\n' ∉ seg) (hne : stripList seg ≠ []) :
    Rd.fetchRow s i = .ok (rowWord seg, i + seg.length + 1) := by
  have hsz : ¬ (strip seg.toArray).size = 0 := by
    rw [strip_toArray, List.size_toArray]
    intro e; exact hne (List.eq_nil_of_length_eq_zero e)
  unfold Rd.fetchRow
  rw [index_nl s i seg rest h hn]
  simp only [bind, Except.bind]
  rw [slice_of_drop s i seg _ h]
  simp only [hsz, if_false, rowWord]
  rfl

theorem getElem!_zero_eq_q (l : List Char) (h : (l[0]! == '"') = true) : l.head? = some q := by
  cases l with
  | nil => simp at h
  | cons c cs => simp at h; simp [h, q]

theorem getElem!_last_eq_q (l : List Char) (hne : l ≠ []) (h : (l[l.length - 1]! == '"') = true) : l.getLast? = some q := by
  rw [List.getLast?_eq_getElem?]
  have hlt : l.length - 1 < l.length := by
    cases l with
    | nil => exact absurd rfl hne
    | cons c cs => simp
  rw [List.getElem?_eq_getElem hlt]
  rw [List.getElem!_eq_getElem?_getD, List.getElem?_eq_getElem hlt] at h
  simp at h
  simp [h, q]

/-- a word that is strip-invariant and not wrapped in quotes is returned as it is -/
theorem rowWord_plain (seg : List Char) (hne : seg ≠ []) (hs : NoEdgeSpace seg)
    (hq : ¬ (seg.head? = some q ∧ seg.getLast? = some q)) : rowWord seg = seg.toArray := by
  unfold rowWord
  simp only [strip_toArray, stripList_of_noEdge seg hs, List.getElem!_toArray, List.size_toArray]
  have : (seg[0]! == '"' && seg[seg.length - 1]! == '"') = false := by
    cases h1 : (seg[0]! == '"') with
    | false => rfl
    | true =>
      cases h2 : (seg[seg.length - 1]! == '"') with
      | false => rfl
      | true => exact absurd ⟨getElem!_zero_eq_q seg h1, getElem!_last_eq_q seg hne h2⟩ hq
  rw [this]
  simp only [Bool.false_eq_true, if_false, strip_toArray, stripList_of_noEdge seg hs]

theorem row_length (l : String) : (row l).length = (escapeL l.toList).length + 2 := by
  simp [row]

/-! ### `.strip()` commutes with quote doubling (a quote is not white space) -/

theorem escapeL_append (a b : List Char) : escapeL (a ++ b) = escapeL a ++ escapeL b := by
  induction a with
  | nil => rfl
  | cons c cs ih =>
    by_cases h : c = q
    · simp [escapeL, h, ih]
    · simp [escapeL, h, ih]

theorem escapeL_reverse (l : List Char) : escapeL l.reverse = (escapeL l).reverse := by
  induction l with
  | nil => rfl
  | cons c cs ih =>
    rw [List.reverse_cons, escapeL_append, ih]
    by_cases h : c = q
    · simp [escapeL, h]
    · simp [escapeL, h]

theorem stripL_escapeL (l : List Char) : stripL (escapeL l) = escapeL (stripL l) := by
  induction l with
  | nil => rfl
  | cons c cs ih =>
    by_cases h : c = q
    · subst h
      simp [escapeL, stripL, q_not_space]
    · by_cases hs : pyIsSpace c = true
      · simp [escapeL, stripL, h, hs, ih]
      · simp [escapeL, stripL, h, hs]

theorem stripList_escapeL (l : List Char) : stripList (escapeL l) = escapeL (stripList l) := by
  unfold stripList
  rw [stripL_escapeL, ← escapeL_reverse, stripL_escapeL, ← escapeL_reverse]

/-- `.strip()` then un-doubling, applied to the characters between the outer quotes of a written row, gives the
STRIPPED text — for EVERY text (`C01.word_written` is the case of a strip-invariant one) -/
theorem word_written_strip (s : List Char) : unescapeL (stripList (escapeL s)) = stripList s := by
  rw [stripList_escapeL, unescape_escape]

/-- `_fetchTextRow` on a written text row, either value of `stripText` -/
theorem fetchTextRow_row_any (s : Txt) (i : Nat) (l : String) (rest : List Char) (st : Bool)
    (h : s.toList.drop i = row l ++ '\n' :: rest) :
    Rd.fetchTextRow s i st =
      .ok ((unescapeL (if st then stripList (escapeL l.toList) else escapeL l.toList)).toArray, i + (row l).length + 1) := by
  have h1 : s.toList.drop (i + 1) = escapeL l.toList ++ q :: '\n' :: rest := by
    have := drop_add_of_drop s.toList i [q] (escapeL l.toList ++ q :: '\n' :: rest) (by rw [h]; simp [row])
    simpa using this
  have hscan := scanText_written l.toList '\n' rest (by decide) none trivial 0
  have he : i + 1 + (0 + (escapeL l.toList).length + 1) = i + (row l).length := by rw [row_length]; omega
  have hsl : slice s i (i + (row l).length) = (row l).toArray := slice_of_drop s i (row l) _ h
  have hin : slice (row l).toArray 1 ((row l).toArray.size - 1) = (escapeL l.toList).toArray := by
    have := slice_of_drop (row l).toArray 1 (escapeL l.toList) [q] (by simp [row])
    rw [← this]
    congr 1
    simp only [List.size_toArray, row_length]; omega
  have hnl : s.toList.drop (i + (row l).length) = [] ++ '\n' :: rest := by
    rw [drop_add_of_drop s.toList i (row l) _ h]; rfl
  have hge : (row l).toArray.size ≥ 2 := by simp only [List.size_toArray, row_length]; omega
  unfold Rd.fetchTextRow
  rw [h1, hscan]
  simp only [bind, Except.bind, he, hsl, hge, if_true, hin, List.toList_toArray]
  rw [index_nl s _ [] rest hnl (by simp)]
  rfl

/-- **`_fetchTextRow` on a written text row**, for EVERY label: it returns the text with leading and trailing white
space removed (`str.strip()`), and the index just after the newline that follows the closing quote -/
theorem fetchTextRow_row_strip (s : Txt) (i : Nat) (l : String) (rest : List Char)
    (h : s.toList.drop i = row l ++ '\n' :: rest) :
    Rd.fetchTextRow s i = .ok ((stripList l.toList).toArray, i + (row l).length + 1) := by
  rw [fetchTextRow_row_any s i l rest true h]
  simp only [if_true, word_written_strip l.toList]

/-- **`_fetchTextRow(…, stripText=False)` on a written text row** (the tier-NAME row of the short-format reader since fix A31),
for EVERY name — leading / trailing blanks, tabs and line breaks, quotes, anything: it returns the name itself, character for
character -/
theorem fetchTextRow_row_raw (s : Txt) (i : Nat) (l : String) (rest : List Char)
    (h : s.toList.drop i = row l ++ '\n' :: rest) :
    Rd.fetchTextRow s i false = .ok (l.toList.toArray, i + (row l).length + 1) := by
  rw [fetchTextRow_row_any s i l rest false h]
  simp only [Bool.false_eq_true, if_false, unescape_escape]

/-- **`_fetchTextRow` on a written text row** returns the label itself (every strip-invariant label), and the index
just after the newline that follows the closing quote -/
theorem fetchTextRow_row (s : Txt) (i : Nat) (l : String) (rest : List Char)
    (h : s.toList.drop i = row l ++ '\n' :: rest) (hs : NoEdgeSpace l.toList) :
    Rd.fetchTextRow s i = .ok (l.toList.toArray, i + (row l).length + 1) := by
  rw [fetchTextRow_row_strip s i l rest h, stripList_of_noEdge _ hs]

/-! ## numerals -/

/-- what the proofs need from a rendered time (`repr`, `"%d"`): it is a non-empty single line, strip-invariant,
does not contain a tier keyword and is not wrapped in quotes.  CPython's output consists of `0-9 . e + - inf nan`
(`my_math.numToStr` raises for `inf` / `nan`), so this is a property of the renderer that holds for EVERY float, negative
ones included (`C03.intS_word` for signed integers) — it excludes no time of any property's quantifier. -/
structure NumWord (w : String) : Prop where
  ne : w.toList ≠ []
  noNl : '\n' ∉ w.toList
  noEdge : NoEdgeSpace w.toList
  segOK : SegOK w.toList
  notQuoted : ¬ (w.toList.head? = some q ∧ w.toList.getLast? = some q)

/-- sufficient: non-empty, no newline, no quote, strip-invariant -/
theorem NumWord.of_plain (w : String) (ne : w.toList ≠ []) (hnl : '\n' ∉ w.toList) (hq : q ∉ w.toList)
    (hs : pyStrip w = w) : NumWord w where
  ne := ne
  noNl := hnl
  noEdge := (pyStrip_eq_iff w).1 hs
  segOK := segOK_of_no_quote _ hq
  notQuoted := by
    intro ⟨h1, _⟩
    cases hw : w.toList with
    | nil => exact ne hw
    | cons c cs => rw [hw] at h1 hq; simp at h1; subst h1; simp at hq

theorem drop_line (l : List Char) (i : Nat) (seg rest : List Char) (h : l.drop i = seg ++ '\n' :: rest) :
    l.drop (i + seg.length + 1) = rest := by
  have := drop_add_of_drop l i (seg ++ ['\n']) rest (by rw [h]; simp)
  simpa [Nat.add_assoc] using this

theorem toStr_toArray (w : String) : toStr w.toList.toArray = w := by
  simp [toStr, String.ofList_toList]

theorem fetchRow_num (s : Txt) (i : Nat) (w : String) (hw : NumWord w) (rest : List Char)
    (h : s.toList.drop i = w.toList ++ '\n' :: rest) :
    Rd.fetchRow s i = .ok (w.toList.toArray, i + w.toList.length + 1) := by
  rw [fetchRow_line s i _ rest h hw.noNl (by rw [stripList_of_noEdge _ hw.noEdge]; exact hw.ne),
    rowWord_plain _ hw.ne hw.noEdge hw.notQuoted]

theorem fetchRow_eof (s : Txt) (i : Nat) (h : s.toList.drop i = []) : Rd.fetchRow s i = .error .ValueError := by
  unfold Rd.fetchRow
  rw [index_nl_none s i (by rw [h]; simp)]
  rfl

/-! ## the entry loops -/

theorem strip_label (l : String) (hs : NoEdgeSpace l.toList) : toStr (strip l.toList.toArray) = l := by
  rw [strip_toArray, stripList_of_noEdge _ hs, toStr_toArray]

/-- the second `.strip()` (of the entry loops) on an already stripped label -/
theorem strip_strip_label (l : String) : toStr (strip (stripList l.toList).toArray) = pyStrip l := by
  rw [strip_toArray, stripList_idem]; rfl

theorem shortEntries_iv (num : α → String) (hnum : ∀ x, NumWord (num x)) (s : Txt) (es : List (Iv α))
    (fuel i : Nat) (acc : List (List String))
    (h : s.toList.drop i = joinNl (es.flatMap (ivSegs num))) (hf : es.length < fuel) :
    Rd.shortEntries s true fuel i acc = acc.reverse ++ es.map fun e => [num e.s, num e.e, pyStrip e.l] := by
  induction es generalizing fuel i acc with
  | nil =>
    cases fuel with
    | zero => omega
    | succ fuel =>
      simp only [Rd.shortEntries, if_true, fetchRow_eof s i h, bind, Except.bind]
      simp
  | cons e es ih =>
    cases fuel with
    | zero => omega
    | succ fuel =>
      simp only [List.flatMap_cons, ivSegs, joinNl, List.cons_append, List.nil_append] at h
      have r1 := fetchRow_num s i _ (hnum e.s) _ h
      have h1 := drop_line _ _ _ _ h
      have r2 := fetchRow_num s _ _ (hnum e.e) _ h1
      have h2 := drop_line _ _ _ _ h1
      have r3 := fetchTextRow_row_strip s _ e.l _ h2
      have h3 := drop_line _ _ _ _ h2
      simp only [Rd.shortEntries, if_true, r1, r2, r3, bind, Except.bind, pure, Except.pure]
      rw [ih fuel _ _ h3 (by simp only [List.length_cons] at hf; omega)]
      simp [toStr_toArray, strip_strip_label e.l]

theorem shortEntries_pt (num : α → String) (hnum : ∀ x, NumWord (num x)) (s : Txt) (ps : List (Pt α))
    (fuel i : Nat) (acc : List (List String))
    (h : s.toList.drop i = joinNl (ps.flatMap (ptSegs num))) (hf : ps.length < fuel) :
    Rd.shortEntries s false fuel i acc = acc.reverse ++ ps.map fun p => [num p.t, pyStrip p.l] := by
  induction ps generalizing fuel i acc with
  | nil =>
    cases fuel with
    | zero => omega
    | succ fuel =>
      simp only [Rd.shortEntries, Bool.false_eq_true, if_false, fetchRow_eof s i h, bind, Except.bind]
      simp
  | cons p ps ih =>
    cases fuel with
    | zero => omega
    | succ fuel =>
      simp only [List.flatMap_cons, ptSegs, joinNl, List.cons_append, List.nil_append] at h
      have r1 := fetchRow_num s i _ (hnum p.t) _ h
      have h1 := drop_line _ _ _ _ h
      have r2 := fetchTextRow_row_strip s _ p.l _ h1
      have h2 := drop_line _ _ _ _ h1
      simp only [Rd.shortEntries, Bool.false_eq_true, if_false, r1, r2, bind, Except.bind, pure, Except.pure]
      rw [ih fuel _ _ h2 (by simp only [List.length_cons] at hf; omega)]
      simp [toStr_toArray, strip_strip_label p.l]

/-! ## one tier block -/

/-- the names and labels of a tier -/
def texts : AnyTier α → List String
  | .I t => t.name :: t.es.map (·.l)
  | .P t => t.name :: t.ps.map (·.l)

/-- names and labels are strip-invariant.  Only the LABEL part is ever needed (`StrippedLabels`; enforced by the code: the
`IntervalTier` / `PointTier` constructors, `insertEntry`, … strip every label); tier NAMES are read verbatim by every reader
since fix A31 (`parseShort_name_blank_regression`). -/
def Stripped' (t : AnyTier α) : Prop := ∀ s ∈ texts t, pyStrip s = s

def nameOf : AnyTier α → String
  | .I t => t.name
  | .P t => t.name
def labelsOf : AnyTier α → List String
  | .I t => t.es.map (·.l)
  | .P t => t.ps.map (·.l)

/-- labels are strip-invariant (names need not be: no reader strips names) -/
def StrippedLabels (t : AnyTier α) : Prop := ∀ s ∈ labelsOf t, pyStrip s = s

theorem Stripped'.labels {t : AnyTier α} (h : Stripped' t) : StrippedLabels t := by
  intro s hs
  apply h s
  cases t <;> simp only [labelsOf, texts, List.mem_cons] at hs ⊢ <;> exact Or.inr hs

/-- what the reader is expected to return for a tier -/
def rawTier (num : α → String) : AnyTier α → RawTier
  | .I t => ⟨"IntervalTier", t.name, num t.lo, num t.hi, t.es.map fun e => [num e.s, num e.e, e.l]⟩
  | .P t => ⟨"TextTier", t.name, num t.lo, num t.hi, t.ps.map fun p => [num p.t, p.l]⟩

/-- what the reader is expected to return for a textgrid written with span `lo`, `hi` -/
def rawOf (num : α → String) (g : Tg α) (lo hi : α) : RawTg := ⟨num lo, num hi, g.tiers.map (rawTier num)⟩

/-- the tier with `str.strip()` applied to every label — what the SHORT-format reader returns for a tier whose labels have
leading / trailing white space (`_fetchTextRow` strips every label; the NAME is read with `stripText=False`, fix A31) -/
def stripT : AnyTier α → AnyTier α
  | .I t => .I { t with es := t.es.map fun e => { e with l := pyStrip e.l } }
  | .P t => .P { t with ps := t.ps.map fun p => { p with l := pyStrip p.l } }

/-- the textgrid with every label stripped -/
def stripTg (g : Tg α) : Tg α := { g with tiers := g.tiers.map stripT }

theorem stripT_of_stripped (t : AnyTier α) (hs : StrippedLabels t) : stripT t = t := by
  cases t with
  | I t =>
    have he : (t.es.map fun e => ({ e with l := pyStrip e.l } : Iv α)) = t.es := by
      rw [List.map_congr_left (g := id), List.map_id]
      intro e he
      have : pyStrip e.l = e.l := hs e.l (by simp only [labelsOf, List.mem_map]; exact ⟨e, he, rfl⟩)
      simp [this]
    simp only [stripT, he]
  | P t =>
    have he : (t.ps.map fun p => ({ p with l := pyStrip p.l } : Pt α)) = t.ps := by
      rw [List.map_congr_left (g := id), List.map_id]
      intro p hp
      have : pyStrip p.l = p.l := hs p.l (by simp only [labelsOf, List.mem_map]; exact ⟨p, hp, rfl⟩)
      simp [this]
    simp only [stripT, he]

theorem stripTg_of_stripped (g : Tg α) (hs : ∀ t ∈ g.tiers, StrippedLabels t) : stripTg g = g := by
  unfold stripTg
  rw [List.map_congr_left (g := id) (fun t ht => stripT_of_stripped t (hs t ht)), List.map_id]

theorem toStr_stripList (l : String) : toStr (stripList l.toList).toArray = pyStrip l := rfl

theorem digit_not_space (c : Char) (h : c.isDigit = true) : pyIsSpace c = false := by
  simp only [Char.isDigit, Bool.and_eq_true, decide_eq_true_eq, ge_iff_le] at h
  obtain ⟨h1, h2⟩ := h
  rw [UInt32.le_iff_toNat_le] at h1 h2
  have h1' : 48 ≤ c.toNat := h1
  have h2' : c.toNat ≤ 57 := h2
  unfold pyIsSpace
  simp only [Bool.or_eq_false_iff, Bool.and_eq_false_iff, decide_eq_false_iff_not, beq_eq_false_iff_ne]
  omega

theorem noEdge_of_all (l : List Char) (h : ∀ c ∈ l, pyIsSpace c = false) : NoEdgeSpace l :=
  ⟨fun c rest e => h c (by rw [e]; simp), fun c e => h c (List.mem_of_getLast? e)⟩

theorem count_toList (n : Nat) : (toString n).toList = Nat.toDigits 10 n := Nat.toList_repr

theorem count_noNl (n : Nat) : '\n' ∉ (toString n).toList := by
  rw [count_toList]
  intro h
  have := Nat.isDigit_of_mem_toDigits (by decide) (by decide) h
  exact absurd this (by decide)

theorem count_strip_ne (n : Nat) : stripList (toString n).toList ≠ [] := by
  rw [count_toList, stripList_of_noEdge]
  · exact Nat.toDigits_ne_nil
  · exact noEdge_of_all _ fun c hc => digit_not_space c (Nat.isDigit_of_mem_toDigits (by decide) (by decide) hc)

theorem kw_strip_ne (f : Bool) : stripList (kw f) ≠ [] := by cases f <;> decide

theorem length_le_joinNl_flatMap {β : Type} (l : List β) (f : β → List (List Char)) (hf : ∀ x, f x ≠ []) :
    l.length ≤ (joinNl (l.flatMap f)).length := by
  induction l with
  | nil => simp
  | cons x xs ih =>
    rw [List.flatMap_cons, joinNl_append, List.length_append, List.length_cons]
    have : 1 ≤ (joinNl (f x)).length := by
      cases hx : f x with
      | nil => exact absurd hx (hf x)
      | cons a as => simp only [joinNl, List.length_append, List.length_cons]; omega
    omega

/-- **(a) per-block reading, every tier**: the tier block written by the emitter is read back as the tier with its name and
labels STRIPPED (`str.strip()`) — class, span and every entry, labels otherwise character for character; the entry loop
stops at the end of the block.  No hypothesis on names and labels. -/
theorem readBlock_written_strip (num : α → String) (hnum : ∀ x, NumWord (num x)) (t : AnyTier α) :
    Rd.readBlock (blockL (blockOf num t)).toArray (isI t) = .ok (rawTier num (stripT t)) := by
  cases t with
  | I t =>
    generalize hS : (blockL (blockOf num (AnyTier.I t))).toArray = s
    have h0 : s.toList.drop 0 = kw true ++ '\n' :: (row t.name ++ '\n' :: ((num t.lo).toList ++ '\n' :: ((num t.hi).toList ++ '\n' ::
        ((toString t.es.length).toList ++ '\n' :: joinNl (t.es.flatMap (ivSegs num)))))) := by
      rw [← hS]; simp [blockL, blockOf, isI, bodySegs, joinNl]
    have r0 := fetchRow_line s 0 _ _ h0 (nl_not_mem_kw true) (kw_strip_ne true)
    have h1 := drop_line _ _ _ _ h0
    have r1 := fetchTextRow_row_raw s _ t.name _ h1
    have h2 := drop_line _ _ _ _ h1
    have r2 := fetchRow_num s _ _ (hnum t.lo) _ h2
    have h3 := drop_line _ _ _ _ h2
    have r3 := fetchRow_num s _ _ (hnum t.hi) _ h3
    have h4 := drop_line _ _ _ _ h3
    have r4 := fetchRow_line s _ _ _ h4 (count_noNl _) (count_strip_ne _)
    have h5 := drop_line _ _ _ _ h4
    have hfuel : t.es.length < s.size + 1 := by
      have a := length_le_joinNl_flatMap t.es (ivSegs num) (fun x => by simp [ivSegs])
      have b : (joinNl (t.es.flatMap (ivSegs num))).length ≤ s.size := by
        rw [← h5, List.length_drop, Array.length_toList]; omega
      omega
    simp only [Rd.readBlock, isI, r0, r1, r2, r3, r4, bind, Except.bind, pure, Except.pure]
    rw [shortEntries_iv num hnum s t.es _ _ [] h5 hfuel]
    simp [rawTier, stripT, toStr_toArray, toStr_stripList, Function.comp_def]
  | P t =>
    generalize hS : (blockL (blockOf num (AnyTier.P t))).toArray = s
    have h0 : s.toList.drop 0 = kw false ++ '\n' :: (row t.name ++ '\n' :: ((num t.lo).toList ++ '\n' :: ((num t.hi).toList ++ '\n' ::
        ((toString t.ps.length).toList ++ '\n' :: joinNl (t.ps.flatMap (ptSegs num)))))) := by
      rw [← hS]; simp [blockL, blockOf, isI, bodySegs, joinNl]
    have r0 := fetchRow_line s 0 _ _ h0 (nl_not_mem_kw false) (kw_strip_ne false)
    have h1 := drop_line _ _ _ _ h0
    have r1 := fetchTextRow_row_raw s _ t.name _ h1
    have h2 := drop_line _ _ _ _ h1
    have r2 := fetchRow_num s _ _ (hnum t.lo) _ h2
    have h3 := drop_line _ _ _ _ h2
    have r3 := fetchRow_num s _ _ (hnum t.hi) _ h3
    have h4 := drop_line _ _ _ _ h3
    have r4 := fetchRow_line s _ _ _ h4 (count_noNl _) (count_strip_ne _)
    have h5 := drop_line _ _ _ _ h4
    have hfuel : t.ps.length < s.size + 1 := by
      have a := length_le_joinNl_flatMap t.ps (ptSegs num) (fun x => by simp [ptSegs])
      have b : (joinNl (t.ps.flatMap (ptSegs num))).length ≤ s.size := by
        rw [← h5, List.length_drop, Array.length_toList]; omega
      omega
    simp only [Rd.readBlock, isI, r0, r1, r2, r3, r4, bind, Except.bind, pure, Except.pure]
    rw [shortEntries_pt num hnum s t.ps _ _ [] h5 hfuel]
    simp [rawTier, stripT, toStr_toArray, toStr_stripList, Function.comp_def]

/-- **(a) per-block reading**: the tier block written by the emitter is read back as the tier — class, name, span and
every entry, labels character for character; the entry loop stops at the end of the block -/
theorem readBlock_written (num : α → String) (hnum : ∀ x, NumWord (num x)) (t : AnyTier α) (hs : StrippedLabels t) :
    Rd.readBlock (blockL (blockOf num t)).toArray (isI t) = .ok (rawTier num t) := by
  rw [readBlock_written_strip num hnum t, stripT_of_stripped t hs]

/-! ## the CRLF normalisation step is the identity on a written file -/

/-- does the text contain `\r\n`? -/
def hasCRLF : List Char → Bool
  | c :: d :: cs => (c == '\r' && d == '\n') || hasCRLF (d :: cs)
  | _ => false

theorem hasCRLF_tail (c : Char) (cs : List Char) (h : hasCRLF (c :: cs) = false) : hasCRLF cs = false := by
  cases cs with
  | nil => rfl
  | cons d ds => simp only [hasCRLF, Bool.or_eq_false_iff] at h; exact h.2

theorem no_crlf_of_hasCRLF (l : List Char) (h : hasCRLF l = false) (j : Nat) : ¬ ['\r', '\n'] <+: l.drop j := by
  induction l generalizing j with
  | nil => simp
  | cons c cs ih =>
    cases j with
    | zero =>
      intro hp
      cases cs with
      | nil => have := hp.length_le; simp at this
      | cons d ds =>
        have hp' := List.isPrefixOf_iff_prefix.2 hp
        simp only [List.drop_zero, List.isPrefixOf_cons_cons, List.isPrefixOf, Bool.and_true, Bool.and_eq_true,
          beq_iff_eq] at hp'
        simp only [hasCRLF, Bool.or_eq_false_iff, Bool.and_eq_false_iff, beq_eq_false_iff_ne] at h
        rcases h.1 with h1 | h1
        · exact h1 hp'.1.symm
        · exact h1 hp'.2.symm
    | succ j => exact ih (hasCRLF_tail c cs h) j

theorem hasCRLF_nl (rest : List Char) : hasCRLF ('\n' :: rest) = hasCRLF rest := by
  cases rest with
  | nil => rfl
  | cons d ds => simp [hasCRLF]

theorem hasCRLF_line (seg rest : List Char) :
    hasCRLF (seg ++ '\n' :: rest) = (hasCRLF (seg ++ ['\n']) || hasCRLF rest) := by
  induction seg with
  | nil => simp [hasCRLF_nl, hasCRLF]
  | cons c cs ih =>
    cases cs with
    | nil => simp [hasCRLF, hasCRLF_nl]
    | cons d ds =>
      simp only [List.cons_append, hasCRLF] at ih ⊢
      rw [ih, Bool.or_assoc]

/-- a line that can be followed by a newline without creating `\r\n`, and has none inside -/
def CrOK (s : List Char) : Prop := hasCRLF (s ++ ['\n']) = false

theorem hasCRLF_joinNl (segs : List (List Char)) (h : ∀ s ∈ segs, CrOK s) : hasCRLF (joinNl segs) = false := by
  induction segs with
  | nil => rfl
  | cons s ss ih =>
    simp only [joinNl]
    rw [hasCRLF_line, h s (by simp), ih (fun x hx => h x (List.mem_cons_of_mem _ hx))]
    rfl

theorem hasCRLF_of_no_cr (l : List Char) (h : '\r' ∉ l) : hasCRLF l = false := by
  induction l with
  | nil => rfl
  | cons c cs ih =>
    cases cs with
    | nil => rfl
    | cons d ds =>
      have hc : (c == '\r') = false := by simpa using fun e : c = '\r' => h (by simp [e])
      simp only [hasCRLF, hc, Bool.false_and, Bool.false_or]
      exact ih (fun e => h (List.mem_cons_of_mem _ e))

theorem crOK_of_no_cr (l : List Char) (h : '\r' ∉ l) : CrOK l :=
  hasCRLF_of_no_cr _ (by simp only [List.mem_append, List.mem_cons, List.not_mem_nil, or_false]; rintro (e | e); exact h e; exact absurd e (by decide))

theorem crOK_word (w : List Char) (hn : '\n' ∉ w) (hl : w.getLast? ≠ some '\r') : CrOK w := by
  unfold CrOK
  induction w with
  | nil => rfl
  | cons c cs ih =>
    cases cs with
    | nil =>
      have : (c == '\r') = false := by simpa using fun e : c = '\r' => hl (by simp [e])
      simp [hasCRLF, this]
    | cons d ds =>
      have hd : (d == '\n') = false := by simpa using fun e : d = '\n' => hn (by simp [e])
      simp only [List.cons_append, hasCRLF, hd, Bool.and_false, Bool.false_or]
      exact ih (fun e => hn (List.mem_cons_of_mem _ e)) (by rwa [List.getLast?_cons_cons] at hl)

theorem crOK_noEdge (w : List Char) (hn : '\n' ∉ w) (hs : NoEdgeSpace w) : CrOK w :=
  crOK_word w hn (fun e => absurd (hs.2 _ e) (by decide))

theorem mem_escapeL (c : Char) (l : List Char) (h : c ∈ escapeL l) : c ∈ l ∨ c = q := by
  induction l with
  | nil => simp [escapeL] at h
  | cons x xs ih =>
    by_cases hx : x = q
    · simp only [escapeL, hx, if_true, List.mem_cons] at h
      rcases h with h | h | h
      · exact Or.inr h
      · exact Or.inr h
      · rcases ih h with h | h
        · exact Or.inl (List.mem_cons_of_mem _ h)
        · exact Or.inr h
    · simp only [escapeL, hx, if_false, List.mem_cons] at h
      rcases h with h | h
      · exact Or.inl (by simp [h])
      · rcases ih h with h | h
        · exact Or.inl (List.mem_cons_of_mem _ h)
        · exact Or.inr h

theorem hasCRLF_cons (c : Char) (z : List Char) :
    hasCRLF (c :: z) = ((c == '\r' && z.head? == some '\n') || hasCRLF z) := by
  cases z with
  | nil => simp [hasCRLF]
  | cons d ds => simp [hasCRLF]

theorem head_escape_nl (cs r : List Char) (h : (escapeL cs ++ q :: r).head? = some '\n') : cs.head? = some '\n' := by
  cases cs with
  | nil => simp [escapeL] at h; exact absurd h (by decide)
  | cons d ds =>
    by_cases hd : d = q
    · simp [escapeL, hd] at h; exact absurd h (by decide)
    · simpa [escapeL, hd] using h

/-- quote doubling creates no `\r\n` -/
theorem hasCRLF_escape (l r : List Char) (h : hasCRLF l = false) :
    hasCRLF (escapeL l ++ q :: r) = hasCRLF (q :: r) := by
  induction l with
  | nil => rfl
  | cons c cs ih =>
    rw [hasCRLF_cons] at h
    simp only [Bool.or_eq_false_iff] at h
    have ih' := ih h.2
    by_cases hc : c = q
    · subst hc
      simp only [escapeL, if_true, List.cons_append]
      rw [hasCRLF_cons, hasCRLF_cons, ih']
      simp [show (q == '\r') = false by decide]
    · simp only [escapeL, hc, if_false, List.cons_append]
      rw [hasCRLF_cons, ih']
      have : (c == '\r' && (escapeL cs ++ q :: r).head? == some '\n') = false := by
        cases h1 : (c == '\r') with
        | false => rfl
        | true =>
          cases h2 : ((escapeL cs ++ q :: r).head? == some '\n') with
          | false => rfl
          | true =>
            have h3 := head_escape_nl cs r (by simpa using h2)
            have := h.1
            rw [h1, h3] at this
            simp at this
      rw [this]; rfl

theorem crOK_row (l : String) (h : hasCRLF l.toList = false) : CrOK (row l) := by
  unfold CrOK row
  simp only [List.cons_append, List.append_assoc, List.nil_append]
  rw [hasCRLF_cons, hasCRLF_escape _ _ h]
  simp [show (q == '\r') = false by decide, show hasCRLF [q, '\n'] = false by decide]

/-! ## line conditions of a whole file -/

/-- no label or name of the tier, WRITTEN as a row `"…"` with its quotes doubled, contains `"IntervalTier"` or
`"TextTier"` (quotes included): the reader locates tiers by searching the whole file for these (known defect A10) -/
def NoKw (t : AnyTier α) : Prop := ∀ s ∈ texts t, SegOK (row s)

/-- no `\r\n` inside a name or label (the reader first rewrites every `\r\n` of the file to `\n`); C01 quantifies over
labels without any carriage return, which is sufficient: `noCRLF_of_no_cr` -/
def NoCRLF (t : AnyTier α) : Prop := ∀ s ∈ texts t, hasCRLF s.toList = false

theorem noCRLF_of_no_cr (t : AnyTier α) (h : ∀ s ∈ texts t, '\r' ∉ s.toList) : NoCRLF t :=
  fun s hs => hasCRLF_of_no_cr _ (h s hs)

theorem infix_of_occs (pat l : List Char) (hne : pat ≠ []) (h : pat <:+: l) (k : Nat) : occs pat k l ≠ [] := by
  obtain ⟨a, b, e⟩ := h
  subst e
  induction a generalizing k with
  | nil =>
    cases pat with
    | nil => exact absurd rfl hne
    | cons p ps =>
      have : (p :: ps).isPrefixOf (p :: ps ++ b) = true := List.isPrefixOf_iff_prefix.2 (List.prefix_append _ _)
      simp only [List.nil_append, List.cons_append] at this ⊢
      simp [occs, this]
  | cons x xs ih =>
    simp only [List.cons_append, List.append_assoc, occs]
    split
    · simp
    · have := ih (k + 1); simpa only [List.append_assoc] using this

theorem segOK_of_occs (l : List Char) (h1 : occs kwI 0 l = []) (h2 : occs kwP 0 l = []) : SegOK l :=
  ⟨fun h => infix_of_occs kwI l (by decide) h 0 h1, fun h => infix_of_occs kwP l (by decide) h 0 h2⟩

theorem segOK_num (w : String) (h : NumWord w) : SegOK w.toList := h.segOK

theorem count_no_quote (n : Nat) : q ∉ (toString n).toList := by
  rw [count_toList]
  intro h
  exact absurd (Nat.isDigit_of_mem_toDigits (by decide) (by decide) h) (by decide)

theorem count_no_cr (n : Nat) : '\r' ∉ (toString n).toList := by
  rw [count_toList]
  intro h
  exact absurd (Nat.isDigit_of_mem_toDigits (by decide) (by decide) h) (by decide)

theorem hdr_segOK (num : α → String) (hnum : ∀ x, NumWord (num x)) (lo hi : α) (n : Nat) :
    ∀ s ∈ hdrSegs num lo hi n, SegOK s := by
  intro s hs
  simp only [hdrSegs, List.mem_cons, List.not_mem_nil, or_false] at hs
  rcases hs with rfl | rfl | rfl | rfl | rfl | rfl | rfl
  · exact segOK_of_occs _ (by decide) (by decide)
  · exact segOK_of_occs _ (by decide) (by decide)
  · exact segOK_of_occs _ (by decide) (by decide)
  · exact (hnum lo).segOK
  · exact (hnum hi).segOK
  · exact segOK_of_occs _ (by decide) (by decide)
  · exact segOK_of_no_quote _ (count_no_quote n)

theorem hdr_crOK (num : α → String) (hnum : ∀ x, NumWord (num x)) (lo hi : α) (n : Nat) :
    ∀ s ∈ hdrSegs num lo hi n, CrOK s := by
  intro s hs
  simp only [hdrSegs, List.mem_cons, List.not_mem_nil, or_false] at hs
  rcases hs with rfl | rfl | rfl | rfl | rfl | rfl | rfl
  · exact crOK_of_no_cr _ (by decide)
  · exact crOK_of_no_cr _ (by decide)
  · exact crOK_of_no_cr _ (by decide)
  · exact crOK_noEdge _ (hnum lo).noNl (hnum lo).noEdge
  · exact crOK_noEdge _ (hnum hi).noNl (hnum hi).noEdge
  · exact crOK_of_no_cr _ (by decide)
  · exact crOK_of_no_cr _ (count_no_cr n)

theorem hdr_noNl (num : α → String) (hnum : ∀ x, NumWord (num x)) (lo hi : α) (n : Nat) :
    ∀ s ∈ hdrSegs num lo hi n, '\n' ∉ s := by
  intro s hs
  simp only [hdrSegs, List.mem_cons, List.not_mem_nil, or_false] at hs
  rcases hs with rfl | rfl | rfl | rfl | rfl | rfl | rfl
  · decide
  · decide
  · decide
  · exact (hnum lo).noNl
  · exact (hnum hi).noNl
  · decide
  · exact count_noNl n

/-- every line of a tier body is a name/label row, a numeral, or the entry count -/
theorem body_all (num : α → String) (t : AnyTier α) (P : List Char → Prop) (hrow : ∀ l ∈ texts t, P (row l))
    (hn : ∀ x, P (num x).toList) (hc : ∀ n : Nat, P (toString n).toList) : ∀ s ∈ bodySegs num t, P s := by
  intro s hs
  cases t with
  | I t =>
    simp only [bodySegs, List.cons_append, List.nil_append, List.mem_cons, List.mem_flatMap, ivSegs, List.not_mem_nil,
      or_false] at hs
    rcases hs with rfl | rfl | rfl | rfl | ⟨e, he, rfl | rfl | rfl⟩
    · exact hrow _ (by simp [texts])
    · exact hn _
    · exact hn _
    · exact hc _
    · exact hn _
    · exact hn _
    · exact hrow _ (by simp only [texts, List.mem_cons, List.mem_map]; exact Or.inr ⟨e, he, rfl⟩)
  | P t =>
    simp only [bodySegs, List.cons_append, List.nil_append, List.mem_cons, List.mem_flatMap, ptSegs, List.not_mem_nil,
      or_false] at hs
    rcases hs with rfl | rfl | rfl | rfl | ⟨e, he, rfl | rfl⟩
    · exact hrow _ (by simp [texts])
    · exact hn _
    · exact hn _
    · exact hc _
    · exact hn _
    · exact hrow _ (by simp only [texts, List.mem_cons, List.mem_map]; exact Or.inr ⟨e, he, rfl⟩)

theorem body_segOK (num : α → String) (hnum : ∀ x, NumWord (num x)) (t : AnyTier α) (hkw : NoKw t) :
    ∀ s ∈ bodySegs num t, SegOK s :=
  body_all num t SegOK hkw (fun x => (hnum x).segOK) (fun n => segOK_of_no_quote _ (count_no_quote n))

theorem body_crOK (num : α → String) (hnum : ∀ x, NumWord (num x)) (t : AnyTier α) (hcr : NoCRLF t) :
    ∀ s ∈ bodySegs num t, CrOK s :=
  body_all num t CrOK (fun l hl => crOK_row l (hcr l hl)) (fun x => crOK_noEdge _ (hnum x).noNl (hnum x).noEdge)
    (fun n => crOK_of_no_cr _ (count_no_cr n))

theorem body_ok (num : α → String) (hnum : ∀ x, NumWord (num x)) (t : AnyTier α) (hkw : NoKw t) (hcr : NoCRLF t) :
    ∀ s ∈ bodySegs num t, SegOK s ∧ CrOK s :=
  fun s hs => ⟨body_segOK num hnum t hkw s hs, body_crOK num hnum t hcr s hs⟩

theorem kw_crOK (f : Bool) : CrOK (kw f) := by cases f <;> exact crOK_of_no_cr _ (by decide)

/-- a written file contains no `\r\n` -/
theorem file_no_crlf (hdr : List (List Char)) (bs : List Block) (hh : ∀ s ∈ hdr, CrOK s) (h : ∀ b ∈ bs, ∀ s ∈ b.2, CrOK s) :
    hasCRLF (joinNl hdr ++ bs.flatMap blockL) = false := by
  have e : joinNl hdr ++ bs.flatMap blockL = joinNl (hdr ++ bs.flatMap fun b => kw b.1 :: b.2) := by
    rw [joinNl_append, joinNl_flatMap]; rfl
  rw [e]
  apply hasCRLF_joinNl
  intro s hs
  simp only [List.mem_append, List.mem_flatMap, List.mem_cons] at hs
  rcases hs with hs | ⟨b, hb, rfl | hs⟩
  · exact hh s hs
  · exact kw_crOK _
  · exact h b hb s hs

/-! ## assembling the file -/

theorem slice_prefix (a b : List Char) : slice (a ++ b).toArray 0 a.length = a.toArray := by
  have := slice_of_drop (a ++ b).toArray 0 a b (by simp)
  simpa using this

theorem mapM_tups {β : Type} (blk : β → Block) (R : β → RawTier) (data : Txt) (ts : List β) (pre : List Char)
    (hd : data.toList = pre ++ (ts.map blk).flatMap blockL)
    (hR : ∀ t ∈ ts, Rd.readBlock (blockL (blk t)).toArray (blk t).1 = .ok (R t)) :
    (tups pre.length (ts.map blk)).mapM (fun t => Rd.readBlock (slice data t.1 t.2.1) t.2.2) = .ok (ts.map R) := by
  induction ts generalizing pre with
  | nil => rfl
  | cons t ts ih =>
    simp only [List.map_cons, List.flatMap_cons] at hd
    have hdrop : data.toList.drop pre.length = blockL (blk t) ++ (ts.map blk).flatMap blockL := by
      rw [hd]; exact List.drop_left' rfl
    have hsl := slice_of_drop data pre.length _ _ hdrop
    have hih := ih (pre ++ blockL (blk t)) (by rw [hd, List.append_assoc]) (fun x hx => hR x (List.mem_cons_of_mem _ hx))
    rw [List.length_append] at hih
    simp only [List.map_cons, tups, List.mapM_cons, hsl, hR t (by simp), hih, bind, Except.bind, pure, Except.pure]

theorem nth3 (num : α → String) (lo hi : α) (n : Nat) :
    Rd.nth? ((hdrSegs num lo hi n).map List.toArray ++ [#[]]) 3 = .ok (num lo).toList.toArray := rfl
theorem nth4 (num : α → String) (lo hi : α) (n : Nat) :
    Rd.nth? ((hdrSegs num lo hi n).map List.toArray ++ [#[]]) 4 = .ok (num hi).toList.toArray := rfl

theorem strip_num (w : String) (h : NumWord w) : toStr (strip w.toList.toArray) = w := strip_label w h.noEdge

theorem lit_crlf : (Rd.lit "\r\n").toList = ['\r', '\n'] := rfl

/-- the reader on a text made of a written header and written blocks (the common part of the theorems below) -/
theorem parseShort_blocks {β : Type} (num : α → String) (hnum : ∀ x, NumWord (num x)) (lo hi : α) (n : Nat)
    (blk : β → Block) (ts : List β) (hok : ∀ t ∈ ts, ∀ s ∈ (blk t).2, SegOK s ∧ CrOK s) :
    Rd.parseShort (joinNl (hdrSegs num lo hi n) ++ (ts.map blk).flatMap blockL).toArray =
      (match tups (joinNl (hdrSegs num lo hi n)).length (ts.map blk) with
      | [] => .error .IndexError
      | tp :: tps => do
        let tiers ← (tp :: tps).mapM fun t =>
          Rd.readBlock (slice (joinNl (hdrSegs num lo hi n) ++ (ts.map blk).flatMap blockL).toArray t.1 t.2.1) t.2.2
        pure ⟨num lo, num hi, tiers⟩) := by
  have hbs1 : ∀ b ∈ ts.map blk, ∀ s ∈ b.2, SegOK s := by
    intro b hb s hs
    obtain ⟨t, ht, rfl⟩ := List.mem_map.1 hb
    exact (hok t ht s hs).1
  have hbs2 : ∀ b ∈ ts.map blk, ∀ s ∈ b.2, CrOK s := by
    intro b hb s hs
    obtain ⟨t, ht, rfl⟩ := List.mem_map.1 hb
    exact (hok t ht s hs).2
  generalize hdata : (joinNl (hdrSegs num lo hi n) ++ (ts.map blk).flatMap blockL).toArray = data
  have hrep : replace data (Rd.lit "\r\n") (Rd.lit "\n") = data := by
    apply replace_id _ _ _ (by decide)
    rw [lit_crlf, ← hdata]
    exact no_crlf_of_hasCRLF _ (file_no_crlf _ _ (hdr_crOK num hnum lo hi n) hbs2)
  have htup : Rd.shortTuples data = tups (joinNl (hdrSegs num lo hi n)).length (ts.map blk) := by
    rw [← hdata]; exact shortTuples_file _ _ (hdr_segOK num hnum lo hi n) hbs1
  unfold Rd.parseShort
  simp only [hrep, htup]
  cases htp : tups (joinNl (hdrSegs num lo hi n)).length (ts.map blk) with
  | nil => rfl
  | cons tp tps =>
    have hfirst : tp.1 = (joinNl (hdrSegs num lo hi n)).length := by
      cases hts : ts.map blk with
      | nil => rw [hts] at htp; simp [tups] at htp
      | cons b bs => rw [hts] at htp; simp only [tups, List.cons.injEq] at htp; rw [← htp.1]
    obtain ⟨first, b2, b3⟩ := tp
    simp only at hfirst
    subst hfirst
    have hhead : slice data 0 (joinNl (hdrSegs num lo hi n)).length = (joinNl (hdrSegs num lo hi n)).toArray := by
      rw [← hdata]; exact slice_prefix _ _
    simp only [hhead, splitChar_joinNl _ (hdr_noNl num hnum lo hi n), nth3, nth4, bind, Except.bind,
      strip_num _ (hnum lo), strip_num _ (hnum hi)]

theorem ofString_emit (num : α → String) (g : Tg α) (lo hi : α) :
    Txt.ofString (tgToShort num g lo hi) =
      (joinNl (hdrSegs num lo hi g.tiers.length) ++ (g.tiers.map (blockOf num)).flatMap blockL).toArray := by
  unfold Txt.ofString
  rw [emit_toList]

/-- **C01, short format, whole file, EVERY name and label**: praatio's short-format reader applied to the text praatio's
short-format emitter writes for ANY textgrid with at least one tier returns that textgrid with `str.strip()` applied to
every label (`stripTg`), and nothing else changed: the tiers in order, their class, NAME (verbatim — leading and trailing
blanks, tabs, line breaks included; fix A31) and span, every entry; times as the numerals that were written.  No
strip-invariance hypothesis: labels always are strip-invariant in memory (the tier constructors strip them), so for labels
`stripTg` changes nothing; tier NAMES are not stripped by any constructor and, since fix A31, not by this reader either
(`parseShort_name_blank_regression`; the long and the two JSON formats always kept such a name).

Remaining hypotheses: `hnum` — a property of the numeral renderer, true of CPython's `repr`/`"%d"` output for every float;
`hne` — the excluded case is `parseShort_no_tiers` (C01 quantifies over 1..n tiers); `hkw` — known reader defect A10, needed
(`parseShort_keyword_counterexample`); `hcr` — C01 quantifies over texts without carriage returns (`NoCRLF` is weaker: a lone
`\r` is allowed and survives at this level; a `\r\n` is rewritten to `\n` by the reader, see the `#guard` below). -/
theorem parseShort_emit_strip (num : α → String) (hnum : ∀ x, NumWord (num x)) (g : Tg α) (lo hi : α)
    (hne : g.tiers ≠ [])
    (hkw : ∀ t ∈ g.tiers, NoKw t)
    (hcr : ∀ t ∈ g.tiers, NoCRLF t) :
    Rd.parseShort (Txt.ofString (tgToShort num g lo hi)) = .ok (rawOf num (stripTg g) lo hi) := by
  rw [ofString_emit, parseShort_blocks num hnum lo hi _ (blockOf num) g.tiers
    (fun t ht s hs => body_ok num hnum t (hkw t ht) (hcr t ht) s hs)]
  have hm := mapM_tups (blockOf num) (fun t => rawTier num (stripT t))
    (joinNl (hdrSegs num lo hi g.tiers.length) ++ (g.tiers.map (blockOf num)).flatMap blockL).toArray g.tiers
    (joinNl (hdrSegs num lo hi g.tiers.length)) rfl (fun t _ => readBlock_written_strip num hnum t)
  cases htp : tups (joinNl (hdrSegs num lo hi g.tiers.length)).length (g.tiers.map (blockOf num)) with
  | nil =>
    cases hts : g.tiers with
    | nil => exact absurd hts hne
    | cons t ts => rw [hts] at htp; simp [tups] at htp
  | cons tp tps =>
    rw [htp] at hm
    simp only [hm, bind, Except.bind, pure, Except.pure, rawOf, stripTg, List.map_map, Function.comp_def]

/-- **C01, short format, whole file**: praatio's short-format reader applied to the text praatio's short-format
emitter writes for ANY textgrid with at least one tier returns exactly that textgrid: the tiers in order, their
class, name and span, every entry, labels character for character; times as the numerals that were written.
(`hstr`: LABELS are strip-invariant — enforced by the tier constructors; without it: `parseShort_emit_strip`.  No hypothesis on
names: blanks, tabs and line breaks at either end of a name are kept since fix A31.) -/
theorem parseShort_emit (num : α → String) (hnum : ∀ x, NumWord (num x)) (g : Tg α) (lo hi : α)
    (hne : g.tiers ≠ [])
    (hkw : ∀ t ∈ g.tiers, NoKw t)
    (hstr : ∀ t ∈ g.tiers, StrippedLabels t)
    (hcr : ∀ t ∈ g.tiers, NoCRLF t) :
    Rd.parseShort (Txt.ofString (tgToShort num g lo hi)) = .ok (rawOf num g lo hi) := by
  rw [parseShort_emit_strip num hnum g lo hi hne hkw hcr, stripTg_of_stripped g hstr]

/-- the reader raises `IndexError` on a written file without tiers (`tupleList[0][0]`), so an empty textgrid is not
read back — hypothesis `g.tiers ≠ []` of `parseShort_emit` is needed -/
theorem parseShort_no_tiers (num : α → String) (hnum : ∀ x, NumWord (num x)) (g : Tg α) (lo hi : α)
    (h0 : g.tiers = []) :
    Rd.parseShort (Txt.ofString (tgToShort num g lo hi)) = .error .IndexError := by
  rw [ofString_emit, parseShort_blocks num hnum lo hi _ (blockOf num) g.tiers (by rw [h0]; intro t ht; simp at ht)]
  rw [h0]
  rfl

/-- **(b) tier offsets**: on the text written for `g`, `utils.findAll(data, '"IntervalTier"')` (`f = true`) and
`findAll(data, '"TextTier"')` (`f = false`) return exactly the start offsets of the tier blocks of that class, in order -/
theorem findAll_written (num : α → String) (hnum : ∀ x, NumWord (num x)) (g : Tg α) (lo hi : α)
    (hkw : ∀ t ∈ g.tiers, NoKw t) (f : Bool) :
    findAll (Txt.ofString (tgToShort num g lo hi)) (kw f).toArray =
      offs f (joinNl (hdrSegs num lo hi g.tiers.length)).length (g.tiers.map (blockOf num)) := by
  rw [ofString_emit, findAll_eq _ _ (by cases f <;> decide)]
  apply occs_file f _ _ (hdr_segOK num hnum lo hi _)
  intro b hb s hs
  obtain ⟨t, ht, rfl⟩ := List.mem_map.1 hb
  exact body_segOK num hnum t (hkw t ht) s hs

/-- **(c) header**: the text before the first tier block, split at newlines, has the two span numerals on lines 3, 4 -/
theorem header_written (num : α → String) (hnum : ∀ x, NumWord (num x)) (lo hi : α) (n : Nat) (rest : List Char) :
    let hl := splitChar (slice (joinNl (hdrSegs num lo hi n) ++ rest).toArray 0 (joinNl (hdrSegs num lo hi n)).length) '\n'
    (Rd.nth? hl 3).map (fun w => toStr (strip w)) = .ok (num lo) ∧
    (Rd.nth? hl 4).map (fun w => toStr (strip w)) = .ok (num hi) := by
  simp only [slice_prefix, splitChar_joinNl _ (hdr_noNl num hnum lo hi n), nth3, nth4, Except.map,
    strip_num _ (hnum lo), strip_num _ (hnum hi), and_self]

/-- `my_math.numToStr` renders a `NumWord` when `repr` and `"%d"` do -/
theorem numWord_numToStr [Tm α] (trunc : α → α) (reprOf intOf : α → String) (h1 : ∀ x, NumWord (reprOf x))
    (h2 : ∀ x, NumWord (intOf x)) (x : α) : NumWord (numToStr trunc reprOf intOf x) := by
  unfold numToStr
  split
  · exact h2 x
  · exact h1 x

/-! ## which labels the keyword hypothesis `NoKw` excludes, exactly

The escaped row `"` ++ escape s ++ `"` contains `"X"` (X a word without quotes) exactly when the PLAIN text
`"` ++ s ++ `"` does: when `s = X`, or `s` starts with `X"`, or ends with `"X`, or contains `"X"`. -/

theorem word_prefix_escape (Y s : List Char) (hY : q ∉ Y) :
    Y ++ [q] <+: escapeL s ++ [q] ↔ Y ++ [q] <+: s ++ [q] := by
  induction Y generalizing s with
  | nil =>
    cases s with
    | nil => simp [escapeL]
    | cons c cs =>
      by_cases hc : c = q
      · simp [escapeL, hc, List.cons_prefix_cons]
      · have : ¬ q = c := fun e => hc e.symm
        simp [escapeL, hc, List.cons_prefix_cons, this]
  | cons y ys ih =>
    have hy : y ≠ q := fun e => hY (by simp [e])
    have hys : q ∉ ys := fun e => hY (List.mem_cons_of_mem _ e)
    cases s with
    | nil => simp [escapeL, List.cons_prefix_cons, hy]
    | cons c cs =>
      by_cases hc : c = q
      · simp [escapeL, hc, List.cons_prefix_cons, hy]
      · simp only [escapeL, hc, if_false, List.cons_append, List.cons_prefix_cons, ih cs hys]

theorem kwlike_infix_escape (Y s : List Char) (hY : q ∉ Y) (hne : Y ≠ []) :
    q :: (Y ++ [q]) <:+: escapeL s ++ [q] ↔ q :: (Y ++ [q]) <:+: s ++ [q] := by
  have hhead : ∀ l : List Char, ¬ Y ++ [q] <+: q :: l := by
    intro l h
    cases Y with
    | nil => exact hne rfl
    | cons y ys =>
      simp only [List.cons_append, List.cons_prefix_cons] at h
      exact hY (by simp [h.1])
  induction s with
  | nil =>
    simp only [escapeL, List.nil_append]
  | cons c cs ih =>
    by_cases hc : c = q
    · subst hc
      simp only [escapeL, if_true, List.cons_append, List.infix_cons_iff, List.cons_prefix_cons, true_and, ih,
        word_prefix_escape Y cs hY]
      constructor
      · rintro (h | h | h)
        · exact absurd h (hhead _)
        · exact Or.inl h
        · exact Or.inr h
      · rintro (h | h)
        · exact Or.inr (Or.inl h)
        · exact Or.inr (Or.inr h)
    · have hqc : ¬ q = c := fun e => hc e.symm
      simp only [escapeL, hc, if_false, List.cons_append, List.infix_cons_iff, List.cons_prefix_cons, hqc, false_and,
        false_or, ih]

theorem kwlike_infix_row (Y : List Char) (s : String) (hY : q ∉ Y) (hne : Y ≠ []) :
    q :: (Y ++ [q]) <:+: row s ↔ q :: (Y ++ [q]) <:+: q :: (s.toList ++ [q]) := by
  simp only [row, List.infix_cons_iff, List.cons_prefix_cons, true_and, word_prefix_escape Y _ hY,
    kwlike_infix_escape Y _ hY hne]

/-- **exactly which names/labels break the reader (A10)**: those for which `"` ++ label ++ `"` (plain, not escaped)
contains `"IntervalTier"` or `"TextTier"`, i.e. the label IS the word, starts with `word"`, ends with `"word`, or
contains `"word"` -/
theorem segOK_row_iff (s : String) : SegOK (row s) ↔ SegOK (q :: (s.toList ++ [q])) := by
  unfold SegOK
  have e1 : kwI = q :: ("IntervalTier".toList ++ [q]) := by decide
  have e2 : kwP = q :: ("TextTier".toList ++ [q]) := by decide
  rw [e1, e2, kwlike_infix_row _ s (by decide) (by decide), kwlike_infix_row _ s (by decide) (by decide)]

theorem not_infix_wrap (pat l : List Char) (hq : q ∉ pat) (hne : pat ≠ []) (h : ¬ pat <:+: l) :
    ¬ pat <:+: q :: (l ++ [q]) := by
  have g1 : ∀ (p m : List Char), q ∉ p → p ≠ [] → p <:+: q :: m → p <:+: m := by
    intro p m hp hpne hi
    rcases List.infix_cons_iff.1 hi with hpre | hin
    · cases p with
      | nil => exact absurd rfl hpne
      | cons x xs => exact absurd (List.cons_prefix_cons.1 hpre).1 (fun e => hp (by simp [e]))
    · exact hin
  intro hi
  have h1 := g1 pat _ hq hne hi
  have h2 : pat.reverse <:+: q :: l.reverse := by
    have := List.reverse_infix.2 h1
    simpa using this
  have h3 := g1 pat.reverse l.reverse (by simpa using hq) (by simpa using hne) h2
  exact h (List.reverse_infix.1 h3)

/-- simple sufficient condition: a name/label that does not contain the bare words `IntervalTier` and `TextTier` -/
theorem segOK_row_of_no_word (s : String) (h1 : ¬ "IntervalTier".toList <:+: s.toList)
    (h2 : ¬ "TextTier".toList <:+: s.toList) : SegOK (row s) := by
  rw [segOK_row_iff]
  have e1 : "IntervalTier".toList <:+: kwI := ⟨[q], [q], by decide⟩
  have e2 : "TextTier".toList <:+: kwP := ⟨[q], [q], by decide⟩
  exact ⟨fun h => not_infix_wrap _ _ (by decide) (by decide) h1 (e1.trans h),
    fun h => not_infix_wrap _ _ (by decide) (by decide) h2 (e2.trans h)⟩

/-! ## a concrete numeral system (`"%d"` on naturals), non-vacuity, and the counter-example for `NoKw` -/

def numN (n : Nat) : String := toString n

theorem numN_word (n : Nat) : NumWord (numN n) := by
  apply NumWord.of_plain
  · rw [numN, count_toList]; exact Nat.toDigits_ne_nil
  · exact count_noNl n
  · exact count_no_quote n
  · rw [pyStrip_eq_iff, numN, count_toList]
    exact noEdge_of_all _ fun c hc => digit_not_space c (Nat.isDigit_of_mem_toDigits (by decide) (by decide) hc)

theorem ok_of_dec (s : List Char) (h1 : occs kwI 0 s = []) (h2 : occs kwP 0 s = []) (h3 : hasCRLF (s ++ ['\n']) = false) :
    SegOK s ∧ CrOK s := ⟨segOK_of_occs s h1 h2, h3⟩

/-- two tiers, one interval and one point tier; a name with quotes; labels with quotes at both ends, doubled quotes, a
newline, the empty label, the label `"` alone -/
def sampleTg : Tg Nat :=
  ⟨[.I ⟨"words \"w\"", [⟨0, 1, "\"a\"\"b\nc\""⟩, ⟨1, 3, ""⟩, ⟨3, 4, "\""⟩], 0, 5⟩,
    .P ⟨"p", [⟨2, "say \"hi\"\n- ok"⟩], 0, 5⟩], some 0, some 5⟩

theorem sample_hyps :
    sampleTg.tiers ≠ [] ∧ (∀ t ∈ sampleTg.tiers, NoKw t) ∧ (∀ t ∈ sampleTg.tiers, Stripped' t) ∧
      (∀ t ∈ sampleTg.tiers, NoCRLF t) := by
  refine ⟨by simp [sampleTg], ?_, ?_, ?_⟩
  · intro t ht
    simp only [sampleTg, List.mem_cons, List.not_mem_nil, or_false] at ht
    rcases ht with rfl | rfl <;> intro s hs <;>
      simp only [texts, List.map_cons, List.map_nil, List.mem_cons, List.not_mem_nil, or_false] at hs
    · rcases hs with rfl | rfl | rfl | rfl <;> exact segOK_of_occs _ (by decide) (by decide)
    · rcases hs with rfl | rfl <;> exact segOK_of_occs _ (by decide) (by decide)
  · intro t ht
    simp only [sampleTg, List.mem_cons, List.not_mem_nil, or_false] at ht
    rcases ht with rfl | rfl <;> intro s hs <;>
      simp only [texts, List.map_cons, List.map_nil, List.mem_cons, List.not_mem_nil, or_false] at hs
    · rcases hs with rfl | rfl | rfl | rfl <;> rw [pyStrip_eq_iff] <;>
        exact noEdge_of_stripList _ (by decide)
    · rcases hs with rfl | rfl <;> rw [pyStrip_eq_iff] <;>
        exact noEdge_of_stripList _ (by decide)
  · intro t ht
    simp only [sampleTg, List.mem_cons, List.not_mem_nil, or_false] at ht
    rcases ht with rfl | rfl <;> intro s hs <;>
      simp only [texts, List.map_cons, List.map_nil, List.mem_cons, List.not_mem_nil, or_false] at hs
    · rcases hs with rfl | rfl | rfl | rfl <;> decide
    · rcases hs with rfl | rfl <;> decide

/-- non-vacuity: the whole-file theorem applies to `sampleTg` -/
theorem sample_read_back :
    Rd.parseShort (Txt.ofString (tgToShort numN sampleTg 0 5)) = .ok (rawOf numN sampleTg 0 5) :=
  parseShort_emit numN numN_word sampleTg 0 5 sample_hyps.1 sample_hyps.2.1 (fun t ht => (sample_hyps.2.2.1 t ht).labels) sample_hyps.2.2.2

/-! ### a tier NAME with surrounding blanks (no constructor strips names) comes back unchanged from the short format (A31, fixed) -/

/-- one interval tier named `" a "` (blank, `a`, blank) with the single interval (0, 1, `x`) -/
def blankNameTg : Tg Nat := ⟨[.I ⟨" a ", [⟨0, 1, "x"⟩], 0, 2⟩], none, none⟩

theorem blankName_hyps : blankNameTg.tiers ≠ [] ∧ (∀ t ∈ blankNameTg.tiers, NoKw t) ∧ (∀ t ∈ blankNameTg.tiers, NoCRLF t) := by
  refine ⟨by simp [blankNameTg], ?_, ?_⟩
  · intro t ht
    simp only [blankNameTg, List.mem_cons, List.not_mem_nil, or_false] at ht
    subst ht
    intro s hs
    simp only [texts, List.map_cons, List.map_nil, List.mem_cons, List.not_mem_nil, or_false] at hs
    rcases hs with rfl | rfl <;> exact segOK_of_occs _ (by decide) (by decide)
  · intro t ht
    simp only [blankNameTg, List.mem_cons, List.not_mem_nil, or_false] at ht
    subst ht
    intro s hs
    simp only [texts, List.map_cons, List.map_nil, List.mem_cons, List.not_mem_nil, or_false] at hs
    rcases hs with rfl | rfl <;> decide

/-- **a tier NAME with surrounding blanks, regression for A31 (fixed, 5bcdbd7)**: the tier named `" a "` — a legal in-memory
object, no constructor strips names — is read back from the short file with its name unchanged, like from the long and the
two JSON formats (`parseShort_emit` has no hypothesis on names any more).  Before the fix `_fetchTextRow` stripped every text,
the name row included: `Textgrid` with `IntervalTier(" a ", [(0, 1, "x")], 0, 2)`, `save(fn, "short_textgrid", False)`,
`openTextgrid(fn, True).tierNames` was `("a",)`. -/
theorem parseShort_name_blank_regression :
    Rd.parseShort (Txt.ofString (tgToShort numN blankNameTg 0 2)) =
      .ok ⟨"0", "2", [⟨"IntervalTier", " a ", "0", "2", [["0", "1", "x"]]⟩]⟩ ∧
    Rd.parseShort (Txt.ofString (tgToShort numN blankNameTg 0 2)) = .ok (rawOf numN blankNameTg 0 2) := by
  have h := parseShort_emit_strip numN numN_word blankNameTg 0 2 blankName_hyps.1 blankName_hyps.2.1 blankName_hyps.2.2
  have e : rawOf numN (stripTg blankNameTg) 0 2 = ⟨"0", "2", [⟨"IntervalTier", " a ", "0", "2", [["0", "1", "x"]]⟩]⟩ := by
    have h2 : pyStrip "x" = "x" := by decide
    have h3 : numN 0 = "0" ∧ numN 1 = "1" ∧ numN 2 = "2" := by decide
    simp only [rawOf, stripTg, blankNameTg, List.map_cons, List.map_nil, stripT, rawTier, h2, h3]
  have e2 : rawOf numN blankNameTg 0 2 = ⟨"0", "2", [⟨"IntervalTier", " a ", "0", "2", [["0", "1", "x"]]⟩]⟩ := by
    have h3 : numN 0 = "0" ∧ numN 1 = "1" ∧ numN 2 = "2" := by decide
    simp only [rawOf, blankNameTg, List.map_cons, List.map_nil, rawTier, h3]
  rw [e] at h
  exact ⟨h, by rw [h, e2]⟩

def rawTierEq (a b : RawTier) : Bool :=
  a.cls == b.cls && a.name == b.name && a.xmin == b.xmin && a.xmax == b.xmax && a.entries == b.entries
def rawEq (a : Except Err RawTg) (b : RawTg) : Bool :=
  match a with
  | .ok r => r.xmin == b.xmin && r.xmax == b.xmax && r.tiers.length == b.tiers.length &&
      (r.tiers.zip b.tiers).all fun p => rawTierEq p.1 p.2
  | .error _ => false

-- running the reader model on the emitted text (the same computation the differential run compares with CPython)
#guard rawEq (Rd.parseShort (Txt.ofString (tgToShort numN sampleTg 0 5))) (rawOf numN sampleTg 0 5)
#guard (rawOf numN sampleTg 0 5).tiers.map (·.entries) ==
  [[["0", "1", "\"a\"\"b\nc\""], ["1", "3", ""], ["3", "4", "\""]], [["2", "say \"hi\"\n- ok"]]]
#guard tgToShort numN sampleTg 0 5 ==
  "File type = \"ooTextFile\"\nObject class = \"TextGrid\"\n\n0\n5\n<exists>\n2\n\"IntervalTier\"\n\"words \"\"w\"\"\"\n0\n5\n3\n" ++
  "0\n1\n\"\"\"a\"\"\"\"b\nc\"\"\"\n1\n3\n\"\"\n3\n4\n\"\"\"\"\n\"TextTier\"\n\"p\"\n0\n5\n1\n2\n\"say \"\"hi\"\"\n- ok\"\n"
-- adversarial shapes: empty point tier last; empty interval tier followed by another tier
#guard rawEq (Rd.parseShort (Txt.ofString (tgToShort numN ⟨[.I ⟨"a", [], 0, 1⟩, .P ⟨"\"", [], 0, 1⟩], none, none⟩ 0 1)))
  (rawOf numN ⟨[.I ⟨"a", [], 0, 1⟩, .P ⟨"\"", [], 0, 1⟩], none, none⟩ 0 1)
-- A10: a label that is the bare word `IntervalTier`, or ends with `"IntervalTier`, or starts with `TextTier"`
#guard !rawEq (Rd.parseShort (Txt.ofString (tgToShort numN ⟨[.I ⟨"a", [⟨0, 1, "IntervalTier"⟩], 0, 1⟩], none, none⟩ 0 1)))
  (rawOf numN ⟨[.I ⟨"a", [⟨0, 1, "IntervalTier"⟩], 0, 1⟩], none, none⟩ 0 1)
#guard !rawEq (Rd.parseShort (Txt.ofString (tgToShort numN ⟨[.I ⟨"a", [⟨0, 1, "x\"IntervalTier"⟩], 0, 1⟩], none, none⟩ 0 1)))
  (rawOf numN ⟨[.I ⟨"a", [⟨0, 1, "x\"IntervalTier"⟩], 0, 1⟩], none, none⟩ 0 1)
#guard !rawEq (Rd.parseShort (Txt.ofString (tgToShort numN ⟨[.P ⟨"a", [⟨0, "TextTier\"x"⟩], 0, 1⟩], none, none⟩ 0 1)))
  (rawOf numN ⟨[.P ⟨"a", [⟨0, "TextTier\"x"⟩], 0, 1⟩], none, none⟩ 0 1)
-- … while the bare word inside a longer label is harmless (`segOK_row_of_no_word` is sufficient, not necessary)
#guard rawEq (Rd.parseShort (Txt.ofString (tgToShort numN ⟨[.I ⟨"a", [⟨0, 1, "an IntervalTier here"⟩], 0, 1⟩], none, none⟩ 0 1)))
  (rawOf numN ⟨[.I ⟨"a", [⟨0, 1, "an IntervalTier here"⟩], 0, 1⟩], none, none⟩ 0 1)
-- a lone carriage return inside a label is covered by the theorem (only `\r\n` is excluded)
#guard rawEq (Rd.parseShort (Txt.ofString (tgToShort numN ⟨[.I ⟨"a", [⟨0, 1, "x\ry"⟩], 0, 1⟩], none, none⟩ 0 1)))
  (rawOf numN ⟨[.I ⟨"a", [⟨0, 1, "x\ry"⟩], 0, 1⟩], none, none⟩ 0 1)
-- `NoCRLF` is needed: the reader rewrites `\r\n` to `\n`, so the label `x\r\ny` comes back as `x\ny`
#guard (match Rd.parseShort (Txt.ofString (tgToShort numN ⟨[.I ⟨"a", [⟨0, 1, "x\r\ny"⟩], 0, 1⟩], none, none⟩ 0 1)) with
  | .ok r => r.tiers.map (·.entries) == [[["0", "1", "x\ny"]]]
  | .error _ => false)

/-! ## the keyword hypothesis is needed: a label that is the bare word `IntervalTier` (known defect A10) -/

theorem mapM_tups_err {β : Type} (blk : β → Block) (data : Txt) (ts1 : List β) (t : β) (ts2 : List β) (pre : List Char)
    (hd : data.toList = pre ++ ((ts1 ++ t :: ts2).map blk).flatMap blockL)
    (hok : ∀ x ∈ ts1, ∃ r, Rd.readBlock (blockL (blk x)).toArray (blk x).1 = .ok r) (e : Err)
    (herr : Rd.readBlock (blockL (blk t)).toArray (blk t).1 = .error e) :
    (tups pre.length ((ts1 ++ t :: ts2).map blk)).mapM (fun t => Rd.readBlock (slice data t.1 t.2.1) t.2.2) = .error e := by
  induction ts1 generalizing pre with
  | nil =>
    simp only [List.nil_append, List.map_cons, List.flatMap_cons] at hd
    have hdrop : data.toList.drop pre.length = blockL (blk t) ++ (ts2.map blk).flatMap blockL := by
      rw [hd]; exact List.drop_left' rfl
    have hsl := slice_of_drop data pre.length _ _ hdrop
    simp only [List.nil_append, List.map_cons, tups, List.mapM_cons, hsl, herr, bind, Except.bind]
  | cons x xs ih =>
    simp only [List.cons_append, List.map_cons, List.flatMap_cons] at hd
    have hdrop : data.toList.drop pre.length = blockL (blk x) ++ ((xs ++ t :: ts2).map blk).flatMap blockL := by
      rw [hd]; exact List.drop_left' rfl
    have hsl := slice_of_drop data pre.length _ _ hdrop
    obtain ⟨r, hr⟩ := hok x (by simp)
    have hih := ih (pre ++ blockL (blk x)) (by rw [hd, List.append_assoc]) (fun y hy => hok y (List.mem_cons_of_mem _ hy))
    rw [List.length_append] at hih
    simp only [List.cons_append, List.map_cons, tups, List.mapM_cons, hsl, hr, hih, bind, Except.bind]

/-- one interval tier `a` with the single interval (0, 1, `IntervalTier`) -/
def badTg : Tg Nat := ⟨[.I ⟨"a", [⟨0, 1, "IntervalTier"⟩], 0, 1⟩], some 0, some 1⟩

/-- what the reader sees instead: a tier block cut short before the label row, and a second "tier" `"IntervalTier"` -/
def badB1 : Block := (true, [row "a", (numN 0).toList, (numN 1).toList, (toString 1).toList, (numN 0).toList, (numN 1).toList])
def badB2 : Block := (true, [])

theorem bad_file : (badTg.tiers.map (blockOf numN)).flatMap blockL = ([badB1, badB2].map id).flatMap blockL := by
  decide

theorem bad_b1_ok : ∃ r, Rd.readBlock (blockL badB1).toArray badB1.1 = .ok r := by
  generalize hS : (blockL badB1).toArray = s
  have h0 : s.toList.drop 0 = kw true ++ '\n' :: (row "a" ++ '\n' :: ((numN 0).toList ++ '\n' :: ((numN 1).toList ++ '\n' ::
      ((toString 1).toList ++ '\n' :: joinNl [(numN 0).toList, (numN 1).toList])))) := by
    rw [← hS]; simp [blockL, badB1, joinNl]
  have r0 := fetchRow_line s 0 _ _ h0 (nl_not_mem_kw true) (kw_strip_ne true)
  have h1 := drop_line _ _ _ _ h0
  have r1 := fetchTextRow_row_raw s _ "a" _ h1
  have h2 := drop_line _ _ _ _ h1
  have r2 := fetchRow_num s _ _ (numN_word 0) _ h2
  have h3 := drop_line _ _ _ _ h2
  have r3 := fetchRow_num s _ _ (numN_word 1) _ h3
  have h4 := drop_line _ _ _ _ h3
  have r4 := fetchRow_line s _ _ _ h4 (count_noNl _) (count_strip_ne _)
  simp only [Rd.readBlock, badB1, r0, r1, r2, r3, r4, bind, Except.bind, pure, Except.pure]
  exact ⟨_, rfl⟩

theorem bad_b2_err : Rd.readBlock (blockL badB2).toArray badB2.1 = .error .ValueError := by
  generalize hS : (blockL badB2).toArray = s
  have h0 : s.toList.drop 0 = kw true ++ '\n' :: [] := by
    rw [← hS]; simp [blockL, badB2, joinNl]
  have r0 := fetchRow_line s 0 _ _ h0 (nl_not_mem_kw true) (kw_strip_ne true)
  have h1 : s.toList.drop (0 + (kw true).length + 1 + 1) = [] := by
    rw [← hS]; decide
  simp only [Rd.readBlock, r0, bind, Except.bind, Rd.fetchTextRow, h1, scanText]

/-- **the keyword hypothesis `NoKw` is needed (A10)**: the one-tier textgrid whose only label is the bare word
`IntervalTier` satisfies every other hypothesis of `parseShort_emit`, its written label row `"IntervalTier"` is the
keyword itself, and the reader does NOT read the file back: it raises `ValueError` -/
theorem parseShort_keyword_counterexample :
    badTg.tiers ≠ [] ∧ (∀ t ∈ badTg.tiers, Stripped' t) ∧ (∀ t ∈ badTg.tiers, NoCRLF t) ∧
    (¬ ∀ t ∈ badTg.tiers, NoKw t) ∧
    Rd.parseShort (Txt.ofString (tgToShort numN badTg 0 1)) = .error .ValueError ∧
    Rd.parseShort (Txt.ofString (tgToShort numN badTg 0 1)) ≠ .ok (rawOf numN badTg 0 1) := by
  have hparse : Rd.parseShort (Txt.ofString (tgToShort numN badTg 0 1)) = .error .ValueError := by
    have hok : ∀ t ∈ [badB1, badB2], ∀ s ∈ (id t).2, SegOK s ∧ CrOK s := by
      intro t ht s hs
      simp only [List.mem_cons, List.not_mem_nil, or_false] at ht
      rcases ht with rfl | rfl
      · simp only [id, badB1, List.mem_cons, List.not_mem_nil, or_false] at hs
        rcases hs with rfl | rfl | rfl | rfl | rfl | rfl <;> exact ok_of_dec _ (by decide) (by decide) (by decide)
      · simp [badB2] at hs
    rw [ofString_emit, bad_file, parseShort_blocks numN numN_word 0 1 _ id [badB1, badB2] hok]
    have hm := mapM_tups_err id
      (joinNl (hdrSegs numN 0 1 badTg.tiers.length) ++ ([badB1, badB2].map id).flatMap blockL).toArray [badB1] badB2 []
      (joinNl (hdrSegs numN 0 1 badTg.tiers.length)) rfl
      (by intro x hx; simp only [List.mem_cons, List.not_mem_nil, or_false] at hx; subst hx; exact bad_b1_ok)
      .ValueError bad_b2_err
    cases htp : tups (joinNl (hdrSegs numN 0 1 badTg.tiers.length)).length ([badB1, badB2].map id) with
    | nil => simp [tups] at htp
    | cons tp tps =>
      simp only [List.cons_append, List.nil_append] at hm
      rw [htp] at hm
      simp only [hm, bind, Except.bind]
  refine ⟨by simp [badTg], ?_, ?_, ?_, hparse, by rw [hparse]; intro h; cases h⟩
  · intro t ht
    simp only [badTg, List.mem_cons, List.not_mem_nil, or_false] at ht
    subst ht
    intro s hs
    simp only [texts, List.map_cons, List.map_nil, List.mem_cons, List.not_mem_nil, or_false] at hs
    rcases hs with rfl | rfl <;> rw [pyStrip_eq_iff] <;> exact noEdge_of_stripList _ (by decide)
  · intro t ht
    simp only [badTg, List.mem_cons, List.not_mem_nil, or_false] at ht
    subst ht
    intro s hs
    simp only [texts, List.map_cons, List.map_nil, List.mem_cons, List.not_mem_nil, or_false] at hs
    rcases hs with rfl | rfl <;> decide
  · intro h
    have := h (.I ⟨"a", [⟨0, 1, "IntervalTier"⟩], 0, 1⟩) (by simp [badTg]) "IntervalTier" (by simp [texts])
    exact this.1 ⟨[], [], by decide⟩

end C01
