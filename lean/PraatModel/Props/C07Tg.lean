import PraatModel.Props.C07Points
import PraatModel.Props.C12Validate

/-!
# C07 / C08, textgrid level — the full functional specification of `Textgrid.eraseRegion` and `Textgrid.insertSpace`

Exact arithmetic (`Int` timestamps of any size, any number of tiers of either class).  All statements are about the model
functions `Tg.eraseRegion` and `Tg.insertSpace` of `Textgrid.lean`.  The model is functional: it returns a new textgrid
and cannot express that the receiver is left as it was (that is C13, checked on the real objects; the calls replayed for
this file leave the receiver unchanged, also when they raise).

| clause | theorem |
|---|---|
| the `addTier` loop of both wrappers in ONE equation (names pairwise different, nothing else assumed) | `foldlM_addTier_eq` |
| `eraseRegion` in one equation: the per-tier results in order, the start widened over them, the end computed separately | `tg_erase_eq` |
| `insertSpace` in one equation | `tg_space_eq` |
| `eraseRegion` refuses exactly `b ≤ a`, with ArgumentError — whatever the position of the region relative to the textgrid's or any tier's span, whether or not the tiers share the textgrid's span, with or without tiers | `tg_erase_rejects`, `tg_erase_ok`, `tg_erase_err_iff`, `tg_erase_no_tiers` |
| the result of `eraseRegion` on a valid textgrid, ANY region `a < b` (since fix A28): names, tier-wise, every tier has the new span (end earlier by the part of the region inside the span), validates | `tg_erase_spec` |
| regression of A28: shrinking a region that sticks out of the span (before the fix the separately computed end differed from the tiers' ends, the result did not validate, a tier could end before it started) | `tg_erase_outside_regression`, `ierase_outside_regression` |
| empty tiers are treated like the others | `ierase_empty`, `perase_empty`, `tg_erase_empty_tiers` |
| `insertSpace` (`d > 0`, ANY `s`) refuses exactly in mode `error` when some interval tier has an interval straddling `s`, with ArgumentError | `tg_space_err_iff`, `tg_space_error_example` |
| the result of `insertSpace` on a valid textgrid, any `s` (before the start, inside, beyond the end) | `tg_space_spec` |
| tier level, any `s` | `insert_spec_any`, `pinsert_spec_any`, `anyinsert_any` |
-/
namespace C07
open C12 (AnyWF NoStraddler widenLo widenHi namesOf insAt bind_ok pure_ok)

/-! ## the `addTier` loop in one equation -/

/-- the span start after adding the tiers `ts` one by one -/
def spanLo (o : Option Int) (ts : List (AnyTier Int)) : Option Int :=
  ts.foldl (fun o t => some (widenLo o t.lo)) o
/-- the span end after adding the tiers `ts` one by one -/
def spanHi (o : Option Int) (ts : List (AnyTier Int)) : Option Int :=
  ts.foldl (fun o t => some (widenHi o t.hi)) o

/-- the loop `for tier in self.tiers: newTG.addTier(f(tier))` of the textgrid-level edits, for a name-preserving `f`
and pairwise different names: it fails exactly when some `f(tier)` fails — with the error of the FIRST failing tier —
and otherwise appends the results in order and widens the span over them -/
theorem foldlM_addTier_eq (f : AnyTier Int → Except Err (AnyTier Int)) (rep : Report) (hrep : rep ≠ .error)
    (hf : ∀ t t', f t = .ok t' → t'.name = t.name) :
    ∀ (l : List (AnyTier Int)) (acc : Tg Int), (acc.names ++ namesOf l).Nodup →
      l.foldlM (fun acc t => do let t' ← f t; acc.addTier t' none rep) acc =
        Except.map (fun ts => ⟨acc.tiers ++ ts, spanLo acc.lo ts, spanHi acc.hi ts⟩) (l.mapM f) := by
  intro l
  induction l with
  | nil =>
    intro acc _
    simp [spanLo, spanHi, pure, Except.pure, Except.map]
  | cons a l ih =>
    intro acc hnd
    rw [List.foldlM_cons, List.mapM_cons]
    cases h1 : f a with
    | error e => rfl
    | ok t' =>
      have hn : t'.name = a.name := hf a t' h1
      have hfresh : t'.name ∉ acc.names := by
        rw [hn]; intro hmem
        exact (List.nodup_append.1 hnd).2.2 _ hmem a.name (by simp [namesOf]) rfl
      have hadd := C12.addTier_fresh acc t' none rep hfresh
      rw [if_neg (fun h => hrep h.1)] at hadd
      simp only [bind, Except.bind, hadd]
      have hnd' : ((⟨insAt acc.tiers none t', some (widenLo acc.lo t'.lo), some (widenHi acc.hi t'.hi)⟩ : Tg Int).names
          ++ namesOf l).Nodup := by
        have : (⟨insAt acc.tiers none t', some (widenLo acc.lo t'.lo), some (widenHi acc.hi t'.hi)⟩ : Tg Int).names
            ++ namesOf l = acc.names ++ namesOf (a :: l) := by
          simp [namesOf, Tg.names, hn, insAt]
        rw [this]; exact hnd
      have ih' := ih _ hnd'
      simp only [bind, Except.bind] at ih'
      rw [ih']
      cases h2 : l.mapM f with
      | error e => rfl
      | ok ts => simp [insAt, spanLo, spanHi, pure, Except.pure, Except.map]

/-- a failing `mapM` fails with the error of one of the members -/
theorem mapM_error (f : AnyTier Int → Except Err (AnyTier Int)) :
    ∀ (l : List (AnyTier Int)) (e : Err), l.mapM f = .error e → ∃ t ∈ l, f t = .error e := by
  intro l
  induction l with
  | nil => intro e h; cases h
  | cons a l ih =>
    intro e h
    rw [List.mapM_cons] at h
    cases h1 : f a with
    | error e' =>
      simp only [h1, bind, Except.bind, Except.error.injEq] at h
      subst h
      exact ⟨a, by simp, h1⟩
    | ok t' =>
      simp only [h1, bind, Except.bind] at h
      cases h2 : l.mapM f with
      | error e' =>
        simp only [h2, Except.error.injEq] at h
        subst h
        obtain ⟨t, ht, et⟩ := ih e' h2
        exact ⟨t, List.mem_cons_of_mem _ ht, et⟩
      | ok ts => simp [h2, pure, Except.pure] at h

/-- every member is mapped into the result -/
theorem mapM_mem_of (f : AnyTier Int → Except Err (AnyTier Int)) :
    ∀ (l ts : List (AnyTier Int)), l.mapM f = .ok ts → ∀ t ∈ l, ∃ t' ∈ ts, f t = .ok t' := by
  intro l ts h t ht
  obtain ⟨i, hi, rfl⟩ := List.mem_iff_getElem.1 ht
  obtain ⟨_, h2⟩ := C12.mapM_getElem f l ts h
  obtain ⟨t', e1, e2⟩ := h2 i l[i] (by simp [hi])
  exact ⟨t', List.mem_of_getElem? e1, e2⟩

theorem spanLo_const (o : Option Int) (ts : List (AnyTier Int)) (h : ∀ t ∈ ts, o = some t.lo) : spanLo o ts = o := by
  induction ts with
  | nil => rfl
  | cons t rest ih =>
    have ht := h t (by simp)
    simp only [spanLo, List.foldl_cons] at ih ⊢
    have : some (widenLo o t.lo) = o := by rw [ht]; simp [widenLo]
    rw [this]
    exact ih (fun t' ht' => h t' (List.mem_cons_of_mem _ ht'))

theorem spanHi_const (o : Option Int) (ts : List (AnyTier Int)) (h : ∀ t ∈ ts, o = some t.hi) : spanHi o ts = o := by
  induction ts with
  | nil => rfl
  | cons t rest ih =>
    have ht := h t (by simp)
    simp only [spanHi, List.foldl_cons] at ih ⊢
    have : some (widenHi o t.hi) = o := by rw [ht]; simp [widenHi]
    rw [this]
    exact ih (fun t' ht' => h t' (List.mem_cons_of_mem _ ht'))

/-! ## `Textgrid.eraseRegion` -/

/-- **eraseRegion in one equation** (pairwise different names — the invariant of the tier dictionary —, nothing else
assumed: tiers well-formed or not, sharing the textgrid's span or not): the per-tier results in order; the start is the old
start widened over the new tiers; the END IS COMPUTED SEPARATELY from the old end (`Tg.eraseHi`: the old end minus the part
of the region inside the textgrid's span when shrinking, `C12.eraseHi_int`) and overwrites whatever the loop accumulated;
the call fails exactly when a tier-level call fails, with that error -/
theorem tg_erase_eq (g : Tg Int) (hnd : g.names.Nodup) (a b : Int) (hab : a < b) (sh : Bool) :
    g.eraseRegion a b sh =
      Except.map (fun ts => ⟨ts, spanLo g.lo ts, Tg.eraseHi g.lo g.hi a b sh⟩)
        (g.tiers.mapM (·.eraseRegion a b .truncate sh)) := by
  unfold Tg.eraseRegion
  rw [if_neg (by omega)]
  have := foldlM_addTier_eq (·.eraseRegion a b .truncate sh) .warning (by simp)
    (fun _ _ h => (C12.AnyTier.eraseRegion_name h).1) g.tiers (Tg.ofSpan g.lo g.hi) hnd
  simp only [bind, Except.bind] at this ⊢
  rw [this]
  cases g.tiers.mapM (·.eraseRegion a b .truncate sh) with
  | error e => rfl
  | ok ts => simp [Tg.ofSpan, pure, Except.pure, Except.map]

/-- **a region with `b ≤ a` is refused** with ArgumentError — by every textgrid, with or without tiers, valid or not -/
theorem tg_erase_rejects (g : Tg Int) (a b : Int) (sh : Bool) (h : b ≤ a) :
    g.eraseRegion a b sh = .error .ArgumentError := by
  unfold Tg.eraseRegion
  rw [if_pos h]

/-- interval tiers: `truncate` / `categorical` never refuse a proper region, wherever it lies relative to the span -/
theorem erase_ok_any (t : ITier Int) (hwf : t.WF) (a b : Int) (hab : a < b) (mode : EraseMode) (hm : mode ≠ .error)
    (sh : Bool) : ∃ t', t.eraseRegion a b mode sh = .ok t' := by
  cases sh with
  | false =>
    obtain ⟨t', h, _⟩ := erase_noshrink t hwf a b hab mode hm
    exact ⟨t', h⟩
  | true =>
    obtain ⟨t', h, _⟩ := erase_shrink_any t hwf a b hab mode hm
    exact ⟨t', h⟩

/-- a well-formed tier of either class never refuses a proper region -/
theorem anyerase_ok {t : AnyTier Int} (hwf : AnyWF t) (a b : Int) (hab : a < b) (sh : Bool) :
    ∃ t', t.eraseRegion a b .truncate sh = .ok t' := by
  cases t with
  | I t =>
    obtain ⟨t', h⟩ := erase_ok_any t hwf a b hab .truncate (by decide) sh
    exact ⟨.I t', by simp only [AnyTier.eraseRegion, h]; rfl⟩
  | P t =>
    obtain ⟨t', h⟩ := (perase_ok_iff t hwf a b sh).2 hab
    exact ⟨.P t', by simp only [AnyTier.eraseRegion, h]; rfl⟩

/-- **a proper region is never refused**: pairwise different names, well-formed tiers, `a < b` — no hypothesis on where
the region lies (inside the textgrid's span, outside it but inside some tier's, outside everything), none on the tiers'
spans (equal to the textgrid's or not), none on the number of tiers -/
theorem tg_erase_ok (g : Tg Int) (hnd : g.names.Nodup) (hwf : ∀ t ∈ g.tiers, AnyWF t) (a b : Int) (hab : a < b)
    (sh : Bool) :
    ∃ ts, g.tiers.mapM (·.eraseRegion a b .truncate sh) = .ok ts ∧
      g.eraseRegion a b sh = .ok ⟨ts, spanLo g.lo ts, Tg.eraseHi g.lo g.hi a b sh⟩ := by
  obtain ⟨ts, hts⟩ := C12.mapM_ok_of_forall (·.eraseRegion a b .truncate sh) g.tiers
    (fun t ht => anyerase_ok (hwf t ht) a b hab sh)
  refine ⟨ts, hts, ?_⟩
  rw [tg_erase_eq g hnd a b hab sh, hts]
  rfl

/-- **exactly when `Textgrid.eraseRegion` refuses, and with which error**: `b ≤ a`, ArgumentError — nothing else -/
theorem tg_erase_err_iff (g : Tg Int) (hnd : g.names.Nodup) (hwf : ∀ t ∈ g.tiers, AnyWF t) (a b : Int) (sh : Bool)
    (e : Err) : g.eraseRegion a b sh = .error e ↔ b ≤ a ∧ e = .ArgumentError := by
  constructor
  · intro h
    by_cases hab : a < b
    · obtain ⟨ts, _, h2⟩ := tg_erase_ok g hnd hwf a b hab sh
      rw [h2] at h; cases h
    · rw [tg_erase_rejects g a b sh (by omega)] at h
      cases h
      exact ⟨by omega, rfl⟩
  · rintro ⟨h, rfl⟩
    exact tg_erase_rejects g a b sh h

/-- **a textgrid without tiers**: the start is kept and the end is moved like a tier's end would be (`none` stays `none`,
in the model and — since fix A28 — on the class) -/
theorem tg_erase_no_tiers (g : Tg Int) (hg : g.tiers = []) (a b : Int) (hab : a < b) (sh : Bool) :
    g.eraseRegion a b sh = .ok ⟨[], g.lo, Tg.eraseHi g.lo g.hi a b sh⟩ := by
  rw [tg_erase_eq g (by simp [Tg.names, hg]) a b hab sh, hg]
  rfl

/-- **the result on a valid textgrid** of well-formed tiers, ANY region `a < b` (since fix A28 no hypothesis on its
position): the call succeeds; same names in the same order; the tiers are the tier-level results in order; the start is
kept; the end is kept, or — shrinking — moved back by exactly the length of the part of the region inside the span
(`b - a` for a region inside the span, `C12.clipLen_in`; 0 for a region outside it); the separately computed end EQUALS
every tier's new end (and the start every tier's start), so that the result validates -/
theorem tg_erase_spec (g : Tg Int) (hwf : ∀ t ∈ g.tiers, AnyWF t) (hv : g.validate = true) (a b : Int) (hab : a < b)
    (sh : Bool) :
    ∃ g', g.eraseRegion a b sh = .ok g' ∧ g'.names = g.names ∧
      g.tiers.mapM (·.eraseRegion a b .truncate sh) = .ok g'.tiers ∧
      g'.validate = true ∧ g'.lo = g.lo ∧
      g'.hi = (if sh then g.hi.map (fun x => x - C12.clipLen (g.lo.getD a) x a b) else g.hi) ∧
      ∀ t' ∈ g'.tiers, g'.lo = some t'.lo ∧ g'.hi = some t'.hi ∧ AnyWF t' := by
  obtain ⟨g', e, r1, r2, r3, r4⟩ := C12.eraseRegion_validate_ok g hwf hv a b hab sh
  exact ⟨g', e, ((C12.tgop_names g g').2.1 a b sh e).1, (C12.tgop_tiers g g').2.1 a b sh e, r1, r2, r3, r4⟩

/-! ### empty tiers -/

/-- an interval tier without entries, ANY region: every mode succeeds (nothing can collide), the tier stays empty, and
when shrinking its end is moved back by the length of the part of the region inside its span -/
theorem ierase_empty (t : ITier Int) (hwf : t.WF) (he : t.es = []) (a b : Int) (hab : a < b) (mode : EraseMode)
    (sh : Bool) :
    t.eraseRegion a b mode sh = .ok { t with hi := if sh then t.hi - C12.clipLen t.lo t.hi a b else t.hi } := by
  rw [erase_unfold_clip t hwf a b hab mode sh]
  obtain ⟨n, es, lo, hi⟩ := t
  simp only at he
  subst he
  cases sh with
  | false => rfl
  | true =>
    obtain ⟨e1, e2⟩ := clip_true lo hi a b
    simp only [e1, e2, true_and, List.filter_nil, eraseCore, List.head?_nil, bind, Except.bind, pure, Except.pure]
    split
    · rename_i hc
      have : hi - C12.clipLen lo hi a b = shiftBack (max a lo) (min b hi) hi := by
        simp only [C12.clipLen, shiftBack]; omega
      simp only [if_true, shrinkStep, ITier.new, Option.getD_some, Option.getD_none, shrinkIvs, List.filterMap_nil,
        rejoin, this]
      rw [mkITier_of_wf n [] lo _ (by have := hwf.span; simp only [shiftBack] at *; omega) (by intro _ h; cases h)
        List.Pairwise.nil (by intro _ h; cases h)]
      rfl
    · rename_i hc
      have : C12.clipLen lo hi a b = 0 := by simp only [C12.clipLen]; omega
      simp [this]

/-- a point tier without entries, ANY region -/
theorem perase_empty (t : PTier Int) (hwf : t.WF) (he : t.ps = []) (a b : Int) (hab : a < b) (sh : Bool) :
    t.eraseRegion a b sh = .ok { t with hi := if sh then t.hi - C12.clipLen t.lo t.hi a b else t.hi } := by
  obtain ⟨n, ps, lo, hi⟩ := t
  simp only at he
  subst he
  cases sh with
  | false =>
    rw [perase_noshrink_eq _ hwf a b hab]
    rfl
  | true =>
    rw [perase_shrink_any _ hwf a b hab]
    simp only
    split
    · rename_i hc
      have : C12.clipLen lo hi a b = min b hi - max a lo := by simp only [C12.clipLen]; omega
      simp [this, pshrink]
    · rename_i hc
      have : C12.clipLen lo hi a b = 0 := by simp only [C12.clipLen]; omega
      simp [this]

/-- what `eraseRegion` makes of a tier without entries (either class) -/
def emptyErased (a b : Int) (sh : Bool) : AnyTier Int → AnyTier Int
  | .I t => .I { t with hi := if sh then t.hi - C12.clipLen t.lo t.hi a b else t.hi }
  | .P t => .P { t with hi := if sh then t.hi - C12.clipLen t.lo t.hi a b else t.hi }

/-- **empty tiers are handled like the others**: in the result of `Textgrid.eraseRegion` (well-formed tiers, ANY region)
the tier at the position of an entry-less tier is that tier with its new span — it is neither skipped nor left with its
old span -/
theorem tg_erase_empty_tiers (g : Tg Int) (hwf : ∀ t ∈ g.tiers, AnyWF t) (a b : Int)
    (hab : a < b) (sh : Bool)
    (g' : Tg Int) (h : g.eraseRegion a b sh = .ok g') (i : Nat) (t : AnyTier Int) (hi : g.tiers[i]? = some t)
    (he : t.isEmpty = true) : g'.tiers[i]? = some (emptyErased a b sh t) := by
  have hm := (C12.tgop_tiers g g').2.1 a b sh h
  obtain ⟨_, h2⟩ := C12.mapM_getElem _ _ _ hm
  obtain ⟨t', e1, e2⟩ := h2 i t hi
  have htm : t ∈ g.tiers := List.mem_of_getElem? hi
  rw [e1]
  congr 1
  cases t with
  | I t =>
    have he' : t.es = [] := by simpa [AnyTier.isEmpty] using he
    have := ierase_empty t (hwf _ htm) he' a b hab .truncate sh
    simp only [AnyTier.eraseRegion, this] at e2
    cases e2
    rfl
  | P t =>
    have he' : t.ps = [] := by simpa [AnyTier.isEmpty] using he
    have := perase_empty t (hwf _ htm) he' a b hab sh
    simp only [AnyTier.eraseRegion, this] at e2
    cases e2
    rfl

/-! ### regression of A28: a region sticking out of the span, shrinking

Before the fix the textgrid computed its new end from the whole region, `6 + (10 - 15) = 1`, the tier "marks" ended at its
last remaining point 3 and the entry-less tier at 1 (`validate()` False); an entry-less interval tier of span `[0, 10]`
came back from `eraseRegion(5, 30, …, True)` ending at `-15`, before its start. -/

/-- a valid textgrid of span `[0, 10]`: a point tier and a point tier without entries -/
def exNone : PTier Int := ⟨"none", [], 0, 10⟩
def exG2 : Tg Int := ⟨[.P C12.exMarks, .P exNone], some 0, some 10⟩

theorem exNone_wf : exNone.WF := ⟨by simp [exNone], by simp [exNone], by simp [exNone], by simp [exNone], by decide⟩

theorem exG2_wf : ∀ t ∈ exG2.tiers, AnyWF t := by
  intro t ht
  simp only [exG2, List.mem_cons, List.not_mem_nil, or_false] at ht
  rcases ht with rfl | rfl
  · exact C12.exMarks_wf
  · exact exNone_wf

theorem exG2_nodup : exG2.names.Nodup := by
  simp [exG2, Tg.names, AnyTier.name, C12.exMarks, exNone]

theorem exG2_valid : exG2.validate = true := by
  apply C12.validate_of_spans exG2_nodup
  intro t ht
  refine ⟨?_, ?_, exG2_wf t ht⟩ <;>
    (simp only [exG2, List.mem_cons, List.not_mem_nil, or_false] at ht; rcases ht with rfl | rfl <;> rfl)

/-- **tg_erase_outside_regression**: shrinking the region `[6, 15]`, which sticks out of the span `[0, 10]`, out of a
valid textgrid cuts out `[6, 10]`: the textgrid and both tiers end at `10 - 4 = 6`, and the result validates -/
theorem tg_erase_outside_regression :
    (∀ t ∈ exG2.tiers, AnyWF t) ∧ exG2.validate = true ∧
    ∃ g', exG2.eraseRegion 6 15 true = .ok g' ∧
      g'.tiers = [.P ⟨"marks", [⟨3, "p"⟩], 0, 6⟩, .P ⟨"none", [], 0, 6⟩] ∧
      g'.lo = some 0 ∧ g'.hi = some 6 ∧ g'.validate = true := by
  refine ⟨exG2_wf, exG2_valid, ?_⟩
  have h1 : (AnyTier.P C12.exMarks).eraseRegion 6 15 .truncate true = .ok (.P ⟨"marks", [⟨3, "p"⟩], 0, 6⟩) := by
    simp only [AnyTier.eraseRegion]
    rw [perase_shrink_any C12.exMarks C12.exMarks_wf 6 15 (by decide), if_pos (by decide)]
    rfl
  have h2 : (AnyTier.P exNone).eraseRegion 6 15 .truncate true = .ok (.P ⟨"none", [], 0, 6⟩) := by
    simp only [AnyTier.eraseRegion]
    rw [perase_shrink_any exNone exNone_wf 6 15 (by decide), if_pos (by decide)]
    rfl
  have hm : exG2.tiers.mapM (·.eraseRegion 6 15 .truncate true) =
      .ok [.P ⟨"marks", [⟨3, "p"⟩], 0, 6⟩, .P ⟨"none", [], 0, 6⟩] := by
    simp only [exG2, List.mapM_cons, List.mapM_nil, h1, h2]
    rfl
  obtain ⟨g', e, _, hts, v, l, h, _⟩ := tg_erase_spec exG2 exG2_wf exG2_valid 6 15 (by decide) true
  rw [hm] at hts
  exact ⟨g', e, (Except.ok.inj hts).symm, l, h, v⟩

/-- **ierase_outside_regression**: an entry-less interval tier of span `[0, 10]`, region `[5, 30]`, shrinking: `[5, 10]`
is cut out, the tier comes back well-formed with span `[0, 5]` (before the fix: `[0, -15]`) -/
theorem ierase_outside_regression :
    (⟨"e", [], 0, 10⟩ : ITier Int).WF ∧
    (⟨"e", [], 0, 10⟩ : ITier Int).eraseRegion 5 30 .truncate true = .ok ⟨"e", [], 0, 5⟩ ∧
    (⟨"e", [], 0, 5⟩ : ITier Int).WF := by
  have hwf : (⟨"e", [], 0, 10⟩ : ITier Int).WF := by
    refine ⟨?_, ?_, ?_, ?_, ?_, ?_⟩ <;> simp [Pos, Disj, Stripped]
  refine ⟨hwf, ?_, ?_⟩
  · rw [ierase_empty _ hwf rfl 5 30 (by decide) .truncate true]
    rfl
  · refine ⟨?_, ?_, ?_, ?_, ?_, ?_⟩ <;> simp [Pos, Disj, Stripped]

/-! ## `Textgrid.insertSpace` -/

/-- **insertSpace in one equation** (pairwise different names, nothing else assumed): the per-tier results in order; the
span is the old start and the old end `+ d`, widened over the new tiers; the call fails exactly when a tier-level call
fails, with the error of the first such tier -/
theorem tg_space_eq (g : Tg Int) (hnd : g.names.Nodup) (s d : Int) (m : SpaceMode) :
    g.insertSpace s d m =
      Except.map (fun ts => ⟨ts, spanLo g.lo ts, spanHi (g.hi.map (· + d)) ts⟩)
        (g.tiers.mapM (·.insertSpace s d m)) := by
  unfold Tg.insertSpace
  rw [foldlM_addTier_eq (·.insertSpace s d m) .warning (by simp)
    (fun _ _ h => (C12.AnyTier.insertSpace_name h).1) g.tiers (Tg.ofSpan g.lo (g.hi.map (· + d))) hnd]
  cases g.tiers.mapM (·.insertSpace s d m) with
  | error e => rfl
  | ok ts => simp [Tg.ofSpan, Except.map]

/-- interval tiers, ANY insertion time `s` (before the span, inside it, beyond its end) and `d > 0`: this is
`C08.insert_spec`, which no longer carries the hypothesis `lo ≤ s` (name kept for the index) -/
theorem insert_spec_any (t : ITier Int) (hwf : t.WF) (s d : Int) (hd : 0 < d) (mode : SpaceMode)
    (hm : mode = .error → ∀ iv ∈ t.es, ¬ C08.Straddles s iv) :
    ∃ t', t.insertSpace s d mode = .ok t' ∧ t'.WF ∧ t'.name = t.name ∧
      t'.es = t.es.flatMap (C08.spaceP s d mode) ∧ t'.lo = t.lo ∧ t'.hi = t.hi + d :=
  C08.insert_spec t hwf s d hd mode hm

/-- point tiers, ANY insertion time `s`: this is `C08.pinsert_spec` -/
theorem pinsert_spec_any (t : PTier Int) (hwf : t.WF) (s d : Int) (hd : 0 < d) :
    ∃ t', t.insertSpace s d = .ok t' ∧ t'.WF ∧ t'.name = t.name ∧
      t'.ps = t.ps.map (fun p => if p.t ≤ s then p else ⟨p.t + d, p.l⟩) ∧ t'.lo = t.lo ∧ t'.hi = t.hi + d :=
  C08.pinsert_spec t hwf s d hd

/-- some interval of the tier has `s` strictly inside -/
def HasStraddler (s : Int) : AnyTier Int → Prop
  | .I t => ∃ iv ∈ t.es, C08.Straddles s iv
  | .P _ => False

/-- `insertSpace` of a well-formed tier of either class, any `s`, `d > 0`: it refuses exactly in mode `error` on a
straddled interval tier, with ArgumentError; otherwise the result is well-formed, starts where the tier started and ends
exactly `d` later -/
theorem anyinsert_any {t : AnyTier Int} (hwf : AnyWF t) (s d : Int) (hd : 0 < d) (m : SpaceMode) :
    (m = .error ∧ HasStraddler s t → t.insertSpace s d m = .error .ArgumentError) ∧
    (¬ (m = .error ∧ HasStraddler s t) →
      ∃ t', t.insertSpace s d m = .ok t' ∧ AnyWF t' ∧ t'.lo = t.lo ∧ t'.hi = t.hi + d) := by
  cases t with
  | I t =>
    constructor
    · rintro ⟨rfl, iv, hiv, hs⟩
      simp only [AnyTier.insertSpace, C08.insert_error_mode t s d iv hiv hs]
      rfl
    · intro hn
      obtain ⟨t', e1, e2, _, _, e5, e6⟩ := insert_spec_any t hwf s d hd m
        (fun hm iv hiv hs => hn ⟨hm, iv, hiv, hs⟩)
      exact ⟨.I t', by simp only [AnyTier.insertSpace, e1]; rfl, e2, e5, e6⟩
  | P t =>
    obtain ⟨t', e1, e2, _, _, e5, e6⟩ := pinsert_spec_any t hwf s d hd
    exact ⟨fun h => h.2.elim, fun _ => ⟨.P t', by simp only [AnyTier.insertSpace, e1]; rfl, e2, e5, e6⟩⟩

/-- **exactly when `Textgrid.insertSpace` refuses, and with which error** (pairwise different names, well-formed tiers,
`d > 0`; ANY `s`; tiers sharing the textgrid's span or not): mode `error` and an interval straddling `s` in SOME interval
tier — one tier is enough —, ArgumentError.  (The model is functional; on the class the receiver is unchanged after the
exception: the new textgrid is a local object.) -/
theorem tg_space_err_iff (g : Tg Int) (hnd : g.names.Nodup) (hwf : ∀ t ∈ g.tiers, AnyWF t) (s d : Int) (hd : 0 < d)
    (m : SpaceMode) (e : Err) :
    g.insertSpace s d m = .error e ↔ (m = .error ∧ ∃ t ∈ g.tiers, HasStraddler s t) ∧ e = .ArgumentError := by
  rw [tg_space_eq g hnd s d m]
  constructor
  · intro h
    cases hm : g.tiers.mapM (·.insertSpace s d m) with
    | ok ts => rw [hm] at h; cases h
    | error e' =>
      rw [hm] at h
      simp only [Except.map, Except.error.injEq] at h
      subst h
      obtain ⟨t, ht, et⟩ := mapM_error _ _ _ hm
      have hh := anyinsert_any (hwf t ht) s d hd m
      by_cases hc : m = .error ∧ HasStraddler s t
      · rw [hh.1 hc] at et
        cases et
        exact ⟨⟨hc.1, t, ht, hc.2⟩, rfl⟩
      · obtain ⟨t', e1, _⟩ := hh.2 hc
        rw [e1] at et; cases et
  · rintro ⟨⟨hm, t, ht, hs⟩, rfl⟩
    cases hmm : g.tiers.mapM (·.insertSpace s d m) with
    | ok ts =>
      exfalso
      obtain ⟨t', _, e1⟩ := mapM_mem_of _ _ _ hmm t ht
      rw [(anyinsert_any (hwf t ht) s d hd m).1 ⟨hm, hs⟩] at e1
      cases e1
    | error e' =>
      obtain ⟨t2, ht2, et2⟩ := mapM_error _ _ _ hmm
      have hh := anyinsert_any (hwf t2 ht2) s d hd m
      by_cases hc : m = .error ∧ HasStraddler s t2
      · rw [hh.1 hc] at et2
        cases et2
        rfl
      · obtain ⟨t', e1, _⟩ := hh.2 hc
        rw [e1] at et2; cases et2

/-- **the result of `insertSpace` on a valid textgrid** of well-formed tiers, `d > 0`, ANY `s` (before the start: every
entry moves; beyond the end: nothing moves; the span grows by `d` in every case), unless the mode is `error` and an
interval straddles `s`: the call succeeds; same names in the same order; the tiers are the tier-level results in order; the
start is kept, the end is exactly `d` later, every tier has exactly this span and the result validates -/
theorem tg_space_spec (g : Tg Int) (hwf : ∀ t ∈ g.tiers, AnyWF t) (hv : g.validate = true) (s d : Int) (hd : 0 < d)
    (m : SpaceMode) (hm : ¬ (m = .error ∧ ∃ t ∈ g.tiers, HasStraddler s t)) :
    ∃ g', g.insertSpace s d m = .ok g' ∧ g'.names = g.names ∧
      g.tiers.mapM (·.insertSpace s d m) = .ok g'.tiers ∧
      g'.validate = true ∧ g'.lo = g.lo ∧ g'.hi = g.hi.map (· + d) ∧
      ∀ t' ∈ g'.tiers, g'.lo = some t'.lo ∧ g'.hi = some t'.hi ∧ AnyWF t' := by
  obtain ⟨hnd, hsp⟩ := (C12.validate_iff g).1 hv
  have hper : ∀ t ∈ g.tiers, ∃ t', t.insertSpace s d m = .ok t' ∧ AnyWF t' ∧ t'.lo = t.lo ∧ t'.hi = t.hi + d :=
    fun t ht => (anyinsert_any (hwf t ht) s d hd m).2 (fun hc => hm ⟨hc.1, t, ht, hc.2⟩)
  obtain ⟨ts, hts⟩ := C12.mapM_ok_of_forall (·.insertSpace s d m) g.tiers
    (fun t ht => by obtain ⟨t', e, _⟩ := hper t ht; exact ⟨t', e⟩)
  have hall : ∀ t' ∈ ts, g.lo = some t'.lo ∧ g.hi.map (· + d) = some t'.hi ∧ AnyWF t' := by
    intro t' ht'
    obtain ⟨t, ht, e⟩ := C12.mapM_mem _ _ _ hts t' ht'
    obtain ⟨t'', e1, e2, e3, e4⟩ := hper t ht
    rw [e] at e1; cases e1
    obtain ⟨s1, s2, _⟩ := hsp t ht
    exact ⟨by rw [s1, e3], by rw [s2, e4]; rfl, e2⟩
  have e1 : spanLo g.lo ts = g.lo := spanLo_const _ _ (fun t' ht' => (hall t' ht').1)
  have e2 : spanHi (g.hi.map (· + d)) ts = g.hi.map (· + d) := spanHi_const _ _ (fun t' ht' => (hall t' ht').2.1)
  have hnames : namesOf ts = namesOf g.tiers :=
    (C12.mapM_names _ (fun _ _ => C12.AnyTier.insertSpace_name) _ _ hts).1
  refine ⟨⟨ts, g.lo, g.hi.map (· + d)⟩, ?_, hnames, hts, ?_, rfl, rfl, hall⟩
  · rw [tg_space_eq g hnd s d m, hts]
    simp only [Except.map, e1, e2]
  · exact C12.validate_of_spans (by show (namesOf ts).Nodup; rw [hnames]; exact hnd) hall

/-- mode `error`, an interval of "words" straddles `s = 3`, the point tier "marks" is fine: the whole call is refused
with ArgumentError (replayed on the class: the same exception, the receiver unchanged) -/
theorem tg_space_error_example :
    C12.exG.insertSpace 3 5 .error = .error .ArgumentError ∧ ∃ g', C12.exG.insertSpace 4 5 .error = .ok g' := by
  constructor
  · rw [tg_space_err_iff C12.exG C12.exG_nodup C12.exG_wf 3 5 (by decide)]
    refine ⟨⟨rfl, .I C12.exWords, by simp [C12.exG], ⟨1, 4, "x"⟩, by simp [C12.exWords], ?_⟩, rfl⟩
    simp [C08.Straddles]
  · obtain ⟨g', e, _⟩ := C12.insertSpace_validate_ok C12.exG C12.exG_wf C12.exG_valid 4 5 (by decide) .error (by
        intro _ t ht
        simp only [C12.exG, List.mem_cons, List.not_mem_nil, or_false] at ht
        rcases ht with rfl | rfl
        · intro iv hiv
          simp only [C12.exWords, List.mem_cons, List.not_mem_nil, or_false] at hiv
          rcases hiv with rfl | rfl <;> simp [C08.Straddles]
        · trivial)
    exact ⟨g', e⟩

/-- a textgrid without tiers: the span end grows by `d` (`none` stays `none` in the model; on the class a span-less
`Textgrid()` raises TypeError — see the report) -/
theorem tg_space_no_tiers (g : Tg Int) (hg : g.tiers = []) (s d : Int) (m : SpaceMode) :
    g.insertSpace s d m = .ok ⟨[], g.lo, g.hi.map (· + d)⟩ := by
  rw [tg_space_eq g (by simp [Tg.names, hg]) s d m, hg]
  rfl

/-! ## evaluated illustrations (interpreter tests, not proofs); the same calls on the class give the same textgrids -/

/-- the replayed textgrid: two interval tiers and two point tiers, one of each without entries -/
def exG4 : Tg Int :=
  ⟨[.I C12.exWords, .P C12.exMarks, .I ⟨"emptyI", [], 0, 10⟩, .P ⟨"emptyP", [], 0, 10⟩], some 0, some 10⟩

def showTg (g : Tg Int) : Bool × Option Int × Option Int × List (Int × Int) :=
  (g.validate, g.lo, g.hi, g.tiers.map fun t => (t.lo, t.hi))

#guard exG4.validate
#guard (exG4.eraseRegion 2 6 true).toOption.map showTg == some (true, some 0, some 6, [(0, 6), (0, 6), (0, 6), (0, 6)])
#guard (exG4.eraseRegion 0 10 true).toOption.map showTg == some (true, some 0, some 0, [(0, 0), (0, 0), (0, 0), (0, 0)])
#guard (exG4.eraseRegion 6 15 false).toOption.map showTg ==
  some (true, some 0, some 10, [(0, 10), (0, 10), (0, 10), (0, 10)])
-- a region sticking out of the span, shrinking (regression of A28): the part inside the span is cut out, everywhere alike
#guard (exG4.eraseRegion 6 15 true).toOption.map showTg == some (true, some 0, some 6, [(0, 6), (0, 6), (0, 6), (0, 6)])
#guard (exG4.eraseRegion (-5) 2 true).toOption.map showTg == some (true, some 0, some 8, [(0, 8), (0, 8), (0, 8), (0, 8)])
#guard (exG4.eraseRegion 5 30 true).toOption.map showTg == some (true, some 0, some 5, [(0, 5), (0, 5), (0, 5), (0, 5)])
#guard (exG4.eraseRegion 12 15 true).toOption.map showTg ==
  some (true, some 0, some 10, [(0, 10), (0, 10), (0, 10), (0, 10)])
#guard (exG4.eraseRegion (-5) 15 true).toOption.map showTg == some (true, some 0, some 0, [(0, 0), (0, 0), (0, 0), (0, 0)])
#guard (match exG4.eraseRegion 6 2 true with | .error .ArgumentError => true | _ => false)
-- insertSpace: before the start, inside, beyond the end
#guard (exG4.insertSpace (-2) 5 .error).toOption.map showTg ==
  some (true, some 0, some 15, [(0, 15), (0, 15), (0, 15), (0, 15)])
#guard (exG4.insertSpace 12 5 .split).toOption.map showTg ==
  some (true, some 0, some 15, [(0, 15), (0, 15), (0, 15), (0, 15)])
#guard (match exG4.insertSpace 3 5 .error with | .error .ArgumentError => true | _ => false)
-- `d > 0` is needed: a negative duration in mode `split` makes the two pieces overlap
#guard (match exG4.insertSpace 3 (-1) .split with | .error .TextgridStateError => true | _ => false)
#guard (exG4.insertSpace 3 (-1) .stretch).toOption.map showTg == some (true, some 0, some 9, [(0, 9), (0, 9), (0, 9), (0, 9)])
-- a tier narrower than the textgrid (reachable through addTier; validate() is false before and after)
#guard ((⟨[.I ⟨"a", [], 0, 10⟩, .I ⟨"b", [⟨2, 3, "x"⟩], 2, 8⟩], some 0, some 10⟩ : Tg Int).eraseRegion 3 5 true).toOption.map
  showTg == some (false, some 0, some 8, [(0, 8), (2, 6)])

end C07
