import PraatModel.Props.C12Validate
import PraatModel.Props.C10Labels
import PraatModel.Props.C09Tg

/-!
# C12 — the full specification of `Textgrid.mergeTiers(tierNames, preserveOtherTiers)`

Exact arithmetic (`Int` timestamps of any size, any number of tiers, entry lists of any length).  All statements are
about the model function `Tg.mergeTiers` of `Textgrid.lean` (compared with the real method on every run).

| clause | theorem(s) |
|---|---|
| which tiers are selected (default: all), in which order | `select_ok`, `selOf_all` |
| unknown name in the selection → built-in `KeyError`, before anything else | `mergeTiers_unknown` |
| the body after the selection | `mergeTiers_eq` |
| the fused interval tier = left fold of `ITier.union` in selection order: never fails, well-formed, name of the FIRST selected interval tier, labelled exactly where a selected tier is, every selected entry inside one entry, span = first tier's span grown to the others' entries | `unionAllI_spec`, `fuseI_spec`; one more tier = one more `union` (`unionAllI_snoc`), so `C10.union_entries` / `C10.union_label_cluster` give entries and labels step by step; `iunion_full` adds the span to `C10.union_eq_fold` |
| the fused point tier = left fold of `PTier.union` (`C11.punion_spec` at each step) | `unionAllP_spec`, `fuseP_spec`, `unionAllP_snoc` |
| success, tier list and ORDER (kept tiers in the textgrid's order, then the fused interval tier, then the fused point tier), names, span, well-formedness | `mergeTiers_full` |
| default selection: `preserveOtherTiers` has no effect | `mergeTiers_default` |
| valid input → valid output | `mergeTiers_validate` |
| non-vacuity, replayed cases | `mergeTiers_example`, `mergeTiers_unknown_example`, `#guard`s |

No misbehaviour of the real code was found here: every case below was replayed on the real class with the model's
outcome.  Worth knowing: (a) the fused tiers always go to the END of the tier list, whatever the position of the
selected tiers; (b) the name of a fused tier is the FIRST SELECTED name of its class (selection order, not textgrid
order); (c) a name listed twice unites the tier with itself (label `x-x`); (d) no name clash can occur (proved as part
of the success clause); (e) an unknown name raises the built-in `KeyError` (like `getTier`), not a praatio error.
-/
namespace C12

/-! ## `union`, with the span -/

theorem iunion_fold_span (bs : List (Iv Int)) (hbs : ∀ b ∈ bs, b.s < b.e ∧ pyStrip b.l = b.l)
    (acc : ITier Int) (hacc : acc.WF) :
    ∃ R, bs.foldlM (fun acc e => acc.insertEntry e .merge) acc = .ok R ∧ R.WF ∧ R.name = acc.name ∧
      R.es = bs.foldl C10.mergeStep acc.es ∧
      R.lo = hullMin (bs.map (·.s)) acc.lo ∧ R.hi = hullMax (bs.map (·.e)) acc.hi := by
  induction bs generalizing acc with
  | nil => exact ⟨acc, rfl, hacc, rfl, rfl, rfl, rfl⟩
  | cons b bs ih =>
    obtain ⟨b1, b2⟩ := hbs b (by simp)
    obtain ⟨acc', e1, w, n, hes, lo, hi⟩ := C10.union_step_es acc hacc b b1 b2
    obtain ⟨R, e2, wR, nR, hR, loR, hiR⟩ := ih (fun c hc' => hbs c (List.mem_cons_of_mem _ hc')) acc' w
    refine ⟨R, ?_, wR, by rw [nR, n], ?_, ?_, ?_⟩
    · simp only [List.foldlM_cons, e1, bind, Except.bind]; exact e2
    · rw [hR, hes]; rfl
    · rw [loR, lo]; rfl
    · rw [hiR, hi]; rfl

/-- `A.union(B)` for well-formed interval tiers: never fails, well-formed, `A`'s name, the entries of
`C10.union_entries`, and the span is `A`'s span grown to `B`'s ENTRIES (`B`'s own span plays no role) -/
theorem iunion_full (A B : ITier Int) (hA : A.WF) (hB : B.WF) :
    ∃ R, A.union B = .ok R ∧ R.WF ∧ R.name = A.name ∧ R.es = B.es.foldl C10.mergeStep A.es ∧
      R.lo = hullMin (B.es.map (·.s)) A.lo ∧ R.hi = hullMax (B.es.map (·.e)) A.hi := by
  obtain ⟨R, e, w, n, hes, lo, hi⟩ := iunion_fold_span B.es (fun b hb => ⟨hB.pos b hb, hB.stripped b hb⟩) A hA
  refine ⟨{ R with es := sortIvs R.es }, ?_, ?_, n, ?_, lo, hi⟩
  · unfold ITier.union
    rw [new_of_wf A hA]
    simp only [bind, Except.bind, e, pure, Except.pure]
  · rw [sortIvs_of_wf R.es w.pos w.disj]; exact w
  · simp only [sortIvs_of_wf R.es w.pos w.disj]; exact hes

/-! ## the left fold of `union` over the selected tiers of one class -/

/-- `first.union(t1).union(t2)…` -/
def unionAllI (f : ITier Int) (rest : List (ITier Int)) : Except Err (ITier Int) :=
  rest.foldlM (fun acc t => acc.union t) f

def unionAllP (f : PTier Int) (rest : List (PTier Int)) : Except Err (PTier Int) :=
  rest.foldlM (fun acc t => acc.union t) f

theorem fuseI_cons (f : ITier Int) (rest : List (ITier Int)) : fuseI (f :: rest) = some <$> unionAllI f rest := rfl
theorem fuseP_cons (f : PTier Int) (rest : List (PTier Int)) : fuseP (f :: rest) = some <$> unionAllP f rest := rfl

theorem unionAllI_nil (f : ITier Int) : unionAllI f [] = .ok f := rfl
theorem unionAllI_cons (f t : ITier Int) (rest : List (ITier Int)) :
    unionAllI f (t :: rest) = f.union t >>= fun r => unionAllI r rest := by
  unfold unionAllI; rw [List.foldlM_cons]
/-- the last step: the fold over `rest ++ [t]` is the fold over `rest`, united with `t` — so
`C10.union_entries` / `C10.union_label_cluster` describe its entries and labels from the previous fold and `t` -/
theorem unionAllI_snoc (f t : ITier Int) (rest : List (ITier Int)) :
    unionAllI f (rest ++ [t]) = unionAllI f rest >>= fun r => r.union t := by
  unfold unionAllI
  rw [List.foldlM_append]
  congr 1
  funext r
  rw [List.foldlM_cons]
  cases r.union t <;> rfl

theorem unionAllP_nil (f : PTier Int) : unionAllP f [] = .ok f := rfl
theorem unionAllP_cons (f t : PTier Int) (rest : List (PTier Int)) :
    unionAllP f (t :: rest) = f.union t >>= fun r => unionAllP r rest := by
  unfold unionAllP; rw [List.foldlM_cons]
theorem unionAllP_snoc (f t : PTier Int) (rest : List (PTier Int)) :
    unionAllP f (rest ++ [t]) = unionAllP f rest >>= fun r => r.union t := by
  unfold unionAllP
  rw [List.foldlM_append]
  congr 1
  funext r
  rw [List.foldlM_cons]
  cases r.union t <;> rfl

/-- **the fused interval tier**: the fold never fails on well-formed tiers; the result is well-formed, carries the
FIRST tier's name, is labelled exactly where one of the tiers is, contains every entry of every tier inside one of
its entries, and its span is the first tier's span grown to the entries of the others -/
theorem unionAllI_spec (rest : List (ITier Int)) :
    ∀ (f : ITier Int), f.WF → (∀ t ∈ rest, t.WF) →
    ∃ R, unionAllI f rest = .ok R ∧ R.WF ∧ R.name = f.name ∧
      (∀ x, covers R.es x ↔ covers f.es x ∨ ∃ t ∈ rest, covers t.es x) ∧
      (∀ m, (m ∈ f.es ∨ ∃ t ∈ rest, m ∈ t.es) → ∃ z ∈ R.es, z.s ≤ m.s ∧ m.e ≤ z.e) ∧
      R.lo = hullMin ((rest.flatMap (·.es)).map (·.s)) f.lo ∧
      R.hi = hullMax ((rest.flatMap (·.es)).map (·.e)) f.hi := by
  induction rest with
  | nil =>
    intro f hf _
    refine ⟨f, rfl, hf, rfl, by simp, ?_, rfl, rfl⟩
    rintro m (hm | ⟨t, ht, _⟩)
    · exact ⟨m, hm, Int.le_refl _, Int.le_refl _⟩
    · cases ht
  | cons t rest ih =>
    intro f hf hrest
    have ht : t.WF := hrest t (by simp)
    obtain ⟨R1, e1, w1, n1, _, lo1, hi1⟩ := iunion_full f t hf ht
    obtain ⟨R1', e1', _, _, _, _, hin1⟩ := C10.union_entries f t hf ht
    rw [e1] at e1'; cases e1'
    obtain ⟨R1'', e1'', _, _, hc1, _⟩ := C10.union_spec f t hf ht
    rw [e1] at e1''; cases e1''
    obtain ⟨R, e, w, n, hc, hin, lo, hi⟩ := ih R1 w1 (fun u hu => hrest u (List.mem_cons_of_mem _ hu))
    refine ⟨R, ?_, w, by rw [n, n1], ?_, ?_, ?_, ?_⟩
    · rw [unionAllI_cons, e1]; exact e
    · intro x
      rw [hc x, hc1 x]
      constructor
      · rintro ((h | h) | ⟨u, hu, h⟩)
        · exact Or.inl h
        · exact Or.inr ⟨t, by simp, h⟩
        · exact Or.inr ⟨u, List.mem_cons_of_mem _ hu, h⟩
      · rintro (h | ⟨u, hu, h⟩)
        · exact Or.inl (Or.inl h)
        · rcases List.mem_cons.1 hu with rfl | hu
          · exact Or.inl (Or.inr h)
          · exact Or.inr ⟨u, hu, h⟩
    · intro m hm
      have hm' : (m ∈ f.es ∨ m ∈ t.es) ∨ ∃ u ∈ rest, m ∈ u.es := by
        rcases hm with h | ⟨u, hu, h⟩
        · exact Or.inl (Or.inl h)
        · rcases List.mem_cons.1 hu with rfl | hu
          · exact Or.inl (Or.inr h)
          · exact Or.inr ⟨u, hu, h⟩
      rcases hm' with h | h
      · obtain ⟨z1, hz1, a1, a2⟩ := hin1 m h
        obtain ⟨z, hz, b1, b2⟩ := hin z1 (Or.inl hz1)
        exact ⟨z, hz, by omega, by omega⟩
      · exact hin m (Or.inr h)
    · rw [lo, lo1]
      simp only [List.flatMap_cons, List.map_append, hullMin, List.foldl_append]
    · rw [hi, hi1]
      simp only [List.flatMap_cons, List.map_append, hullMax, List.foldl_append]

/-- **the fused point tier**: never fails; well-formed; the FIRST tier's name; its times are exactly the times of the
tiers; the span is the first tier's span grown to the points of the others -/
theorem unionAllP_spec (rest : List (PTier Int)) :
    ∀ (f : PTier Int), f.WF → (∀ t ∈ rest, t.WF) →
    ∃ R, unionAllP f rest = .ok R ∧ R.WF ∧ R.name = f.name ∧
      (∀ a, (∃ p ∈ R.ps, p.t = a) ↔ (∃ p ∈ f.ps, p.t = a) ∨ ∃ t ∈ rest, ∃ p ∈ t.ps, p.t = a) ∧
      R.lo = hullMin ((rest.flatMap (·.ps)).map (·.t)) f.lo ∧
      R.hi = hullMax ((rest.flatMap (·.ps)).map (·.t)) f.hi := by
  induction rest with
  | nil =>
    intro f hf _
    exact ⟨f, rfl, hf, rfl, by simp, rfl, rfl⟩
  | cons t rest ih =>
    intro f hf hrest
    have ht : t.WF := hrest t (by simp)
    obtain ⟨R1, e1, w1, n1, ht1, _, _, _, _, lo1, hi1⟩ := C11.punion_spec f t hf ht
    obtain ⟨R, e, w, n, htm, lo, hi⟩ := ih R1 w1 (fun u hu => hrest u (List.mem_cons_of_mem _ hu))
    refine ⟨R, ?_, w, by rw [n, n1], ?_, ?_, ?_⟩
    · rw [unionAllP_cons, e1]; exact e
    · intro a
      rw [htm a, ht1 a]
      constructor
      · rintro ((h | h) | ⟨u, hu, h⟩)
        · exact Or.inl h
        · exact Or.inr ⟨t, by simp, h⟩
        · exact Or.inr ⟨u, List.mem_cons_of_mem _ hu, h⟩
      · rintro (h | ⟨u, hu, h⟩)
        · exact Or.inl (Or.inl h)
        · rcases List.mem_cons.1 hu with rfl | hu
          · exact Or.inl (Or.inr h)
          · exact Or.inr ⟨u, hu, h⟩
    · rw [lo, lo1]
      simp only [List.flatMap_cons, List.map_append, hullMin, List.foldl_append]
    · rw [hi, hi1]
      simp only [List.flatMap_cons, List.map_append, hullMax, List.foldl_append]

/-! ## which tiers are selected -/

/-- the tiers named by `names`, in that order (a name may be listed twice: the tier is then selected twice) -/
def selOf (g : Tg Int) (names : List String) : List (AnyTier Int) :=
  names.filterMap fun n => g.tiers.find? (·.name == n)

theorem select_ok (g : Tg Int) : ∀ (names : List String), (∀ n ∈ names, n ∈ g.names) →
    names.mapM g.getTier = .ok (selOf g names) ∧ namesOf (selOf g names) = names ∧
      ∀ t ∈ selOf g names, t ∈ g.tiers := by
  intro names
  induction names with
  | nil => intro _; exact ⟨rfl, rfl, by intro t ht; cases ht⟩
  | cons n names ih =>
    intro hk
    obtain ⟨e, en, em⟩ := ih (fun m hm => hk m (List.mem_cons_of_mem _ hm))
    cases hf : g.tiers.find? (·.name == n) with
    | none => exact absurd (hk n (by simp)) (find_none hf)
    | some t =>
      have hg : g.getTier n = .ok t := by unfold Tg.getTier; rw [hf]
      have hs : selOf g (n :: names) = t :: selOf g names := by
        unfold selOf; rw [List.filterMap_cons, hf]
      refine ⟨?_, ?_, ?_⟩
      · rw [List.mapM_cons, hg, e, hs]; rfl
      · rw [hs]; show t.name :: namesOf (selOf g names) = _
        rw [en, (find_name hf).2]
      · intro u hu
        rw [hs] at hu
        rcases List.mem_cons.1 hu with rfl | hu
        · exact (find_name hf).1
        · exact em u hu

/-- the default selection (`tierNames=None`): every tier, in the textgrid's order -/
theorem selOf_all (g : Tg Int) (hnd : g.names.Nodup) : selOf g g.names = g.tiers := by
  unfold selOf Tg.names
  rw [List.filterMap_map]
  have : ∀ t ∈ g.tiers, ((fun n => g.tiers.find? (·.name == n)) ∘ AnyTier.name) t = some t :=
    fun t ht => C09.find_of_mem g.tiers hnd t ht
  rw [C09.filterMap_congr' this]
  exact List.filterMap_some

/-- an unknown name anywhere in the selection: `KeyError` (the built-in one, from `self._tierDict[tierName]`),
whatever else is selected — the selection loop runs before anything else -/
theorem mergeTiers_unknown (g : Tg Int) (sel : Option (List String)) (preserve : Bool)
    (h : ∃ n ∈ sel.getD g.names, n ∉ g.names) :
    g.mergeTiers sel preserve = .error .KeyError ∧ Err.isPraatio .KeyError = false := by
  refine ⟨?_, rfl⟩
  have hm : ∀ (names : List String), (∃ n ∈ names, n ∉ g.names) → names.mapM g.getTier = .error .KeyError := by
    intro names
    induction names with
    | nil => rintro ⟨n, hn, _⟩; cases hn
    | cons m names ih =>
      intro hex
      by_cases hk : m ∈ g.names
      · have : ∃ n ∈ names, n ∉ g.names := by
          obtain ⟨n, hn, hnn⟩ := hex
          rcases List.mem_cons.1 hn with rfl | hn
          · exact absurd hk hnn
          · exact ⟨n, hn, hnn⟩
        cases hf : g.tiers.find? (·.name == m) with
        | none => exact absurd hk (find_none hf)
        | some t =>
          have hg : g.getTier m = .ok t := by unfold Tg.getTier; rw [hf]
          rw [List.mapM_cons, hg, ih this]; rfl
      · rw [List.mapM_cons, C09.getTier_absent hk]; rfl
  unfold Tg.mergeTiers
  simp only
  rw [hm _ h]
  rfl

/-! ## the body of `mergeTiers` after the selection -/

theorem mergeTiers_eq (g : Tg Int) (sel : Option (List String)) (preserve : Bool) :
    g.mergeTiers sel preserve =
      ((sel.getD g.names).mapM g.getTier >>= fun selTiers =>
        fuseI (selTiers.filterMap asI) >>= fun it =>
        fuseP (selTiers.filterMap asP) >>= fun pt =>
        mergeRest g (sel.getD g.names) preserve it pt) := by
  unfold Tg.mergeTiers
  simp only
  cases (sel.getD g.names).mapM g.getTier with
  | error e => rfl
  | ok selTiers =>
    show (_ : Except Err (Tg Int)) = _
    simp only [bind, Except.bind]
    generalize hI : (List.filterMap _ selTiers : List (ITier Int)) = li
    generalize hP : (List.filterMap _ selTiers : List (PTier Int)) = lp
    have hI' : selTiers.filterMap asI = li := by
      rw [← hI]; congr 1; funext x; cases x <;> rfl
    have hP' : selTiers.filterMap asP = lp := by
      rw [← hP]; congr 1; funext x; cases x <;> rfl
    rw [hI', hP']
    cases li with
    | nil =>
      cases lp with
      | nil => cases preserve <;> rfl
      | cons f rest =>
        simp only [fuseI, fuseP, pure, Except.pure, Functor.map, Except.map]
        cases rest.foldlM (fun acc t => acc.union t) f with
        | error e => rfl
        | ok r => cases preserve <;> rfl
    | cons fi resti =>
      simp only [fuseI, Functor.map, Except.map]
      cases resti.foldlM (fun acc t => acc.union t) fi with
      | error e => rfl
      | ok ri =>
        cases lp with
        | nil => cases preserve <;> rfl
        | cons f rest =>
          simp only [fuseP, Functor.map, Except.map]
          cases rest.foldlM (fun acc t => acc.union t) f with
          | error e => rfl
          | ok r => cases preserve <;> rfl

/-- adding tiers under fresh names that lie inside the span: appended in order, span unchanged -/
theorem addAll (lo hi : Int) : ∀ (ts acc : List (AnyTier Int)), (namesOf acc ++ namesOf ts).Nodup →
    (∀ t ∈ ts, lo ≤ t.lo ∧ t.hi ≤ hi) →
    ts.foldlM (fun acc t => acc.addTier t none .warning) (⟨acc, some lo, some hi⟩ : Tg Int) =
      .ok ⟨acc ++ ts, some lo, some hi⟩ := by
  intro ts
  induction ts with
  | nil => intro acc _ _; simp; rfl
  | cons t ts ih =>
    intro acc hnd hts
    obtain ⟨h2, h3⟩ := hts t (by simp)
    have hfresh : t.name ∉ namesOf acc := by
      intro hm
      exact (List.nodup_append.1 hnd).2.2 _ hm t.name (by simp [namesOf]) rfl
    rw [List.foldlM_cons]
    have e := addTier_fresh ⟨acc, some lo, some hi⟩ t none .warning hfresh
    rw [if_neg (by simp)] at e
    have m1 : widenLo (some lo) t.lo = lo := by simp only [widenLo]; omega
    have m2 : widenHi (some hi) t.hi = hi := by simp only [widenHi]; omega
    simp only [m1, m2, insAt] at e
    rw [e]
    show ts.foldlM _ (⟨acc ++ [t], some lo, some hi⟩ : Tg Int) = _
    rw [ih (acc ++ [t]) (by simpa [namesOf, List.append_assoc] using hnd)
      (fun t' ht' => hts t' (List.mem_cons_of_mem _ ht'))]
    simp

theorem addOpt_ok (lo hi : Int) (acc : List (AnyTier Int)) (o : Option (AnyTier Int))
    (h : ∀ t, o = some t → t.name ∉ namesOf acc ∧ lo ≤ t.lo ∧ t.hi ≤ hi) :
    addOpt (⟨acc, some lo, some hi⟩ : Tg Int) o = .ok ⟨acc ++ o.toList, some lo, some hi⟩ := by
  cases o with
  | none => simp [addOpt]; rfl
  | some t =>
    obtain ⟨hfresh, h2, h3⟩ := h t rfl
    have e := addTier_fresh ⟨acc, some lo, some hi⟩ t none .warning hfresh
    rw [if_neg (by simp)] at e
    have m1 : widenLo (some lo) t.lo = lo := by simp only [widenLo]; omega
    have m2 : widenHi (some hi) t.hi = hi := by simp only [widenHi]; omega
    simp only [m1, m2, insAt] at e
    exact e

theorem mem_filterMap_asI {l : List (AnyTier Int)} {f : ITier Int} : f ∈ l.filterMap asI ↔ AnyTier.I f ∈ l := by
  rw [List.mem_filterMap]
  constructor
  · rintro ⟨x, hx, e⟩
    cases x with
    | I t => simp only [asI, Option.some.injEq] at e; subst e; exact hx
    | P t => simp [asI] at e
  · intro h; exact ⟨.I f, h, rfl⟩

theorem mem_filterMap_asP {l : List (AnyTier Int)} {f : PTier Int} : f ∈ l.filterMap asP ↔ AnyTier.P f ∈ l := by
  rw [List.mem_filterMap]
  constructor
  · rintro ⟨x, hx, e⟩
    cases x with
    | P t => simp only [asP, Option.some.injEq] at e; subst e; exact hx
    | I t => simp [asP] at e
  · intro h; exact ⟨.P f, h, rfl⟩

theorem le_hullMin {a b : Int} {xs : List Int} (hb : a ≤ b) (hx : ∀ x ∈ xs, a ≤ x) : a ≤ hullMin xs b := by
  rcases foldl_min_mem xs b with h | h
  · unfold hullMin; omega
  · exact hx _ h

theorem hullMax_le {a b : Int} {xs : List Int} (hb : b ≤ a) (hx : ∀ x ∈ xs, x ≤ a) : hullMax xs b ≤ a := by
  rcases foldl_max_mem xs b with h | h
  · unfold hullMax; omega
  · exact hx _ h

/-- **the fused interval tier of a selection** (`its` = the selected interval tiers in selection order, all
well-formed and inside `[lo, hi]`): `none` iff nothing is selected; otherwise the left fold of `union` from the first
tier, which never fails, is well-formed, has the FIRST tier's name, is labelled exactly where one of the selected
tiers is, contains every selected entry inside one of its entries, and lies inside `[lo, hi]` -/
theorem fuseI_spec (its : List (ITier Int)) (lo hi : Int) (hw : ∀ t ∈ its, t.WF ∧ lo ≤ t.lo ∧ t.hi ≤ hi) :
    ∃ it, fuseI its = .ok it ∧ (it = none ↔ its = []) ∧
      ∀ R, it = some R → ∃ f rest, its = f :: rest ∧ unionAllI f rest = .ok R ∧ R.WF ∧ R.name = f.name ∧
        (∀ x, covers R.es x ↔ ∃ t ∈ its, covers t.es x) ∧
        (∀ t ∈ its, ∀ m ∈ t.es, ∃ z ∈ R.es, z.s ≤ m.s ∧ m.e ≤ z.e) ∧
        R.lo = hullMin ((rest.flatMap (·.es)).map (·.s)) f.lo ∧
        R.hi = hullMax ((rest.flatMap (·.es)).map (·.e)) f.hi ∧ lo ≤ R.lo ∧ R.hi ≤ hi := by
  cases its with
  | nil => exact ⟨none, rfl, by simp, by intro R h; cases h⟩
  | cons f rest =>
    obtain ⟨wf, l1, l2⟩ := hw f (by simp)
    obtain ⟨R, e, w, n, hc, hin, elo, ehi⟩ := unionAllI_spec rest f wf
      (fun t ht => (hw t (List.mem_cons_of_mem _ ht)).1)
    refine ⟨some R, by rw [fuseI_cons, e]; rfl, by simp, ?_⟩
    intro R' hR'
    cases hR'
    refine ⟨f, rest, rfl, e, w, n, ?_, ?_, elo, ehi, ?_, ?_⟩
    · intro x; rw [hc x]
      constructor
      · rintro (h | ⟨t, ht, h⟩)
        · exact ⟨f, by simp, h⟩
        · exact ⟨t, List.mem_cons_of_mem _ ht, h⟩
      · rintro ⟨t, ht, h⟩
        rcases List.mem_cons.1 ht with rfl | ht
        · exact Or.inl h
        · exact Or.inr ⟨t, ht, h⟩
    · intro t ht m hm
      rcases List.mem_cons.1 ht with rfl | ht
      · exact hin m (Or.inl hm)
      · exact hin m (Or.inr ⟨t, ht, hm⟩)
    · rw [elo]; apply le_hullMin l1
      intro x hx
      obtain ⟨iv, hiv, rfl⟩ := List.mem_map.1 hx
      obtain ⟨t, ht, hiv⟩ := List.mem_flatMap.1 hiv
      obtain ⟨wt, l1', _⟩ := hw t (List.mem_cons_of_mem _ ht)
      have := wt.inLo iv hiv; omega
    · rw [ehi]; apply hullMax_le l2
      intro x hx
      obtain ⟨iv, hiv, rfl⟩ := List.mem_map.1 hx
      obtain ⟨t, ht, hiv⟩ := List.mem_flatMap.1 hiv
      obtain ⟨wt, _, l2'⟩ := hw t (List.mem_cons_of_mem _ ht)
      have := wt.inHi iv hiv; omega

/-- **the fused point tier of a selection** -/
theorem fuseP_spec (pts : List (PTier Int)) (lo hi : Int) (hw : ∀ t ∈ pts, t.WF ∧ lo ≤ t.lo ∧ t.hi ≤ hi) :
    ∃ pt, fuseP pts = .ok pt ∧ (pt = none ↔ pts = []) ∧
      ∀ R, pt = some R → ∃ f rest, pts = f :: rest ∧ unionAllP f rest = .ok R ∧ R.WF ∧ R.name = f.name ∧
        (∀ a, (∃ p ∈ R.ps, p.t = a) ↔ ∃ t ∈ pts, ∃ p ∈ t.ps, p.t = a) ∧
        R.lo = hullMin ((rest.flatMap (·.ps)).map (·.t)) f.lo ∧
        R.hi = hullMax ((rest.flatMap (·.ps)).map (·.t)) f.hi ∧ lo ≤ R.lo ∧ R.hi ≤ hi := by
  cases pts with
  | nil => exact ⟨none, rfl, by simp, by intro R h; cases h⟩
  | cons f rest =>
    obtain ⟨wf, l1, l2⟩ := hw f (by simp)
    obtain ⟨R, e, w, n, htm, elo, ehi⟩ := unionAllP_spec rest f wf
      (fun t ht => (hw t (List.mem_cons_of_mem _ ht)).1)
    refine ⟨some R, by rw [fuseP_cons, e]; rfl, by simp, ?_⟩
    intro R' hR'
    cases hR'
    refine ⟨f, rest, rfl, e, w, n, ?_, elo, ehi, ?_, ?_⟩
    · intro a; rw [htm a]
      constructor
      · rintro (h | ⟨t, ht, h⟩)
        · exact ⟨f, by simp, h⟩
        · exact ⟨t, List.mem_cons_of_mem _ ht, h⟩
      · rintro ⟨t, ht, h⟩
        rcases List.mem_cons.1 ht with rfl | ht
        · exact Or.inl h
        · exact Or.inr ⟨t, ht, h⟩
    · rw [elo]; apply le_hullMin l1
      intro x hx
      obtain ⟨p, hp, rfl⟩ := List.mem_map.1 hx
      obtain ⟨t, ht, hp⟩ := List.mem_flatMap.1 hp
      obtain ⟨wt, l1', _⟩ := hw t (List.mem_cons_of_mem _ ht)
      have := wt.inLo p hp; omega
    · rw [ehi]; apply hullMax_le l2
      intro x hx
      obtain ⟨p, hp, rfl⟩ := List.mem_map.1 hx
      obtain ⟨t, ht, hp⟩ := List.mem_flatMap.1 hp
      obtain ⟨wt, _, l2'⟩ := hw t (List.mem_cons_of_mem _ ht)
      have := wt.inHi p hp; omega

/-! ## the full specification -/

/-- **C12, `Textgrid.mergeTiers(tierNames, preserveOtherTiers)` — the full specification.**

Hypotheses: duplicate-free tier names; every tier well-formed and inside the textgrid's span `[glo, ghi]`; every
selected name is a tier name (otherwise `mergeTiers_unknown`: `KeyError`).  `sel = none` is `tierNames=None`: every
tier is selected (`selOf_all`).  A name may be listed more than once (the tier is then united with itself).  Then
* the selected tiers are `selOf g names` — the named tiers in the order of the NAME LIST, not of the textgrid;
* `it` is the fused interval tier (`fuseI_spec`: left fold of `union` over the selected interval tiers in selection
  order; it carries the name of the FIRST selected interval tier), `pt` the fused point tier (`fuseP_spec`), each
  `none` exactly when no tier of that class is selected;
* the call SUCCEEDS (no name clash is possible: the fused tiers carry selected names, the kept tiers unselected
  ones, and an interval tier and a point tier of `g` never share a name);
* the result's tier list is: the UNSELECTED tiers in the textgrid's order (only when `preserveOtherTiers`), then the
  fused interval tier, then the fused point tier — the fused tiers always go to the END;
* the span is the textgrid's span; names pairwise different; every tier well-formed, inside the span, and at least
  as long as some tier of `g` (a kept tier: itself; a fused tier: the first selected tier of its class). -/
theorem mergeTiers_full (g : Tg Int) (sel : Option (List String)) (preserve : Bool) (glo ghi : Int)
    (hlo : g.lo = some glo) (hhi : g.hi = some ghi) (hnd : g.names.Nodup)
    (hwf : ∀ t ∈ g.tiers, AnyWF t ∧ glo ≤ t.lo ∧ t.hi ≤ ghi)
    (hsel : ∀ n ∈ sel.getD g.names, n ∈ g.names) :
    ∃ it pt r,
      (sel.getD g.names).mapM g.getTier = .ok (selOf g (sel.getD g.names)) ∧
      namesOf (selOf g (sel.getD g.names)) = sel.getD g.names ∧
      (∀ t ∈ selOf g (sel.getD g.names), t ∈ g.tiers) ∧
      fuseI ((selOf g (sel.getD g.names)).filterMap asI) = .ok it ∧
      fuseP ((selOf g (sel.getD g.names)).filterMap asP) = .ok pt ∧
      g.mergeTiers sel preserve = .ok r ∧
      r.lo = some glo ∧ r.hi = some ghi ∧
      r.tiers = (if preserve then g.tiers.filter (fun t => !(sel.getD g.names).contains t.name) else [])
        ++ (it.map AnyTier.I).toList ++ (pt.map AnyTier.P).toList ∧
      r.names.Nodup ∧
      (∀ x ∈ r.tiers, AnyWF x ∧ glo ≤ x.lo ∧ x.hi ≤ ghi ∧ ∃ t ∈ g.tiers, x.lo ≤ t.lo ∧ t.hi ≤ x.hi) := by
  obtain ⟨e, en, em⟩ := select_ok g (sel.getD g.names) hsel
  generalize hN : sel.getD g.names = names at *
  -- the two fused tiers
  have hIw : ∀ t ∈ (selOf g names).filterMap asI, t.WF ∧ glo ≤ t.lo ∧ t.hi ≤ ghi := by
    intro t ht; exact hwf (.I t) (em _ (mem_filterMap_asI.1 ht))
  have hPw : ∀ t ∈ (selOf g names).filterMap asP, t.WF ∧ glo ≤ t.lo ∧ t.hi ≤ ghi := by
    intro t ht; exact hwf (.P t) (em _ (mem_filterMap_asP.1 ht))
  obtain ⟨it, ei, _, hit⟩ := fuseI_spec _ glo ghi hIw
  obtain ⟨pt, ep, _, hpt⟩ := fuseP_spec _ glo ghi hPw
  -- what is known about them
  have hI : ∀ R, it = some R → ∃ f, AnyTier.I f ∈ g.tiers ∧ f.name ∈ names ∧ R.name = f.name ∧ R.WF ∧
      glo ≤ R.lo ∧ R.hi ≤ ghi ∧ R.lo ≤ f.lo ∧ f.hi ≤ R.hi := by
    intro R hR
    obtain ⟨f, rest, hfr, _, w, n, _, _, elo, ehi, l1, l2⟩ := hit R hR
    have hf : AnyTier.I f ∈ selOf g names := mem_filterMap_asI.1 (by rw [hfr]; simp)
    exact ⟨f, em _ hf, by rw [← en]; exact List.mem_map_of_mem hf, n, w, l1, l2,
      by rw [elo]; exact (hullMin_le _ _).1, by rw [ehi]; exact (hullMax_ge _ _).1⟩
  have hP : ∀ R, pt = some R → ∃ f, AnyTier.P f ∈ g.tiers ∧ f.name ∈ names ∧ R.name = f.name ∧ R.WF ∧
      glo ≤ R.lo ∧ R.hi ≤ ghi ∧ R.lo ≤ f.lo ∧ f.hi ≤ R.hi := by
    intro R hR
    obtain ⟨f, rest, hfr, _, w, n, _, elo, ehi, l1, l2⟩ := hpt R hR
    have hf : AnyTier.P f ∈ selOf g names := mem_filterMap_asP.1 (by rw [hfr]; simp)
    exact ⟨f, em _ hf, by rw [← en]; exact List.mem_map_of_mem hf, n, w, l1, l2,
      by rw [elo]; exact (hullMin_le _ _).1, by rw [ehi]; exact (hullMax_ge _ _).1⟩
  -- the kept tiers
  obtain ⟨kept, hkdef⟩ : ∃ kept : List (AnyTier Int),
      kept = if preserve then g.tiers.filter (fun t => !names.contains t.name) else [] := ⟨_, rfl⟩
  have hkept_sub : ∀ t ∈ kept, t ∈ g.tiers ∧ t.name ∉ names := by
    intro t ht
    cases preserve with
    | false => have hk : kept = [] := hkdef; rw [hk] at ht; cases ht
    | true =>
      have hk : kept = g.tiers.filter (fun t => !names.contains t.name) := hkdef
      rw [hk] at ht
      obtain ⟨h1, h2⟩ := List.mem_filter.1 ht
      refine ⟨h1, fun hm => ?_⟩
      rw [List.contains_iff_mem.2 hm] at h2
      cases h2
  have hkept_nd : (namesOf kept).Nodup := by
    cases preserve with
    | false => have hk : kept = [] := hkdef; rw [hk]; exact List.nodup_nil
    | true =>
      have hk : kept = g.tiers.filter (fun t => !names.contains t.name) := hkdef
      rw [hk, ← C09.names_filter_tiers g.tiers (fun n => !names.contains n)]
      exact hnd.filter _
  have hkeep : keepTiers g names preserve = .ok ⟨kept, some glo, some ghi⟩ := by
    have h0 : (Tg.ofSpan g.lo g.hi : Tg Int) = ⟨[], some glo, some ghi⟩ := by rw [hlo, hhi]; rfl
    cases preserve with
    | false =>
      have hk : kept = [] := hkdef
      show pure (Tg.ofSpan g.lo g.hi) = _; rw [h0, hk]; rfl
    | true =>
      have hk : kept = g.tiers.filter (fun t => !names.contains t.name) := hkdef
      show (g.tiers.filter fun t => !names.contains t.name).foldlM _ (Tg.ofSpan g.lo g.hi) = _
      rw [← hk, h0, addAll glo ghi _ [] (by
          rw [show namesOf ([] : List (AnyTier Int)) = [] from rfl, List.nil_append]; exact hkept_nd)
        (fun t ht => (hwf t (hkept_sub t ht).1).2)]
      rfl
  have hfreshI : ∀ t, it.map AnyTier.I = some t → t.name ∉ namesOf kept ∧ glo ≤ t.lo ∧ t.hi ≤ ghi := by
    intro t ht
    cases hR : it with
    | none => rw [hR] at ht; cases ht
    | some R =>
      rw [hR] at ht; cases ht
      obtain ⟨f, _, hfn, n, _, l1, l2, _, _⟩ := hI R hR
      refine ⟨?_, l1, l2⟩
      intro hm
      obtain ⟨u, hu, hun⟩ := List.mem_map.1 hm
      exact (hkept_sub u hu).2 (by rw [hun]; show R.name ∈ names; rw [n]; exact hfn)
  have hfreshP : ∀ t, pt.map AnyTier.P = some t →
      t.name ∉ namesOf (kept ++ (it.map AnyTier.I).toList) ∧ glo ≤ t.lo ∧ t.hi ≤ ghi := by
    intro t ht
    cases hQ : pt with
    | none => rw [hQ] at ht; cases ht
    | some Q =>
      rw [hQ] at ht; cases ht
      obtain ⟨fp, hfp, hfpn, n, _, l1, l2, _, _⟩ := hP Q hQ
      refine ⟨?_, l1, l2⟩
      intro hm
      obtain ⟨u, hu, hun⟩ := List.mem_map.1 hm
      rcases List.mem_append.1 hu with hu | hu
      · exact (hkept_sub u hu).2 (by rw [hun]; show Q.name ∈ names; rw [n]; exact hfpn)
      · cases hR : it with
        | none => rw [hR] at hu; cases hu
        | some R =>
          rw [hR] at hu
          have : u = .I R := by simpa using hu
          subst this
          obtain ⟨f, hf, _, n', _, _, _, _, _⟩ := hI R hR
          have hname : (AnyTier.I f).name = (AnyTier.P fp).name := by
            show f.name = fp.name
            rw [← n', ← n]; exact hun
          have := C09.eq_of_name hnd hf hfp hname
          cases this
  refine ⟨it, pt, ⟨kept ++ (it.map AnyTier.I).toList ++ (pt.map AnyTier.P).toList, some glo, some ghi⟩,
    e, en, em, ei, ep, ?_, rfl, rfl, by rw [hkdef], ?_, ?_⟩
  · rw [mergeTiers_eq, hN, e]
    simp only [bind, Except.bind, ei, ep]
    unfold mergeRest
    rw [hkeep]
    simp only [bind, Except.bind]
    rw [addOpt_ok glo ghi kept _ hfreshI]
    simp only []
    rw [addOpt_ok glo ghi _ _ hfreshP]
  · -- names pairwise different
    show (namesOf (kept ++ (it.map AnyTier.I).toList ++ (pt.map AnyTier.P).toList)).Nodup
    have h1 : (namesOf (kept ++ (it.map AnyTier.I).toList)).Nodup := by
      cases hR : it.map AnyTier.I with
      | none => simpa using hkept_nd
      | some t =>
        have := nodup_insAt none hkept_nd (hfreshI t hR).1
        simpa [insAt] using this
    cases hQ : pt.map AnyTier.P with
    | none => simpa using h1
    | some t =>
      have := nodup_insAt none h1 (hfreshP t hQ).1
      simpa [insAt] using this
  · intro x hx
    have hx : x ∈ kept ++ (it.map AnyTier.I).toList ++ (pt.map AnyTier.P).toList := hx
    rcases List.mem_append.1 hx with hx | hx
    · rcases List.mem_append.1 hx with hx | hx
      · obtain ⟨a, b, c⟩ := hwf x (hkept_sub x hx).1
        exact ⟨a, b, c, x, (hkept_sub x hx).1, Int.le_refl _, Int.le_refl _⟩
      · cases hR : it with
        | none => rw [hR] at hx; cases hx
        | some R =>
          rw [hR] at hx
          have : x = .I R := by simpa using hx
          subst this
          obtain ⟨f, hf, _, _, w, l1, l2, l3, l4⟩ := hI R hR
          exact ⟨w, l1, l2, .I f, hf, l3, l4⟩
    · cases hQ : pt with
      | none => rw [hQ] at hx; cases hx
      | some Q =>
        rw [hQ] at hx
        have : x = .P Q := by simpa using hx
        subst this
        obtain ⟨f, hf, _, _, w, l1, l2, l3, l4⟩ := hP Q hQ
        exact ⟨w, l1, l2, .P f, hf, l3, l4⟩

/-- **valid input, valid output**: if `g.validate()` is true (every tier fills the span), so is the result's -/
theorem mergeTiers_validate (g : Tg Int) (sel : Option (List String)) (preserve : Bool)
    (hv : g.validate = true) (hwf : ∀ t ∈ g.tiers, AnyWF t) (hsel : ∀ n ∈ sel.getD g.names, n ∈ g.names) :
    ∃ r, g.mergeTiers sel preserve = .ok r ∧ r.lo = g.lo ∧ r.hi = g.hi ∧ r.validate = true := by
  by_cases hne : g.tiers = []
  · -- a textgrid without tiers: nothing can be selected, the result is the empty textgrid of the same span
    have hn : sel.getD g.names = [] := by
      apply List.eq_nil_iff_forall_not_mem.2
      intro n hn
      have := hsel n hn
      simp [Tg.names, hne] at this
    refine ⟨Tg.ofSpan g.lo g.hi, ?_, rfl, rfl, validate_empty _ _⟩
    rw [mergeTiers_eq, hn]
    obtain ⟨tiers, lo, hi⟩ := g
    simp only at hne
    subst hne
    cases preserve <;> rfl
  obtain ⟨hnd, hall⟩ := (validate_iff g).1 hv
  obtain ⟨t0, ht0⟩ := List.exists_mem_of_ne_nil _ hne
  obtain ⟨elo, ehi, _⟩ := hall t0 ht0
  have hsp : ∀ t ∈ g.tiers, t.lo = t0.lo ∧ t.hi = t0.hi := by
    intro t ht
    obtain ⟨e1, e2, _⟩ := hall t ht
    rw [elo] at e1; rw [ehi] at e2
    exact ⟨(Option.some.inj e1).symm, (Option.some.inj e2).symm⟩
  obtain ⟨it, pt, r, _, _, _, _, _, e, r1, r2, _, rnd, rall⟩ := mergeTiers_full g sel preserve t0.lo t0.hi elo ehi hnd
    (fun t ht => ⟨hwf t ht, by rw [(hsp t ht).1]; exact Int.le_refl _, by rw [(hsp t ht).2]; exact Int.le_refl _⟩) hsel
  refine ⟨r, e, by rw [r1, elo], by rw [r2, ehi], ?_⟩
  apply validate_of_spans rnd
  intro x hx
  obtain ⟨w, l1, l2, t, ht, l3, l4⟩ := rall x hx
  have := hsp t ht
  refine ⟨?_, ?_, w⟩
  · rw [r1]; congr 1; omega
  · rw [r2]; congr 1; omega

/-- **the default selection** (`tierNames=None`): every tier is selected, nothing is left to keep —
`preserveOtherTiers` has no effect — and the result consists of the fusion of ALL interval tiers (if there is one)
followed by the fusion of ALL point tiers (if there is one), each in the textgrid's order and under the name of the
first tier of its class -/
theorem mergeTiers_default (g : Tg Int) (preserve : Bool) (glo ghi : Int)
    (hlo : g.lo = some glo) (hhi : g.hi = some ghi) (hnd : g.names.Nodup)
    (hwf : ∀ t ∈ g.tiers, AnyWF t ∧ glo ≤ t.lo ∧ t.hi ≤ ghi) :
    ∃ it pt r, fuseI (g.tiers.filterMap asI) = .ok it ∧ fuseP (g.tiers.filterMap asP) = .ok pt ∧
      g.mergeTiers none preserve = .ok r ∧ r.lo = some glo ∧ r.hi = some ghi ∧
      r.tiers = (it.map AnyTier.I).toList ++ (pt.map AnyTier.P).toList := by
  obtain ⟨it, pt, r, _, _, _, ei, ep, e, r1, r2, r3, _, _⟩ := mergeTiers_full g none preserve glo ghi hlo hhi hnd hwf
    (fun n hn => hn)
  have hall : selOf g ((none : Option (List String)).getD g.names) = g.tiers := selOf_all g hnd
  rw [hall] at ei ep
  refine ⟨it, pt, r, ei, ep, e, r1, r2, ?_⟩
  rw [r3]
  have : (if preserve = true then
      g.tiers.filter (fun t => !((none : Option (List String)).getD g.names).contains t.name) else []) = [] := by
    split
    · apply List.filter_eq_nil_iff.2
      intro t ht
      have : t.name ∈ g.names := List.mem_map_of_mem ht
      simpa using this
    · rfl
  rw [this, List.nil_append]

/-! ## a concrete textgrid: non-vacuity and the replayed cases -/

def exM : Tg Int :=
  ⟨[.I ⟨"a", [⟨0, 5, "x"⟩], 0, 10⟩, .P ⟨"b", [⟨3, "p"⟩], 0, 10⟩,
    .I ⟨"c", [⟨2, 4, "y"⟩, ⟨6, 9, "z"⟩], 0, 10⟩, .P ⟨"d", [⟨3, "q"⟩, ⟨7, "r"⟩], 0, 10⟩,
    .I ⟨"e", [⟨1, 2, "w"⟩], 0, 10⟩], some 0, some 10⟩

theorem exM_wf : ∀ t ∈ exM.tiers, AnyWF t := by
  intro t ht
  simp only [exM, List.mem_cons, List.not_mem_nil, or_false] at ht
  rcases ht with rfl | rfl | rfl | rfl | rfl
  · show ITier.WF _; refine ⟨?_, ?_, ?_, ?_, ?_, ?_⟩ <;> simp [Pos, Disj, Stripped] <;> decide
  · show PTier.WF _; refine ⟨?_, ?_, ?_, ?_, ?_⟩ <;> simp [Pt.le] <;> decide
  · show ITier.WF _; refine ⟨?_, ?_, ?_, ?_, ?_, ?_⟩ <;> simp [Pos, Disj, Stripped] <;> decide
  · show PTier.WF _; refine ⟨?_, ?_, ?_, ?_, ?_⟩ <;> simp [Pt.le] <;> decide
  · show ITier.WF _; refine ⟨?_, ?_, ?_, ?_, ?_, ?_⟩ <;> simp [Pos, Disj, Stripped] <;> decide

theorem exM_valid : exM.validate = true := by
  apply validate_of_spans (by simp [exM, Tg.names, AnyTier.name])
  intro t ht
  refine ⟨?_, ?_, exM_wf t ht⟩ <;>
    (simp only [exM, List.mem_cons, List.not_mem_nil, or_false] at ht
     rcases ht with rfl | rfl | rfl | rfl | rfl <;> rfl)

/-- the hypotheses of `mergeTiers_validate` / `mergeTiers_full` are met by `exM` for the selection `["c", "a", "d"]`
(proved, not evaluated) -/
theorem mergeTiers_example (preserve : Bool) :
    ∃ r, exM.mergeTiers (some ["c", "a", "d"]) preserve = .ok r ∧ r.lo = some 0 ∧ r.hi = some 10 ∧
      r.validate = true :=
  mergeTiers_validate exM (some ["c", "a", "d"]) preserve exM_valid exM_wf
    (by intro n hn; simp at hn; rcases hn with rfl | rfl | rfl <;> simp [exM, Tg.names, AnyTier.name])

theorem mergeTiers_unknown_example : exM.mergeTiers (some ["a", "zz"]) true = .error .KeyError :=
  (mergeTiers_unknown exM (some ["a", "zz"]) true ⟨"zz", by simp, by simp [exM, Tg.names, AnyTier.name]⟩).1

/-- summary of a result: span, per tier (name, entries — a point as `(t, t, label)` —, tier span), validate() -/
def msumm (r : Except Err (Tg Int)) :
    Option (Option Int × Option Int × List (String × List (Int × Int × String) × Int × Int) × Bool) :=
  match r with
  | .error _ => none
  | .ok g => some (g.lo, g.hi, g.tiers.map (fun t => match t with
     | .I t => (t.name, t.es.map (fun (iv : Iv Int) => (iv.s, iv.e, iv.l)), t.lo, t.hi)
     | .P t => (t.name, t.ps.map (fun (p : Pt Int) => (p.t, p.t, p.l)), t.lo, t.hi)), g.validate)

-- evaluated illustrations (interpreter tests, not proofs); each was replayed on the real class with the same outcome
-- default selection: all interval tiers fused under the first one's name, all point tiers likewise
#guard msumm (exM.mergeTiers none true) == some (some 0, some 10,
  [("a", [(0, 5, "x-y-w"), (6, 9, "z")], 0, 10), ("b", [(3, 3, "p-q"), (7, 7, "r")], 0, 10)], true)
#guard msumm (exM.mergeTiers none false) == msumm (exM.mergeTiers none true)
-- selection order decides the name ("c" is first) — the fused tier goes to the END, after the kept tiers
#guard msumm (exM.mergeTiers (some ["c", "a"]) true) == some (some 0, some 10,
  [("b", [(3, 3, "p")], 0, 10), ("d", [(3, 3, "q"), (7, 7, "r")], 0, 10), ("e", [(1, 2, "w")], 0, 10),
   ("c", [(0, 5, "x-y"), (6, 9, "z")], 0, 10)], true)
-- a single selected point tier is "fused" as it is
#guard msumm (exM.mergeTiers (some ["c", "a", "d"]) false) == some (some 0, some 10,
  [("c", [(0, 5, "x-y"), (6, 9, "z")], 0, 10), ("d", [(3, 3, "q"), (7, 7, "r")], 0, 10)], true)
-- an unknown name
#guard (match exM.mergeTiers (some ["a", "zz"]) true with | .error .KeyError => true | _ => false)
-- a name listed twice: the tier is united with itself
#guard msumm (exM.mergeTiers (some ["a", "a"]) false) == some (some 0, some 10, [("a", [(0, 5, "x-x")], 0, 10)], true)
#guard msumm (exM.mergeTiers (some ["b", "b"]) false) == some (some 0, some 10, [("b", [(3, 3, "p-p")], 0, 10)], true)
-- an empty selection
#guard msumm (exM.mergeTiers (some []) false) == some (some 0, some 10, [], true)
#guard (exM.mergeTiers (some []) true).toOption.map (·.names) == some ["a", "b", "c", "d", "e"]
-- only point tiers selected
#guard msumm (exM.mergeTiers (some ["d", "b"]) true) == some (some 0, some 10,
  [("a", [(0, 5, "x")], 0, 10), ("c", [(2, 4, "y"), (6, 9, "z")], 0, 10), ("e", [(1, 2, "w")], 0, 10),
   ("d", [(3, 3, "q-p"), (7, 7, "r")], 0, 10)], true)

end C12
