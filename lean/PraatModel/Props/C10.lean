import PraatModel.Props.C11

/-!
# C10 — tier set operations obey the algebra of labelled time

Exact arithmetic.  No separation hypothesis on the boundary times: the only tolerant comparison on the paths of
these operations is the fallback of `deleteEntry`, which is never reached because the folds of `union` and
`difference` only delete members of the tier (`deleteIvs_of_mem`); `intersection`, `mergeLabels` and the re-join of
`eraseRegion` compare times exactly.
-/
namespace C10

theorem covers_iff_labelAt (es : List (Iv Int)) (x : Int) : covers es x ↔ labelAt es x ≠ none := by
  rw [Ne, labelAt_none_iff]
  constructor
  · rintro ⟨iv, h1, h2⟩ h; exact h iv h1 h2
  · intro h
    apply Classical.byContradiction
    intro hn
    apply h
    intro iv hiv hc
    exact hn ⟨iv, hiv, hc⟩

/-! ## difference -/

/-- the fold of `difference`: erasing (truncate, no shrink) the regions `bs` one after the other -/
theorem diff_fold (bs : List (Iv Int)) (hbs : ∀ b ∈ bs, b.s < b.e) (acc : ITier Int) (hacc : acc.WF) :
    ∃ R, bs.foldlM (fun acc e => acc.eraseRegion e.s e.e .truncate false) acc = .ok R ∧ R.WF ∧
      R.name = acc.name ∧ R.lo = acc.lo ∧ R.hi = acc.hi ∧
      ∀ x, (covers bs x → labelAt R.es x = none) ∧ (¬ covers bs x → labelAt R.es x = labelAt acc.es x) := by
  induction bs generalizing acc with
  | nil =>
    refine ⟨acc, rfl, hacc, rfl, rfl, rfl, ?_⟩
    intro x; exact ⟨fun h => by simp [covers] at h, fun _ => rfl⟩
  | cons b bs ih =>
    have hb1 := hbs b (by simp)
    obtain ⟨acc', e1, h1⟩ := C07.erase_noshrink acc hacc b.s b.e hb1 .truncate (by decide)
    obtain ⟨R, e2, w, n, l, hh, hlab⟩ := ih (fun c hc => hbs c (List.mem_cons_of_mem _ hc)) acc' h1.wf
    refine ⟨R, ?_, w, by rw [n, h1.name], by rw [l, h1.lo], by rw [hh, h1.hi], ?_⟩
    · simp only [List.foldlM_cons, e1, bind, Except.bind]; exact e2
    · intro x
      have hl1 := C07.isErased_labelAt acc acc' hacc b.s b.e hb1 h1 x
      have hcov : covers (b :: bs) x ↔ (b.s ≤ x ∧ x < b.e) ∨ covers bs x := by
        simp only [covers, List.mem_cons, exists_eq_or_imp]
      constructor
      · intro hc
        by_cases hrest : covers bs x
        · exact (hlab x).1 hrest
        · rw [(hlab x).2 hrest, hl1]
          have : b.s ≤ x ∧ x < b.e := by rcases hcov.1 hc with h | h; exact h; exact absurd h hrest
          simp [this]
      · intro hc
        have h1' : ¬ (b.s ≤ x ∧ x < b.e) := fun h => hc (hcov.2 (Or.inl h))
        have h2' : ¬ covers bs x := fun h => hc (hcov.2 (Or.inr h))
        rw [(hlab x).2 h2', hl1]; simp [h1']

/-- **difference**: labelled exactly where `A` is and `B` is not, with `A`'s labels; name and span of `A` -/
theorem difference_spec (A B : ITier Int) (hA : A.WF) (hB : B.WF) :
    ∃ R, A.difference B = .ok R ∧ R.WF ∧ R.name = A.name ∧ R.lo = A.lo ∧ R.hi = A.hi ∧
      ∀ x, (covers B.es x → labelAt R.es x = none) ∧ (¬ covers B.es x → labelAt R.es x = labelAt A.es x) := by
  obtain ⟨R, e, w, n, l, h, hl⟩ := diff_fold B.es (fun b hb => hB.pos b hb) A hA
  refine ⟨R, ?_, w, n, l, h, hl⟩
  unfold ITier.difference
  rw [new_of_wf A hA]
  simp only [bind, Except.bind]
  exact e

/-! ## the constructor on unstripped labels -/

def stripIv (iv : Iv Int) : Iv Int := { iv with l := pyStrip iv.l }

theorem mkITier_strip (name : String) (es : List (Iv Int)) (lo hi : Option Int) :
    mkITier name es lo hi = mkITier name (es.map stripIv) lo hi := by
  unfold mkITier
  have : (es.map stripIv).map (fun iv => { iv with l := pyStrip iv.l }) = es.map (fun iv => { iv with l := pyStrip iv.l }) := by
    rw [List.map_map]
    apply List.map_congr_left
    intro iv _
    simp [stripIv, pyStrip_idem]
  rw [this]

theorem map_stripIv_wf (es : List (Iv Int)) (hp : Pos es) (hd : Disj es) :
    Pos (es.map stripIv) ∧ Disj (es.map stripIv) ∧ Stripped (es.map stripIv) := by
  refine ⟨?_, ?_, ?_⟩
  · intro y hy; obtain ⟨iv, hiv, rfl⟩ := List.mem_map.1 hy; exact hp iv hiv
  · unfold Disj at *; rw [List.pairwise_map]; exact hd.imp (fun h => h)
  · intro y hy; obtain ⟨iv, hiv, rfl⟩ := List.mem_map.1 hy; simp [stripIv, pyStrip_idem]

/-- the constructor on a time-ordered list with arbitrary labels: labels stripped, nothing else changes -/
theorem mkITier_wf' (name : String) (es : List (Iv Int)) (lo hi : Int) (hlh : lo ≤ hi) (hp : Pos es) (hd : Disj es)
    (hlo : ∀ iv ∈ es, lo ≤ iv.s) (hhi : ∀ iv ∈ es, iv.e ≤ hi) :
    ∃ t, mkITier name es (some lo) (some hi) = .ok t ∧ t.WF ∧ t.es = es.map stripIv ∧ t.name = name ∧
      t.lo = lo ∧ t.hi = hi := by
  have hw := map_stripIv_wf es hp hd
  obtain ⟨t, e1, e2, e3, e4, e5, e6⟩ := mkITier_wf name (es.map stripIv) lo hi hlh hw.1 hw.2.1 hw.2.2
  refine ⟨t, by rw [mkITier_strip]; exact e1, e2, e3, e4, ?_, ?_⟩
  · rw [e5]; apply hullMin_eq_of_le
    intro x hx
    simp only [List.map_map, List.mem_map, Function.comp] at hx
    obtain ⟨iv, hiv, rfl⟩ := hx
    exact hlo iv hiv
  · rw [e6]; apply hullMax_eq_of_ge
    intro x hx
    simp only [List.map_map, List.mem_map, Function.comp] at hx
    obtain ⟨iv, hiv, rfl⟩ := hx
    exact hhi iv hiv

/-! ## intersection -/

/-- the pieces of `A` under one entry `b` of `B`, labelled `a-b` -/
def interPieces (A : ITier Int) (b : Iv Int) : List (Iv Int) :=
  (getIvs b.s b.e .truncated A.es).map fun si => ⟨si.s, si.e, si.l ++ "-" ++ b.l⟩

theorem inter_mapM (A : ITier Int) (hA : A.WF) (bs : List (Iv Int)) (hbs : ∀ b ∈ bs, b.s < b.e) :
    (bs.mapM fun iv => do
      let sub ← A.crop iv.s iv.e .truncated false
      pure (sub.es.map fun (si : Iv Int) => (⟨si.s, si.e, si.l ++ "-" ++ iv.l⟩ : Iv Int))) = .ok (bs.map (interPieces A)) := by
  induction bs with
  | nil => rfl
  | cons b bs ih =>
    obtain ⟨sub, hc, _, _, hs, _, _⟩ := C06.crop_norebase A hA b.s b.e (hbs b (by simp)) .truncated
    have ih' := ih (fun c hc' => hbs c (List.mem_cons_of_mem _ hc'))
    simp only [List.mapM_cons, bind, Except.bind, pure, Except.pure] at ih' ⊢
    rw [hc]
    simp only [ih', hs, List.map_cons, interPieces]

theorem mem_interPieces (A : ITier Int) (hA : A.WF) (b : Iv Int) (hb : b.s < b.e) (y : Iv Int) :
    y ∈ interPieces A b ↔ ∃ a ∈ A.es, max a.s b.s < min a.e b.e ∧
      y = ⟨max a.s b.s, min a.e b.e, a.l ++ "-" ++ b.l⟩ := by
  simp only [interPieces, getIvs, List.mem_map, List.mem_filterMap]
  constructor
  · rintro ⟨si, ⟨a, ha, hsi⟩, rfl⟩
    rw [C06.cropOne_truncated b.s b.e a (hA.pos a ha) hb] at hsi
    split at hsi
    · rename_i h
      simp only [Option.some.injEq] at hsi; subst hsi
      exact ⟨a, ha, h, rfl⟩
    · cases hsi
  · rintro ⟨a, ha, h, rfl⟩
    refine ⟨⟨max a.s b.s, min a.e b.e, a.l⟩, ⟨a, ha, ?_⟩, rfl⟩
    rw [C06.cropOne_truncated b.s b.e a (hA.pos a ha) hb]
    simp [h]

/-- **intersection**: one entry per overlapping pair, covering exactly the common stretch, labelled `a-b` -/
theorem intersection_spec (A B : ITier Int) (hA : A.WF) (hB : B.WF) :
    ∃ R, A.intersection B = .ok R ∧ R.WF ∧ R.lo = A.lo ∧ R.hi = A.hi ∧
      (∀ y, y ∈ R.es ↔ ∃ a ∈ A.es, ∃ b ∈ B.es, max a.s b.s < min a.e b.e ∧
        y = ⟨max a.s b.s, min a.e b.e, a.l ++ "-" ++ b.l⟩) ∧
      R.es.length = ((B.es.flatMap fun b => A.es.filter fun a => decide (max a.s b.s < min a.e b.e))).length := by
  -- the flattened list is already in time order
  have hmemF : ∀ y, y ∈ (B.es.map (interPieces A)).flatten ↔ ∃ a ∈ A.es, ∃ b ∈ B.es, max a.s b.s < min a.e b.e ∧
      y = ⟨max a.s b.s, min a.e b.e, a.l ++ "-" ++ b.l⟩ := by
    intro y
    simp only [List.mem_flatten, List.mem_map]
    constructor
    · rintro ⟨l, ⟨b, hb, rfl⟩, hy⟩
      obtain ⟨a, ha, h, e⟩ := (mem_interPieces A hA b (hB.pos b hb) y).1 hy
      exact ⟨a, ha, b, hb, h, e⟩
    · rintro ⟨a, ha, b, hb, h, e⟩
      exact ⟨_, ⟨b, hb, rfl⟩, (mem_interPieces A hA b (hB.pos b hb) y).2 ⟨a, ha, h, e⟩⟩
  have hposF : Pos (B.es.map (interPieces A)).flatten := by
    intro y hy; obtain ⟨a, _, b, _, h, rfl⟩ := (hmemF y).1 hy; exact h
  have hdisjF : Disj (B.es.map (interPieces A)).flatten := by
    unfold Disj
    rw [← List.flatMap_def, List.pairwise_flatMap]
    constructor
    · intro b hb
      -- within one b: pieces of distinct entries of A, in A's order
      unfold interPieces getIvs
      rw [List.pairwise_map]
      have hw := C06.filterMap_within (cropOne b.s b.e .truncated) A.es
        (fun iv o h ho => C06.cropOne_within b.s b.e .truncated iv o h (hB.pos b hb) ho) hA.pos hA.disj hA.stripped
      exact hw.2.1
    · have hd' : B.es.Pairwise (fun x y => x.s < x.e ∧ y.s < y.e ∧ x.e ≤ y.s) :=
        hB.disj.imp_of_mem (fun hx hy hxy => ⟨hB.pos _ hx, hB.pos _ hy, hxy⟩)
      refine hd'.imp ?_
      intro b1 b2 ⟨p1, p2, h12⟩ x hx y hy
      obtain ⟨a1, _, _, rfl⟩ := (mem_interPieces A hA b1 p1 x).1 hx
      obtain ⟨a2, _, _, rfl⟩ := (mem_interPieces A hA b2 p2 y).1 hy
      simp only; omega
  have hb : ∀ iv ∈ (B.es.map (interPieces A)).flatten, A.lo ≤ iv.s ∧ iv.e ≤ A.hi := by
    intro y hy; obtain ⟨a, ha, b, _, h, rfl⟩ := (hmemF y).1 hy
    have := hA.inLo a ha; have := hA.inHi a ha; simp only; omega
  obtain ⟨R, e1, w, es, _, lo, hi⟩ := mkITier_wf' (A.name ++ "-" ++ B.name) _ A.lo A.hi hA.span hposF hdisjF
    (fun iv h => (hb iv h).1) (fun iv h => (hb iv h).2)
  refine ⟨R, ?_, w, lo, hi, ?_, ?_⟩
  · unfold ITier.intersection
    rw [inter_mapM A hA B.es hB.pos]
    simp only [bind, Except.bind, ITier.new, Option.getD_some, Option.getD_none]
    exact e1
  · intro y
    rw [es, List.mem_map]
    constructor
    · rintro ⟨z, hz, rfl⟩
      obtain ⟨a, ha, b, hb', h, rfl⟩ := (hmemF z).1 hz
      refine ⟨a, ha, b, hb', h, ?_⟩
      simp only [stripIv, pyStrip_join2 a.l b.l (hA.stripped a ha) (hB.stripped b hb')]
    · rintro ⟨a, ha, b, hb', h, rfl⟩
      refine ⟨⟨max a.s b.s, min a.e b.e, a.l ++ "-" ++ b.l⟩, (hmemF _).2 ⟨a, ha, b, hb', h, rfl⟩, ?_⟩
      simp only [stripIv, pyStrip_join2 a.l b.l (hA.stripped a ha) (hB.stripped b hb')]
  · rw [es, List.length_map, List.length_flatten, List.length_flatMap]
    congr 1
    rw [List.map_map]
    apply List.map_congr_left
    intro b hb'
    simp only [Function.comp, interPieces, getIvs, List.length_map]
    -- filterMap with the truncated cascade keeps exactly the overlapping entries
    have : ∀ (es : List (Iv Int)), Pos es →
        (es.filterMap (cropOne b.s b.e .truncated)).length = (es.filter fun a => decide (max a.s b.s < min a.e b.e)).length := by
      intro es hp
      induction es with
      | nil => rfl
      | cons a as ih =>
        rw [List.filterMap_cons, List.filter_cons, C06.cropOne_truncated b.s b.e a (hp a (by simp)) (hB.pos b hb')]
        by_cases h : max a.s b.s < min a.e b.e
        · simp [h, ih (pos_tail hp)]
        · simp [h, ih (pos_tail hp)]
    exact this A.es hA.pos

/-- label function of the intersection: labelled exactly where both are, with the joined labels -/
theorem intersection_labelAt (A B R : ITier Int) (hA : A.WF) (hB : B.WF) (h : A.intersection B = .ok R) (x : Int) (l : String) :
    labelAt R.es x = some l ↔ ∃ la lb, labelAt A.es x = some la ∧ labelAt B.es x = some lb ∧ l = la ++ "-" ++ lb := by
  obtain ⟨R', e, w, _, _, hm, _⟩ := intersection_spec A B hA hB
  rw [h] at e; cases e
  rw [labelAt_some_iff _ w.pos w.disj.setDisj]
  constructor
  · rintro ⟨y, hy, h1, h2, h3⟩
    obtain ⟨a, ha, b, hb, _, rfl⟩ := (hm y).1 hy
    simp only at h1 h2 h3
    refine ⟨a.l, b.l, ?_, ?_, h3.symm⟩
    · rw [labelAt_some_iff _ hA.pos hA.disj.setDisj]; exact ⟨a, ha, by omega, by omega, rfl⟩
    · rw [labelAt_some_iff _ hB.pos hB.disj.setDisj]; exact ⟨b, hb, by omega, by omega, rfl⟩
  · rintro ⟨la, lb, h1, h2, rfl⟩
    rw [labelAt_some_iff _ hA.pos hA.disj.setDisj] at h1
    rw [labelAt_some_iff _ hB.pos hB.disj.setDisj] at h2
    obtain ⟨a, ha, a1, a2, rfl⟩ := h1
    obtain ⟨b, hb, b1, b2, rfl⟩ := h2
    exact ⟨_, (hm _).2 ⟨a, ha, b, hb, by omega, rfl⟩, by simp only; omega, by simp only; omega, rfl⟩

/-- **partition**: difference and intersection split `A`'s labelled time, and never overlap -/
theorem partition (A B D I : ITier Int) (hA : A.WF) (hB : B.WF)
    (hD : A.difference B = .ok D) (hI : A.intersection B = .ok I) (x : Int) :
    (covers A.es x ↔ (covers D.es x ∨ covers I.es x)) ∧ ¬ (covers D.es x ∧ covers I.es x) := by
  obtain ⟨D', e, _, _, _, _, hl⟩ := difference_spec A B hA hB
  rw [hD] at e; cases e
  have hi := intersection_labelAt A B I hA hB hI x
  simp only [covers_iff_labelAt]
  by_cases hb : covers B.es x
  · have hd := (hl x).1 hb
    have hbl := (covers_iff_labelAt B.es x).1 hb
    obtain ⟨lb, hlb⟩ := Option.ne_none_iff_exists'.1 hbl
    constructor
    · constructor
      · intro ha
        obtain ⟨la, hla⟩ := Option.ne_none_iff_exists'.1 ha
        right
        rw [(hi (la ++ "-" ++ lb)).2 ⟨la, lb, hla, hlb, rfl⟩]; simp
      · rintro (h | h)
        · exact absurd hd h
        · obtain ⟨l, hl'⟩ := Option.ne_none_iff_exists'.1 h
          obtain ⟨la, _, h1, _, _⟩ := (hi l).1 hl'
          rw [h1]; simp
    · rintro ⟨h, _⟩; exact h hd
  · have hd := (hl x).2 hb
    have hbl : labelAt B.es x = none := by
      apply Classical.byContradiction; intro hne; exact hb ((covers_iff_labelAt B.es x).2 hne)
    have hin : labelAt I.es x = none := by
      apply Option.eq_none_iff_forall_not_mem.2
      intro l hl'
      obtain ⟨_, lb, _, h2, _⟩ := (hi l).1 hl'
      rw [hbl] at h2; cases h2
    constructor
    · rw [hd, hin]; simp
    · rintro ⟨_, h⟩; exact h hin

/-! ## union -/

/-- one step of the union fold: inserting `e` with `merge` -/
theorem union_step (acc : ITier Int) (hacc : acc.WF)
    (e : Iv Int) (he : e.s < e.e) (hes : pyStrip e.l = e.l) :
    ∃ acc', acc.insertEntry e .merge = .ok acc' ∧ acc'.WF ∧ acc'.name = acc.name ∧
      acc'.lo = min acc.lo e.s ∧ acc'.hi = max acc.hi e.e ∧
      (∀ x, covers acc'.es x ↔ covers acc.es x ∨ (e.s ≤ x ∧ x < e.e)) ∧
      (∀ y ∈ acc.es, ∃ z ∈ acc'.es, z.s ≤ y.s ∧ y.e ≤ z.e) ∧ (∃ z ∈ acc'.es, z.s ≤ e.s ∧ e.e ≤ z.e) := by
  by_cases hcol : C11.colliding acc e = []
  · have hfree : ∀ iv ∈ acc.es, iv.e ≤ e.s ∨ e.e ≤ iv.s := by
      intro iv hiv
      have := List.filter_eq_nil_iff.1 hcol iv hiv
      simp [ov] at this; omega
    obtain ⟨acc', e1, w, n, hm, lo, hi⟩ := C11.insert_nocollision_stripped acc hacc e he hes .merge hfree
    refine ⟨acc', e1, w, n, lo, hi, ?_, ?_, ?_⟩
    · intro x
      simp only [covers]
      constructor
      · rintro ⟨y, hy, hc⟩
        rcases (hm y).1 hy with h | h
        · left; exact ⟨y, h, hc⟩
        · subst h; right; exact hc
      · rintro (⟨y, hy, hc⟩ | hc)
        · exact ⟨y, (hm y).2 (Or.inl hy), hc⟩
        · exact ⟨e, (hm e).2 (Or.inr rfl), hc⟩
    · intro y hy; exact ⟨y, (hm y).2 (Or.inl hy), by omega, by omega⟩
    · exact ⟨e, (hm e).2 (Or.inr rfl), by omega, by omega⟩
  · obtain ⟨hMs, hMe, _, acc', e1, w, n, hm, lo, hi⟩ :=
      C11.insert_merge_stripped acc hacc e he hes hcol (C11.merged_label_stripped acc hacc e hes)
    have hMin := hullMin_le ((C11.colliding acc e).map (·.s)) e.s
    have hMax := hullMax_ge ((C11.colliding acc e).map (·.e)) e.e
    have hcolmem : ∀ c ∈ C11.colliding acc e, c ∈ acc.es ∧ c.s < e.e ∧ e.s < c.e := by
      intro c hc
      have := List.mem_filter.1 hc
      exact ⟨this.1, by simpa [ov] using this.2⟩
    refine ⟨acc', e1, w, n, lo, hi, ?_, ?_, ?_⟩
    · intro x
      simp only [covers]
      constructor
      · rintro ⟨y, hy, hc⟩
        rcases (hm y).1 hy with h | h
        · left; exact ⟨y, h.1, hc⟩
        · subst h
          rw [hMs, hMe] at hc
          by_cases hx : e.s ≤ x ∧ x < e.e
          · right; exact hx
          · left
            by_cases hlt : x < e.s
            · rcases foldl_min_mem ((C11.colliding acc e).map (·.s)) e.s with h | h
              · unfold hullMin at hc; omega
              · obtain ⟨c, hc', hce⟩ := List.mem_map.1 h
                have := hcolmem c hc'
                exact ⟨c, this.1, by unfold hullMin at hc; omega, by omega⟩
            · rcases foldl_max_mem ((C11.colliding acc e).map (·.e)) e.e with h | h
              · unfold hullMax at hc; omega
              · obtain ⟨c, hc', hce⟩ := List.mem_map.1 h
                have := hcolmem c hc'
                exact ⟨c, this.1, by omega, by unfold hullMax at hc; omega⟩
      · rintro (⟨y, hy, hc⟩ | hc)
        · by_cases hyc : y.s < e.e ∧ e.s < y.e
          · refine ⟨C11.merged acc e, (hm _).2 (Or.inr rfl), ?_⟩
            have hym : y ∈ C11.colliding acc e := List.mem_filter.2 ⟨hy, by simp [ov, hyc]⟩
            have := hMin.2 y.s (List.mem_map_of_mem hym)
            have := hMax.2 y.e (List.mem_map_of_mem hym)
            rw [hMs, hMe]; omega
          · exact ⟨y, (hm y).2 (Or.inl ⟨hy, hyc⟩), hc⟩
        · refine ⟨C11.merged acc e, (hm _).2 (Or.inr rfl), ?_⟩
          rw [hMs, hMe]; omega
    · intro y hy
      by_cases hyc : y.s < e.e ∧ e.s < y.e
      · refine ⟨C11.merged acc e, (hm _).2 (Or.inr rfl), ?_⟩
        have hym : y ∈ C11.colliding acc e := List.mem_filter.2 ⟨hy, by simp [ov, hyc]⟩
        have := hMin.2 y.s (List.mem_map_of_mem hym)
        have := hMax.2 y.e (List.mem_map_of_mem hym)
        rw [hMs, hMe]; omega
      · exact ⟨y, (hm y).2 (Or.inl ⟨hy, hyc⟩), by omega, by omega⟩
    · exact ⟨C11.merged acc e, (hm _).2 (Or.inr rfl), by rw [hMs]; omega, by rw [hMe]; omega⟩

theorem union_fold (bs : List (Iv Int)) (hbs : ∀ b ∈ bs, b.s < b.e ∧ pyStrip b.l = b.l)
    (acc : ITier Int) (hacc : acc.WF) :
    ∃ R, bs.foldlM (fun acc e => acc.insertEntry e .merge) acc = .ok R ∧ R.WF ∧ R.name = acc.name ∧
      R.lo ≤ acc.lo ∧ acc.hi ≤ R.hi ∧
      (∀ x, covers R.es x ↔ covers acc.es x ∨ covers bs x) ∧
      (∀ y ∈ acc.es, ∃ z ∈ R.es, z.s ≤ y.s ∧ y.e ≤ z.e) ∧ (∀ y ∈ bs, ∃ z ∈ R.es, z.s ≤ y.s ∧ y.e ≤ z.e) := by
  induction bs generalizing acc with
  | nil =>
    exact ⟨acc, rfl, hacc, rfl, by omega, by omega, fun x => by simp [covers],
      fun y hy => ⟨y, hy, by omega, by omega⟩, fun y hy => by simp at hy⟩
  | cons b bs ih =>
    obtain ⟨b1, b2⟩ := hbs b (by simp)
    obtain ⟨acc', e1, w, n, lo, hi, hc, hk1, hk2⟩ := union_step acc hacc b b1 b2
    obtain ⟨R, e2, wR, nR, loR, hiR, hcR, hkR1, hkR2⟩ := ih (fun c hc' => hbs c (List.mem_cons_of_mem _ hc')) acc' w
    refine ⟨R, ?_, wR, by rw [nR, n], by omega, by omega, ?_, ?_, ?_⟩
    · simp only [List.foldlM_cons, e1, bind, Except.bind]; exact e2
    · intro x
      rw [hcR x, hc x]
      simp only [covers, List.mem_cons, exists_eq_or_imp]
      constructor
      · rintro ((h | h) | h)
        · left; exact h
        · right; left; exact h
        · right; right; exact h
      · rintro (h | h | h)
        · left; left; exact h
        · left; right; exact h
        · right; exact h
    · intro y hy
      obtain ⟨z, hz, h1, h2⟩ := hk1 y hy
      obtain ⟨z', hz', h1', h2'⟩ := hkR1 z hz
      exact ⟨z', hz', by omega, by omega⟩
    · intro y hy
      rcases List.mem_cons.1 hy with rfl | h
      · obtain ⟨z, hz, h1, h2⟩ := hk2
        obtain ⟨z', hz', h1', h2'⟩ := hkR1 z hz
        exact ⟨z', hz', by omega, by omega⟩
      · exact hkR2 y h

/-- **union**: labelled exactly where either operand is (nothing invented, nothing lost); every input entry lies
inside one output entry, so overlapping inputs are fused into one entry -/
theorem union_spec (A B : ITier Int) (hA : A.WF) (hB : B.WF) :
    ∃ R, A.union B = .ok R ∧ R.WF ∧ R.name = A.name ∧
      (∀ x, covers R.es x ↔ covers A.es x ∨ covers B.es x) ∧
      (∀ a ∈ A.es, ∀ b ∈ B.es, max a.s b.s < min a.e b.e →
        ∃ z ∈ R.es, z.s ≤ a.s ∧ a.e ≤ z.e ∧ z.s ≤ b.s ∧ b.e ≤ z.e) := by
  obtain ⟨R, e, w, n, _, _, hc, hk1, hk2⟩ := union_fold B.es
    (fun b hb => ⟨hB.pos b hb, hB.stripped b hb⟩) A hA
  refine ⟨{ R with es := sortIvs R.es }, ?_, ?_, n, ?_, ?_⟩
  · unfold ITier.union
    rw [new_of_wf A hA]
    simp only [bind, Except.bind, e, pure, Except.pure]
  · rw [sortIvs_of_wf R.es w.pos w.disj]; exact w
  · simp only [sortIvs_of_wf R.es w.pos w.disj]; exact hc
  · simp only [sortIvs_of_wf R.es w.pos w.disj]
    intro a ha b hb hov
    obtain ⟨z1, hz1, p1, p2⟩ := hk1 a ha
    obtain ⟨z2, hz2, q1, q2⟩ := hk2 b hb
    -- z1 and z2 overlap, hence are the same entry of the disjoint list
    have : z1 = z2 := by
      apply Classical.byContradiction
      intro hne
      have := setDisj_mem w.disj.setDisj z1 hz1 z2 hz2 hne
      omega
    subst this
    exact ⟨z1, hz1, p1, p2, q1, q2⟩

/-- no set operation invents labelled time -/
theorem union_no_invention (A B R : ITier Int) (hA : A.WF) (hB : B.WF) (h : A.union B = .ok R) (x : Int) :
    covers R.es x → covers A.es x ∨ covers B.es x := by
  obtain ⟨R', e, _, _, hc, _⟩ := union_spec A B hA hB
  rw [h] at e; cases e
  exact (hc x).1

/-! ## mergeLabels -/

theorem noEdge_paren (x mid : List Char) (hx : NoEdgeSpace x) : NoEdgeSpace (x ++ '(' :: (mid ++ [')'])) := by
  constructor
  · intro c rest h
    cases x with
    | nil => simp only [List.nil_append, List.cons.injEq] at h; rw [← h.1]; decide
    | cons a as =>
      simp only [List.cons_append, List.cons.injEq] at h
      rw [← h.1]; exact hx.1 a as rfl
  · intro c h
    have : (x ++ '(' :: (mid ++ [')'])).getLast? = some ')' := by
      have e : x ++ '(' :: (mid ++ [')']) = (x ++ '(' :: mid) ++ [')'] := by simp
      rw [e, List.getLast?_append]; simp
    rw [this] at h; cases h; decide

/-- the label `a(b1,b2,…)` built by mergeLabels is stripped when `a` is -/
theorem mergeLabel_stripped (a mid : String) (ha : pyStrip a = a) :
    pyStrip (a ++ "(" ++ mid ++ ")") = a ++ "(" ++ mid ++ ")" := by
  rw [pyStrip_eq_iff] at ha ⊢
  have : (a ++ "(" ++ mid ++ ")").toList = a.toList ++ '(' :: (mid.toList ++ [')']) := by
    simp [String.toList_append]
  rw [this]
  exact noEdge_paren _ _ ha

/-- what mergeLabels makes of one interval `a` of `A` -/
def mergeOne (B : ITier Int) (a : Iv Int) : List (Iv Int) :=
  let sub := getIvs a.s a.e .truncated B.es
  if sub = [] then [] else [⟨a.s, a.e, a.l ++ "(" ++ pyJoin "," (sub.map (·.l)) ++ ")"⟩]

theorem mergeLabelsOne_eq (B : ITier Int) (hB : B.WF) (a : Iv Int) (ha : a.s < a.e) :
    mergeLabelsOne B a = .ok (mergeOne B a) := by
  obtain ⟨sub, hc, _, _, hs, _, _⟩ := C06.crop_norebase B hB a.s a.e ha .truncated
  unfold mergeLabelsOne mergeOne
  rw [hc]
  simp only [bind, Except.bind, hs]
  cases hsub : getIvs a.s a.e .truncated B.es with
  | nil => simp [pure, Except.pure]
  | cons f rest =>
    obtain ⟨g, hg⟩ : ∃ g, (f :: rest).getLast? = some g := ⟨_, List.getLast?_eq_some_getLast (by simp)⟩
    have hin : ∀ o ∈ f :: rest, a.s ≤ o.s ∧ o.e ≤ a.e := by
      intro o ho
      rw [← hsub] at ho
      obtain ⟨iv, hiv, hfo⟩ := List.mem_filterMap.1 ho
      exact C06.cropOne_inside a.s a.e .truncated (by decide) iv o (hB.pos iv hiv) ha hfo
    have h1 := hin f (by simp)
    have h2 := hin g (List.mem_of_getLast? hg)
    have e1 : min a.s f.s = a.s := by omega
    have e2 : max a.e g.e = a.e := by omega
    simp only [List.head?_cons, hg, List.cons_ne_nil, if_false, pyMin2_int, pyMax2_int, pure, Except.pure, e1, e2]

theorem mergeLabels_mapM (B : ITier Int) (hB : B.WF) (as : List (Iv Int)) (has : ∀ a ∈ as, a.s < a.e) :
    as.mapM (mergeLabelsOne B) = .ok (as.map (mergeOne B)) := by
  induction as with
  | nil => rfl
  | cons a as ih =>
    simp only [List.mapM_cons, mergeLabelsOne_eq B hB a (has a (by simp)),
      ih (fun c hc' => has c (List.mem_cons_of_mem _ hc')), bind, Except.bind, pure, Except.pure, List.map_cons]

/-- **mergeLabels**: exactly those intervals of `A` that overlap something in `B` are kept, with their extent, and
`B`'s labels (in time order) appended in parentheses -/
theorem mergeLabels_spec (A B : ITier Int) (hA : A.WF) (hB : B.WF) :
    ∃ R, A.mergeLabels B = .ok R ∧ R.WF ∧ R.lo = A.lo ∧ R.hi = A.hi ∧
      R.es = A.es.flatMap (mergeOne B) ∧
      (∀ y, y ∈ R.es → ∃ a ∈ A.es, y.s = a.s ∧ y.e = a.e ∧ ∃ b ∈ B.es, max b.s a.s < min b.e a.e) ∧
      (∀ a ∈ A.es, (∃ b ∈ B.es, max b.s a.s < min b.e a.e) → ∃ y ∈ R.es, y.s = a.s ∧ y.e = a.e) := by
  have hsub_ne : ∀ a ∈ A.es, (getIvs a.s a.e .truncated B.es ≠ [] ↔ ∃ b ∈ B.es, max b.s a.s < min b.e a.e) := by
    intro a ha
    have hap := hA.pos a ha
    constructor
    · intro hne
      obtain ⟨o, ho⟩ := List.exists_mem_of_ne_nil _ hne
      obtain ⟨b, hb, hfo⟩ := List.mem_filterMap.1 ho
      rw [C06.cropOne_truncated a.s a.e b (hB.pos b hb) hap] at hfo
      split at hfo
      · exact ⟨b, hb, by assumption⟩
      · cases hfo
    · rintro ⟨b, hb, h⟩ hnil
      have : (⟨max b.s a.s, min b.e a.e, b.l⟩ : Iv Int) ∈ getIvs a.s a.e .truncated B.es := by
        apply List.mem_filterMap.2
        refine ⟨b, hb, ?_⟩
        rw [C06.cropOne_truncated a.s a.e b (hB.pos b hb) hap]; simp [h]
      rw [hnil] at this; simp at this
  have hmemF : ∀ y, y ∈ A.es.flatMap (mergeOne B) → ∃ a ∈ A.es, y.s = a.s ∧ y.e = a.e ∧ pyStrip y.l = y.l ∧
      getIvs a.s a.e .truncated B.es ≠ [] := by
    intro y hy
    obtain ⟨a, ha, hya⟩ := List.mem_flatMap.1 hy
    unfold mergeOne at hya
    simp only at hya
    split at hya
    · simp at hya
    · rename_i hne
      simp only [List.mem_singleton] at hya; subst hya
      exact ⟨a, ha, rfl, rfl, mergeLabel_stripped _ _ (hA.stripped a ha), hne⟩
  have hposF : Pos (A.es.flatMap (mergeOne B)) := by
    intro y hy; obtain ⟨a, ha, h1, h2, _⟩ := hmemF y hy; have := hA.pos a ha; omega
  have hstrF : Stripped (A.es.flatMap (mergeOne B)) := by
    intro y hy; obtain ⟨a, ha, _, _, h3, _⟩ := hmemF y hy; exact h3
  have hdisjF : Disj (A.es.flatMap (mergeOne B)) := by
    unfold Disj
    rw [List.pairwise_flatMap]
    constructor
    · intro a _; unfold mergeOne; simp only; split <;> simp
    · refine hA.disj.imp ?_
      intro a1 a2 h12 x hx y hy
      unfold mergeOne at hx hy
      simp only at hx hy
      split at hx
      · simp at hx
      · split at hy
        · simp at hy
        · simp only [List.mem_singleton] at hx hy; subst hx; subst hy; exact h12
  obtain ⟨R, e1, w, es, _, lo, hi⟩ := mkITier_wf (A.name ++ "-" ++ B.name) _ A.lo A.hi hA.span hposF hdisjF hstrF
  have hb : ∀ y ∈ A.es.flatMap (mergeOne B), A.lo ≤ y.s ∧ y.e ≤ A.hi := by
    intro y hy; obtain ⟨a, ha, h1, h2, _⟩ := hmemF y hy
    have := hA.inLo a ha; have := hA.inHi a ha; omega
  refine ⟨R, ?_, w, ?_, ?_, es, ?_, ?_⟩
  · unfold ITier.mergeLabels
    rw [mergeLabels_mapM B hB A.es hA.pos]
    simp only [bind, Except.bind, ITier.new, Option.getD_some, Option.getD_none, ← List.flatMap_def]
    exact e1
  · rw [lo]; apply hullMin_eq_of_le
    intro x hx; obtain ⟨z, hz, rfl⟩ := List.mem_map.1 hx; exact (hb z hz).1
  · rw [hi]; apply hullMax_eq_of_ge
    intro x hx; obtain ⟨z, hz, rfl⟩ := List.mem_map.1 hx; exact (hb z hz).2
  · intro y hy
    rw [es] at hy
    obtain ⟨a, ha, h1, h2, _, hne⟩ := hmemF y hy
    exact ⟨a, ha, h1, h2, (hsub_ne a ha).1 hne⟩
  · intro a ha hex
    have hne := (hsub_ne a ha).2 hex
    refine ⟨⟨a.s, a.e, a.l ++ "(" ++ pyJoin "," ((getIvs a.s a.e .truncated B.es).map (·.l)) ++ ")"⟩, ?_, rfl, rfl⟩
    rw [es]
    apply List.mem_flatMap.2
    exact ⟨a, ha, by simp [mergeOne, hne]⟩

/-! ## non-vacuity -/
def exA : ITier Int := ⟨"A", [⟨0, 20, "a1"⟩, ⟨50, 90, "a2"⟩], 0, 100⟩
def exB : ITier Int := ⟨"B", [⟨10, 60, "b1"⟩, ⟨70, 80, "b2"⟩], 0, 100⟩

theorem exA_wf : exA.WF := by
  refine ⟨?_, ?_, ?_, ?_, ?_, ?_⟩ <;> simp [exA, Pos, Disj, Stripped] <;> decide
theorem exB_wf : exB.WF := by
  refine ⟨?_, ?_, ?_, ?_, ?_, ?_⟩ <;> simp [exB, Pos, Disj, Stripped] <;> decide

/-- two well-formed tiers whose boundary times are NOT separated under the 1e-9 tolerance (two distinct entries of
`exC` are equal under the tolerant `Interval.__eq__`; such operands were excluded by the former hypothesis
`SepTimes`): the theorems apply to them -/
def exC : ITier Int :=
  ⟨"C", [⟨10000000000, 10000000005, "x"⟩, ⟨10000000005, 10000000010, "x"⟩], 0, 20000000000⟩
def exD : ITier Int := ⟨"D", [⟨10000000005, 10000000010, "d"⟩], 0, 20000000000⟩
theorem exC_wf : exC.WF := by
  refine ⟨?_, ?_, ?_, ?_, ?_, ?_⟩ <;> simp [exC, Pos, Disj, Stripped] <;> decide
theorem exD_wf : exD.WF := by
  refine ⟨?_, ?_, ?_, ?_, ?_, ?_⟩ <;> simp [exD, Pos, Disj, Stripped] <;> decide
theorem exC_close : ¬ NoClose exC.es := by
  intro h
  exact absurd (h ⟨10000000000, 10000000005, "x"⟩ (by simp [exC]) ⟨10000000005, 10000000010, "x"⟩
    (by simp [exC]) (by decide)) (by decide)
example := difference_spec exC exD exC_wf exD_wf
example := union_spec exC exD exC_wf exD_wf
#guard (exC.difference exD).toOption.map (·.es) == some [⟨10000000000, 10000000005, "x"⟩]
#guard (exC.union exD).toOption.map (·.es) ==
  some [⟨10000000000, 10000000005, "x"⟩, ⟨10000000005, 10000000010, "d-x"⟩]

#guard (exA.union exB).toOption.map (·.es) == some [⟨0, 90, "a1-b1-a2-b2"⟩]
#guard (exA.difference exB).toOption.map (·.es) == some [⟨0, 10, "a1"⟩, ⟨60, 70, "a2"⟩, ⟨80, 90, "a2"⟩]
#guard (exA.intersection exB).toOption.map (·.es) == some [⟨10, 20, "a1-b1"⟩, ⟨50, 60, "a2-b1"⟩, ⟨70, 80, "a2-b2"⟩]
#guard (exA.mergeLabels exB).toOption.map (·.es) == some [⟨0, 20, "a1(b1)"⟩, ⟨50, 90, "a2(b1,b2)"⟩]

end C10
