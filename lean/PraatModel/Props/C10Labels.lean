import PraatModel.Props.C10
import PraatModel.Props.C11Points

/-!
# C10 — union of interval tiers: the exact entry list and the label of every fused entry

`C10.union_spec` proves coverage and fusion.  This file adds

* `insert_merge_label`  — one `insertEntry(…, "merge")`: the label of the merged entry;
* `union_entries`       — `R.es = B.es.foldl mergeStep A.es` for an explicit pure `mergeStep`, and for every entry `z`
                          of the union: it is the hull of the entries of `A` and `B` lying inside it, these form one
                          connected cluster, and every entry of `A`/`B` that overlaps `z` lies inside `z`;
* `union_label_cluster` — the label of EVERY entry of the union, however many successive merges built it, is the
                          `-`-join of the labels of all entries of `A` and `B` inside it, in tuple order
                          (start, then end, then label);
* `union_label_time_order` — hence the fused labels are always in (weak) start-time order: there is NO well-formed
                          counterexample to "joins the fused labels in time order" (where two fused entries start at
                          the same time the one that ends first — then the smaller label — comes first, whichever
                          tier it is from: `union_label_tie_example`);
* `union_label_two`     — the common case of exactly one `a` and one `b` overlapping, stated outright.

Exact arithmetic; the operands are well-formed (`ITier.WF`: positive lengths, time order without overlap, stripped
labels, inside the span), nothing else is assumed.
-/
namespace C10

/-! ## hulls -/

/-- the entry built from a non-empty list of entries: the hull of their extents, labels joined in list order -/
def fuse : List (Iv Int) → Iv Int
  | [] => ⟨0, 0, ""⟩
  | a :: as => ⟨hullMin (as.map (·.s)) a.s, hullMax (as.map (·.e)) a.e, pyJoin "-" ((a :: as).map (·.l))⟩

theorem mergedIv_eq_fuse (g : List (Iv Int)) (hg : g ≠ []) (d : Iv Int) : mergedIv g d = fuse g := by
  cases g with
  | nil => exact absurd rfl hg
  | cons a as =>
    simp only [mergedIv, fuse, List.map_cons, pyMinList, pyMaxList, Option.getD_some, foldl_pyMin2, foldl_pyMax2,
      hullMin, hullMax]

theorem fuse_singleton (m : Iv Int) : fuse [m] = m := by
  obtain ⟨s, e, l⟩ := m
  simp [fuse, hullMin, hullMax, pyJoin]

theorem fuse_label (g : List (Iv Int)) : (fuse g).l = pyJoin "-" (g.map (·.l)) := by
  cases g with
  | nil => rfl
  | cons a as => rfl

/-- `z` spans exactly the hull of `g`: lower/upper bound, both attained -/
structure Hull (z : Iv Int) (g : List (Iv Int)) : Prop where
  lo_le : ∀ m ∈ g, z.s ≤ m.s
  lo_mem : ∃ m ∈ g, m.s = z.s
  hi_ge : ∀ m ∈ g, m.e ≤ z.e
  hi_mem : ∃ m ∈ g, m.e = z.e

theorem fuse_hull (g : List (Iv Int)) (hg : g ≠ []) : Hull (fuse g) g := by
  cases g with
  | nil => exact absurd rfl hg
  | cons a as =>
    have h1 := hullMin_le (as.map (·.s)) a.s
    have h2 := hullMax_ge (as.map (·.e)) a.e
    refine ⟨?_, ?_, ?_, ?_⟩
    · intro m hm
      rcases List.mem_cons.1 hm with rfl | h
      · exact h1.1
      · exact h1.2 _ (List.mem_map_of_mem h)
    · rcases foldl_min_mem (as.map (·.s)) a.s with h | h
      · exact ⟨a, by simp, h.symm⟩
      · obtain ⟨m, hm, hme⟩ := List.mem_map.1 h
        exact ⟨m, List.mem_cons_of_mem _ hm, hme⟩
    · intro m hm
      rcases List.mem_cons.1 hm with rfl | h
      · exact h2.1
      · exact h2.2 _ (List.mem_map_of_mem h)
    · rcases foldl_max_mem (as.map (·.e)) a.e with h | h
      · exact ⟨a, by simp, h.symm⟩
      · obtain ⟨m, hm, hme⟩ := List.mem_map.1 h
        exact ⟨m, List.mem_cons_of_mem _ hm, hme⟩

theorem Hull.unique {z z' : Iv Int} {g g' : List (Iv Int)} (h : Hull z g) (h' : Hull z' g')
    (hm : ∀ m, m ∈ g ↔ m ∈ g') : z.s = z'.s ∧ z.e = z'.e := by
  obtain ⟨m1, hm1, e1⟩ := h.lo_mem
  obtain ⟨m2, hm2, e2⟩ := h'.lo_mem
  obtain ⟨m3, hm3, e3⟩ := h.hi_mem
  obtain ⟨m4, hm4, e4⟩ := h'.hi_mem
  have := h.lo_le m2 ((hm m2).2 hm2)
  have := h'.lo_le m1 ((hm m1).1 hm1)
  have := h.hi_ge m4 ((hm m4).2 hm4)
  have := h'.hi_ge m3 ((hm m3).1 hm3)
  omega

/-! ## tuple order is antisymmetric: a sorted list is determined by its members (with multiplicity) -/

theorem Iv.le_antisymm' (a b : Iv Int) (h1 : Iv.le a b = true) (h2 : Iv.le b a = true) : a = b := by
  obtain ⟨as, ae, al⟩ := a; obtain ⟨bs, be, bl⟩ := b
  simp only [Iv.le] at h1 h2
  have e1 : as = bs := by
    by_cases h : as < bs
    · simp [h, show ¬ bs < as by omega] at h2
    · by_cases h' : bs < as
      · simp [h, h'] at h1
      · omega
  subst e1
  simp only [Int.lt_irrefl, if_false] at h1 h2
  have e2 : ae = be := by
    by_cases h : ae < be
    · simp [h, show ¬ be < ae by omega] at h2
    · by_cases h' : be < ae
      · simp [h, h'] at h1
      · omega
  subst e2
  simp only [Int.lt_irrefl, if_false, decide_eq_true_eq] at h1 h2
  rw [String.le_antisymm h1 h2]

theorem sorted_perm_eq {l l' : List (Iv Int)} (h : l.Pairwise (fun a b => Iv.le a b = true))
    (h' : l'.Pairwise (fun a b => Iv.le a b = true)) (p : l.Perm l') : l = l' :=
  List.Perm.eq_of_pairwise (fun a b _ _ h1 h2 => Iv.le_antisymm' a b h1 h2) h h' p

theorem sortIvs_eq_of_perm {l g : List (Iv Int)} (hg : g.Pairwise (fun a b => Iv.le a b = true)) (p : g.Perm l) :
    sortIvs l = g :=
  sorted_perm_eq (sortIvs_pairwise l) hg ((sortIvs_perm l).trans p.symm)

/-- a time-ordered list without overlap is determined by its members -/
theorem eq_of_wf_mem : ∀ (l l' : List (Iv Int)), Pos l → Disj l → Pos l' → Disj l' → (∀ y, y ∈ l ↔ y ∈ l') → l = l' := by
  intro l l' hp hd hp' hd' hm
  apply sorted_perm_eq (pairwise_le_of_disj l hp hd) (pairwise_le_of_disj l' hp' hd')
  exact (List.perm_ext_iff_of_nodup (nodup_of_wf l hp hd.setDisj) (nodup_of_wf l' hp' hd'.setDisj)).2 hm

/-! ## one step of the union fold as a pure function on time-ordered lists -/

/-- inserting `x` in `merge` mode into the time-ordered list `es`: the entries ending at or before `x` starts, then ONE
entry fusing `x` with every entry it overlaps (the overlapped entries and `x` in tuple order), then the entries
starting at or after `x` ends -/
def mergeStep (es : List (Iv Int)) (x : Iv Int) : List (Iv Int) :=
  es.filter (fun iv => decide (iv.e ≤ x.s)) ++
    [mergedIv (sortIvs (es.filter (ov x.s x.e) ++ [x])) x] ++
    es.filter (fun iv => decide (x.e ≤ iv.s))

theorem sort_append_ne (C : List (Iv Int)) (x : Iv Int) : sortIvs (C ++ [x]) ≠ [] := by
  intro h
  have : x ∈ sortIvs (C ++ [x]) := mem_sort_append.2 (Or.inr rfl)
  rw [h] at this; simp at this

/-- the fused entry of a step spans the hull of `x` and the overlapped entries -/
theorem step_hull (C : List (Iv Int)) (x : Iv Int) : Hull (mergedIv (sortIvs (C ++ [x])) x) (C ++ [x]) := by
  rw [mergedIv_eq_fuse _ (sort_append_ne C x)]
  have h := fuse_hull _ (sort_append_ne C x)
  refine ⟨?_, ?_, ?_, ?_⟩
  · intro m hm; exact h.lo_le m (mem_sortIvs.2 hm)
  · obtain ⟨m, hm, e⟩ := h.lo_mem; exact ⟨m, mem_sortIvs.1 hm, e⟩
  · intro m hm; exact h.hi_ge m (mem_sortIvs.2 hm)
  · obtain ⟨m, hm, e⟩ := h.hi_mem; exact ⟨m, mem_sortIvs.1 hm, e⟩

theorem mem_mergeStep (es : List (Iv Int)) (hp : Pos es) (x : Iv Int) (y : Iv Int) :
    y ∈ mergeStep es x ↔ (y ∈ es ∧ ¬ (y.s < x.e ∧ x.s < y.e)) ∨
      y = mergedIv (sortIvs (es.filter (ov x.s x.e) ++ [x])) x := by
  simp only [mergeStep, List.mem_append, List.mem_filter, List.mem_singleton, decide_eq_true_eq]
  constructor
  · rintro ((⟨h1, h2⟩ | h) | ⟨h1, h2⟩)
    · left; exact ⟨h1, by omega⟩
    · right; exact h
    · left; exact ⟨h1, by omega⟩
  · rintro (⟨h1, h2⟩ | h)
    · have := hp y h1
      by_cases h3 : y.e ≤ x.s
      · left; left; exact ⟨h1, h3⟩
      · right; exact ⟨h1, by omega⟩
    · left; right; exact h

theorem mergeStep_wf (es : List (Iv Int)) (hp : Pos es) (hd : Disj es) (x : Iv Int) (hx : x.s < x.e) :
    Pos (mergeStep es x) ∧ Disj (mergeStep es x) := by
  have hH := step_hull (es.filter (ov x.s x.e)) x
  have hdis := setDisj_mem hd.setDisj
  -- the fused entry contains x
  have hxs := hH.lo_le x (by simp)
  have hxe := hH.hi_ge x (by simp)
  have hcol : ∀ c ∈ es.filter (ov x.s x.e), c ∈ es ∧ c.s < x.e ∧ x.s < c.e := by
    intro c hc
    have := List.mem_filter.1 hc
    exact ⟨this.1, by simpa [ov] using this.2⟩
  have hleft : ∀ iv ∈ es, iv.e ≤ x.s → iv.e ≤ (mergedIv (sortIvs (es.filter (ov x.s x.e) ++ [x])) x).s := by
    intro iv hiv h
    obtain ⟨m, hm, e⟩ := hH.lo_mem
    rw [← e]
    rcases List.mem_append.1 hm with hm | hm
    · obtain ⟨h1, h2, h3⟩ := hcol m hm
      have hne : iv ≠ m := by intro e'; subst e'; omega
      have := hp iv hiv
      rcases hdis iv hiv m h1 hne with h' | h' <;> omega
    · simp only [List.mem_singleton] at hm; subst hm; exact h
  have hright : ∀ iv ∈ es, x.e ≤ iv.s → (mergedIv (sortIvs (es.filter (ov x.s x.e) ++ [x])) x).e ≤ iv.s := by
    intro iv hiv h
    obtain ⟨m, hm, e⟩ := hH.hi_mem
    rw [← e]
    rcases List.mem_append.1 hm with hm | hm
    · obtain ⟨h1, h2, h3⟩ := hcol m hm
      have hne : iv ≠ m := by intro e'; subst e'; omega
      have := hp iv hiv
      rcases hdis iv hiv m h1 hne with h' | h' <;> omega
    · simp only [List.mem_singleton] at hm; subst hm; exact h
  constructor
  · intro y hy
    rcases (mem_mergeStep es hp x y).1 hy with h | h
    · exact hp y h.1
    · subst h; omega
  · unfold Disj mergeStep
    rw [List.pairwise_append, List.pairwise_append]
    refine ⟨⟨hd.sublist List.filter_sublist, by simp, ?_⟩, hd.sublist List.filter_sublist, ?_⟩
    · intro a ha b hb
      simp only [List.mem_singleton] at hb; subst hb
      have := List.mem_filter.1 ha
      exact hleft a this.1 (by simpa using this.2)
    · intro a ha b hb
      have hb' := List.mem_filter.1 hb
      have hbs : x.e ≤ b.s := by simpa using hb'.2
      rcases List.mem_append.1 ha with ha | ha
      · have ha' := List.mem_filter.1 ha
        have : a.e ≤ x.s := by simpa using ha'.2
        omega
      · simp only [List.mem_singleton] at ha; subst ha
        exact hright b hb'.1 hbs

/-! ## (1) one insertion in `merge` mode -/

/-- `insert_merge_label` for an entry whose label is already stripped: inserting a stripped-label entry `x` that collides with entries of a well-formed tier
replaces them by ONE entry whose extent is the hull and whose label is the `-`-join of the labels of the colliding
entries and of `x`, in tuple order (start time, ties by end time, then by label) -/
theorem insert_merge_label_stripped (t : ITier Int) (hwf : t.WF) (x : Iv Int) (hx : x.s < x.e) (hstr : pyStrip x.l = x.l)
    (hcol : C11.colliding t x ≠ []) :
    ∃ t' z, t.insertEntry x .merge = .ok t' ∧ z ∈ t'.es ∧
      z.l = pyJoin "-" ((sortIvs (C11.colliding t x ++ [x])).map (·.l)) ∧
      (∀ m ∈ C11.colliding t x ++ [x], z.s ≤ m.s ∧ m.e ≤ z.e) ∧
      (∃ m ∈ C11.colliding t x ++ [x], m.s = z.s) ∧ (∃ m ∈ C11.colliding t x ++ [x], m.e = z.e) ∧
      (sortIvs (C11.colliding t x ++ [x])).Pairwise (fun a b => Iv.le a b = true) ∧
      (sortIvs (C11.colliding t x ++ [x])).Pairwise (fun a b => a.s ≤ b.s) ∧
      ∀ y, y ∈ t'.es ↔ (y ∈ t.es ∧ ¬ (y.s < x.e ∧ x.s < y.e)) ∨ y = z := by
  obtain ⟨_, _, hl, t', e, _, _, hm, _, _⟩ :=
    C11.insert_merge_stripped t hwf x hx hstr hcol (C11.merged_label_stripped t hwf x hstr)
  have hH := step_hull (C11.colliding t x) x
  refine ⟨t', C11.merged t x, e, (hm _).2 (Or.inr rfl), hl, fun m hm' => ⟨hH.lo_le m hm', hH.hi_ge m hm'⟩,
    hH.lo_mem, hH.hi_mem, sortIvs_pairwise _, ?_, hm⟩
  exact (sortIvs_pairwise _).imp (fun h => Iv.le_start h)

/-- **label of a merge**: inserting an entry `x` (any label; `insertEntry` strips it: `C11.stripped x`) that collides
with entries of a well-formed tier replaces them by ONE entry whose extent is the hull and whose label is the
`-`-join of the labels of the colliding entries and of `x`'s stripped label, in tuple order (start time, ties by end
time, then by label).  `hx` excludes only what `C11.insert_rejects` covers (a zero-length or reversed entry is
refused). -/
theorem insert_merge_label (t : ITier Int) (hwf : t.WF) (x : Iv Int) (hx : x.s < x.e)
    (hcol : C11.colliding t x ≠ []) :
    ∃ t' z, t.insertEntry x .merge = .ok t' ∧ z ∈ t'.es ∧
      z.l = pyJoin "-" ((sortIvs (C11.colliding t x ++ [C11.stripped x])).map (·.l)) ∧
      (∀ m ∈ C11.colliding t x ++ [C11.stripped x], z.s ≤ m.s ∧ m.e ≤ z.e) ∧
      (∃ m ∈ C11.colliding t x ++ [C11.stripped x], m.s = z.s) ∧
      (∃ m ∈ C11.colliding t x ++ [C11.stripped x], m.e = z.e) ∧
      (sortIvs (C11.colliding t x ++ [C11.stripped x])).Pairwise (fun a b => Iv.le a b = true) ∧
      (sortIvs (C11.colliding t x ++ [C11.stripped x])).Pairwise (fun a b => a.s ≤ b.s) ∧
      ∀ y, y ∈ t'.es ↔ (y ∈ t.es ∧ ¬ (y.s < x.e ∧ x.s < y.e)) ∨ y = z := by
  rw [C11.insertEntry_strip]
  exact insert_merge_label_stripped t hwf (C11.stripped x) hx (C11.stripped_stripped x) hcol

/-- one step of the union fold, with the exact entry list -/
theorem union_step_es (acc : ITier Int) (hacc : acc.WF) (e : Iv Int) (he : e.s < e.e) (hes : pyStrip e.l = e.l) :
    ∃ acc', acc.insertEntry e .merge = .ok acc' ∧ acc'.WF ∧ acc'.name = acc.name ∧
      acc'.es = mergeStep acc.es e ∧ acc'.lo = min acc.lo e.s ∧ acc'.hi = max acc.hi e.e := by
  obtain ⟨hp', hd'⟩ := mergeStep_wf acc.es hacc.pos hacc.disj e he
  by_cases hcol : C11.colliding acc e = []
  · have hfree : ∀ iv ∈ acc.es, iv.e ≤ e.s ∨ e.e ≤ iv.s := by
      intro iv hiv
      have := List.filter_eq_nil_iff.1 hcol iv hiv
      simp [ov] at this; omega
    obtain ⟨acc', e1, w, n, hm, lo, hi⟩ := C11.insert_nocollision_stripped acc hacc e he hes .merge hfree
    refine ⟨acc', e1, w, n, ?_, lo, hi⟩
    apply eq_of_wf_mem _ _ w.pos w.disj hp' hd'
    intro y
    rw [hm y, mem_mergeStep acc.es hacc.pos e y]
    have hM : mergedIv (sortIvs (acc.es.filter (ov e.s e.e) ++ [e])) e = e := by
      have : acc.es.filter (ov e.s e.e) = [] := hcol
      rw [this, mergedIv_eq_fuse _ (sort_append_ne [] e)]
      simp [sortIvs, fuse_singleton]
    rw [hM]
    constructor
    · rintro (h | h)
      · left; refine ⟨h, ?_⟩
        have := hfree y h; omega
      · right; exact h
    · rintro (h | h)
      · left; exact h.1
      · right; exact h
  · obtain ⟨_, _, _, acc', e1, w, n, hm, lo, hi⟩ :=
      C11.insert_merge_stripped acc hacc e he hes hcol (C11.merged_label_stripped acc hacc e hes)
    refine ⟨acc', e1, w, n, ?_, lo, hi⟩
    apply eq_of_wf_mem _ _ w.pos w.disj hp' hd'
    intro y
    rw [hm y, mem_mergeStep acc.es hacc.pos e y]
    rfl

theorem union_fold_es (bs : List (Iv Int)) (hbs : ∀ b ∈ bs, b.s < b.e ∧ pyStrip b.l = b.l)
    (acc : ITier Int) (hacc : acc.WF) :
    ∃ R, bs.foldlM (fun acc e => acc.insertEntry e .merge) acc = .ok R ∧ R.WF ∧ R.name = acc.name ∧
      R.es = bs.foldl mergeStep acc.es := by
  induction bs generalizing acc with
  | nil => exact ⟨acc, rfl, hacc, rfl, rfl⟩
  | cons b bs ih =>
    obtain ⟨b1, b2⟩ := hbs b (by simp)
    obtain ⟨acc', e1, w, n, hes, _, _⟩ := union_step_es acc hacc b b1 b2
    obtain ⟨R, e2, wR, nR, hR⟩ := ih (fun c hc' => hbs c (List.mem_cons_of_mem _ hc')) acc' w
    refine ⟨R, ?_, wR, by rw [nR, n], ?_⟩
    · simp only [List.foldlM_cons, e1, bind, Except.bind]; exact e2
    · rw [hR, hes]; rfl

/-- the union, as a fold of the pure step over `B`'s entries (in `B`'s order) starting from `A`'s entries -/
theorem union_eq_fold (A B : ITier Int) (hA : A.WF) (hB : B.WF) :
    ∃ R, A.union B = .ok R ∧ R.WF ∧ R.name = A.name ∧ R.es = B.es.foldl mergeStep A.es := by
  obtain ⟨R, e, w, n, hes⟩ := union_fold_es B.es (fun b hb => ⟨hB.pos b hb, hB.stripped b hb⟩) A hA
  refine ⟨{ R with es := sortIvs R.es }, ?_, ?_, n, ?_⟩
  · unfold ITier.union
    rw [new_of_wf A hA]
    simp only [bind, Except.bind, e, pure, Except.pure]
  · rw [sortIvs_of_wf R.es w.pos w.disj]; exact w
  · simp only [sortIvs_of_wf R.es w.pos w.disj]; exact hes

/-! ## joining joined labels -/

theorem pyJoin_append (sep : String) (L M : List String) (hL : L ≠ []) (hM : M ≠ []) :
    pyJoin sep (L ++ M) = pyJoin sep L ++ sep ++ pyJoin sep M := by
  induction L with
  | nil => exact absurd rfl hL
  | cons a L ih =>
    cases L with
    | nil =>
      cases M with
      | nil => exact absurd rfl hM
      | cons m M' => rfl
    | cons a' L' =>
      have e1 : pyJoin sep (a :: a' :: L' ++ M) = a ++ sep ++ pyJoin sep (a' :: L' ++ M) := rfl
      have e2 : pyJoin sep (a :: a' :: L') = a ++ sep ++ pyJoin sep (a' :: L') := rfl
      rw [e1, e2, ih (by simp)]
      simp only [String.append_assoc]

/-- joining the joins of non-empty groups is joining everything -/
theorem pyJoin_flatten (sep : String) (Ls : List (List String)) (h : ∀ L ∈ Ls, L ≠ []) :
    pyJoin sep (Ls.map (pyJoin sep)) = pyJoin sep Ls.flatten := by
  induction Ls with
  | nil => rfl
  | cons L Ls ih =>
    have hL := h L (by simp)
    have ih' := ih (fun M hM => h M (List.mem_cons_of_mem _ hM))
    cases Ls with
    | nil => simp [pyJoin]
    | cons L2 Ls' =>
      have hne : (L2 :: Ls').flatten ≠ [] := by
        have := h L2 (by simp)
        cases L2 with
        | nil => exact absurd rfl this
        | cons a as => simp
      rw [List.flatten_cons, pyJoin_append sep L _ hL hne, ← ih']
      rfl

/-! ## groups: which original entries an entry of the accumulated tier is made of -/

abbrev Sorted (g : List (Iv Int)) : Prop := g.Pairwise (fun a b => Iv.le a b = true)

/-- the accumulated entry list `es` is, entry by entry, the fusion of the groups `G`; every group is non-empty,
in tuple order, connected; a group of several entries only holds entries that start before `β` (a lower bound for
the start of every entry of `B` still to come) -/
structure GInv (β : Int) (es : List (Iv Int)) (G : List (List (Iv Int))) : Prop where
  es_eq : es = G.map fuse
  ne : ∀ g ∈ G, g ≠ []
  sorted : ∀ g ∈ G, Sorted g
  mpos : ∀ g ∈ G, ∀ m ∈ g, m.s < m.e
  early : ∀ g ∈ G, (∃ m, g = [m]) ∨ ∀ m ∈ g, m.s < β
  conn : ∀ g ∈ G, ∀ t, (fuse g).s < t → t < (fuse g).e → ∃ m ∈ g, m.s < t ∧ t < m.e

theorem Hull.flatten {z : Iv Int} {Gs : List (List (Iv Int))} (h : Hull z (Gs.map fuse)) (hne : ∀ g ∈ Gs, g ≠ []) :
    Hull z Gs.flatten := by
  refine ⟨?_, ?_, ?_, ?_⟩
  · intro m hm
    obtain ⟨g, hg, hmg⟩ := List.mem_flatten.1 hm
    have := h.lo_le _ (List.mem_map_of_mem hg)
    have := (fuse_hull g (hne g hg)).lo_le m hmg
    omega
  · obtain ⟨c, hc, e⟩ := h.lo_mem
    obtain ⟨g, hg, rfl⟩ := List.mem_map.1 hc
    obtain ⟨m, hm, e'⟩ := (fuse_hull g (hne g hg)).lo_mem
    exact ⟨m, List.mem_flatten.2 ⟨g, hg, hm⟩, by omega⟩
  · intro m hm
    obtain ⟨g, hg, hmg⟩ := List.mem_flatten.1 hm
    have := h.hi_ge _ (List.mem_map_of_mem hg)
    have := (fuse_hull g (hne g hg)).hi_ge m hmg
    omega
  · obtain ⟨c, hc, e⟩ := h.hi_mem
    obtain ⟨g, hg, rfl⟩ := List.mem_map.1 hc
    obtain ⟨m, hm, e'⟩ := (fuse_hull g (hne g hg)).hi_mem
    exact ⟨m, List.mem_flatten.2 ⟨g, hg, hm⟩, by omega⟩

theorem perm_filter3 {α} (p q r : α → Bool) (l : List α)
    (h : ∀ a ∈ l, (p a = true ∧ q a = false ∧ r a = false) ∨ (p a = false ∧ q a = true ∧ r a = false) ∨
      (p a = false ∧ q a = false ∧ r a = true)) :
    l.Perm (l.filter p ++ l.filter q ++ l.filter r) := by
  induction l with
  | nil => simp
  | cons a l ih =>
    have ih' := ih (fun b hb => h b (List.mem_cons_of_mem _ hb))
    rcases h a (by simp) with ⟨h1, h2, h3⟩ | ⟨h1, h2, h3⟩ | ⟨h1, h2, h3⟩
    · simp only [List.filter_cons, h1, h2, h3, if_true, Bool.false_eq_true, if_false, List.cons_append]
      exact ih'.cons a
    · simp only [List.filter_cons, h1, h2, h3, if_true, Bool.false_eq_true, if_false]
      refine (ih'.cons a).trans ?_
      rw [List.append_assoc, List.append_assoc, List.cons_append]
      exact List.perm_middle.symm
    · simp only [List.filter_cons, h1, h2, h3, if_true, Bool.false_eq_true, if_false]
      refine (ih'.cons a).trans ?_
      exact List.perm_middle.symm

/-- the groups of the entries before / overlapping / after `x` -/
def gL (x : Iv Int) (G : List (List (Iv Int))) := G.filter (fun g => decide ((fuse g).e ≤ x.s))
def gC (x : Iv Int) (G : List (List (Iv Int))) := G.filter (fun g => ov x.s x.e (fuse g))
def gR (x : Iv Int) (G : List (List (Iv Int))) := G.filter (fun g => decide (x.e ≤ (fuse g).s))

theorem mergeStep_map (G : List (List (Iv Int))) (x : Iv Int) :
    mergeStep (G.map fuse) x =
      (gL x G).map fuse ++ [mergedIv (sortIvs ((gC x G).map fuse ++ [x])) x] ++ (gR x G).map fuse := by
  simp only [mergeStep, List.filter_map, gL, gC, gR]
  rfl

/-- the overlapped groups with `[x]` put at its place in tuple order: only the FIRST overlapped entry can come
before `x` (every later one starts after `x` does) -/
def newGroups (x : Iv Int) : List (List (Iv Int)) → List (List (Iv Int))
  | [] => [[x]]
  | g1 :: gr => if Iv.le (fuse g1) x = true then g1 :: [x] :: gr else [x] :: g1 :: gr

theorem mem_newGroups (x : Iv Int) (GC : List (List (Iv Int))) (g : List (Iv Int)) :
    g ∈ newGroups x GC ↔ g = [x] ∨ g ∈ GC := by
  cases GC with
  | nil => simp [newGroups]
  | cons g1 gr =>
    simp only [newGroups]
    split
    · simp only [List.mem_cons]
      constructor
      · rintro (h | h | h)
        · right; left; exact h
        · left; exact h
        · right; right; exact h
      · rintro (h | h | h)
        · right; left; exact h
        · left; exact h
        · right; right; exact h
    · simp only [List.mem_cons]

theorem mem_newGroups_flatten (x : Iv Int) (GC : List (List (Iv Int))) (m : Iv Int) :
    m ∈ (newGroups x GC).flatten ↔ m = x ∨ ∃ g ∈ GC, m ∈ g := by
  simp only [List.mem_flatten, mem_newGroups]
  constructor
  · rintro ⟨g, (rfl | hg), hm⟩
    · left; simpa using hm
    · right; exact ⟨g, hg, hm⟩
  · rintro (rfl | ⟨g, hg, hm⟩)
    · exact ⟨[m], Or.inl rfl, by simp⟩
    · exact ⟨g, Or.inr hg, hm⟩

theorem newGroups_perm (x : Iv Int) (GC : List (List (Iv Int))) :
    (newGroups x GC).flatten.Perm (GC.flatten ++ [x]) := by
  cases GC with
  | nil => simp [newGroups]
  | cons g1 gr =>
    simp only [newGroups]
    split
    · simp only [List.flatten_cons, List.singleton_append]
      rw [List.append_assoc]
      exact List.Perm.append_left g1 (List.perm_append_singleton x _).symm
    · simp only [List.flatten_cons, List.singleton_append]
      exact (List.perm_append_singleton x _).symm

/-- **tuple order of one merge**: the sorted match list is the overlapped entries with `x` put before or after the
first of them -/
theorem sort_step (x : Iv Int) (GC : List (List (Iv Int))) (hp : Pos (GC.map fuse)) (hd : Disj (GC.map fuse))
    (hov : ∀ g ∈ GC, x.s < (fuse g).e) :
    sortIvs (GC.map fuse ++ [x]) = (newGroups x GC).map fuse := by
  cases GC with
  | nil => simp [newGroups, sortIvs, fuse_singleton]
  | cons g1 gr =>
    have hp1 := hp (fuse g1) (by simp)
    have hx1 := hov g1 (by simp)
    simp only [List.map_cons] at hd hp
    obtain ⟨hd1, hd2⟩ := hd.cons
    have hrest : Sorted (gr.map fuse) := pairwise_le_of_disj _ (pos_tail hp) hd2
    have h1r : ∀ y ∈ gr.map fuse, Iv.le (fuse g1) y = true := by
      intro y hy; have := hd1 y hy; exact Iv.le_of_lt_start _ _ (by omega)
    have hxr : ∀ y ∈ gr.map fuse, Iv.le x y = true := by
      intro y hy; have := hd1 y hy; exact Iv.le_of_lt_start _ _ (by omega)
    apply sortIvs_eq_of_perm
    · simp only [newGroups]
      split
      · rename_i hle
        simp only [List.map_cons, fuse_singleton]
        refine List.pairwise_cons.2 ⟨?_, List.pairwise_cons.2 ⟨hxr, hrest⟩⟩
        intro y hy
        rcases List.mem_cons.1 hy with rfl | h
        · exact hle
        · exact h1r y h
      · rename_i hle
        simp only [List.map_cons, fuse_singleton]
        have hxl : Iv.le x (fuse g1) = true := by
          have := Iv.le_total' (fuse g1) x
          simp only [Bool.or_eq_true] at this
          rcases this with h | h
          · exact absurd h hle
          · exact h
        refine List.pairwise_cons.2 ⟨?_, List.pairwise_cons.2 ⟨h1r, hrest⟩⟩
        intro y hy
        rcases List.mem_cons.1 hy with rfl | h
        · exact hxl
        · exact hxr y h
    · simp only [newGroups]
      split
      · simp only [List.map_cons, fuse_singleton, List.cons_append]
        exact (List.perm_append_singleton x _).symm.cons _
      · simp only [List.map_cons, fuse_singleton]
        exact (List.perm_append_singleton x _).symm

/-- the entry built by one merge is the fusion of the new group -/
theorem merged_eq_fuse (x : Iv Int) (GC : List (List (Iv Int))) (hp : Pos (GC.map fuse)) (hd : Disj (GC.map fuse))
    (hov : ∀ g ∈ GC, x.s < (fuse g).e) (hne : ∀ g ∈ GC, g ≠ []) :
    mergedIv (sortIvs (GC.map fuse ++ [x])) x = fuse (newGroups x GC).flatten := by
  have hne' : ∀ g ∈ newGroups x GC, g ≠ [] := by
    intro g hg
    rcases (mem_newGroups x GC g).1 hg with rfl | h
    · simp
    · exact hne g h
  have hflne : (newGroups x GC).flatten ≠ [] := by
    intro h
    have : x ∈ (newGroups x GC).flatten := (mem_newGroups_flatten x GC x).2 (Or.inl rfl)
    rw [h] at this; simp at this
  rw [mergedIv_eq_fuse _ (sort_append_ne _ x)]
  have hS := sort_step x GC hp hd hov
  have hH : Hull (fuse (sortIvs (GC.map fuse ++ [x]))) ((newGroups x GC).map fuse) := by
    rw [← hS]; exact fuse_hull _ (sort_append_ne _ x)
  have hu := (hH.flatten hne').unique (fuse_hull _ hflne) (fun _ => Iff.rfl)
  have hl : (fuse (sortIvs (GC.map fuse ++ [x]))).l = (fuse (newGroups x GC).flatten).l := by
    rw [fuse_label, fuse_label, hS, List.map_map]
    have : (newGroups x GC).map ((fun iv : Iv Int => iv.l) ∘ fuse) =
        ((newGroups x GC).map (List.map (·.l))).map (pyJoin "-") := by
      rw [List.map_map]
      apply List.map_congr_left
      intro g _
      simp only [Function.comp, fuse_label]
    rw [this, pyJoin_flatten, List.map_flatten]
    intro L hL
    obtain ⟨g, hg, rfl⟩ := List.mem_map.1 hL
    have := hne' g hg
    cases g with
    | nil => exact absurd rfl this
    | cons a as => simp
  generalize fuse (sortIvs (GC.map fuse ++ [x])) = z1 at hu hl ⊢
  generalize fuse (newGroups x GC).flatten = z2 at hu hl ⊢
  obtain ⟨s1, e1, l1⟩ := z1; obtain ⟨s2, e2, l2⟩ := z2
  simp only at hu hl
  rw [hu.1, hu.2, hl]

/-- the new group is in tuple order -/
theorem newGroups_sorted (x : Iv Int) (β : Int) (hβ : β ≤ x.s) (GC : List (List (Iv Int)))
    (hp : Pos (GC.map fuse)) (hd : Disj (GC.map fuse)) (hov : ∀ g ∈ GC, x.s < (fuse g).e)
    (hne : ∀ g ∈ GC, g ≠ []) (hsorted : ∀ g ∈ GC, Sorted g) (hmpos : ∀ g ∈ GC, ∀ m ∈ g, m.s < m.e)
    (hearly : ∀ g ∈ GC, (∃ m, g = [m]) ∨ ∀ m ∈ g, m.s < β) :
    Sorted (newGroups x GC).flatten := by
  unfold Sorted
  rw [List.pairwise_flatten]
  constructor
  · intro g hg
    rcases (mem_newGroups x GC g).1 hg with rfl | h
    · simp
    · exact hsorted g h
  · cases GC with
    | nil => simp [newGroups]
    | cons g1 gr =>
      have hx1 := hov g1 (by simp)
      have hH1 := fuse_hull g1 (hne g1 (by simp))
      simp only [List.map_cons] at hd hp
      obtain ⟨hd1, hd2⟩ := hd.cons
      -- members of different groups
      have F1 : ∀ g ∈ gr, ∀ m ∈ g1, ∀ m' ∈ g, Iv.le m m' = true := by
        intro g hg m hm m' hm'
        have := hd1 _ (List.mem_map_of_mem hg)
        have := hH1.hi_ge m hm
        have := (fuse_hull g (hne g (List.mem_cons_of_mem _ hg))).lo_le m' hm'
        have := hmpos g1 (by simp) m hm
        exact Iv.le_of_lt_start _ _ (by omega)
      have F2 : gr.Pairwise (fun l1 l2 => ∀ a ∈ l1, ∀ b ∈ l2, Iv.le a b = true) := by
        have h2 : gr.Pairwise (fun g g' => (fuse g).e ≤ (fuse g').s) := by
          unfold Disj at hd2; rw [List.pairwise_map] at hd2; exact hd2
        refine h2.imp_of_mem ?_
        intro g g' hg hg' h a ha b hb
        have := (fuse_hull g (hne g (List.mem_cons_of_mem _ hg))).hi_ge a ha
        have := (fuse_hull g' (hne g' (List.mem_cons_of_mem _ hg'))).lo_le b hb
        have := hmpos g (List.mem_cons_of_mem _ hg) a ha
        exact Iv.le_of_lt_start _ _ (by omega)
      have F3 : ∀ g ∈ gr, ∀ m' ∈ g, Iv.le x m' = true := by
        intro g hg m' hm'
        have := hd1 _ (List.mem_map_of_mem hg)
        have := (fuse_hull g (hne g (List.mem_cons_of_mem _ hg))).lo_le m' hm'
        exact Iv.le_of_lt_start _ _ (by omega)
      simp only [newGroups]
      split
      · rename_i hle
        have F4 : ∀ m ∈ g1, Iv.le m x = true := by
          intro m hm
          rcases hearly g1 (by simp) with ⟨m0, h0⟩ | h
          · rw [h0] at hm hle
            simp only [List.mem_singleton] at hm; subst hm
            rw [fuse_singleton] at hle; exact hle
          · have := h m hm; exact Iv.le_of_lt_start _ _ (by omega)
        refine List.pairwise_cons.2 ⟨?_, List.pairwise_cons.2 ⟨?_, F2⟩⟩
        · intro l hl a ha b hb
          rcases List.mem_cons.1 hl with rfl | h
          · simp only [List.mem_singleton] at hb; subst hb; exact F4 a ha
          · exact F1 l h a ha b hb
        · intro l hl a ha b hb
          simp only [List.mem_singleton] at ha; subst ha
          exact F3 l hl b hb
      · rename_i hle
        have F5 : ∀ m ∈ g1, Iv.le x m = true := by
          intro m hm
          rcases hearly g1 (by simp) with ⟨m0, h0⟩ | h
          · rw [h0] at hm hle
            simp only [List.mem_singleton] at hm; subst hm
            rw [fuse_singleton] at hle
            have := Iv.le_total' m x
            simp only [Bool.or_eq_true] at this
            rcases this with h | h
            · exact absurd h hle
            · exact h
          · exfalso
            obtain ⟨m1, hm1, e1⟩ := hH1.lo_mem
            have := h m1 hm1
            exact hle (Iv.le_of_lt_start _ _ (by omega))
        refine List.pairwise_cons.2 ⟨?_, List.pairwise_cons.2 ⟨?_, F2⟩⟩
        · intro l hl a ha b hb
          simp only [List.mem_singleton] at ha; subst ha
          rcases List.mem_cons.1 hl with rfl | h
          · exact F5 b hb
          · exact F3 l h b hb
        · intro l hl a ha b hb
          exact F1 l hl a ha b hb

/-- **one step on groups**: merging `x` (which starts at or after `β`) keeps the invariant, with the new bound `x.e` -/
theorem group_step (es : List (Iv Int)) (hp : Pos es) (hd : Disj es) (x : Iv Int) (hx : x.s < x.e)
    (β : Int) (hβ : β ≤ x.s) (G : List (List (Iv Int))) (inv : GInv β es G) :
    ∃ G', GInv x.e (mergeStep es x) G' ∧ G'.flatten.Perm (G.flatten ++ [x]) := by
  have hes := inv.es_eq
  have hgpos : ∀ g ∈ G, (fuse g).s < (fuse g).e := fun g hg => hp _ (by rw [hes]; exact List.mem_map_of_mem hg)
  have hCsub : ∀ g ∈ gC x G, g ∈ G ∧ (fuse g).s < x.e ∧ x.s < (fuse g).e := by
    intro g hg
    have := List.mem_filter.1 hg
    exact ⟨this.1, by simpa [ov] using this.2⟩
  have hLsub : ∀ g ∈ gL x G, g ∈ G := fun g hg => (List.mem_filter.1 hg).1
  have hRsub : ∀ g ∈ gR x G, g ∈ G := fun g hg => (List.mem_filter.1 hg).1
  have hCp : Pos ((gC x G).map fuse) := by
    intro y hy; obtain ⟨g, hg, rfl⟩ := List.mem_map.1 hy; exact hgpos g (hCsub g hg).1
  have hCd : Disj ((gC x G).map fuse) := by
    have : Disj (G.map fuse) := by rw [← hes]; exact hd
    unfold Disj at this ⊢
    rw [List.pairwise_map] at this ⊢
    exact this.sublist List.filter_sublist
  have hCov : ∀ g ∈ gC x G, x.s < (fuse g).e := fun g hg => (hCsub g hg).2.2
  have hCne : ∀ g ∈ gC x G, g ≠ [] := fun g hg => inv.ne g (hCsub g hg).1
  have hM := merged_eq_fuse x (gC x G) hCp hCd hCov hCne
  have hNGmem := mem_newGroups_flatten x (gC x G)
  have hNGne : (newGroups x (gC x G)).flatten ≠ [] := by
    intro h
    have : x ∈ (newGroups x (gC x G)).flatten := (hNGmem x).2 (Or.inl rfl)
    rw [h] at this; simp at this
  have hNGH := fuse_hull _ hNGne
  refine ⟨gL x G ++ [(newGroups x (gC x G)).flatten] ++ gR x G, ⟨?_, ?_, ?_, ?_, ?_, ?_⟩, ?_⟩
  · -- the entries
    rw [hes, mergeStep_map, hM]
    simp only [List.map_append, List.map_cons, List.map_nil]
  · intro g hg
    simp only [List.mem_append, List.mem_singleton] at hg
    rcases hg with (h | h) | h
    · exact inv.ne g (hLsub g h)
    · rw [h]; exact hNGne
    · exact inv.ne g (hRsub g h)
  · intro g hg
    simp only [List.mem_append, List.mem_singleton] at hg
    rcases hg with (h | h) | h
    · exact inv.sorted g (hLsub g h)
    · rw [h]
      exact newGroups_sorted x β hβ (gC x G) hCp hCd hCov hCne (fun g hg => inv.sorted g (hCsub g hg).1)
        (fun g hg => inv.mpos g (hCsub g hg).1) (fun g hg => inv.early g (hCsub g hg).1)
    · exact inv.sorted g (hRsub g h)
  · intro g hg m hm
    simp only [List.mem_append, List.mem_singleton] at hg
    rcases hg with (h | h) | h
    · exact inv.mpos g (hLsub g h) m hm
    · rw [h] at hm
      rcases (hNGmem m).1 hm with rfl | ⟨g', hg', hm'⟩
      · exact hx
      · exact inv.mpos g' (hCsub g' hg').1 m hm'
    · exact inv.mpos g (hRsub g h) m hm
  · intro g hg
    simp only [List.mem_append, List.mem_singleton] at hg
    have hold : ∀ g ∈ G, (∃ m, g = [m]) ∨ ∀ m ∈ g, m.s < x.e := by
      intro g hg
      rcases inv.early g hg with h | h
      · left; exact h
      · right; intro m hm; have := h m hm; omega
    rcases hg with (h | h) | h
    · exact hold g (hLsub g h)
    · right
      rw [h]
      intro m hm
      rcases (hNGmem m).1 hm with rfl | ⟨g', hg', hm'⟩
      · exact hx
      · obtain ⟨h1, h2, h3⟩ := hCsub g' hg'
        rcases inv.early g' h1 with ⟨m0, h0⟩ | h'
        · rw [h0] at hm' h2
          simp only [List.mem_singleton] at hm'; subst hm'
          rw [fuse_singleton] at h2; exact h2
        · have := h' m hm'; omega
    · exact hold g (hRsub g h)
  · intro g hg t ht1 ht2
    simp only [List.mem_append, List.mem_singleton] at hg
    rcases hg with (h | h) | h
    · exact inv.conn g (hLsub g h) t ht1 ht2
    · rw [h] at ht1 ht2 ⊢
      by_cases hxt : x.s < t ∧ t < x.e
      · exact ⟨x, (hNGmem x).2 (Or.inl rfl), hxt⟩
      · -- t lies in the interior of an overlapped entry
        have key : ∃ g' ∈ gC x G, (fuse g').s < t ∧ t < (fuse g').e := by
          by_cases hlt : t ≤ x.s
          · obtain ⟨m0, hm0, e0⟩ := hNGH.lo_mem
            rcases (hNGmem m0).1 hm0 with rfl | ⟨g', hg', hm'⟩
            · omega
            · obtain ⟨h1, h2, h3⟩ := hCsub g' hg'
              have := (fuse_hull g' (inv.ne g' h1)).lo_le m0 hm'
              exact ⟨g', hg', by omega, by omega⟩
          · obtain ⟨m0, hm0, e0⟩ := hNGH.hi_mem
            rcases (hNGmem m0).1 hm0 with rfl | ⟨g', hg', hm'⟩
            · omega
            · obtain ⟨h1, h2, h3⟩ := hCsub g' hg'
              have := (fuse_hull g' (inv.ne g' h1)).hi_ge m0 hm'
              exact ⟨g', hg', by omega, by omega⟩
        obtain ⟨g', hg', k1, k2⟩ := key
        obtain ⟨m, hm, hm2⟩ := inv.conn g' (hCsub g' hg').1 t k1 k2
        exact ⟨m, (hNGmem m).2 (Or.inr ⟨g', hg', hm⟩), hm2⟩
    · exact inv.conn g (hRsub g h) t ht1 ht2
  · -- the multiset of members
    have h3 : G.Perm (gL x G ++ gC x G ++ gR x G) := by
      apply perm_filter3
      intro g hg
      have := hgpos g hg
      by_cases c1 : (fuse g).e ≤ x.s
      · left; simp [ov, c1] <;> omega
      · by_cases c2 : x.e ≤ (fuse g).s
        · right; right; simp [ov, c1, c2] <;> omega
        · right; left; simp [ov, c1, c2] <;> omega
    have h4 := h3.flatten
    simp only [List.flatten_append, List.flatten_cons, List.flatten_nil, List.append_nil] at h4 ⊢
    have h5 := newGroups_perm x (gC x G)
    -- L ++ NG ++ R ~ L ++ (C ++ [x]) ++ R ~ (L ++ C ++ R) ++ [x] ~ G.flatten ++ [x]
    refine List.Perm.trans ?_ (h4.symm.append_right [x])
    refine ((h5.append_left (gL x G).flatten).append_right (gR x G).flatten).trans ?_
    simp only [List.append_assoc]
    refine List.Perm.append_left _ (List.Perm.append_left _ ?_)
    exact List.perm_append_comm

/-- the fold of the step over `B`'s entries (time-ordered, so every entry starts where the previous one ended or
later) -/
theorem group_fold (bs : List (Iv Int)) (hbp : Pos bs) (hbd : Disj bs) :
    ∀ (es : List (Iv Int)), Pos es → Disj es → ∀ (β : Int), (∀ b ∈ bs, β ≤ b.s) → ∀ G, GInv β es G →
      ∃ β' G', GInv β' (bs.foldl mergeStep es) G' ∧ G'.flatten.Perm (G.flatten ++ bs) := by
  induction bs with
  | nil => intro es _ _ β _ G inv; exact ⟨β, G, inv, by simp⟩
  | cons b bs ih =>
    intro es hp hd β hβ G inv
    obtain ⟨hb1, hb2⟩ := hbd.cons
    have hb := hbp b (by simp)
    obtain ⟨G1, inv1, p1⟩ := group_step es hp hd b hb β (hβ b (by simp)) G inv
    obtain ⟨hp1, hd1⟩ := mergeStep_wf es hp hd b hb
    obtain ⟨β', G', inv', p'⟩ := ih (pos_tail hbp) hb2 _ hp1 hd1 b.e hb1 G1 inv1
    refine ⟨β', G', inv', ?_⟩
    refine p'.trans ((p1.append_right bs).trans ?_)
    rw [List.append_assoc, List.singleton_append]

theorem ginv_init (β : Int) (es : List (Iv Int)) (hp : Pos es) : GInv β es (es.map (fun m => [m])) := by
  refine ⟨?_, ?_, ?_, ?_, ?_, ?_⟩
  · rw [List.map_map]
    have : (fuse ∘ fun m => [m]) = id := by funext m; simp [fuse_singleton]
    rw [this, List.map_id]
  · intro g hg; obtain ⟨m, _, rfl⟩ := List.mem_map.1 hg; simp
  · intro g hg; obtain ⟨m, _, rfl⟩ := List.mem_map.1 hg; simp [Sorted]
  · intro g hg m' hm'
    obtain ⟨m, hm, rfl⟩ := List.mem_map.1 hg
    simp only [List.mem_singleton] at hm'; subst hm'; exact hp _ hm
  · intro g hg; obtain ⟨m, _, rfl⟩ := List.mem_map.1 hg; exact Or.inl ⟨m, rfl⟩
  · intro g hg t h1 h2
    obtain ⟨m, _, rfl⟩ := List.mem_map.1 hg
    rw [fuse_singleton] at h1 h2
    exact ⟨m, by simp, h1, h2⟩

/-- `m` lies inside `z` -/
def inside (z m : Iv Int) : Bool := decide (z.s ≤ m.s) && decide (m.e ≤ z.e)

/-- the members of a group are exactly the members of all groups that lie inside its hull -/
theorem filter_flatten_group (G : List (List (Iv Int)))
    (hpw : G.Pairwise (fun g g' => (fuse g).e ≤ (fuse g').s))
    (hne : ∀ g ∈ G, g ≠ []) (hmpos : ∀ g ∈ G, ∀ m ∈ g, m.s < m.e) :
    ∀ g ∈ G, G.flatten.filter (inside (fuse g)) = g := by
  induction G with
  | nil => intro g hg; simp at hg
  | cons h T ih =>
    obtain ⟨hh, hT⟩ := List.pairwise_cons.1 hpw
    intro g hg
    rw [List.flatten_cons, List.filter_append]
    have hHh := fuse_hull h (hne h (by simp))
    rcases List.mem_cons.1 hg with rfl | hgT
    · have e1 : g.filter (inside (fuse g)) = g := by
        apply List.filter_eq_self.2
        intro m hm
        simp [inside, hHh.lo_le m hm, hHh.hi_ge m hm]
      have e2 : T.flatten.filter (inside (fuse g)) = [] := by
        apply List.filter_eq_nil_iff.2
        intro m hm
        obtain ⟨g', hg', hm'⟩ := List.mem_flatten.1 hm
        have := hh g' hg'
        have := (fuse_hull g' (hne g' (List.mem_cons_of_mem _ hg'))).lo_le m hm'
        have := hmpos g' (List.mem_cons_of_mem _ hg') m hm'
        simp only [inside, Bool.and_eq_true, decide_eq_true_eq]
        omega
      rw [e1, e2, List.append_nil]
    · have e1 : h.filter (inside (fuse g)) = [] := by
        apply List.filter_eq_nil_iff.2
        intro m hm
        have := hh g hgT
        have := hHh.hi_ge m hm
        have := hmpos h (by simp) m hm
        simp only [inside, Bool.and_eq_true, decide_eq_true_eq]
        omega
      rw [e1, List.nil_append]
      exact ih hT (fun g' hg' => hne g' (List.mem_cons_of_mem _ hg'))
        (fun g' hg' => hmpos g' (List.mem_cons_of_mem _ hg')) g hgT

/-! ## (2)–(4) the union -/

/-- the entries of `A` and of `B` that lie inside `z`, in tuple order (start, then end, then label) -/
def members (A B : ITier Int) (z : Iv Int) : List (Iv Int) := sortIvs ((A.es ++ B.es).filter (inside z))

theorem mem_members (A B : ITier Int) (z m : Iv Int) :
    m ∈ members A B z ↔ (m ∈ A.es ∨ m ∈ B.es) ∧ z.s ≤ m.s ∧ m.e ≤ z.e := by
  simp only [members, mem_sortIvs, List.mem_filter, List.mem_append, inside, Bool.and_eq_true, decide_eq_true_eq]

/-- the union with its groups -/
theorem union_groups (A B : ITier Int) (hA : A.WF) (hB : B.WF) :
    ∃ R, A.union B = .ok R ∧ R.WF ∧ R.name = A.name ∧ R.es = B.es.foldl mergeStep A.es ∧
      ∃ β G, GInv β R.es G ∧ G.flatten.Perm (A.es ++ B.es) := by
  obtain ⟨R, e, w, n, hes⟩ := union_eq_fold A B hA hB
  obtain ⟨β', G', inv', p'⟩ := group_fold B.es hB.pos hB.disj A.es hA.pos hA.disj B.lo hB.inLo _
    (ginv_init B.lo A.es hA.pos)
  refine ⟨R, e, w, n, hes, β', G', by rw [hes]; exact inv', ?_⟩
  have : (A.es.map (fun m => [m])).flatten = A.es := by
    induction A.es with
    | nil => rfl
    | cons a as ih => simp [ih]
  rw [this] at p'
  exact p'

/-- every entry of the union is the fusion of its members, which form a connected cluster -/
theorem union_members (A B : ITier Int) (hA : A.WF) (hB : B.WF) :
    ∃ R, A.union B = .ok R ∧ R.WF ∧ R.name = A.name ∧ R.es = B.es.foldl mergeStep A.es ∧
      (∀ z ∈ R.es, members A B z ≠ [] ∧ z = fuse (members A B z) ∧
        (∀ t, z.s < t → t < z.e → ∃ m ∈ members A B z, m.s < t ∧ t < m.e)) ∧
      (∀ m, m ∈ A.es ∨ m ∈ B.es → ∃ z ∈ R.es, z.s ≤ m.s ∧ m.e ≤ z.e) := by
  obtain ⟨R, e, w, n, hes, β, G, inv, p⟩ := union_groups A B hA hB
  have hpw : G.Pairwise (fun g g' => (fuse g).e ≤ (fuse g').s) := by
    have := w.disj
    rw [inv.es_eq] at this
    unfold Disj at this
    rw [List.pairwise_map] at this
    exact this
  have hgrp : ∀ g ∈ G, members A B (fuse g) = g := by
    intro g hg
    have h1 := filter_flatten_group G hpw inv.ne inv.mpos g hg
    have h2 : g.Perm ((A.es ++ B.es).filter (inside (fuse g))) := by
      have := p.filter (inside (fuse g)); rw [h1] at this; exact this
    exact sortIvs_eq_of_perm (inv.sorted g hg) h2
  refine ⟨R, e, w, n, hes, ?_, ?_⟩
  · intro z hz
    rw [inv.es_eq] at hz
    obtain ⟨g, hg, rfl⟩ := List.mem_map.1 hz
    rw [hgrp g hg]
    exact ⟨inv.ne g hg, rfl, inv.conn g hg⟩
  · intro m hm
    have hm' : m ∈ G.flatten := p.mem_iff.2 (List.mem_append.2 hm)
    obtain ⟨g, hg, hmg⟩ := List.mem_flatten.1 hm'
    have hH := fuse_hull g (inv.ne g hg)
    exact ⟨fuse g, by rw [inv.es_eq]; exact List.mem_map_of_mem hg, hH.lo_le m hmg, hH.hi_ge m hmg⟩

/-- the label of every entry of the union, in terms of `members` -/
theorem union_label_members (A B : ITier Int) (hA : A.WF) (hB : B.WF) :
    ∃ R, A.union B = .ok R ∧ ∀ z ∈ R.es,
      members A B z ≠ [] ∧
      z.l = pyJoin "-" ((members A B z).map (·.l)) ∧
      Hull z (members A B z) ∧
      Sorted (members A B z) := by
  obtain ⟨R, e, _, _, _, h, _⟩ := union_members A B hA hB
  refine ⟨R, e, ?_⟩
  intro z hz
  obtain ⟨h1, h2, _⟩ := h z hz
  refine ⟨h1, ?_, ?_, sortIvs_pairwise _⟩
  · conv => lhs; rw [h2]
    exact fuse_label _
  · conv => lhs; rw [h2]
    exact fuse_hull _ h1

/-- **(4) label of a fused entry, any number of successive merges** (self-contained statement).  For well-formed `A`,
`B` and EVERY entry `z` of `A.union B`: let `ms` be the entries of `A` and of `B` that lie inside `z`, in tuple order
(`sortIvs`: start time, ties by end time, then by label).  Then `ms` is not empty, `z.l` is the `-`-join of their
labels in that order, and `z` spans exactly their hull.  Although the fold joins the labels of the CURRENT entries at
each merge (an already fused `a-b1` is ONE label when `b2` arrives), the result is the flat join of all original
labels, because `B`'s entries arrive in time order: a fused entry always starts before whatever is merged with it
next.  In particular the joined labels are always in (weak) start-time order — "joins the fused labels in time
order" holds for all well-formed operands; on equal start times the entry that ends first comes first, on equal
extents the smaller label, whichever tier it is from (`union_label_tie_example`). -/
theorem union_label_cluster (A B : ITier Int) (hA : A.WF) (hB : B.WF) :
    ∃ R, A.union B = .ok R ∧ ∀ z ∈ R.es,
      ∃ ms, ms = sortIvs ((A.es ++ B.es).filter fun m => decide (z.s ≤ m.s) && decide (m.e ≤ z.e)) ∧
        ms ≠ [] ∧
        z.l = pyJoin "-" (ms.map (·.l)) ∧
        (∀ m ∈ ms, z.s ≤ m.s ∧ m.e ≤ z.e) ∧ (∃ m ∈ ms, m.s = z.s) ∧ (∃ m ∈ ms, m.e = z.e) ∧
        ms.Pairwise (fun m m' => Iv.le m m' = true) ∧
        ms.Pairwise (fun m m' => m.s ≤ m'.s) := by
  obtain ⟨R, e, h⟩ := union_label_members A B hA hB
  refine ⟨R, e, ?_⟩
  intro z hz
  obtain ⟨h1, h2, h3, h4⟩ := h z hz
  exact ⟨members A B z, rfl, h1, h2, fun m hm => ⟨h3.lo_le m hm, h3.hi_ge m hm⟩, h3.lo_mem, h3.hi_mem, h4,
    h4.imp (fun h => Iv.le_start h)⟩

/-- **"in time order" holds in general**: the labels joined into an entry of the union belong to entries with
non-decreasing start times — there is no well-formed counterexample -/
theorem union_label_time_order (A B : ITier Int) (hA : A.WF) (hB : B.WF) :
    ∃ R, A.union B = .ok R ∧ ∀ z ∈ R.es,
      z.l = pyJoin "-" ((members A B z).map (·.l)) ∧
      (members A B z).Pairwise (fun m m' => m.s ≤ m'.s) := by
  obtain ⟨R, e, h⟩ := union_label_members A B hA hB
  refine ⟨R, e, ?_⟩
  intro z hz
  obtain ⟨_, h2, _, h4⟩ := h z hz
  exact ⟨h2, h4.imp (fun h => Iv.le_start h)⟩

/-- the exact entries of the union, in terms of `inside` and `Hull` -/
theorem union_entries_aux (A B : ITier Int) (hA : A.WF) (hB : B.WF) :
    ∃ R, A.union B = .ok R ∧ R.WF ∧ R.name = A.name ∧
      R.es = B.es.foldl mergeStep A.es ∧
      (∀ z ∈ R.es,
        A.es.filter (inside z) ++ B.es.filter (inside z) ≠ [] ∧
        Hull z (A.es.filter (inside z) ++ B.es.filter (inside z)) ∧
        (∀ t, z.s < t → t < z.e → ∃ m ∈ A.es.filter (inside z) ++ B.es.filter (inside z), m.s < t ∧ t < m.e) ∧
        (∀ m, m ∈ A.es ∨ m ∈ B.es → m.s < z.e → z.s < m.e → m ∈ A.es.filter (inside z) ++ B.es.filter (inside z))) ∧
      (∀ m, m ∈ A.es ∨ m ∈ B.es → ∃ z ∈ R.es, z.s ≤ m.s ∧ m.e ≤ z.e) := by
  obtain ⟨R, e, w, n, hes, h, hin⟩ := union_members A B hA hB
  refine ⟨R, e, w, n, hes, ?_, hin⟩
  intro z hz
  obtain ⟨h1, h2, h3⟩ := h z hz
  have hmem : ∀ m, m ∈ members A B z ↔ m ∈ A.es.filter (inside z) ++ B.es.filter (inside z) := by
    intro m; rw [← List.filter_append]; exact mem_sortIvs
  have hH := fuse_hull _ h1
  rw [← h2] at hH
  refine ⟨?_, ?_, ?_, ?_⟩
  · intro hnil
    apply h1
    unfold members
    rw [List.filter_append, hnil]; simp [sortIvs]
  · refine ⟨?_, ?_, ?_, ?_⟩
    · intro m hm; exact hH.lo_le m ((hmem m).2 hm)
    · obtain ⟨m, hm, e'⟩ := hH.lo_mem; exact ⟨m, (hmem m).1 hm, e'⟩
    · intro m hm; exact hH.hi_ge m ((hmem m).2 hm)
    · obtain ⟨m, hm, e'⟩ := hH.hi_mem; exact ⟨m, (hmem m).1 hm, e'⟩
  · intro t t1 t2
    obtain ⟨m, hm, hm2⟩ := h3 t t1 t2
    exact ⟨m, (hmem m).1 hm, hm2⟩
  · intro m hm o1 o2
    obtain ⟨z', hz', i1, i2⟩ := hin m hm
    have hzz : z' = z := by
      apply Classical.byContradiction
      intro hne
      have := setDisj_mem w.disj.setDisj z' hz' z hz hne
      omega
    subst hzz
    rw [← hmem, mem_members]
    exact ⟨hm, i1, i2⟩

/-- **(2) the exact entries of the union** (self-contained statement).  `R.es` is the fold of the pure step `mergeStep`
over `B`'s entries (in `B`'s order) starting from `A`'s entries, where
`mergeStep es x = es.filter (·.e ≤ x.s) ++ [mergedIv (sortIvs (es.filter (overlaps x) ++ [x])) x] ++ es.filter (x.e ≤ ·.s)`
(the entries ending at or before `x` starts; ONE entry fusing `x` with every entry it overlaps — extent = hull, label =
join in tuple order; the entries starting at or after `x` ends).  And every entry `z` of the union is described by the
entries `as` of `A` and `bs` of `B` that lie inside it: there is at least one; `z` spans exactly their hull (all inside,
earliest start and latest end attained); they form ONE overlap-connected cluster (every time strictly inside `z` is
strictly inside one of them — merely touching entries are never fused); the cluster is maximal (every entry of `A` or
`B` that overlaps `z` is one of them).  Finally every entry of `A` and `B` lies inside an entry of the union (and is
kept as it is when it overlaps nothing of the other tier: `union_kept`). -/
theorem union_entries (A B : ITier Int) (hA : A.WF) (hB : B.WF) :
    ∃ R, A.union B = .ok R ∧ R.WF ∧ R.name = A.name ∧
      R.es = B.es.foldl mergeStep A.es ∧
      (∀ z ∈ R.es, ∃ as bs,
        as = A.es.filter (fun m => decide (z.s ≤ m.s) && decide (m.e ≤ z.e)) ∧
        bs = B.es.filter (fun m => decide (z.s ≤ m.s) && decide (m.e ≤ z.e)) ∧
        as ++ bs ≠ [] ∧
        (∀ m ∈ as ++ bs, z.s ≤ m.s ∧ m.e ≤ z.e) ∧ (∃ m ∈ as ++ bs, m.s = z.s) ∧ (∃ m ∈ as ++ bs, m.e = z.e) ∧
        (∀ t, z.s < t → t < z.e → ∃ m ∈ as ++ bs, m.s < t ∧ t < m.e) ∧
        (∀ m, m ∈ A.es ∨ m ∈ B.es → m.s < z.e → z.s < m.e → m ∈ as ++ bs)) ∧
      (∀ m, m ∈ A.es ∨ m ∈ B.es → ∃ z ∈ R.es, z.s ≤ m.s ∧ m.e ≤ z.e) := by
  obtain ⟨R, e, w, n, hes, h, hin⟩ := union_entries_aux A B hA hB
  refine ⟨R, e, w, n, hes, ?_, hin⟩
  intro z hz
  obtain ⟨h1, h2, h3, h4⟩ := h z hz
  exact ⟨A.es.filter (inside z), B.es.filter (inside z), rfl, rfl, h1,
    fun m hm => ⟨h2.lo_le m hm, h2.hi_ge m hm⟩, h2.lo_mem, h2.hi_mem, h3, h4⟩

theorem filter_eq_singleton {l : List (Iv Int)} (hnd : l.Nodup) {a : Iv Int} (ha : a ∈ l) (p : Iv Int → Bool)
    (hpa : p a = true) (h : ∀ y ∈ l, p y = true → y = a) : l.filter p = [a] := by
  apply List.perm_singleton.1
  refine (List.perm_ext_iff_of_nodup (hnd.filter p) (by simp)).2 ?_
  intro y
  simp only [List.mem_filter, List.mem_singleton]
  constructor
  · rintro ⟨h1, h2⟩; exact h y h1 h2
  · rintro rfl; exact ⟨ha, hpa⟩

/-- an entry `m` of one tier (`own`) that overlaps nothing of the other tier, inside a connected cluster `z`: the
cluster is `m` alone -/
theorem kept_aux (own other : List (Iv Int)) (hpo : Pos own) (hdo : Disj own) (hpq : Pos other)
    (m : Iv Int) (hm : m ∈ own) (hfree : ∀ q ∈ other, ¬ (max m.s q.s < min m.e q.e))
    (z : Iv Int) (i1 : z.s ≤ m.s) (i2 : m.e ≤ z.e)
    (hconn : ∀ t, z.s < t → t < z.e → ∃ k, (k ∈ own ∨ k ∈ other) ∧ k.s < t ∧ t < k.e) :
    own.filter (inside z) = [m] ∧ other.filter (inside z) = [] ∧ z.s = m.s ∧ z.e = m.e := by
  have hdis := setDisj_mem hdo.setDisj
  have hpm := hpo m hm
  have hs : z.s = m.s := by
    apply Classical.byContradiction
    intro hne
    obtain ⟨k, hk, k1, k2⟩ := hconn m.s (by omega) (by omega)
    rcases hk with h' | h'
    · have hkm : k ≠ m := by intro e'; subst e'; omega
      have := hdis k h' m hm hkm; omega
    · have := hfree k h'; have := hpq k h'; omega
  have he : z.e = m.e := by
    apply Classical.byContradiction
    intro hne
    obtain ⟨k, hk, k1, k2⟩ := hconn m.e (by omega) (by omega)
    rcases hk with h' | h'
    · have hkm : k ≠ m := by intro e'; subst e'; omega
      have := hdis k h' m hm hkm; omega
    · have := hfree k h'; have := hpq k h'; omega
  refine ⟨?_, ?_, hs, he⟩
  · apply filter_eq_singleton (nodup_of_wf own hpo hdo.setDisj) hm
    · simp [inside, i1, i2]
    · intro y hy hin
      simp only [inside, Bool.and_eq_true, decide_eq_true_eq] at hin
      apply Classical.byContradiction
      intro hne
      have := hdis y hy m hm hne
      have := hpo y hy
      omega
  · apply List.filter_eq_nil_iff.2
    intro y hy hin
    simp only [inside, Bool.and_eq_true, decide_eq_true_eq] at hin
    have := hfree y hy
    have := hpq y hy
    omega

/-- an entry that overlaps nothing of the other tier is kept as it is -/
theorem union_kept (A B : ITier Int) (hA : A.WF) (hB : B.WF) :
    ∃ R, A.union B = .ok R ∧
      (∀ a ∈ A.es, (∀ b ∈ B.es, ¬ (max a.s b.s < min a.e b.e)) → a ∈ R.es) ∧
      (∀ b ∈ B.es, (∀ a ∈ A.es, ¬ (max a.s b.s < min a.e b.e)) → b ∈ R.es) := by
  obtain ⟨R, e, w, _, _, h, hin⟩ := union_members A B hA hB
  refine ⟨R, e, ?_, ?_⟩
  · intro a ha hfree
    obtain ⟨z, hz, i1, i2⟩ := hin a (Or.inl ha)
    obtain ⟨h1, h2, h3⟩ := h z hz
    obtain ⟨k1, k2, _, _⟩ := kept_aux A.es B.es hA.pos hA.disj hB.pos a ha hfree z i1 i2 (by
      intro t t1 t2
      obtain ⟨k, hk, hk2⟩ := h3 t t1 t2
      exact ⟨k, ((mem_members A B z k).1 hk).1, hk2⟩)
    have : members A B z = [a] := by
      unfold members; rw [List.filter_append, k1, k2]; simp [sortIvs]
    rw [this, fuse_singleton] at h2
    rw [← h2]; exact hz
  · intro b hb hfree
    obtain ⟨z, hz, i1, i2⟩ := hin b (Or.inr hb)
    obtain ⟨h1, h2, h3⟩ := h z hz
    obtain ⟨k1, k2, _, _⟩ := kept_aux B.es A.es hB.pos hB.disj hA.pos b hb
      (fun q hq => by have := hfree q hq; omega) z i1 i2 (by
      intro t t1 t2
      obtain ⟨k, hk, hk2⟩ := h3 t t1 t2
      exact ⟨k, ((mem_members A B z k).1 hk).1.symm, hk2⟩)
    have : members A B z = [b] := by
      unfold members; rw [List.filter_append, k1, k2]; simp [sortIvs]
    rw [this, fuse_singleton] at h2
    rw [← h2]; exact hz

/-- **(3) the common case**: `a ∈ A` and `b ∈ B` overlap each other and nothing else overlaps either.  The union then
holds the entry spanning both, labelled with the two labels in tuple order: the earlier start first; on equal starts
the earlier end first; on equal extents the smaller label first — whichever tier it comes from. -/
theorem union_label_two (A B : ITier Int) (hA : A.WF) (hB : B.WF) (a b : Iv Int) (ha : a ∈ A.es) (hb : b ∈ B.es)
    (hov : max a.s b.s < min a.e b.e)
    (hA' : ∀ a' ∈ A.es, a' ≠ a → ¬ (max a'.s b.s < min a'.e b.e))
    (hB' : ∀ b' ∈ B.es, b' ≠ b → ¬ (max a.s b'.s < min a.e b'.e)) :
    ∃ R, A.union B = .ok R ∧
      (⟨min a.s b.s, max a.e b.e,
        if Iv.le a b = true then pyJoin "-" [a.l, b.l] else pyJoin "-" [b.l, a.l]⟩ : Iv Int) ∈ R.es := by
  obtain ⟨R, e, w, _, _, h, hin⟩ := union_members A B hA hB
  refine ⟨R, e, ?_⟩
  have hdA := setDisj_mem hA.disj.setDisj
  have hdB := setDisj_mem hB.disj.setDisj
  have hpa := hA.pos a ha
  have hpb := hB.pos b hb
  obtain ⟨z, hz, i1, i2⟩ := hin a (Or.inl ha)
  obtain ⟨z2, hz2, j1, j2⟩ := hin b (Or.inr hb)
  have hzz : z2 = z := by
    apply Classical.byContradiction
    intro hne
    have := setDisj_mem w.disj.setDisj z2 hz2 z hz hne
    omega
  subst hzz
  obtain ⟨h1, h2, h3⟩ := h z2 hz
  -- the cluster does not reach beyond a and b
  have hs : z2.s = min a.s b.s := by
    apply Classical.byContradiction
    intro hne
    obtain ⟨k, hk, k1, k2⟩ := h3 (min a.s b.s) (by omega) (by omega)
    rcases ((mem_members A B z2 k).1 hk).1 with h' | h'
    · have hka : k ≠ a := by intro e'; subst e'; omega
      have := hdA k h' a ha hka
      have := hA' k h' hka
      have := hA.pos k h'
      omega
    · have hkb : k ≠ b := by intro e'; subst e'; omega
      have := hdB k h' b hb hkb
      have := hB' k h' hkb
      have := hB.pos k h'
      omega
  have he : z2.e = max a.e b.e := by
    apply Classical.byContradiction
    intro hne
    obtain ⟨k, hk, k1, k2⟩ := h3 (max a.e b.e) (by omega) (by omega)
    rcases ((mem_members A B z2 k).1 hk).1 with h' | h'
    · have hka : k ≠ a := by intro e'; subst e'; omega
      have := hdA k h' a ha hka
      have := hA' k h' hka
      have := hA.pos k h'
      omega
    · have hkb : k ≠ b := by intro e'; subst e'; omega
      have := hdB k h' b hb hkb
      have := hB' k h' hkb
      have := hB.pos k h'
      omega
  have fA : A.es.filter (inside z2) = [a] := by
    apply filter_eq_singleton (nodup_of_wf A.es hA.pos hA.disj.setDisj) ha
    · simp [inside, i1, i2]
    · intro y hy hin'
      simp only [inside, Bool.and_eq_true, decide_eq_true_eq] at hin'
      apply Classical.byContradiction
      intro hne
      have := hdA y hy a ha hne
      have := hA' y hy hne
      have := hA.pos y hy
      omega
  have fB : B.es.filter (inside z2) = [b] := by
    apply filter_eq_singleton (nodup_of_wf B.es hB.pos hB.disj.setDisj) hb
    · simp [inside, j1, j2]
    · intro y hy hin'
      simp only [inside, Bool.and_eq_true, decide_eq_true_eq] at hin'
      apply Classical.byContradiction
      intro hne
      have := hdB y hy b hb hne
      have := hB' y hy hne
      have := hB.pos y hy
      omega
  have hmem : members A B z2 = if Iv.le a b = true then [a, b] else [b, a] := by
    unfold members
    rw [List.filter_append, fA, fB]
    split
    · rename_i hle
      exact sortIvs_eq_of_perm (by simp [hle]) (List.Perm.refl _)
    · rename_i hle
      have hba : Iv.le b a = true := by
        have := Iv.le_total' a b
        simp only [Bool.or_eq_true] at this
        rcases this with h' | h'
        · exact absurd h' hle
        · exact h'
      exact sortIvs_eq_of_perm (by simp [hba]) (List.Perm.swap a b [])
  have hl : z2.l = if Iv.le a b = true then pyJoin "-" [a.l, b.l] else pyJoin "-" [b.l, a.l] := by
    conv => lhs; rw [h2]
    rw [fuse_label, hmem]
    split <;> rfl
  have : z2 = ⟨min a.s b.s, max a.e b.e,
      if Iv.le a b = true then pyJoin "-" [a.l, b.l] else pyJoin "-" [b.l, a.l]⟩ := by
    obtain ⟨s, e', l⟩ := z2
    simp only at hs he hl
    rw [hs, he, hl]
  rw [← this]; exact hz

/-! ## examples (replayed on /repo with `IntervalTier.union`; see the comment at each) -/

/-! several successive merges: `b1` fuses `a`, then `b2` overlaps the grown entry and two more entries of `A`; the
label is the flat join in start order (real code: `[(0.0, 10.0, 'a-b1-b2-a2-a3')]`) -/
def exE : ITier Int := ⟨"A", [⟨0, 5, "a"⟩, ⟨6, 8, "a2"⟩, ⟨9, 10, "a3"⟩], 0, 100⟩
def exF : ITier Int := ⟨"B", [⟨1, 2, "b1"⟩, ⟨4, 10, "b2"⟩], 0, 100⟩
theorem exE_wf : exE.WF := by
  refine ⟨?_, ?_, ?_, ?_, ?_, ?_⟩ <;> simp [exE, Pos, Disj, Stripped] <;> decide
theorem exF_wf : exF.WF := by
  refine ⟨?_, ?_, ?_, ?_, ?_, ?_⟩ <;> simp [exF, Pos, Disj, Stripped] <;> decide
#guard (exE.union exF).toOption.map (·.es) == some [⟨0, 10, "a-b1-b2-a2-a3"⟩]
#guard members exE exF ⟨0, 10, "a-b1-b2-a2-a3"⟩ == [⟨0, 5, "a"⟩, ⟨1, 2, "b1"⟩, ⟨4, 10, "b2"⟩, ⟨6, 8, "a2"⟩, ⟨9, 10, "a3"⟩]
example := union_label_cluster exE exF exE_wf exF_wf

/-! an entry of `B` starting before the entry of `A` it overlaps, and one bridging two entries of `A`
(real code: `[(0.0, 12.0, 'b1-a-b2')]` and `[(0.0, 30.0, 'a-b-c')]`) -/
#guard ((⟨"A", [⟨5, 10, "a"⟩], 0, 100⟩ : ITier Int).union ⟨"B", [⟨0, 6, "b1"⟩, ⟨7, 12, "b2"⟩], 0, 100⟩).toOption.map (·.es)
  == some [⟨0, 12, "b1-a-b2"⟩]
#guard ((⟨"A", [⟨0, 10, "a"⟩, ⟨20, 30, "c"⟩], 0, 100⟩ : ITier Int).union ⟨"B", [⟨5, 25, "b"⟩], 0, 100⟩).toOption.map (·.es)
  == some [⟨0, 30, "a-b-c"⟩]

def exT1 : ITier Int := ⟨"A", [⟨0, 5, "z"⟩], 0, 100⟩
def exT2 : ITier Int := ⟨"B", [⟨0, 3, "y"⟩], 0, 100⟩
def exT3 : ITier Int := ⟨"A", [⟨0, 5, "x"⟩], 0, 100⟩
def exT4 : ITier Int := ⟨"B", [⟨0, 5, "d"⟩], 0, 100⟩
theorem exT1_wf : exT1.WF := by
  refine ⟨?_, ?_, ?_, ?_, ?_, ?_⟩ <;> simp [exT1, Pos, Disj, Stripped] <;> decide
theorem exT2_wf : exT2.WF := by
  refine ⟨?_, ?_, ?_, ?_, ?_, ?_⟩ <;> simp [exT2, Pos, Disj, Stripped] <;> decide
theorem exT3_wf : exT3.WF := by
  refine ⟨?_, ?_, ?_, ?_, ?_, ?_⟩ <;> simp [exT3, Pos, Disj, Stripped] <;> decide
theorem exT4_wf : exT4.WF := by
  refine ⟨?_, ?_, ?_, ?_, ?_, ?_⟩ <;> simp [exT4, Pos, Disj, Stripped] <;> decide

/-- **ties**: equal start times — the entry that ends first comes first; equal extents — the smaller label comes
first; in both cases `B`'s label precedes `A`'s here (real code: `IntervalTier('A',[(0,5,'z')],0,100).union(
IntervalTier('B',[(0,3,'y')],0,100))` has `[(0.0, 5.0, 'y-z')]`; with `(0,5,'x')` and `(0,5,'d')`: `[(0.0, 5.0, 'd-x')]`).
The labels are still in (weak) start-time order. -/
theorem union_label_tie_example :
    (∃ R, exT1.union exT2 = .ok R ∧ (⟨0, 5, "y-z"⟩ : Iv Int) ∈ R.es) ∧
    (∃ R, exT3.union exT4 = .ok R ∧ (⟨0, 5, "d-x"⟩ : Iv Int) ∈ R.es) := by
  constructor
  · obtain ⟨R, e, h⟩ := union_label_two exT1 exT2 exT1_wf exT2_wf ⟨0, 5, "z"⟩ ⟨0, 3, "y"⟩ (by simp [exT1]) (by simp [exT2])
      (by decide) (by intro a' ha' hne; simp [exT1] at ha'; exact absurd ha' hne)
      (by intro b' hb' hne; simp [exT2] at hb'; exact absurd hb' hne)
    refine ⟨R, e, ?_⟩
    have : (⟨min (0 : Int) 0, max (5 : Int) 3,
        if Iv.le (⟨0, 5, "z"⟩ : Iv Int) ⟨0, 3, "y"⟩ = true then pyJoin "-" ["z", "y"] else pyJoin "-" ["y", "z"]⟩ : Iv Int)
        = ⟨0, 5, "y-z"⟩ := by decide
    rw [← this]; exact h
  · obtain ⟨R, e, h⟩ := union_label_two exT3 exT4 exT3_wf exT4_wf ⟨0, 5, "x"⟩ ⟨0, 5, "d"⟩ (by simp [exT3]) (by simp [exT4])
      (by decide) (by intro a' ha' hne; simp [exT3] at ha'; exact absurd ha' hne)
      (by intro b' hb' hne; simp [exT4] at hb'; exact absurd hb' hne)
    refine ⟨R, e, ?_⟩
    have : (⟨min (0 : Int) 0, max (5 : Int) 5,
        if Iv.le (⟨0, 5, "x"⟩ : Iv Int) ⟨0, 5, "d"⟩ = true then pyJoin "-" ["x", "d"] else pyJoin "-" ["d", "x"]⟩ : Iv Int)
        = ⟨0, 5, "d-x"⟩ := by decide
    rw [← this]; exact h
#guard (exT1.union exT2).toOption.map (·.es) == some [⟨0, 5, "y-z"⟩]
#guard (exT3.union exT4).toOption.map (·.es) == some [⟨0, 5, "d-x"⟩]

end C10
