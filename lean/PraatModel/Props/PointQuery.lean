import PraatModel.PointQuery

/-!
# PointObject.getPointsInInterval — theorems (registered under C15: "exactly the samples with start ≤ t ≤ end")
-/
namespace PointQuery

def inWin (a b : Int) (t : Int) : Bool := decide (a ≤ t) && decide (t ≤ b)
/-- the element at which the loop stops: not before `start`, beyond `end` -/
def stops (a b : Int) (t : Int) : Bool := decide (a ≤ t) && !decide (t ≤ b)

/-- **closed form for ANY point list** (sorted or not): the times inside the window among the elements BEFORE the first
one that lies beyond `end` (and not before `start`) -/
theorem pointsGo_eq (a b : Int) (l : List Int) :
    pointsGo a b l = (l.takeWhile fun t => !stops a b t).filter (inWin a b) := by
  induction l with
  | nil => rfl
  | cons t rest ih =>
    simp only [pointsGo]
    by_cases h1 : a ≤ t
    · by_cases h2 : t ≤ b
      · simp [h1, h2, ih, stops, inWin, List.takeWhile_cons, List.filter_cons]
      · simp [h1, h2, stops, List.takeWhile_cons]
    · simp [h1, ih, stops, inWin, List.takeWhile_cons, List.filter_cons]

/-- whatever the list: every returned time comes from `pointList[startIndex:]`, in order, and lies in `[start, end]` -/
theorem points_sound (times : List Int) (a b : Int) (i : Int) :
    (getPointsInInterval times a b i).Sublist (pySliceFrom times i) ∧
    ∀ t ∈ getPointsInInterval times a b i, a ≤ t ∧ t ≤ b := by
  unfold getPointsInInterval
  rw [pointsGo_eq]
  constructor
  · exact (List.filter_sublist).trans (List.takeWhile_sublist _)
  · intro t ht
    have := (List.mem_filter.1 ht).2
    simpa [inWin] using this

theorem pointsGo_sorted (a b : Int) (l : List Int) (hs : l.Pairwise (· ≤ ·)) :
    pointsGo a b l = l.filter (inWin a b) := by
  induction l with
  | nil => rfl
  | cons t rest ih =>
    obtain ⟨h0, hs'⟩ := List.pairwise_cons.1 hs
    simp only [pointsGo]
    by_cases h1 : a ≤ t
    · by_cases h2 : t ≤ b
      · simp [h1, h2, ih hs', inWin, List.filter_cons]
      · have : rest.filter (inWin a b) = [] := by
          apply List.filter_eq_nil_iff.2
          intro u hu
          have := h0 u hu
          simp [inWin]; omega
        simp [h1, h2, inWin, List.filter_cons, this]
    · simp [h1, ih hs', inWin, List.filter_cons]

theorem drop_pairwise {l : List Int} (h : l.Pairwise (· ≤ ·)) (k : Nat) : (l.drop k).Pairwise (· ≤ ·) :=
  h.sublist (List.drop_sublist k l)

/-- **sorted point list (what Praat writes): exactly the times `t` with `start ≤ t ≤ end` among
`pointList[startIndex:]`, in order, ties kept** -/
theorem points_sorted_spec (times : List Int) (hs : times.Pairwise (· ≤ ·)) (a b : Int) (i : Int) :
    getPointsInInterval times a b i = (pySliceFrom times i).filter (inWin a b) := by
  unfold getPointsInInterval
  apply pointsGo_sorted
  unfold pySliceFrom
  split <;> exact drop_pairwise hs _

/-- the slice: a non-negative index drops that many points, a negative one keeps that many from the end -/
theorem pySliceFrom_spec {β} (l : List β) (i : Int) :
    (0 ≤ i → pySliceFrom l i = l.drop i.toNat) ∧ (i < 0 → pySliceFrom l i = l.drop (l.length - i.natAbs)) := by
  unfold pySliceFrom
  constructor
  · intro h; rw [if_neg (by omega)]
  · intro h; rw [if_pos h]

/-- **unsorted list — counter-example** (neither the `PointObject` constructors nor `open1DPointObject` /
`open2DPointObject` sort or check the order): the early `break` hides points that follow a later time.
`PointObject1D([(5,),(1,),(2,)], 'PointProcess').getPointsInInterval(0, 3)` returns `[]` although 1 and 2 lie in `[0, 3]`. -/
theorem points_unsorted_counterexample :
    getPointsInInterval [5, 1, 2] (0 : Int) 3 0 = [] ∧ ([5, 1, 2] : List Int).filter (inWin 0 3) = [1, 2] := by
  decide

/-- a concrete sorted list with a tie and points on both window edges meets the hypothesis of `points_sorted_spec` -/
theorem points_example : ([1, 2, 2, 3, 5] : List Int).Pairwise (· ≤ ·) ∧
    getPointsInInterval [1, 2, 2, 3, 5] (2 : Int) 3 (-4) = [2, 2, 3] := by
  decide

end PointQuery
