import PraatModel.Props.C08
import PraatModel.Props.C09
import PraatModel.Props.C10
import PraatModel.Props.C14
import PraatModel.Props.C15

/-!
# C05 — every reachable tier is well-formed

The constructors validate, so every operation that returns through a constructor returns a well-formed tier — for
ANY input, well-formed or not (`construct_wf`).  The in-place operations (insertEntry, deleteEntry and what is built
from them: eraseRegion without shrinking, union, difference) preserve well-formedness (C07/C10/C11) — with no
separation hypothesis: they only delete members of the tier, which `deleteEntry` (exact match first) removes exactly;
a `deleteEntry` of an absent entry removes at most one entry, which keeps a well-formed tier well-formed.
`reachable_wf` lifts this to operation sequences of any length.  `eraseRegion` has no side condition (`OpOk` is `True`
for it) since fix A28: shrinking clips the region to the span, so the result is well-formed for every region
(`C07.erase_wf_any`; before the fix an entry-less tier could come back ending before its start).
-/
namespace C05

theorem pyMinList_le (l : List Int) (m : Int) (h : pyMinList l = some m) : ∀ x ∈ l, m ≤ x := by
  cases l with
  | nil => simp [pyMinList] at h
  | cons a as =>
    simp only [pyMinList, Option.some.injEq, foldl_pyMin2] at h
    intro x hx
    rcases List.mem_cons.1 hx with rfl | hx'
    · rw [← h]; exact (foldl_min_le as x).1
    · rw [← h]; exact (foldl_min_le as a).2 x hx'

theorem pyMaxList_ge (l : List Int) (m : Int) (h : pyMaxList l = some m) : ∀ x ∈ l, x ≤ m := by
  cases l with
  | nil => simp [pyMaxList] at h
  | cons a as =>
    simp only [pyMaxList, Option.some.injEq, foldl_pyMax2] at h
    intro x hx
    rcases List.mem_cons.1 hx with rfl | hx'
    · rw [← h]; exact (foldl_max_ge as x).1
    · rw [← h]; exact (foldl_max_ge as a).2 x hx'

theorem pyMinList_mem (l : List Int) (m : Int) (h : pyMinList l = some m) : m ∈ l := by
  cases l with
  | nil => simp [pyMinList] at h
  | cons a as =>
    simp only [pyMinList, Option.some.injEq, foldl_pyMin2] at h
    rcases foldl_min_mem as a with h' | h'
    · rw [← h, h']; simp
    · rw [← h]; exact List.mem_cons_of_mem _ h'

theorem pyMaxList_mem (l : List Int) (m : Int) (h : pyMaxList l = some m) : m ∈ l := by
  cases l with
  | nil => simp [pyMaxList] at h
  | cons a as =>
    simp only [pyMaxList, Option.some.injEq, foldl_pyMax2] at h
    rcases foldl_max_mem as a with h' | h'
    · rw [← h, h']; simp
    · rw [← h]; exact List.mem_cons_of_mem _ h'

theorem disj_of_adjacent (es : List (Iv Int)) (hp : Pos es) (h : ivsNoOverlap es = true) : Disj es := by
  induction es with
  | nil => simp [Disj]
  | cons x xs ih =>
    cases xs with
    | nil => simp [Disj]
    | cons y ys =>
      simp only [ivsNoOverlap, Bool.and_eq_true, Bool.not_eq_true', decide_eq_false_iff_not] at h
      have ih' := ih (pos_tail hp) h.2
      unfold Disj at *
      rw [List.pairwise_cons]
      refine ⟨?_, ih'⟩
      intro z hz
      rcases List.mem_cons.1 hz with rfl | hz'
      · omega
      · have := (List.pairwise_cons.1 ih').1 z hz'
        have := hp y (by simp)
        omega

/-- **constructor**: whatever entry list and labels are given, with a requested span that is not reversed (`hspan`:
if both `minT` and `maxT` are given then `minT ≤ maxT`), a tier that the IntervalTier
constructor returns is well-formed; and it refuses only with TextgridStateError or TimelessTextgridTierException.
`hspan` is NOT enforced by the code and matters exactly for an entry-less tier: see
`construct_reversed_span_counterexample` (with entries the hull of the entries repairs a reversed request:
`construct_wf_of_entries`). -/
theorem construct_wf (name : String) (es : List (Iv Int)) (lo hi : Option Int)
    (hspan : ∀ a b, lo = some a → hi = some b → a ≤ b) :
    (∀ t, mkITier name es lo hi = .ok t → t.WF) ∧
    (∀ e, mkITier name es lo hi = .error e → e = .TextgridStateError ∨ e = .Timeless) := by
  unfold mkITier
  generalize hes1 : sortIvs (es.map fun iv => { iv with l := pyStrip iv.l }) = es1
  have hstr : Stripped es1 := by
    intro y hy
    rw [← hes1, mem_sortIvs] at hy
    obtain ⟨iv, _, rfl⟩ := List.mem_map.1 hy
    exact pyStrip_idem _
  simp only
  cases hmin : pyMinList (es1.map (·.s) ++ lo.toList) with
  | none => constructor <;> intro _ h <;> simp at h <;> simp [h]
  | some mn =>
    cases hmax : pyMaxList (es1.map (·.e) ++ hi.toList) with
    | none => constructor <;> intro _ h <;> simp at h <;> simp [h]
    | some mx =>
      simp only
      by_cases hv : (ivsAllPos es1 && ivsNoOverlap es1) = true
      · simp only [hv, if_true]
        constructor
        · intro t ht
          simp only [Except.ok.injEq] at ht; subst ht
          simp only [Bool.and_eq_true] at hv
          have hpos := (ivsAllPos_iff es1).1 hv.1
          have hdisj := disj_of_adjacent es1 hpos hv.2
          have hlo := pyMinList_le _ _ hmin
          have hhi := pyMaxList_ge _ _ hmax
          refine ⟨hpos, hdisj, ?_, ?_, hstr, ?_⟩
          · intro iv hiv; exact hlo iv.s (List.mem_append_left _ (List.mem_map_of_mem hiv))
          · intro iv hiv; exact hhi iv.e (List.mem_append_left _ (List.mem_map_of_mem hiv))
          · simp only
            cases es1 with
            | nil =>
              have h1 := pyMinList_mem _ _ hmin
              have h2 := pyMaxList_mem _ _ hmax
              simp only [List.map_nil, List.nil_append, Option.mem_toList] at h1 h2
              exact hspan mn mx h1 h2
            | cons x xs =>
              have := hlo x.s (by simp)
              have := hhi x.e (by simp)
              have := hpos x (by simp)
              omega
        · intro e h; cases h
      · simp only [hv, Bool.false_eq_true, if_false]
        constructor
        · intro t h; cases h
        · intro e h; simp only [Except.error.injEq] at h; left; exact h.symm

/-- with at least one entry the requested span may be anything (also reversed): the span is the hull of the entries
and the requested bounds, and an entry has `start < end` -/
theorem construct_wf_of_entries (name : String) (es : List (Iv Int)) (lo hi : Option Int) (hne : es ≠ []) :
    ∀ t, mkITier name es lo hi = .ok t → t.WF := by
  intro t ht
  by_cases hspan : ∀ a b, lo = some a → hi = some b → a ≤ b
  · exact (construct_wf name es lo hi hspan).1 t ht
  · -- reversed request: same argument as in `construct_wf`, the last clause from an entry
    unfold mkITier at ht
    generalize hes1 : sortIvs (es.map fun iv => { iv with l := pyStrip iv.l }) = es1 at ht
    have hstr : Stripped es1 := by
      intro y hy
      rw [← hes1, mem_sortIvs] at hy
      obtain ⟨iv, _, rfl⟩ := List.mem_map.1 hy
      exact pyStrip_idem _
    have hne1 : es1 ≠ [] := by
      intro h
      have hl : es1.length = es.length := by rw [← hes1, (sortIvs_perm _).length_eq, List.length_map]
      rw [h] at hl
      exact hne (List.eq_nil_of_length_eq_zero hl.symm)
    simp only at ht
    cases hmin : pyMinList (es1.map (·.s) ++ lo.toList) with
    | none => rw [hmin] at ht; simp at ht
    | some mn =>
      cases hmax : pyMaxList (es1.map (·.e) ++ hi.toList) with
      | none => rw [hmin, hmax] at ht; simp at ht
      | some mx =>
        rw [hmin, hmax] at ht
        simp only at ht
        by_cases hv : (ivsAllPos es1 && ivsNoOverlap es1) = true
        · simp only [hv, if_true, Except.ok.injEq] at ht; subst ht
          simp only [Bool.and_eq_true] at hv
          have hpos := (ivsAllPos_iff es1).1 hv.1
          have hdisj := disj_of_adjacent es1 hpos hv.2
          have hlo := pyMinList_le _ _ hmin
          have hhi := pyMaxList_ge _ _ hmax
          refine ⟨hpos, hdisj, ?_, ?_, hstr, ?_⟩
          · intro iv hiv; exact hlo iv.s (List.mem_append_left _ (List.mem_map_of_mem hiv))
          · intro iv hiv; exact hhi iv.e (List.mem_append_left _ (List.mem_map_of_mem hiv))
          · simp only
            cases es1 with
            | nil => exact absurd rfl hne1
            | cons x xs =>
              have := hlo x.s (by simp)
              have := hhi x.e (by simp)
              have := hpos x (by simp)
              omega
        · simp only [hv, Bool.false_eq_true, if_false] at ht; cases ht

/-- **FINDING (replayed on the real class) — the excluded case of `hspan`.**  `IntervalTier('T', [], 5, 2)` (no entries,
`minT = 5 > maxT = 2`) is accepted: the tier has `minTimestamp = 5.0`, `maxTimestamp = 2.0` and `validate()` returns
True; likewise `tier.new(entries=[], minTimestamp=20)` on a tier ending at 10 returns a tier spanning `[20, 10]`.
The model does the same, and the result is not well-formed (`WF.span`: `lo ≤ hi`) — the same kind of object as in
finding A28 (`maxTimestamp < minTimestamp`).  Expected: a praatio error (as for any other request the constructor
cannot honour), or the bounds put in order as `PointTier('T', [], 5, 2)` does (it returns the span `[2, 5]`:
`mkPTier` takes `min`/`max` over one list).  With at least one entry the hull repairs the request
(`construct_wf_of_entries`; `IntervalTier('T', [(1,3,'a')], 5, 2)` spans `[1, 3]`). -/
theorem construct_reversed_span_counterexample :
    mkITier "T" ([] : List (Iv Int)) (some 5) (some 2) = .ok ⟨"T", [], 5, 2⟩ ∧
    ¬ (⟨"T", [], 5, 2⟩ : ITier Int).WF ∧ (⟨"T", [], 5, 2⟩ : ITier Int).validate = true ∧
    mkPTier "T" ([] : List (Pt Int)) (some 5) (some 2) = .ok ⟨"T", [], 2, 5⟩ ∧
    (⟨"T", [⟨1, 3, "a"⟩], 0, 10⟩ : ITier Int).new (es := some []) (lo := some 20) = .ok ⟨"T", [], 20, 10⟩ := by
  refine ⟨?_, ?_, ?_, ?_, ?_⟩
  · rw [mkITier_of_wf "T" [] 5 2 (by simp [Pos]) (by simp [Disj]) (by simp [Stripped])]; rfl
  · intro h
    have := h.span
    simp at this
  · simp [ITier.validate, ITier.validate.go]
  · rw [mkPTier_of_wf "T" [] 5 2 (by simp) (by simp)]; rfl
  · unfold ITier.new
    simp only [Option.getD_some, Option.getD_none]
    rw [mkITier_of_wf "T" [] 20 10 (by simp [Pos]) (by simp [Disj]) (by simp [Stripped])]; rfl

/-- the constructor applied through `tier.new(...)` / every operation that ends in it (`hspan`: as in `construct_wf`;
every operation of the library that ends in `new` passes a span that is in order — that is what `step_wf` shows) -/
theorem new_wf (t : ITier Int) (name : Option String) (es : Option (List (Iv Int))) (lo hi : Option Int)
    (hspan : (lo.getD t.lo) ≤ (hi.getD t.hi)) (t' : ITier Int) (h : t.new name es lo hi = .ok t') : t'.WF := by
  unfold ITier.new at h
  exact (construct_wf _ _ _ _ (by intro a b ha hb; cases ha; cases hb; exact hspan)).1 t' h

/-! ## operations on one tier (with well-formed second operands), and histories -/

inductive TOp
  | crop (a b : Int) (m : CropMode) (rebase : Bool)
  | erase (a b : Int) (m : EraseMode) (shrink : Bool)
  | space (s d : Int) (m : SpaceMode)
  | shift (o : Int) (rep : Report)
  | insert (x : Iv Int) (m : InsMode)
  | delete (x : Iv Int)
  | union (u : ITier Int)
  | difference (u : ITier Int)
  | intersection (u : ITier Int)
  | mergeLabels (u : ITier Int)
  | append (u : ITier Int)
  | dejitter (refs : List Int) (md : Int)
  | morph (u : ITier Int) (sel : String → Bool)
  | new

def stepT (t : ITier Int) : TOp → Except Err (ITier Int)
  | .crop a b m r => t.crop a b m r
  | .erase a b m sh => t.eraseRegion a b m sh
  | .space s d m => t.insertSpace s d m
  | .shift o rep => t.editTimestamps o rep
  | .insert x m => t.insertEntry x m
  | .delete x => t.deleteEntry x
  | .union u => t.union u
  | .difference u => t.difference u
  | .intersection u => t.intersection u
  | .mergeLabels u => t.mergeLabels u
  | .append u => t.appendTier u
  | .dejitter refs md => t.dejitter refs md
  | .morph u sel => t.morph u sel
  | .new => t.new

/-- side conditions under which a step is covered by the theorems (see lean/HYPOTHESES.md): second operands are
well-formed tiers (the property's own wording: "operations on well-formed tiers"; every tier object that can be passed
comes from a constructor); `insertSpace` is asked for a positive duration (the property's quantifier of C08);
`appendTier` works on non-negative times (NOT enforced by the code: `C09.append_negative_counterexample`).  There is no
condition on the tier's entries, on the inserted entry (any times, any label) and on `eraseRegion` / `insertSpace`
positions. -/
def OpOk (t : ITier Int) : TOp → Prop
  | .crop _ _ _ _ => True
  | .erase _ _ _ _ => True
  | .space _ d _ => 0 < d
  | .shift _ _ => True
  | .insert _ _ => True
  | .delete _ => True
  | .union u => u.WF
  | .difference u => u.WF
  | .intersection u => u.WF
  | .mergeLabels u => u.WF
  | .append u => u.WF ∧ 0 ≤ u.lo ∧ 0 ≤ t.hi
  | .dejitter _ _ => True
  | .morph u _ => u.WF
  | .new => True

theorem step_wf (t : ITier Int) (hwf : t.WF) (op : TOp) (hop : OpOk t op) (t' : ITier Int)
    (h : stepT t op = .ok t') : t'.WF := by
  cases op with
  | crop a b m r =>
    simp only [stepT] at h
    by_cases hab : a < b
    · cases r with
      | false => obtain ⟨t'', e, w, _⟩ := C06.crop_norebase t hwf a b hab m; rw [h] at e; cases e; exact w
      | true => obtain ⟨t'', e, w, _⟩ := C06.crop_rebase t hwf a b hab m; rw [h] at e; cases e; exact w
    · rw [C06.crop_rejects t a b m r (by omega)] at h; cases h
  | erase a b m sh =>
    simp only [stepT] at h
    exact C07.erase_wf_any t hwf a b m sh t' h
  | space s d m =>
    simp only [stepT] at h
    have hd : 0 < d := hop
    by_cases hm : m = .error → ∀ iv ∈ t.es, ¬ C08.Straddles s iv
    · obtain ⟨t'', e, w, _⟩ := C08.insert_spec t hwf s d hd m hm
      rw [h] at e; cases e; exact w
    · have hm' : m = .error ∧ ∃ iv ∈ t.es, C08.Straddles s iv := by
        apply Classical.byContradiction
        intro hc; apply hm; intro he iv hiv hs; exact hc ⟨he, iv, hiv, hs⟩
      obtain ⟨he, iv, hiv, hs⟩ := hm'
      subst he
      rw [C08.insert_error_mode t s d iv hiv hs] at h; cases h
  | shift o rep =>
    simp only [stepT] at h
    by_cases hr : rep = .error
    · subst hr
      by_cases hex : ∃ iv ∈ t.es, o + iv.s < t.lo ∨ t.hi < o + iv.e
      · rw [(C09.shift_error_mode t hwf o).1.2 hex] at h; cases h
      · rw [(C09.shift_error_mode t hwf o).2 (fun iv hiv hc => hex ⟨iv, hiv, hc⟩)] at h
        obtain ⟨t'', e, w, _⟩ := C09.shift_ok t hwf o .silence (by decide)
        rw [h] at e; cases e; exact w
    · obtain ⟨t'', e, w, _⟩ := C09.shift_ok t hwf o rep hr
      rw [h] at e; cases e; exact w
  | insert x m =>
    simp only [stepT] at h
    exact C11.step_wf t hwf (.insert x m) t' h
  | delete x =>
    simp only [stepT] at h
    exact C11.step_wf t hwf (.delete x) t' h
  | union u =>
    simp only [stepT] at h
    obtain ⟨R, e, w, _⟩ := C10.union_spec t u hwf hop
    rw [h] at e; cases e; exact w
  | difference u =>
    simp only [stepT] at h
    obtain ⟨R, e, w, _⟩ := C10.difference_spec t u hwf hop
    rw [h] at e; cases e; exact w
  | intersection u =>
    simp only [stepT] at h
    obtain ⟨R, e, w, _⟩ := C10.intersection_spec t u hwf hop
    rw [h] at e; cases e; exact w
  | mergeLabels u =>
    simp only [stepT] at h
    obtain ⟨R, e, w, _⟩ := C10.mergeLabels_spec t u hwf hop
    rw [h] at e; cases e; exact w
  | append u =>
    simp only [stepT] at h
    obtain ⟨hu, h1, h2⟩ := hop
    obtain ⟨R, e, w, _⟩ := C09.append_spec t u hwf hu h1 h2
    rw [h] at e; cases e; exact w
  | dejitter refs md =>
    simp only [stepT] at h
    exact C14.dejitter_ok_wf t hwf refs md t' h
  | morph u sel =>
    simp only [stepT] at h
    by_cases hl : t.es.length = u.es.length
    · by_cases hne : t.es = []
      · have hue : u.es = [] := by
          cases hu : u.es with
          | nil => rfl
          | cons a as => rw [hne, hu] at hl; simp at hl
        rw [C14.morph_empty_wf sel t u hwf hne hue] at h
        cases h; exact hwf
      · obtain ⟨t'', _, _, e, w, _⟩ := C14.morph_ok sel t u hwf hop hl hne
        rw [h] at e; cases e; exact w
    · rw [C14.morph_mismatch sel t u hl] at h; cases h
  | new =>
    simp only [stepT] at h
    rw [new_of_wf t hwf] at h; cases h; exact hwf

/-- a failing operation leaves the tier as it was -/
def run (t : ITier Int) : List TOp → ITier Int
  | [] => t
  | op :: ops => match stepT t op with
    | .ok t' => run t' ops
    | .error _ => run t ops

def Admissible : ITier Int → List TOp → Prop
  | _, [] => True
  | t, op :: ops => OpOk t op ∧ (∀ t', stepT t op = .ok t' → Admissible t' ops) ∧
      (∀ e, stepT t op = .error e → Admissible t ops)

/-- **every reachable tier is well-formed**: for operation sequences of ANY length (the bound 12 of the property
text is the harness's, not the theorem's) -/
theorem reachable_wf (t : ITier Int) (hwf : t.WF) (ops : List TOp) (h : Admissible t ops) : (run t ops).WF := by
  induction ops generalizing t with
  | nil => exact hwf
  | cons op ops ih =>
    obtain ⟨hop, h1, h2⟩ := h
    simp only [run]
    cases hs : stepT t op with
    | ok t' => exact ih t' (step_wf t hwf op hop t' hs) (h1 t' hs)
    | error e => exact ih t hwf (h2 e hs)

/-- `validate()` agrees with well-formedness -/
theorem validate_of_wf (t : ITier Int) (h : t.WF) : t.validate = true := C15.wf_validate t h

end C05
