import PraatModel.Props.C08
import PraatModel.Props.C09
import PraatModel.Props.C10
import PraatModel.Props.C14
import PraatModel.Props.C15

/-!
# C05 — every reachable tier is well-formed

The constructors validate, so every operation that returns through a constructor returns a well-formed tier — for
ANY input, well-formed or not (`construct_wf`).  The in-place operations (insertEntry, deleteEntry and what is built
from them: eraseRegion without shrinking, union, difference) preserve well-formedness (C07/C10/C11) — with no
separation hypothesis: they only delete members of the tier, which `deleteEntry` (exact match first) removes exactly;
a `deleteEntry` of an absent entry removes at most one entry, which keeps a well-formed tier well-formed.
`reachable_wf` lifts this to operation sequences of any length, with NO side condition on any operation (since fix
9432f3b the constructor never returns a tier with a reversed span; `OpOk` is gone).  `eraseRegion` has had none since fix A28: shrinking clips the region to the span, so the result is well-formed for every region
(`C07.erase_wf_any`; before the fix an entry-less tier could come back ending before its start).
-/
namespace C05

theorem pyMinList_le (l : List Int) (m : Int) (h : pyMinList l = some m) : ∀ x ∈ l, m ≤ x := by
  cases l with
  | nil => simp [pyMinList] at h
  | cons a as =>
    simp only [pyMinList, Option.some.injEq, foldl_pyMin2] at h
    intro x hx
    rcases List.mem_cons.1 hx with rfl | hx'
    · rw [← h]; exact (foldl_min_le as x).1
    · rw [← h]; exact (foldl_min_le as a).2 x hx'

theorem pyMaxList_ge (l : List Int) (m : Int) (h : pyMaxList l = some m) : ∀ x ∈ l, x ≤ m := by
  cases l with
  | nil => simp [pyMaxList] at h
  | cons a as =>
    simp only [pyMaxList, Option.some.injEq, foldl_pyMax2] at h
    intro x hx
    rcases List.mem_cons.1 hx with rfl | hx'
    · rw [← h]; exact (foldl_max_ge as x).1
    · rw [← h]; exact (foldl_max_ge as a).2 x hx'

theorem pyMinList_mem (l : List Int) (m : Int) (h : pyMinList l = some m) : m ∈ l := by
  cases l with
  | nil => simp [pyMinList] at h
  | cons a as =>
    simp only [pyMinList, Option.some.injEq, foldl_pyMin2] at h
    rcases foldl_min_mem as a with h' | h'
    · rw [← h, h']; simp
    · rw [← h]; exact List.mem_cons_of_mem _ h'

theorem pyMaxList_mem (l : List Int) (m : Int) (h : pyMaxList l = some m) : m ∈ l := by
  cases l with
  | nil => simp [pyMaxList] at h
  | cons a as =>
    simp only [pyMaxList, Option.some.injEq, foldl_pyMax2] at h
    rcases foldl_max_mem as a with h' | h'
    · rw [← h, h']; simp
    · rw [← h]; exact List.mem_cons_of_mem _ h'

theorem disj_of_adjacent (es : List (Iv Int)) (hp : Pos es) (h : ivsNoOverlap es = true) : Disj es := by
  induction es with
  | nil => simp [Disj]
  | cons x xs ih =>
    cases xs with
    | nil => simp [Disj]
    | cons y ys =>
      simp only [ivsNoOverlap, Bool.and_eq_true, Bool.not_eq_true', decide_eq_false_iff_not] at h
      have ih' := ih (pos_tail hp) h.2
      unfold Disj at *
      rw [List.pairwise_cons]
      refine ⟨?_, ih'⟩
      intro z hz
      rcases List.mem_cons.1 hz with rfl | hz'
      · omega
      · have := (List.pairwise_cons.1 ih').1 z hz'
        have := hp y (by simp)
        omega

/-- **constructor**: whatever entry list, labels and requested span (given or not, in order or reversed) are passed,
a tier that the IntervalTier constructor returns is well-formed; and it refuses only with TextgridStateError or
TimelessTextgridTierException.  No hypothesis: the former `hspan` ("the requested span is not reversed") excluded
`IntervalTier('T', [], 5, 2)`, which kept `minTimestamp 5 > maxTimestamp 2` — finding A29, repaired in /repo (9432f3b:
bounds that come out in the wrong order are swapped, as `PointTier` takes the hull); `construct_reversed_span_regression`. -/
theorem construct_wf (name : String) (es : List (Iv Int)) (lo hi : Option Int) :
    (∀ t, mkITier name es lo hi = .ok t → t.WF) ∧
    (∀ e, mkITier name es lo hi = .error e → e = .TextgridStateError ∨ e = .Timeless) := by
  unfold mkITier
  generalize hes1 : sortIvs (es.map fun iv => { iv with l := pyStrip iv.l }) = es1
  have hstr : Stripped es1 := by
    intro y hy
    rw [← hes1, mem_sortIvs] at hy
    obtain ⟨iv, _, rfl⟩ := List.mem_map.1 hy
    exact pyStrip_idem _
  simp only
  cases hmin : pyMinList (es1.map (·.s) ++ lo.toList) with
  | none => constructor <;> intro _ h <;> simp at h <;> simp [h]
  | some mn =>
    cases hmax : pyMaxList (es1.map (·.e) ++ hi.toList) with
    | none => constructor <;> intro _ h <;> simp at h <;> simp [h]
    | some mx =>
      simp only
      by_cases hv : (ivsAllPos es1 && ivsNoOverlap es1) = true
      · simp only [hv, if_true]
        constructor
        · intro t ht
          simp only [Except.ok.injEq] at ht; subst ht
          simp only [Bool.and_eq_true] at hv
          have hpos := (ivsAllPos_iff es1).1 hv.1
          have hdisj := disj_of_adjacent es1 hpos hv.2
          have hlo := pyMinList_le _ _ hmin
          have hhi := pyMaxList_ge _ _ hmax
          -- with an entry the hull is in order, so nothing is swapped
          have hord : es1 ≠ [] → mn < mx := by
            intro hne
            cases es1 with
            | nil => exact absurd rfl hne
            | cons x xs =>
              have := hlo x.s (by simp)
              have := hhi x.e (by simp)
              have := hpos x (by simp)
              omega
          refine ⟨hpos, hdisj, ?_, ?_, hstr, ?_⟩
          · intro iv hiv
            have := hlo iv.s (List.mem_append_left _ (List.mem_map_of_mem hiv))
            have := hord (List.ne_nil_of_mem hiv)
            simp only; split <;> omega
          · intro iv hiv
            have := hhi iv.e (List.mem_append_left _ (List.mem_map_of_mem hiv))
            have := hord (List.ne_nil_of_mem hiv)
            simp only; split <;> omega
          · simp only; split <;> omega
        · intro e h; cases h
      · simp only [hv, Bool.false_eq_true, if_false]
        constructor
        · intro t h; cases h
        · intro e h; simp only [Except.error.injEq] at h; left; exact h.symm

/-- (kept for the index) with at least one entry … — now a special case of `construct_wf` -/
theorem construct_wf_of_entries (name : String) (es : List (Iv Int)) (lo hi : Option Int) (_hne : es ≠ []) :
    ∀ t, mkITier name es lo hi = .ok t → t.WF :=
  (construct_wf name es lo hi).1

/-- **regression of finding A29** (found by the hypothesis audit: `construct_wf` carried the hypothesis `hspan`; replayed
on the class before and after the repair 9432f3b).  `IntervalTier('T', [], 5, 2)` — no entries, bounds in the wrong
order — now spans `[2, 5]` (before: `minTimestamp 5.0 > maxTimestamp 2.0`, `validate()` True), like
`PointTier('T', [], 5, 2)`; `tier.new(entries=[], minTimestamp=20)` on a tier ending at 10 spans `[10, 20]` (before:
`[20, 10]`).  Both results are well-formed. -/
theorem construct_reversed_span_regression :
    mkITier "T" ([] : List (Iv Int)) (some 5) (some 2) = .ok ⟨"T", [], 2, 5⟩ ∧
    (⟨"T", [], 2, 5⟩ : ITier Int).WF ∧
    mkPTier "T" ([] : List (Pt Int)) (some 5) (some 2) = .ok ⟨"T", [], 2, 5⟩ ∧
    (⟨"T", [⟨1, 3, "a"⟩], 0, 10⟩ : ITier Int).new (es := some []) (lo := some 20) = .ok ⟨"T", [], 10, 20⟩ ∧
    (⟨"T", [], 10, 20⟩ : ITier Int).WF := by
  refine ⟨?_, ?_, ?_, ?_, ?_⟩
  · rw [mkITier_of_wf_any "T" [] 5 2 (by simp [Pos]) (by simp [Disj]) (by simp [Stripped])]; rfl
  · refine ⟨?_, ?_, ?_, ?_, ?_, ?_⟩ <;> simp [Pos, Disj, Stripped]
  · rw [mkPTier_of_wf "T" [] 5 2 (by simp) (by simp)]; rfl
  · unfold ITier.new
    simp only [Option.getD_some, Option.getD_none]
    rw [mkITier_of_wf_any "T" [] 20 10 (by simp [Pos]) (by simp [Disj]) (by simp [Stripped])]; rfl
  · refine ⟨?_, ?_, ?_, ?_, ?_, ?_⟩ <;> simp [Pos, Disj, Stripped]

/-- the constructor applied through `tier.new(...)` / every operation that ends in it: no hypothesis -/
theorem new_wf (t : ITier Int) (name : Option String) (es : Option (List (Iv Int))) (lo hi : Option Int)
    (t' : ITier Int) (h : t.new name es lo hi = .ok t') : t'.WF := by
  unfold ITier.new at h
  exact (construct_wf _ _ _ _).1 t' h

/-! ## operations on one tier (with well-formed second operands), and histories -/

inductive TOp
  | crop (a b : Int) (m : CropMode) (rebase : Bool)
  | erase (a b : Int) (m : EraseMode) (shrink : Bool)
  | space (s d : Int) (m : SpaceMode)
  | shift (o : Int) (rep : Report)
  | insert (x : Iv Int) (m : InsMode)
  | delete (x : Iv Int)
  | union (u : ITier Int)
  | difference (u : ITier Int)
  | intersection (u : ITier Int)
  | mergeLabels (u : ITier Int)
  | append (u : ITier Int)
  | dejitter (refs : List Int) (md : Int)
  | morph (u : ITier Int) (sel : String → Bool)
  | new

def stepT (t : ITier Int) : TOp → Except Err (ITier Int)
  | .crop a b m r => t.crop a b m r
  | .erase a b m sh => t.eraseRegion a b m sh
  | .space s d m => t.insertSpace s d m
  | .shift o rep => t.editTimestamps o rep
  | .insert x m => t.insertEntry x m
  | .delete x => t.deleteEntry x
  | .union u => t.union u
  | .difference u => t.difference u
  | .intersection u => t.intersection u
  | .mergeLabels u => t.mergeLabels u
  | .append u => t.appendTier u
  | .dejitter refs md => t.dejitter refs md
  | .morph u sel => t.morph u sel
  | .new => t.new

theorem bind_ok' {β γ} {x : Except Err β} {f : β → Except Err γ} {y : γ} (h : x >>= f = .ok y) :
    ∃ z, x = .ok z ∧ f z = .ok y := by
  cases x with
  | error e => cases h
  | ok z => exact ⟨z, rfl, h⟩

/-- an invariant kept by every step of a `foldlM` holds at its end -/
theorem foldlM_inv {β} (P : ITier Int → Prop) (f : ITier Int → β → Except Err (ITier Int))
    (hf : ∀ a b a', P a → f a b = .ok a' → P a') :
    ∀ (l : List β) (a r : ITier Int), P a → l.foldlM f a = .ok r → P r := by
  intro l
  induction l with
  | nil => intro a r ha h; simp only [List.foldlM, pure, Except.pure, Except.ok.injEq] at h; subst h; exact ha
  | cons b l ih =>
    intro a r ha h
    simp only [List.foldlM, bind, Except.bind] at h
    cases hb : f a b with
    | error e => rw [hb] at h; cases h
    | ok a' => rw [hb] at h; exact ih a' r (hf a b a' ha hb) h

/-- **one step, NO side condition** (since fix 9432f3b the IntervalTier constructor returns a well-formed tier for every
argument, `construct_wf`; before, `OpOk` asked for a positive `insertSpace` duration, well-formed second operands and
non-negative times for `appendTier`): whatever the operation and its arguments — any window, region, duration (also
zero or negative), offset, entry, label, mode, ANY second operand (well-formed or not) — a tier that the call returns
for a well-formed receiver is well-formed.  What the calls DO outside their properties' quantifiers (`insertSpace` with
`d ≤ 0`, `appendTier` on negative times: `C09.append_negative_counterexample`) is another matter; the result is a
well-formed tier or an exception. -/
theorem step_wf (t : ITier Int) (hwf : t.WF) (op : TOp) (t' : ITier Int)
    (h : stepT t op = .ok t') : t'.WF := by
  cases op with
  | crop a b m r =>
    simp only [stepT] at h
    by_cases hab : a < b
    · cases r with
      | false => obtain ⟨t'', e, w, _⟩ := C06.crop_norebase t hwf a b hab m; rw [h] at e; cases e; exact w
      | true => obtain ⟨t'', e, w, _⟩ := C06.crop_rebase t hwf a b hab m; rw [h] at e; cases e; exact w
    · rw [C06.crop_rejects t a b m r (by omega)] at h; cases h
  | erase a b m sh =>
    simp only [stepT] at h
    exact C07.erase_wf_any t hwf a b m sh t' h
  | space s d m =>
    simp only [stepT, ITier.insertSpace] at h
    split at h
    · cases h
    · exact new_wf t _ _ _ _ t' h
  | shift o rep =>
    simp only [stepT] at h
    by_cases hr : rep = .error
    · subst hr
      by_cases hex : ∃ iv ∈ t.es, o + iv.s < t.lo ∨ t.hi < o + iv.e
      · rw [(C09.shift_error_mode t hwf o).1.2 hex] at h; cases h
      · rw [(C09.shift_error_mode t hwf o).2 (fun iv hiv hc => hex ⟨iv, hiv, hc⟩)] at h
        obtain ⟨t'', e, w, _⟩ := C09.shift_ok t hwf o .silence (by decide)
        rw [h] at e; cases e; exact w
    · obtain ⟨t'', e, w, _⟩ := C09.shift_ok t hwf o rep hr
      rw [h] at e; cases e; exact w
  | insert x m =>
    simp only [stepT] at h
    exact C11.step_wf t hwf (.insert x m) t' h
  | delete x =>
    simp only [stepT] at h
    exact C11.step_wf t hwf (.delete x) t' h
  | union u =>
    simp only [stepT, ITier.union] at h
    obtain ⟨nt, hn, h⟩ := bind_ok' h
    obtain ⟨r, hr, h⟩ := bind_ok' h
    have h := Except.ok.inj h
    have hnt : nt.WF := new_wf t _ _ _ _ nt hn
    have hrw : r.WF := foldlM_inv (·.WF) (fun acc e => acc.insertEntry e .merge)
      (fun a b a' ha hab => C11.step_wf a ha (.insert b .merge) a' hab) u.es nt r hnt hr
    subst h
    have : sortIvs r.es = r.es := sortIvs_of_wf r.es hrw.pos hrw.disj
    rw [this]
    exact hrw
  | difference u =>
    simp only [stepT, ITier.difference] at h
    obtain ⟨nt, hn, h⟩ := bind_ok' h
    exact foldlM_inv (·.WF) (fun acc e => acc.eraseRegion e.s e.e .truncate false)
      (fun a b a' ha hab => C07.erase_wf_any a ha b.s b.e .truncate false a' hab) u.es nt t'
      (new_wf t _ _ _ _ nt hn) h
  | intersection u =>
    simp only [stepT, ITier.intersection] at h
    obtain ⟨parts, _, h⟩ := bind_ok' h
    exact new_wf t _ _ _ _ t' h
  | mergeLabels u =>
    simp only [stepT, ITier.mergeLabels] at h
    obtain ⟨parts, _, h⟩ := bind_ok' h
    exact new_wf t _ _ _ _ t' h
  | append u =>
    simp only [stepT, ITier.appendTier] at h
    obtain ⟨u', _, h⟩ := bind_ok' h
    exact new_wf t _ _ _ _ t' h
  | dejitter refs md =>
    simp only [stepT] at h
    exact C14.dejitter_ok_wf t hwf refs md t' h
  | morph u sel =>
    simp only [stepT, ITier.morph] at h
    split at h
    · exact new_wf t _ _ _ _ t' h
    · split at h
      · cases h
      · split at h
        · exact (construct_wf _ _ _ _).1 t' h
        · cases h
  | new =>
    simp only [stepT] at h
    rw [new_of_wf t hwf] at h; cases h; exact hwf

/-- a failing operation leaves the tier as it was -/
def run (t : ITier Int) : List TOp → ITier Int
  | [] => t
  | op :: ops => match stepT t op with
    | .ok t' => run t' ops
    | .error _ => run t ops

/-- **every reachable tier is well-formed**: for operation sequences of ANY length (the bound 12 of the property
text is the harness's, not the theorem's) with ARBITRARY arguments — no admissibility condition -/
theorem reachable_wf (t : ITier Int) (hwf : t.WF) (ops : List TOp) : (run t ops).WF := by
  induction ops generalizing t with
  | nil => exact hwf
  | cons op ops ih =>
    simp only [run]
    cases hs : stepT t op with
    | ok t' => exact ih t' (step_wf t hwf op t' hs)
    | error e => exact ih t hwf

/-- … starting from the constructor: whatever is passed to `IntervalTier(...)` and whatever is done afterwards -/
theorem reachable_from_constructor (name : String) (es : List (Iv Int)) (lo hi : Option Int) (t : ITier Int)
    (h : mkITier name es lo hi = .ok t) (ops : List TOp) : (run t ops).WF :=
  reachable_wf t ((construct_wf name es lo hi).1 t h) ops

/-- `validate()` agrees with well-formedness -/
theorem validate_of_wf (t : ITier Int) (h : t.WF) : t.validate = true := C15.wf_validate t h

end C05
