import PraatModel.Props.C19
namespace C19
open Klatt

/-! # C19 — the file `Klattgrid.save` writes, row by row

`fileText xmin xmax secs = cleanNumeric (rawText xmin xmax secs)`: the text the three `getAsText` methods
assemble, passed through `_cleanNumericValues`.  The theorem of this file, `fileText_layout`, says that the
result is exactly the rows `fileLines` (defined in `Props/C19.lean`) of the tree whose point numerals have
been normalised by `cz`, each row followed by a newline.
-/

namespace File
open Clean

/-! ## general helpers -/

/-! ### rows, each followed by a newline -/

/-- the rows `ls`, each followed by a newline (`"\n".join(ls) + "\n"` when there is a row) -/
def nl (ls : List Txt) : Txt := (ls.map (· ++ ['\n'])).flatten

theorem nl_nil : nl [] = [] := rfl

theorem nl_cons (x : Txt) (xs : List Txt) : nl (x :: xs) = x ++ '\n' :: nl xs := by simp [nl]

theorem nl_append (a b : List Txt) : nl (a ++ b) = nl a ++ nl b := by simp [nl]

theorem nl_flatten (ll : List (List Txt)) : nl ll.flatten = (ll.map nl).flatten := by
  induction ll with
  | nil => rfl
  | cons l rest ih => simp [nl_append, ih]

theorem nl_eq_join (ls : List Txt) (h : ls ≠ []) : join ['\n'] ls ++ ['\n'] = nl ls :=
  join_append_sep ['\n'] ls h

/-- the rows followed by one empty row, joined: the same text -/
theorem nl_eq_join_snoc (ls : List Txt) : join ['\n'] (ls ++ [[]]) = nl ls := by
  induction ls with
  | nil => rfl
  | cons x xs ih =>
    cases xs with
    | nil => simp [join, nl]
    | cons y ys =>
      rw [List.cons_append, List.cons_append, join_cons_cons, ← List.cons_append, ih]
      simp [nl_cons]

/-- `split("\n")` of newline-terminated, newline-free rows: the rows and one empty row -/
theorem pySplit_nl (ls : List Txt) (h : ∀ l ∈ ls, '\n' ∉ l) : pySplit '\n' (nl ls) = ls ++ [[]] := by
  rw [← nl_eq_join_snoc]
  apply pySplit_join
  · simp
  · intro p hp
    rcases List.mem_append.1 hp with hp | hp
    · exact h p hp
    · simp at hp; subst hp; simp

theorem cleanRow_nil : cleanRow [] = [] := by decide

/-- `_cleanNumericValues` on newline-terminated rows cleans each row -/
theorem cleanNumeric_nl (ls : List Txt) (h : ∀ l ∈ ls, '\n' ∉ l) : cleanNumeric (nl ls) = nl (ls.map cleanRow) := by
  unfold cleanNumeric
  rw [pySplit_nl ls h, List.map_append, List.map_cons, List.map_nil, cleanRow_nil, nl_eq_join_snoc]

/-! ### `p in s` -/

theorem contains_eq (kw s : Txt) : contains kw s = (findAt kw s 0).isSome := by
  simp [contains, pyFind]

theorem findAt_isSome_idx (p s : Txt) (i j : Nat) : (findAt p s i).isSome = (findAt p s j).isSome := by
  induction s generalizing i j with
  | nil => simp only [findAt]; split <;> rfl
  | cons c cs ih =>
    simp only [findAt]
    split
    · rfl
    · exact ih _ _

/-- a text lacking some character of the keyword does not contain the keyword -/
theorem contains_not_mem (kw s : Txt) (x : Char) (hx : x ∈ kw) (hs : x ∉ s) : contains kw s = false := by
  rw [contains_eq]
  have hne : kw.isEmpty = false := by cases kw with | nil => cases hx | cons _ _ => rfl
  generalize 0 = i
  induction s generalizing i with
  | nil => simp [findAt, hne]
  | cons y ys ih =>
    have hys : x ∉ ys := by intro e; apply hs; simp [e]
    have : kw.isPrefixOf (y :: ys) = false := by
      cases h : kw.isPrefixOf (y :: ys) with
      | false => rfl
      | true => exact absurd (isPrefixOf_mem h x hx) hs
    simp only [findAt, this, Bool.false_eq_true, if_false]
    exact ih hys _

/-- a character outside the keyword separates the search -/
theorem contains_append_sep (kw a b : Txt) (c : Char) (hne : kw ≠ []) (hc : c ∉ kw) :
    contains kw (a ++ c :: b) = (contains kw a || contains kw b) := by
  simp only [contains_eq]
  have hemp : kw.isEmpty = false := by cases kw with | nil => exact absurd rfl hne | cons _ _ => rfl
  generalize 0 = i
  induction a generalizing i with
  | nil =>
    have : kw.isPrefixOf (c :: b) = false := by
      have := isPrefixOf_append_sep kw [] b c hc
      simp only [List.nil_append] at this
      rw [this]
      cases kw with
      | nil => exact absurd rfl hne
      | cons _ _ => rfl
    simp only [List.nil_append, findAt, this, hemp, Bool.false_eq_true, if_false, Option.isSome_none, Bool.false_or]
    exact findAt_isSome_idx _ _ _ _
  | cons y ys ih =>
    have h1 : kw.isPrefixOf (y :: ys ++ c :: b) = kw.isPrefixOf (y :: ys) := isPrefixOf_append_sep kw (y :: ys) b c hc
    simp only [List.cons_append] at h1
    simp only [List.cons_append, findAt, h1]
    split
    · simp
    · rw [ih (i + 1)]
      congr 1
      exact findAt_isSome_idx _ _ _ _

theorem contains_append_right (kw a b : Txt) (h : contains kw a = true) : contains kw (a ++ b) = true := by
  rw [contains_eq] at h ⊢
  revert h
  generalize 0 = i
  induction a generalizing i with
  | nil =>
    intro h
    simp only [findAt] at h
    have hk : kw = [] := by
      cases kw with
      | nil => rfl
      | cons _ _ => simp at h
    subst hk
    cases b <;> simp [findAt, List.isPrefixOf]
  | cons y ys ih =>
    intro h
    simp only [List.cons_append, findAt] at h ⊢
    by_cases hp : kw.isPrefixOf (y :: ys) = true
    · have : kw.isPrefixOf (y :: (ys ++ b)) = true := by
        have := (List.isPrefixOf_iff_prefix (l₁ := kw) (l₂ := y :: ys)).1 hp
        exact List.isPrefixOf_iff_prefix.2 (this.trans (List.prefix_append (y :: ys) b))
      simp [this]
    · simp only [hp] at h
      split
      · rfl
      · exact ih _ h

/-! ### texts that mention neither `min` nor `max` -/

/-- neither `"min" in s` nor `"max" in s`: the rows `_cleanNumericValues` really looks at -/
def NoMinMax (s : Txt) : Prop := contains (t "min") s = false ∧ contains (t "max") s = false

theorem NoMinMax.of_not_mem {s : Txt} (h : 'm' ∉ s) : NoMinMax s :=
  ⟨contains_not_mem _ s 'm' (by decide) h, contains_not_mem _ s 'm' (by decide) h⟩

theorem NoMinMax.append_sep {a b : Txt} (c : Char) (h1 : c ∉ t "min") (h2 : c ∉ t "max")
    (ha : NoMinMax a) (hb : NoMinMax b) : NoMinMax (a ++ c :: b) := by
  constructor
  · rw [contains_append_sep _ a b c (by decide) h1, ha.1, hb.1]; rfl
  · rw [contains_append_sep _ a b c (by decide) h2, ha.2, hb.2]; rfl

/-- the six intermediate tier names mention neither `min` nor `max` -/
theorem noMinMax_canon : ∀ nm ∈ canon, NoMinMax nm := by
  have : ∀ nm ∈ canon, contains (t "min") nm = false ∧ contains (t "max") nm = false := by decide
  exact this

/-! ### `"%d"` numerals -/

theorem digit_not_space (c : Char) (hc : isDigit c = true) : pyIsSpace c = false := by
  have := digit_not_numSpace c hc
  obtain ⟨h1, h2⟩ := isDigit_toNat c hc
  simp only [isNumSpace, Bool.and_eq_false_iff] at this
  rcases this with h | h
  · exact h
  · simp at h; omega

theorem natDec_stripped (n : Nat) : stripList (natDec n) = natDec n := by
  apply stripList_of_noEdge
  have hd := natDec_digits n
  constructor
  · intro c rest hc; exact digit_not_space c (hd c (by rw [hc]; simp))
  · intro c hc; exact digit_not_space c (hd c (List.mem_of_getLast? hc))

/-- `int("%d" % n)` succeeds -/
theorem isIntLit_natDec (n : Nat) : isIntLit (natDec n) = true := by
  have hd := natDec_digits n
  cases hds : natDec n with
  | nil => exact absurd hds (natDec_ne_nil n)
  | cons c cs =>
    rw [hds] at hd
    unfold isIntLit
    rw [numStrip_digits _ hd, splitSign_digit c cs (hd c (by simp))]
    simp [digitsGo_digits _ [] hd]

theorem m_not_mem_natDec (n : Nat) : 'm' ∉ natDec n := digits_no 'm' (by decide) n

/-! ## what the writer is given -/

/-- a name (tier, container, intermediate tier, sub tier): on one line, without `=` -/
def NameOk (nm : Txt) : Prop := '=' ∉ nm ∧ '\n' ∉ nm

/-- a numeral of a span row (`xmin = a`, `xmax = a`): non-empty, on one line, `strip()` leaves it alone -/
def SpanOk (a : Txt) : Prop := stripList a = a ∧ a ≠ [] ∧ '\n' ∉ a

/-- a numeral of a point (`number = n`, `value = n`): additionally without `=` and mentioning neither `min` nor `max` -/
def PointOk (n : Txt) : Prop := SpanOk n ∧ '=' ∉ n ∧ NoMinMax n

/-- a point tier (top-level tier or sub tier) -/
def PTOk (p : PT) : Prop :=
  NameOk p.name ∧ SpanOk p.xmin ∧ SpanOk p.xmax ∧ ∀ q ∈ p.pts, PointOk q.1 ∧ PointOk q.2

/-- an intermediate tier: its name mentions neither `min` nor `max` (the six names of `canon` do not) -/
def ITOk (i : IT) : Prop := NameOk i.name ∧ NoMinMax i.name ∧ ∀ p ∈ i.subs, PTOk p

def WSecOk (w : WSec) : Prop :=
  match w.sec with
  | .tier p => PTOk p
  | .cont name its =>
    NameOk name ∧ (∀ ab ∈ w.span, SpanOk ab.1 ∧ SpanOk ab.2) ∧ ∀ i ∈ its, ITOk i

/-- the hypotheses of `fileText_layout` -/
def WriterOk (xmin xmax : Txt) (secs : List WSec) : Prop :=
  SpanOk xmin ∧ SpanOk xmax ∧ ∀ w ∈ secs, WSecOk w

/-- every stripped one-line `float()` literal without `=` and the letter `m` is a point numeral -/
theorem PointOk.of_numeral {n : Txt} (h : Numeral n) (he : '=' ∉ n) (hm : 'm' ∉ n) : PointOk n := by
  obtain ⟨hs, hf, hnl⟩ := h
  refine ⟨⟨hs, ?_, hnl⟩, he, NoMinMax.of_not_mem hm⟩
  intro e; subst e; rw [isSome_fclass_not_nil] at hf; cases hf

theorem SpanOk.of_numeral {n : Txt} (h : Numeral n) : SpanOk n := by
  obtain ⟨hs, hf, hnl⟩ := h
  refine ⟨hs, ?_, hnl⟩
  intro e; subst e; rw [isSome_fclass_not_nil] at hf; cases hf

theorem canon_nameOk : ∀ nm ∈ canon, NameOk nm := by
  have : ∀ nm ∈ canon, '=' ∉ nm ∧ '\n' ∉ nm := by decide
  exact this

/-- an intermediate tier with one of the six canonical names -/
theorem ITOk.of_canon {i : IT} (hn : i.name ∈ canon) (hs : ∀ p ∈ i.subs, PTOk p) : ITOk i :=
  ⟨canon_nameOk _ hn, noMinMax_canon _ hn, hs⟩

/-! ## row by row -/

/-- the raw row `r` is on one line and `_cleanNumericValues` turns it into `r'` -/
def Row (r r' : Txt) : Prop := '\n' ∉ r ∧ cleanRow r = r'

/-- `name? <exists> ` (top-level tier): the trailing blank goes -/
theorem row_tierName (nm : Txt) (h : NameOk nm) : Row (nm ++ t "? <exists> ") (nm ++ t "? <exists>") := by
  obtain ⟨he, hnl⟩ := h
  have d1 : '\n' ∉ t "? <exists> " := by decide
  have d2 : '=' ∉ t "? <exists> " := by decide
  refine ⟨by simp [hnl, d1], ?_⟩
  rw [cleanRow_no_eq _ (by simp [he, d2])]
  have e : nm ++ t "? <exists> " = (nm ++ t "? <exists>") ++ [' '] := by simp [t]
  rw [e, rstrip_allSpace_append _ _ allSpace_blank]
  exact rstrip_append_stripped nm (t "? <exists>") (by decide) (by decide)

/-- `name? <exists>` (container) -/
theorem row_contName (nm : Txt) (h : NameOk nm) : Row (nm ++ t "? <exists>") (nm ++ t "? <exists>") := by
  obtain ⟨he, hnl⟩ := h
  have d1 : '\n' ∉ t "? <exists>" := by decide
  have d2 : '=' ∉ t "? <exists>" := by decide
  refine ⟨by simp [hnl, d1], ?_⟩
  rw [cleanRow_no_eq _ (by simp [he, d2])]
  exact rstrip_append_stripped nm (t "? <exists>") (by decide) (by decide)

/-- `name:` (sub tier) -/
theorem row_subName (nm : Txt) (h : NameOk nm) : Row (nm ++ t ":") (nm ++ t ":") := by
  obtain ⟨he, hnl⟩ := h
  have d1 : '\n' ∉ t ":" := by decide
  have d2 : '=' ∉ t ":" := by decide
  refine ⟨by simp [hnl, d1], ?_⟩
  rw [cleanRow_no_eq _ (by simp [he, d2])]
  exact rstrip_append_stripped nm (t ":") (by decide) (by decide)

/-- `xmin = a`, `xmax = a`, with or without indentation: untouched -/
theorem row_span (head a : Txt) (hh : contains (t "min") head = true ∨ contains (t "max") head = true)
    (hnl : '\n' ∉ head) (ha : SpanOk a) : Row (head ++ a) (head ++ a) := by
  obtain ⟨hs, hne, hanl⟩ := ha
  refine ⟨by simp [hnl, hanl], ?_⟩
  have hr : rstrip (head ++ a) = head ++ a := rstrip_append_stripped head a hs hne
  rw [cleanRow_minmax _ (by
    rw [hr]
    rcases hh with h | h
    · exact Or.inl (contains_append_right _ _ _ h)
    · exact Or.inr (contains_append_right _ _ _ h)), hr]

/-- `points [i]:` -/
theorem row_pointIdx (ind : Txt) (he : '=' ∉ ind) (hnl : '\n' ∉ ind) (k : Nat) :
    Row (ind ++ t "points [" ++ natDec k ++ t "]:") (ind ++ t "points [" ++ natDec k ++ t "]:") := by
  have d1 : '\n' ∉ t "points [" := by decide
  have d2 : '=' ∉ t "points [" := by decide
  have d3 : '\n' ∉ t "]:" := by decide
  have d4 : '=' ∉ t "]:" := by decide
  refine ⟨by simp [hnl, d1, d3, nl_not_mem_natDec], ?_⟩
  rw [cleanRow_no_eq _ (by simp [he, d2, d4, eq_not_mem_natDec])]
  exact rstrip_append_stripped _ (t "]:") (by decide) (by decide)

/-- `points: size= k` (top-level tier) → `points: size = k` -/
theorem row_sizeTop (k : Nat) : Row (t "points: size= " ++ natDec k) (t "points: size = " ++ natDec k) := by
  have d1 : '\n' ∉ t "points: size= " := by decide
  refine ⟨by simp [d1, nl_not_mem_natDec], ?_⟩
  have e : t "points: size= " ++ natDec k = t "points: size" ++ [] ++ '=' :: ([' '] ++ natDec k ++ []) := by simp [t]
  have e' : t "points: size = " ++ natDec k = t "points: size" ++ t " = " ++ natDec k := by simp [t]
  have hm : NoMinMax (t "points: size" ++ [] ++ '=' :: ([' '] ++ natDec k)) := by
    apply NoMinMax.of_not_mem
    have d : 'm' ∉ t "points: size" := by decide
    simp [d, m_not_mem_natDec]
  rw [e, e']
  exact cleanRow_spacing (t "points: size") [] [' '] (natDec k) [] (by decide) (by decide) allSpace_nil allSpace_blank
    allSpace_nil (natDec_stripped k) (eq_not_mem_natDec k) (Or.inl (isIntLit_natDec k)) hm.1 hm.2

/-- `    points: size = k` (sub tier): untouched -/
theorem row_sizeSub (k : Nat) : Row (t "    points: size = " ++ natDec k) (t "    points: size = " ++ natDec k) := by
  have d1 : '\n' ∉ t "    points: size = " := by decide
  refine ⟨by simp [d1, nl_not_mem_natDec], ?_⟩
  have e' : t "    points: size = " ++ natDec k = t "    points: size" ++ t " = " ++ natDec k := by simp [t]
  have hm : NoMinMax (t "    points: size" ++ t " = " ++ natDec k) := by
    apply NoMinMax.of_not_mem
    have d : 'm' ∉ t "    points: size" := by decide
    have d' : 'm' ∉ t " = " := by decide
    simp [d, d', m_not_mem_natDec]
  rw [e']
  exact cleanRow_unchanged (t "    points: size") (natDec k) (by decide) (by decide) (natDec_stripped k)
    (eq_not_mem_natDec k) (Or.inl (isIntLit_natDec k)) hm.1 hm.2

/-- `name: size=k` (intermediate tier) → `name: size = k` -/
theorem row_hdr (nm : Txt) (h : NameOk nm) (hmm : NoMinMax nm) (k : Nat) :
    Row (nm ++ t ": size=" ++ natDec k) (nm ++ t ": size = " ++ natDec k) := by
  obtain ⟨he, hnl⟩ := h
  have d1 : '\n' ∉ t ": size=" := by decide
  refine ⟨by simp [hnl, d1, nl_not_mem_natDec], ?_⟩
  have e : nm ++ t ": size=" ++ natDec k = (nm ++ t ": size") ++ [] ++ '=' :: ([] ++ natDec k ++ []) := by simp [t]
  have e' : nm ++ t ": size = " ++ natDec k = (nm ++ t ": size") ++ t " = " ++ natDec k := by simp [t]
  have hm : NoMinMax ((nm ++ t ": size") ++ [] ++ '=' :: ([] ++ natDec k)) := by
    have e2 : (nm ++ t ": size") ++ [] ++ '=' :: ([] ++ natDec k) = nm ++ ':' :: (t " size=" ++ natDec k) := by simp [t]
    rw [e2]
    apply NoMinMax.append_sep ':' (by decide) (by decide) hmm
    apply NoMinMax.of_not_mem
    have d : 'm' ∉ t " size=" := by decide
    simp [d, m_not_mem_natDec]
  have d2 : '=' ∉ t ": size" := by decide
  rw [e, e']
  exact cleanRow_spacing (nm ++ t ": size") [] [] (natDec k) []
    (rstrip_append_stripped nm (t ": size") (by decide) (by decide)) (by simp [he, d2]) allSpace_nil allSpace_nil
    allSpace_nil (natDec_stripped k) (eq_not_mem_natDec k) (Or.inl (isIntLit_natDec k)) hm.1 hm.2

/-- `head = n` for a point numeral `n`: the numeral becomes `cz n` -/
theorem row_num (head n : Txt) (hh : rstrip head = head) (hhe : '=' ∉ head) (hhnl : '\n' ∉ head)
    (hhm : NoMinMax head) (hn : PointOk n) : Row (head ++ t " = " ++ n) (head ++ t " = " ++ cz n) := by
  obtain ⟨⟨hs, hne, hnl⟩, heq, hnm⟩ := hn
  have d1 : '\n' ∉ t " = " := by decide
  refine ⟨by simp [hhnl, d1, hnl], ?_⟩
  have e : head ++ t " = " ++ n = head ++ ' ' :: (['='] ++ ' ' :: n) := by simp [t]
  have hm : NoMinMax (head ++ t " = " ++ n) := by
    rw [e]
    apply NoMinMax.append_sep ' ' (by decide) (by decide) hhm
    apply NoMinMax.append_sep ' ' (by decide) (by decide) _ hnm
    exact ⟨by decide, by decide⟩
  unfold cz
  by_cases hi : isIntLit n = true
  · rw [if_pos hi]
    exact cleanRow_unchanged head n hh hhe hs heq (Or.inl hi) hm.1 hm.2
  · rw [if_neg hi]
    cases hf : fclass n with
    | none =>
      rw [if_neg (by simp)]
      have hr : rstrip (head ++ t " = " ++ n) = head ++ t " = " ++ n := rstrip_append_stripped _ _ hs hne
      have e3 : head ++ t " = " ++ n = (head ++ [' ']) ++ '=' :: (' ' :: n) := by simp [t]
      have hst : stripList (' ' :: n) = n := stripList_blank_cons n hs
      have hd : '=' ∉ head ++ [' '] := by simp [hhe]
      have hd' : '=' ∉ ' ' :: n := by simp [heq]
      have := cleanRow_not_number (head ++ [' ']) (' ' :: n) hd hd'
        (by rw [← e3, hr]; exact hm.1) (by rw [← e3, hr]; exact hm.2)
        (by rw [hst]; simpa using hi) (by rw [hst]; exact hf)
      rw [← e3, hr] at this
      exact this
    | some c =>
      have e4 : head ++ t " = " ++ n = head ++ [' '] ++ '=' :: ([' '] ++ n) := by simp [t]
      by_cases hc : c = FClass.zero
      · subst hc
        rw [if_pos rfl]
        have := cleanRow_zero head [' '] [' '] n [] hh hhe allSpace_blank allSpace_blank allSpace_nil hs heq hf
          (by simpa using hi) (by rw [← e4]; exact hm.1) (by rw [← e4]; exact hm.2)
        have e5 : head ++ [' '] ++ '=' :: ([' '] ++ n ++ []) = head ++ t " = " ++ n := by simp [t]
        rw [e5] at this
        exact this
      · rw [if_neg (by simpa using hc)]
        exact cleanRow_unchanged head n hh hhe hs heq (Or.inr ⟨c, hf, hc⟩) hm.1 hm.2

/-! ## lists of rows -/

/-- the raw rows are on one line each and `_cleanNumericValues` turns them into `out` -/
def Rows (raw out : List Txt) : Prop := (∀ l ∈ raw, '\n' ∉ l) ∧ raw.map cleanRow = out

theorem Rows.nil : Rows [] [] := ⟨by simp, rfl⟩

theorem Rows.cons {r r' : Txt} {a b : List Txt} (h : Row r r') (hab : Rows a b) : Rows (r :: a) (r' :: b) := by
  refine ⟨?_, by simp [h.2, hab.2]⟩
  intro l hl
  rcases List.mem_cons.1 hl with rfl | hl
  · exact h.1
  · exact hab.1 l hl

theorem Rows.append {a b c d : List Txt} (h1 : Rows a b) (h2 : Rows c d) : Rows (a ++ c) (b ++ d) := by
  refine ⟨?_, by simp [h1.2, h2.2]⟩
  intro l hl
  rcases List.mem_append.1 hl with hl | hl
  · exact h1.1 l hl
  · exact h2.1 l hl

theorem Rows.flatten_map {α} (l : List α) (f g : α → List Txt) (h : ∀ x ∈ l, Rows (f x) (g x)) :
    Rows (l.map f).flatten (l.map g).flatten := by
  induction l with
  | nil => exact Rows.nil
  | cons x xs ih =>
    simp only [List.map_cons, List.flatten_cons]
    exact Rows.append (h x (by simp)) (ih (fun y hy => h y (by simp [hy])))

/-- the file text of raw rows -/
theorem Rows.clean {raw out : List Txt} (h : Rows raw out) : cleanNumeric (nl raw) = nl out := by
  rw [cleanNumeric_nl raw h.1, h.2]

/-! ### the point rows -/

theorem rows_points (ind : Txt) (hind : ind = [] ∨ ind = t "    ") (pts : List (Txt × Txt))
    (h : ∀ q ∈ pts, PointOk q.1 ∧ PointOk q.2) (i : Nat) :
    Rows (pointRows ind i pts) (pointRows ind i (pts.map fun q => (cz q.1, cz q.2))) := by
  induction pts generalizing i with
  | nil => exact Rows.nil
  | cons q rest ih =>
    obtain ⟨n, v⟩ := q
    obtain ⟨hn, hv⟩ := h (n, v) (by simp)
    simp only [List.map_cons, pointRows]
    have e1 : ∀ x : Txt, ind ++ t "    number = " ++ x = (ind ++ t "    number") ++ t " = " ++ x := by intro x; simp [t]
    have e2 : ∀ x : Txt, ind ++ t "    value = " ++ x = (ind ++ t "    value") ++ t " = " ++ x := by intro x; simp [t]
    rw [e1, e1, e2, e2]
    refine Rows.cons ?_ (Rows.cons ?_ (Rows.cons ?_ (ih (fun q hq => h q (by simp [hq])) (i + 1))))
    · rcases hind with rfl | rfl
      · exact row_pointIdx _ (by decide) (by decide) _
      · exact row_pointIdx _ (by decide) (by decide) _
    · rcases hind with rfl | rfl
      · exact row_num _ n (by decide) (by decide) (by decide) ⟨by decide, by decide⟩ hn
      · exact row_num _ n (by decide) (by decide) (by decide) ⟨by decide, by decide⟩ hn
    · rcases hind with rfl | rfl
      · exact row_num _ v (by decide) (by decide) (by decide) ⟨by decide, by decide⟩ hv
      · exact row_num _ v (by decide) (by decide) (by decide) ⟨by decide, by decide⟩ hv

/-! ### a top-level tier -/

/-- the rows `KlattPointTier.getAsText` writes -/
def rawTier (p : PT) : List Txt :=
  [p.name ++ t "? <exists> ", t "xmin = " ++ p.xmin, t "xmax = " ++ p.xmax] ++
    (if noPointsHeader.contains p.name then [] else [t "points: size= " ++ natDec p.pts.length]) ++
    pointRows [] 0 p.pts

theorem rawTier_ne_nil (p : PT) : rawTier p ≠ [] := by simp [rawTier]

theorem tier_text (p : PT) : p.text = nl (rawTier p) := by
  rw [← nl_eq_join _ (rawTier_ne_nil p)]
  rfl

theorem span_heads :
    (contains (t "min") (t "xmin = ") = true ∨ contains (t "max") (t "xmin = ") = true) ∧
    (contains (t "min") (t "xmax = ") = true ∨ contains (t "max") (t "xmax = ") = true) ∧
    (contains (t "min") (t "    xmin = ") = true ∨ contains (t "max") (t "    xmin = ") = true) ∧
    (contains (t "min") (t "    xmax = ") = true ∨ contains (t "max") (t "    xmax = ") = true) := by decide

theorem rows_tier (p : PT) (h : PTOk p) : Rows (rawTier p) (tierLines (cleanPT p)) := by
  obtain ⟨hnm, hmin, hmax, hpts⟩ := h
  unfold rawTier tierLines
  simp only [cleanPT, List.length_map]
  refine Rows.append (Rows.append ?_ ?_) (rows_points [] (Or.inl rfl) p.pts hpts 0)
  · exact Rows.cons (row_tierName _ hnm) (Rows.cons (row_span _ _ span_heads.1 (by decide) hmin)
      (Rows.cons (row_span _ _ span_heads.2.1 (by decide) hmax) Rows.nil))
  · split
    · exact Rows.nil
    · exact Rows.cons (row_sizeTop _) Rows.nil

/-! ### a sub tier, an intermediate tier -/

theorem sub_text (p : PT) : p.subText = nl (subLines p) := by
  rw [← nl_eq_join _ (subLines_ne_nil p)]
  rfl

theorem rows_sub (p : PT) (h : PTOk p) : Rows (subLines p) (subLines (cleanPT p)) := by
  obtain ⟨hnm, hmin, hmax, hpts⟩ := h
  unfold subLines
  simp only [cleanPT, List.length_map]
  refine Rows.append ?_ (rows_points _ (Or.inr rfl) p.pts hpts 0)
  exact Rows.cons (row_subName _ hnm) (Rows.cons (row_span _ _ span_heads.2.2.1 (by decide) hmin)
    (Rows.cons (row_span _ _ span_heads.2.2.2 (by decide) hmax) (Rows.cons (row_sizeSub _) Rows.nil)))

/-- the rows `KlattIntermediateTier.getAsText` writes -/
def rawIT (i : IT) : List Txt := (i.name ++ t ": size=" ++ natDec i.subs.length) :: (i.subs.map subLines).flatten

theorem it_text (i : IT) : i.text = nl (rawIT i) := by
  unfold IT.text rawIT
  rw [nl_cons, nl_flatten, List.map_map]
  have : i.subs.map PT.subText = i.subs.map (nl ∘ subLines) := List.map_congr_left (fun p _ => sub_text p)
  rw [this]
  simp

theorem rows_it (i : IT) (h : ITOk i) : Rows (rawIT i) (itLines (cleanIT i)) := by
  obtain ⟨hnm, hmm, hsubs⟩ := h
  unfold rawIT itLines hdrLine
  simp only [cleanIT, List.length_map, List.map_map]
  exact Rows.cons (row_hdr _ hnm hmm _) (Rows.flatten_map i.subs _ _ (fun p hp => rows_sub p (hsubs p hp)))

/-! ### a section -/

/-- the rows of one section as the writer assembles them -/
def rawWSec (w : WSec) : List Txt :=
  match w.sec with
  | .tier p => rawTier p
  | .cont name its =>
    [name ++ t "? <exists>"] ++
      (match w.span with | some (a, b) => [t "xmin = " ++ a, t "xmax = " ++ b] | none => []) ++
      (its.map rawIT).flatten

theorem its_text (its : List IT) : (its.map IT.text).flatten = nl (its.map rawIT).flatten := by
  rw [nl_flatten, List.map_map]
  congr 1
  exact List.map_congr_left (fun i _ => it_text i)

theorem wsec_text (w : WSec) : w.text = nl (rawWSec w) := by
  obtain ⟨sec, sp⟩ := w
  cases sec with
  | tier p => exact tier_text p
  | cont name its =>
    have e1 : t "? <exists>\n" = t "? <exists>" ++ ['\n'] := by decide
    have e2 : t "\nxmax = " = '\n' :: t "xmax = " := by decide
    cases sp with
    | none =>
      simp only [WSec.text, rawWSec, its_text, nl_append, nl_cons, nl_nil, e1]
      simp
    | some ab =>
      obtain ⟨a, b⟩ := ab
      simp only [WSec.text, rawWSec, its_text, nl_append, nl_cons, nl_nil, e1, e2]
      simp

theorem rows_wsec (w : WSec) (h : WSecOk w) : Rows (rawWSec w) (wsecLines (cleanWSec w)) := by
  obtain ⟨sec, sp⟩ := w
  cases sec with
  | tier p => exact rows_tier p h
  | cont name its =>
    obtain ⟨hnm, hsp, hits⟩ := h
    simp only [rawWSec, wsecLines, cleanWSec, cleanSec, bodyLines, List.map_map]
    refine Rows.append (Rows.append (Rows.cons (row_contName _ hnm) Rows.nil) ?_)
      (Rows.flatten_map its _ _ (fun i hi => rows_it i (hits i hi)))
    cases sp with
    | none => exact Rows.nil
    | some ab =>
      obtain ⟨a, b⟩ := ab
      obtain ⟨ha, hb⟩ := hsp (a, b) rfl
      exact Rows.cons (row_span _ _ span_heads.1 (by decide) ha)
        (Rows.cons (row_span _ _ span_heads.2.1 (by decide) hb) Rows.nil)

/-! ### the whole file -/

/-- all rows of the text `Klattgrid.save` assembles before `_cleanNumericValues` -/
def rawLines (xmin xmax : Txt) (secs : List WSec) : List Txt :=
  [t "File type = \"ooTextFile\"", t "Object class = \"KlattGrid\"", [], t "xmin = " ++ xmin, t "xmax = " ++ xmax] ++
    (secs.map rawWSec).flatten

theorem rawText_eq (xmin xmax : Txt) (secs : List WSec) : rawText xmin xmax secs = nl (rawLines xmin xmax secs) := by
  have e0 : t "File type = \"ooTextFile\"\nObject class = \"KlattGrid\"\n\n"
      = nl [t "File type = \"ooTextFile\"", t "Object class = \"KlattGrid\"", []] := by decide
  have e2 : t "\nxmax = " = '\n' :: t "xmax = " := by decide
  have e3 : (secs.map WSec.text).flatten = nl (secs.map rawWSec).flatten := by
    rw [nl_flatten, List.map_map]
    congr 1
    exact List.map_congr_left (fun w _ => wsec_text w)
  unfold rawText rawLines
  rw [e0, e2, e3]
  simp [nl_cons, nl_nil]

theorem rows_file (xmin xmax : Txt) (secs : List WSec) (h : WriterOk xmin xmax secs) :
    Rows (rawLines xmin xmax secs) (fileLines xmin xmax (secs.map cleanWSec)) := by
  obtain ⟨hmin, hmax, hsecs⟩ := h
  unfold rawLines fileLines
  rw [List.map_map]
  refine Rows.append ?_ (Rows.flatten_map secs _ _ (fun w hw => rows_wsec w (hsecs w hw)))
  exact Rows.cons ⟨by decide, by decide⟩ (Rows.cons ⟨by decide, by decide⟩ (Rows.cons ⟨by decide, by decide⟩
    (Rows.cons (row_span _ _ span_heads.1 (by decide) hmin)
      (Rows.cons (row_span _ _ span_heads.2.1 (by decide) hmax) Rows.nil))))

end File

/-- **the file `Klattgrid.save` writes**: row by row (each row followed by a newline) it is the layout
`fileLines` of the tree whose point numerals have been normalised by `cz` (a zero-valued literal that `int()`
rejects becomes `0` — `0.0` — or `-0` when it starts with a minus sign — `-0.0`; every other numeral is kept as
given).  `WriterOk` (names on one line without `=`, intermediate tier names without `min` / `max`, numerals
that are stripped one-line strings, point numerals without `=`, `min`, `max`) follows from `KlattOk` of
`Props/C19Whole.lean` (`KlattOk.writerOk`): every numeral `float()` accepts satisfies it (`fclass_chars`), and
so do Praat's tier names. -/
theorem fileText_layout (xmin xmax : Txt) (secs : List WSec) (h : File.WriterOk xmin xmax secs) :
    fileText xmin xmax secs = join ['\n'] (fileLines xmin xmax (secs.map cleanWSec)) ++ ['\n'] := by
  unfold fileText
  rw [File.rawText_eq, (File.rows_file xmin xmax secs h).clean, File.nl_eq_join]
  simp [fileLines]

/-! ## non-vacuity -/

namespace File

instance (s : Txt) : Decidable (NoMinMax s) := by unfold NoMinMax; infer_instance
instance (nm : Txt) : Decidable (NameOk nm) := by unfold NameOk; infer_instance
instance (a : Txt) : Decidable (SpanOk a) := by unfold SpanOk; infer_instance
instance (n : Txt) : Decidable (PointOk n) := by unfold PointOk; infer_instance
instance (p : PT) : Decidable (PTOk p) := by unfold PTOk; infer_instance
instance (i : IT) : Decidable (ITOk i) := by unfold ITOk; infer_instance
instance (w : WSec) : Decidable (WSecOk w) :=
  match w with
  | ⟨.tier p, _⟩ => inferInstanceAs (Decidable (PTOk p))
  | ⟨.cont name its, sp⟩ =>
    inferInstanceAs (Decidable (NameOk name ∧ (∀ ab ∈ sp, SpanOk ab.1 ∧ SpanOk ab.2) ∧ ∀ i ∈ its, ITOk i))
instance (xmin xmax : Txt) (secs : List WSec) : Decidable (WriterOk xmin xmax secs) := by
  unfold WriterOk; infer_instance

/-- a small grid: a tier without `points: size` row, a tier with zero-valued, integer-looking and `repr`-style
numerals, a container with span and two intermediate tiers (one of them empty), a container without span -/
def exSecs : List WSec :=
  [⟨.tier ⟨t "phonation", t "0", t "1.5", []⟩, none⟩,
   ⟨.tier ⟨t "pitch", t "0", t "1.5", [(t "0.0", t "98.61948118117667"), (t "1e-05", t "-0.0"), (t "1", t "1e+22")]⟩, none⟩,
   ⟨.cont (t "oral_formants")
      [⟨t "formants", [⟨t "formants [1]", t "0", t "1.5", [(t "0.5", t "0.0"), (t "1.194625", t "55")]⟩,
                       ⟨t "formants [2]", t "0", t "1.5", []⟩]⟩,
       ⟨t "bandwidths", []⟩], some (t "0", t "1.5")⟩,
   ⟨.cont (t "nasal_formants") [], none⟩]

/-- the hypotheses of `fileText_layout` hold of it -/
theorem exSecs_ok : WriterOk (t "0") (t "1.5") exSecs := by decide

#guard fileText (t "0") (t "1.5") exSecs =
  t ("File type = \"ooTextFile\"\nObject class = \"KlattGrid\"\n\nxmin = 0\nxmax = 1.5\n" ++
     "phonation? <exists>\nxmin = 0\nxmax = 1.5\n" ++
     "pitch? <exists>\nxmin = 0\nxmax = 1.5\npoints: size = 3\n" ++
     "points [1]:\n    number = 0\n    value = 98.61948118117667\n" ++
     "points [2]:\n    number = 1e-05\n    value = -0\n" ++
     "points [3]:\n    number = 1\n    value = 1e+22\n" ++
     "oral_formants? <exists>\nxmin = 0\nxmax = 1.5\n" ++
     "formants: size = 2\n" ++
     "formants [1]:\n    xmin = 0\n    xmax = 1.5\n    points: size = 2\n" ++
     "    points [1]:\n        number = 0.5\n        value = 0\n" ++
     "    points [2]:\n        number = 1.194625\n        value = 55\n" ++
     "formants [2]:\n    xmin = 0\n    xmax = 1.5\n    points: size = 0\n" ++
     "bandwidths: size = 0\n" ++
     "nasal_formants? <exists>\n")

#guard fileText (t "0") (t "1.5") exSecs
  = join ['\n'] (fileLines (t "0") (t "1.5") (exSecs.map cleanWSec)) ++ ['\n']

/-- `cz` on the numerals of the example -/
example : cz (t "0.0") = t "0" ∧ cz (t "-0.0") = t "-0" ∧ cz (t "0") = t "0" ∧ cz (t "55") = t "55" := by decide

/-- the hypothesis on intermediate tier names is needed: a name mentioning `max` keeps its `size=k` row as written -/
example : cleanRow (t "maxima: size=2") = t "maxima: size=2" := by decide

/-- the hypothesis `a ≠ []` on span numerals is needed: an empty numeral loses the blank before it -/
example : cleanRow (t "xmin = ") = t "xmin =" := by decide

end File

end C19
