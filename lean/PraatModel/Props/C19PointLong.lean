import PraatModel.Klatt
import PraatModel.Lemmas.Strip
import PraatModel.Lemmas.KlattStr
import PraatModel.Props.C19PointShort

/-! # C19 — Praat's long ("normal") point-object layout opens to the same object

The hypotheses of the registered theorems are `PO.Ok1` / `PO.Ok2` (`Props/C19PointShort.lean`): the class name
and numerals that are any strings `float()` accepts and `strip()` leaves alone (`Lit`).  That a numeral
contains neither a newline nor `=` — what the proofs below use (`LNumeral`) — is a consequence. -/

namespace C19
open Klatt

namespace Long

/-- numeral for the long readers: float() literal, strip-invariant, one line, no '=' -/
def LNumeral (n : Txt) : Prop := stripList n = n ∧ (fclass n).isSome ∧ '\n' ∉ n ∧ '=' ∉ n
theorem LNumeral.of_lit {n : Txt} (h : Lit n) : LNumeral n :=
  ⟨h.1, h.2, h.not_mem '\n' (by decide), h.not_mem '=' (by decide)⟩
theorem lnumeral_iff (n : Txt) : LNumeral n ↔ Lit n := ⟨fun h => ⟨h.1, h.2.1⟩, LNumeral.of_lit⟩

/-- `PO.Ok1` / `PO.Ok2` with the character conditions spelled out (what the proofs use) -/
def Ok1 (p : PO) : Prop :=
  p.cls = t "PointProcess" ∧ LNumeral p.xmin ∧ LNumeral p.xmax ∧ ∀ r ∈ p.rows, ∃ v, r = [v] ∧ LNumeral v
def Ok2 (p : PO) : Prop :=
  (p.cls = t "PitchTier" ∨ p.cls = t "DurationTier") ∧ LNumeral p.xmin ∧ LNumeral p.xmax ∧
  ∀ r ∈ p.rows, ∃ a b, r = [a, b] ∧ LNumeral a ∧ LNumeral b

theorem ok1_of {p : PO} (h : PO.Ok1 p) : Ok1 p :=
  ⟨h.1, .of_lit h.2.1, .of_lit h.2.2.1, fun r hr => let ⟨v, e, hv⟩ := h.2.2.2 r hr; ⟨v, e, .of_lit hv⟩⟩
theorem ok2_of {p : PO} (h : PO.Ok2 p) : Ok2 p :=
  ⟨h.1, .of_lit h.2.1, .of_lit h.2.2.1, fun r hr => let ⟨a, b, e, ha, hb⟩ := h.2.2.2 r hr; ⟨a, b, e, .of_lit ha, .of_lit hb⟩⟩

theorem floatTok_ok (n : Txt) (h : (fclass n).isSome) : floatTok n = .ok n := by
  unfold floatTok
  cases hf : fclass n with
  | none => rw [hf] at h; simp at h
  | some _ => rfl

theorem allSpace_blank : AllSpace [' '] := by
  intro c hc; simp at hc; subst hc; decide

/-- `" " ++ n ++ " "` strips to `n` -/
theorem stripList_blanks (n : Txt) (h : stripList n = n) : stripList (' ' :: (n ++ [' '])) = n := by
  have := stripList_pad [' '] n [' '] allSpace_blank allSpace_blank h
  simpa using this

/-! ## `_getNextValue` -/

theorem getNextValue_at (s pre B rest : Txt) (c : Char) (i : Nat)
    (hs : s = pre ++ (c :: (B ++ '\n' :: rest))) (hi : i = pre.length) (hc : c ≠ '\n') (hB : '\n' ∉ B) :
    getNextValue s i = .ok (B, i + 1 + B.length) := by
  unfold getNextValue
  have hs1 : s = pre ++ ((c :: B) ++ '\n' :: rest) := by rw [hs]; simp
  have hcB : '\n' ∉ c :: B := by simp [hB]; exact fun e => hc e.symm
  rw [pyFind_at '\n' s pre _ _ i hs1 hi hcB]
  simp only
  have hs2 : s = (pre ++ [c]) ++ (B ++ '\n' :: rest) := by rw [hs]; simp
  have hsl : pySlice s ((i : Int) + 1) ((i + (c :: B).length : Nat) : Int) = B := by
    have := pySlice_at s (pre ++ [c]) B ('\n' :: rest) (i + 1) (i + (c :: B).length) hs2 (by simp [hi])
      (by simp; omega)
    simpa using this
  rw [hsl]
  simp only [List.length_cons]
  have : i + (B.length + 1) = i + 1 + B.length := by omega
  rw [this]; rfl

/-! ## the scanning loops -/

/-- a 1-D row as the scanner sees it: `A = B⏎` -/
structure Row1 where
  A : Txt
  B : Txt

def Row1.text (r : Row1) : Txt := r.A ++ '=' :: (r.B ++ ['\n'])

def Row1.Good (r : Row1) : Prop := '=' ∉ r.A ∧ '\n' ∉ r.B ∧ (fclass (stripList r.B)).isSome

theorem long1DLoop_rows (rows : List Row1) : ∀ (pre j : Txt) (acc : List (List Txt)) (fuel : Nat),
    '=' ∉ j → (∀ r ∈ rows, r.Good) → rows.length < fuel →
    long1DLoop fuel (pre ++ (j ++ (rows.map Row1.text).flatten)) pre.length acc
      = .ok (acc ++ rows.map fun r => [stripList r.B]) := by
  induction rows with
  | nil =>
    intro pre j acc fuel hj _ hf
    obtain ⟨f, rfl⟩ : ∃ f, fuel = f + 1 := ⟨fuel - 1, by simp at hf; omega⟩
    simp only [List.map_nil, List.flatten_nil, List.append_nil]
    rw [long1DLoop, pyFind_at_none '=' _ pre j _ rfl rfl hj]
    rfl
  | cons r rs ih =>
    intro pre j acc fuel hj hg hf
    obtain ⟨f, rfl⟩ : ∃ f, fuel = f + 1 := ⟨fuel - 1, by simp at hf; omega⟩
    obtain ⟨hA, hB, hfB⟩ := hg r (by simp)
    generalize hrest : (rs.map Row1.text).flatten = rest
    generalize hs : pre ++ (j ++ ((r :: rs).map Row1.text).flatten) = s
    have hs0 : s = pre ++ ((j ++ r.A) ++ '=' :: (r.B ++ '\n' :: rest)) := by
      rw [← hs, ← hrest]; simp [Row1.text]
    have hjA : '=' ∉ j ++ r.A := by simp [hj, hA]
    rw [long1DLoop, pyFind_at '=' s pre _ _ _ hs0 rfl hjA]
    simp only
    have hs1 : s = (pre ++ (j ++ r.A)) ++ ('=' :: (r.B ++ '\n' :: rest)) := by rw [hs0]; simp
    rw [getNextValue_at s _ r.B rest '=' _ hs1 (by simp) (by decide) hB]
    simp only [bind, Except.bind]
    rw [floatTok_ok _ hfB]
    simp only
    have hs4 : s = (pre ++ (j ++ r.A) ++ ['='] ++ r.B) ++ (['\n'] ++ (rs.map Row1.text).flatten) := by
      rw [hs0, hrest]; simp
    have hk4 : pre.length + (j ++ r.A).length + 1 + r.B.length = (pre ++ (j ++ r.A) ++ ['='] ++ r.B).length := by
      simp; omega
    rw [hk4, hs4, ih _ ['\n'] _ f (by simp) (fun r' hr' => hg r' (by simp [hr'])) (by simp at hf; omega)]
    simp

/-- a 2-D row as the scanner sees it: `A = B⏎ C = D⏎` -/
structure Row2 where
  A : Txt
  B : Txt
  C : Txt
  D : Txt

def Row2.text (r : Row2) : Txt := r.A ++ '=' :: (r.B ++ '\n' :: (r.C ++ '=' :: (r.D ++ ['\n'])))

def Row2.Good (r : Row2) : Prop :=
  '=' ∉ r.A ∧ '\n' ∉ r.B ∧ '=' ∉ r.C ∧ '\n' ∉ r.D ∧
  (fclass (stripList r.B)).isSome ∧ (fclass (stripList r.D)).isSome

theorem long2DLoop_rows (rows : List Row2) : ∀ (pre j : Txt) (acc : List (List Txt)) (fuel : Nat),
    '=' ∉ j → (∀ r ∈ rows, r.Good) → rows.length < fuel →
    long2DLoop fuel (pre ++ (j ++ (rows.map Row2.text).flatten)) pre.length acc
      = .ok (acc ++ rows.map fun r => [stripList r.B, stripList r.D]) := by
  induction rows with
  | nil =>
    intro pre j acc fuel hj _ hf
    obtain ⟨f, rfl⟩ : ∃ f, fuel = f + 1 := ⟨fuel - 1, by simp at hf; omega⟩
    simp only [List.map_nil, List.flatten_nil, List.append_nil]
    rw [long2DLoop, pyFind_at_none '=' _ pre j _ rfl rfl hj]
    rfl
  | cons r rs ih =>
    intro pre j acc fuel hj hg hf
    obtain ⟨f, rfl⟩ : ∃ f, fuel = f + 1 := ⟨fuel - 1, by simp at hf; omega⟩
    obtain ⟨hA, hB, hC, hD, hfB, hfD⟩ := hg r (by simp)
    generalize hrest : (rs.map Row2.text).flatten = rest
    generalize hs : pre ++ (j ++ ((r :: rs).map Row2.text).flatten) = s
    have hs0 : s = pre ++ ((j ++ r.A) ++ '=' :: (r.B ++ '\n' :: (r.C ++ '=' :: (r.D ++ '\n' :: rest)))) := by
      rw [← hs, ← hrest]; simp [Row2.text]
    have hjA : '=' ∉ j ++ r.A := by simp [hj, hA]
    rw [long2DLoop, pyFind_at '=' s pre _ _ _ hs0 rfl hjA]
    simp only
    have hs1 : s = (pre ++ (j ++ r.A)) ++ ('=' :: (r.B ++ '\n' :: (r.C ++ '=' :: (r.D ++ '\n' :: rest)))) := by
      rw [hs0]; simp
    rw [getNextValue_at s _ r.B _ '=' _ hs1 (by simp) (by decide) hB]
    simp only [bind, Except.bind]
    -- second '='
    have hs2 : s = (pre ++ (j ++ r.A) ++ ['='] ++ r.B) ++ (('\n' :: r.C) ++ '=' :: (r.D ++ '\n' :: rest)) := by
      rw [hs0]; simp
    have hk2 : pre.length + (j ++ r.A).length + 1 + r.B.length = (pre ++ (j ++ r.A) ++ ['='] ++ r.B).length := by
      simp; omega
    have hnC : '=' ∉ '\n' :: r.C := by simp [hC]
    rw [pyFind_at '=' s _ _ _ _ hs2 hk2 hnC]
    simp only
    have hs3 : s = (pre ++ (j ++ r.A) ++ ['='] ++ r.B ++ ('\n' :: r.C)) ++ ('=' :: (r.D ++ '\n' :: rest)) := by
      rw [hs0]; simp
    have hk3 : pre.length + (j ++ r.A).length + 1 + r.B.length + ('\n' :: r.C).length
        = (pre ++ (j ++ r.A) ++ ['='] ++ r.B ++ ('\n' :: r.C)).length := by
      simp; omega
    rw [getNextValue_at s _ r.D rest '=' _ hs3 hk3 (by decide) hD]
    simp only
    rw [floatTok_ok _ hfB, floatTok_ok _ hfD]
    simp only
    have hs4 : s = (pre ++ (j ++ r.A) ++ ['='] ++ r.B ++ ('\n' :: r.C) ++ ['='] ++ r.D) ++ (['\n'] ++ (rs.map Row2.text).flatten) := by
      rw [hs0, hrest]; simp
    have hk4 : pre.length + (j ++ r.A).length + 1 + r.B.length + ('\n' :: r.C).length + 1 + r.D.length
        = (pre ++ (j ++ r.A) ++ ['='] ++ r.B ++ ('\n' :: r.C) ++ ['='] ++ r.D).length := by
      simp; omega
    rw [hk4, hs4, ih _ ['\n'] _ f (by simp) (fun r' hr' => hg r' (by simp [hr'])) (by simp at hf; omega)]
    simp

/-! ## the header -/

theorem pySplit_two (c : Char) (a b : Txt) (ha : c ∉ a) (hb : c ∉ b) : pySplit c (a ++ c :: b) = [a, b] := by
  have := pySplit_join c [a, b] (by simp) (by intro p hp; simp at hp; rcases hp with rfl | rfl <;> assumption)
  simpa [join] using this

theorem pySplitN_hit_nil (c : Char) (n : Nat) (rest : Txt) :
    pySplitN c (n + 1) (c :: rest) = [] :: pySplitN c n rest := by
  simpa using pySplitN_hit c n [] rest (by simp)

/-- `float(row.split("=")[-1].strip())` on a row `key = numeral ` -/
theorem lastAfterEq (k n : Txt) (hk : '=' ∉ k) (hn : LNumeral n) :
    floatTok (stripList ((pySplit '=' (k ++ '=' :: ' ' :: (n ++ [' ']))).getLast?.getD [])) = .ok n := by
  obtain ⟨h1, h2, _, h4⟩ := hn
  rw [pySplit_two '=' k _ hk (by simp [h4])]
  simp only [List.getLast?_cons_cons, List.getLast?_singleton, Option.getD_some]
  rw [stripList_blanks n h1, floatTok_ok n h2]

/-- the text of a `key = numeral ` line -/
def kv (k n : Txt) : Txt := k ++ '=' :: ' ' :: (n ++ [' '])

theorem nl_not_mem_kv (k n : Txt) (hk : '\n' ∉ k) (hn : LNumeral n) : '\n' ∉ kv k n := by
  simp [kv, hk, hn.2.2.1]

theorem parseNormalHeader_lines (l0 l1 l5 l6 rest xmin xmax : Txt)
    (h0 : '\n' ∉ l0) (h1 : '\n' ∉ l1) (h5 : '\n' ∉ l5) (h6 : '\n' ∉ l6)
    (hmin : LNumeral xmin) (hmax : LNumeral xmax) :
    parseNormalHeader (l0 ++ '\n' :: (l1 ++ '\n' :: ('\n' :: (kv (t "xmin ") xmin ++ '\n' ::
      (kv (t "xmax ") xmax ++ '\n' :: (l5 ++ '\n' :: (l6 ++ '\n' :: rest)))))))
      = .ok (rest, stripList (((pySplit '=' l1).getLast?.getD []).filter (· ≠ '"')), xmin, xmax) := by
  unfold parseNormalHeader
  rw [pySplitN_hit _ _ l0 _ h0, pySplitN_hit _ _ l1 _ h1, pySplitN_hit_nil,
    pySplitN_hit _ _ _ _ (nl_not_mem_kv _ _ (by decide) hmin),
    pySplitN_hit _ _ _ _ (nl_not_mem_kv _ _ (by decide) hmax),
    pySplitN_hit _ _ l5 _ h5, pySplitN_hit _ _ l6 _ h6, pySplitN_zero]
  simp only [objectType, getIdx, List.getElem?_cons_succ, List.getElem?_cons_zero, List.length_cons, List.length_nil,
    List.getD_cons_succ, List.getD_cons_zero, bind, Except.bind, pure, Except.pure]
  unfold kv
  rw [lastAfterEq _ xmax (by decide) hmax, lastAfterEq _ xmin (by decide) hmin]
  simp

/-! ## the sniff `"xmin" in data[:100]` -/

theorem isPrefixOf_append (p a r : Txt) (h : p.isPrefixOf a = true) : p.isPrefixOf (a ++ r) = true := by
  rw [List.isPrefixOf_iff_prefix] at h ⊢
  exact h.trans (List.prefix_append a r)

theorem findAt_append (p a r : Txt) (i : Nat) (h : (findAt p a i).isSome) : (findAt p (a ++ r) i).isSome := by
  induction a generalizing i with
  | nil =>
    have hp : p = [] := by
      cases p with
      | nil => rfl
      | cons x xs => simp [findAt] at h
    subst hp
    cases r <;> simp [findAt, List.isPrefixOf]
  | cons c cs ih =>
    rw [List.cons_append]
    unfold findAt at h ⊢
    by_cases hp : p.isPrefixOf (c :: cs) = true
    · have := isPrefixOf_append p (c :: cs) r hp
      rw [List.cons_append] at this
      simp [this]
    · simp only [hp] at h
      by_cases hp' : p.isPrefixOf (c :: (cs ++ r)) = true
      · simp [hp']
      · simp only [hp']
        exact ih _ h

theorem contains_append (p a r : Txt) (h : contains p a = true) : contains p (a ++ r) = true := by
  unfold contains pyFind at h ⊢
  simp only [Nat.not_lt_zero, if_false, List.drop_zero] at h ⊢
  exact findAt_append p a r 0 h

theorem sniff (q A r : Txt) (hl : A.length ≤ 100) (hc : contains q A = true) :
    contains q ((A ++ r).take 100) = true := by
  rw [List.take_append, List.take_of_length_le hl]
  exact contains_append q A _ hc

/-! ## the body rows as scanner rows -/

def rows1 : Nat → List (List Txt) → List Row1
  | _, [] => []
  | i, r :: rest => ⟨t "    t [" ++ natDec (i + 1) ++ t "] ", ' ' :: (r.headD [] ++ [' '])⟩ :: rows1 (i + 1) rest

theorem longRows1D_text (i : Nat) (rows : List (List Txt)) :
    ((longRows1D i rows).map (· ++ ['\n'])).flatten = ((rows1 i rows).map Row1.text).flatten := by
  induction rows generalizing i with
  | nil => rfl
  | cons r rest ih =>
    simp only [longRows1D, rows1, List.map_cons, List.flatten_cons, ih]
    have e1 : t "] = " = t "] " ++ '=' :: [' '] := by decide
    have e2 : t " " = [' '] := by decide
    simp [Row1.text, e1, e2]

theorem rows1_length (i : Nat) (rows : List (List Txt)) : (rows1 i rows).length = rows.length := by
  induction rows generalizing i with
  | nil => rfl
  | cons r rest ih => simp [rows1, ih]

theorem rows1_good (i : Nat) (rows : List (List Txt)) (h : ∀ r ∈ rows, ∃ v, r = [v] ∧ LNumeral v) :
    ∀ r ∈ rows1 i rows, r.Good := by
  induction rows generalizing i with
  | nil => intro r hr; simp [rows1] at hr
  | cons x xs ih =>
    intro r hr
    rcases List.mem_cons.1 hr with rfl | hr
    · obtain ⟨v, rfl, s1, f1, n1, _⟩ := h x (by simp)
      refine ⟨?_, ?_, ?_⟩
      · have := eq_not_mem_natDec (i + 1)
        have d1 : '=' ∉ t "    t [" := by decide
        have d2 : '=' ∉ t "] " := by decide
        simp [this, d1, d2]
      · simp [n1]
      · simp only [List.headD_cons]; rw [stripList_blanks _ s1]; exact f1
    · exact ih (i + 1) (fun q hq => h q (by simp [hq])) r hr

theorem rows1_map (i : Nat) (rows : List (List Txt)) (h : ∀ r ∈ rows, ∃ v, r = [v] ∧ LNumeral v) :
    (rows1 i rows).map (fun r => [stripList r.B]) = rows := by
  induction rows generalizing i with
  | nil => rfl
  | cons x xs ih =>
    obtain ⟨v, rfl, s1, _⟩ := h x (by simp)
    simp only [rows1, List.map_cons, List.headD_cons, stripList_blanks _ s1]
    rw [ih (i + 1) (fun q hq => h q (by simp [hq]))]

theorem row1_fuel (rs : List Row1) : rs.length ≤ ((rs.map Row1.text).flatten).length := by
  induction rs with
  | nil => simp
  | cons r rs ih =>
    rw [List.map_cons, List.flatten_cons, List.length_append, List.length_cons]
    have : 1 ≤ r.text.length := by simp [Row1.text]; omega
    omega

/-- 2-D rows after the first: `A` holds the `points [i]:` line -/
def rows2 : Nat → List (List Txt) → List Row2
  | _, [] => []
  | i, r :: rest =>
    ⟨t "points [" ++ natDec (i + 1) ++ t "]:" ++ '\n' :: t "    number ", ' ' :: (r.headD [] ++ [' ']),
     t "    value ", ' ' :: (r.getD 1 [] ++ [' '])⟩ :: rows2 (i + 1) rest

theorem longRows2D_text (i : Nat) (rows : List (List Txt)) :
    ((longRows2D i rows).map (· ++ ['\n'])).flatten = ((rows2 i rows).map Row2.text).flatten := by
  induction rows generalizing i with
  | nil => rfl
  | cons r rest ih =>
    simp only [longRows2D, rows2, List.map_cons, List.flatten_cons, ih]
    have e1 : t "    number = " = t "    number " ++ '=' :: [' '] := by decide
    have e2 : t "    value = " = t "    value " ++ '=' :: [' '] := by decide
    have e3 : t " " = [' '] := by decide
    simp [Row2.text, e1, e2, e3]

theorem rows2_length (i : Nat) (rows : List (List Txt)) : (rows2 i rows).length = rows.length := by
  induction rows generalizing i with
  | nil => rfl
  | cons r rest ih => simp [rows2, ih]

theorem rows2_good (i : Nat) (rows : List (List Txt)) (h : ∀ r ∈ rows, ∃ a b, r = [a, b] ∧ LNumeral a ∧ LNumeral b) :
    ∀ r ∈ rows2 i rows, r.Good := by
  induction rows generalizing i with
  | nil => intro r hr; simp [rows2] at hr
  | cons x xs ih =>
    intro r hr
    rcases List.mem_cons.1 hr with rfl | hr
    · obtain ⟨a, b, rfl, ⟨s1, f1, n1, _⟩, ⟨s2, f2, n2, _⟩⟩ := h x (by simp)
      refine ⟨?_, ?_, ?_, ?_, ?_, ?_⟩
      · have := eq_not_mem_natDec (i + 1)
        have d1 : '=' ∉ t "points [" := by decide
        have d2 : '=' ∉ t "]:" := by decide
        have d3 : '=' ∉ t "    number " := by decide
        simp [this, d1, d2, d3]
      · simp [n1]
      · have d3 : '=' ∉ t "    value " := by decide
        simpa using d3
      · simp [n2]
      · simp only [List.headD_cons]; rw [stripList_blanks _ s1]; exact f1
      · simp only [List.getD_cons_succ, List.getD_cons_zero]; rw [stripList_blanks _ s2]; exact f2
    · exact ih (i + 1) (fun q hq => h q (by simp [hq])) r hr

theorem rows2_map (i : Nat) (rows : List (List Txt)) (h : ∀ r ∈ rows, ∃ a b, r = [a, b] ∧ LNumeral a ∧ LNumeral b) :
    (rows2 i rows).map (fun r => [stripList r.B, stripList r.D]) = rows := by
  induction rows generalizing i with
  | nil => rfl
  | cons x xs ih =>
    obtain ⟨a, b, rfl, ⟨s1, _⟩, ⟨s2, _⟩⟩ := h x (by simp)
    simp only [rows2, List.map_cons, List.headD_cons, List.getD_cons_succ, List.getD_cons_zero,
      stripList_blanks _ s1, stripList_blanks _ s2]
    rw [ih (i + 1) (fun q hq => h q (by simp [hq]))]

theorem row2_fuel (rs : List Row2) : rs.length ≤ ((rs.map Row2.text).flatten).length := by
  induction rs with
  | nil => simp
  | cons r rs ih =>
    rw [List.map_cons, List.flatten_cons, List.length_append, List.length_cons]
    have : 1 ≤ r.text.length := by simp [Row2.text]; omega
    omega

/-! ## normal form of the long text -/

theorem longText_1d (cls xmin xmax : Txt) (rows : List (List Txt)) :
    PO.longText ⟨cls, xmin, xmax, rows⟩ false =
      t "File type = \"ooTextFile\"" ++ '\n' :: ((t "Object class = \"" ++ cls ++ t "\"") ++ '\n' :: ('\n' ::
        (kv (t "xmin ") xmin ++ '\n' :: (kv (t "xmax ") xmax ++ '\n' ::
          ((t "nt = " ++ natDec rows.length ++ t " ") ++ '\n' :: (t "t []: " ++ '\n' ::
            ((rows1 0 rows).map Row1.text).flatten)))))) := by
  unfold PO.longText
  simp only [Bool.false_eq_true, if_false]
  rw [join_append_sep _ _ (by simp), ← longRows1D_text]
  have e1 : t "xmin = " = t "xmin " ++ '=' :: [' '] := by decide
  have e2 : t "xmax = " = t "xmax " ++ '=' :: [' '] := by decide
  have e3 : t " " = [' '] := by decide
  simp [kv, e1, e2, e3]

/-- the first 2-D row after the header split: its `points [1]:` line went to the header -/
def first2 (r : List Txt) : Row2 :=
  ⟨t "    number ", ' ' :: (r.headD [] ++ [' ']), t "    value ", ' ' :: (r.getD 1 [] ++ [' '])⟩

theorem longText_2d (cls xmin xmax : Txt) (r0 : List Txt) (rs : List (List Txt)) :
    PO.longText ⟨cls, xmin, xmax, r0 :: rs⟩ true =
      t "File type = \"ooTextFile\"" ++ '\n' :: ((t "Object class = \"" ++ cls ++ t "\"") ++ '\n' :: ('\n' ::
        (kv (t "xmin ") xmin ++ '\n' :: (kv (t "xmax ") xmax ++ '\n' ::
          ((t "points: size = " ++ natDec (rs.length + 1) ++ t " ") ++ '\n' ::
            ((t "points [" ++ natDec (0 + 1) ++ t "]:") ++ '\n' ::
              ((first2 r0 :: rows2 1 rs).map Row2.text).flatten)))))) := by
  unfold PO.longText
  simp only [if_true]
  rw [join_append_sep _ _ (by simp)]
  have e1 : t "xmin = " = t "xmin " ++ '=' :: [' '] := by decide
  have e2 : t "xmax = " = t "xmax " ++ '=' :: [' '] := by decide
  have e3 : t " " = [' '] := by decide
  have e4 : t "    number = " = t "    number " ++ '=' :: [' '] := by decide
  have e5 : t "    value = " = t "    value " ++ '=' :: [' '] := by decide
  have := longRows2D_text 1 rs
  simp only [longRows2D, List.map_cons, List.flatten_cons, List.cons_append, List.nil_append]
  rw [this]
  simp [kv, first2, Row2.text, e1, e2, e3, e4, e5]

theorem first2_good (a b : Txt) (ha : LNumeral a) (hb : LNumeral b) : (first2 [a, b]).Good := by
  obtain ⟨s1, f1, n1, _⟩ := ha
  obtain ⟨s2, f2, n2, _⟩ := hb
  refine ⟨?_, ?_, ?_, ?_, ?_, ?_⟩
  · have d3 : '=' ∉ t "    number " := by decide
    simpa [first2] using d3
  · simp [first2, n1]
  · have d3 : '=' ∉ t "    value " := by decide
    simpa [first2] using d3
  · simp [first2, n2]
  · simp only [first2, List.headD_cons]; rw [stripList_blanks _ s1]; exact f1
  · simp only [first2, List.getD_cons_succ, List.getD_cons_zero]; rw [stripList_blanks _ s2]; exact f2

theorem sniff_text (cls rest : Txt)
    (hc : cls = t "PointProcess" ∨ cls = t "PitchTier" ∨ cls = t "DurationTier") (xmin : Txt) :
    contains (t "xmin") ((t "File type = \"ooTextFile\"" ++ '\n' :: ((t "Object class = \"" ++ cls ++ t "\"") ++
      '\n' :: ('\n' :: (kv (t "xmin ") xmin ++ '\n' :: rest)))).take 100) = true := by
  have key : ∀ A : Txt, A.length ≤ 100 → contains (t "xmin") A = true →
      A = t "File type = \"ooTextFile\"" ++ '\n' :: ((t "Object class = \"" ++ cls ++ t "\"") ++ '\n' :: ('\n' :: t "xmin ")) →
      contains (t "xmin") ((t "File type = \"ooTextFile\"" ++ '\n' :: ((t "Object class = \"" ++ cls ++ t "\"") ++
        '\n' :: ('\n' :: (kv (t "xmin ") xmin ++ '\n' :: rest)))).take 100) = true := by
    intro A hl hA hAe
    have := sniff (t "xmin") A ('=' :: ' ' :: (xmin ++ [' ']) ++ '\n' :: rest) hl hA
    rw [hAe] at this
    simpa [kv] using this
  rcases hc with rfl | rfl | rfl
  · exact key _ (by decide) (by decide) rfl
  · exact key _ (by decide) (by decide) rfl
  · exact key _ (by decide) (by decide) rfl

theorem objectType_cls (cls : Txt)
    (hc : cls = t "PointProcess" ∨ cls = t "PitchTier" ∨ cls = t "DurationTier") :
    stripList (((pySplit '=' (t "Object class = \"" ++ cls ++ t "\"")).getLast?.getD []).filter (· ≠ '"')) = cls := by
  rcases hc with rfl | rfl | rfl <;> decide

/-- "the result is this exception", as a Boolean (`R PO` has no `DecidableEq`) -/
def isErr (e : PyErr) (r : R PO) : Bool :=
  match r with
  | .error e' => decide (e' = e)
  | .ok _ => false

theorem isErr_eq (e : PyErr) (r : R PO) (h : isErr e r = true) : r = .error e := by
  cases r with
  | error e' => simp [isErr] at h; rw [h]
  | ok _ => simp [isErr] at h

end Long

/-- the long text layout of a PointProcess opens to the same numeral-level object (any number of rows) -/
theorem pointobj_long_1d (p : PO) (h : PO.Ok1 p) : open1D (p.longText false) = .ok p := by
  have h := Long.ok1_of h
  obtain ⟨cls, xmin, xmax, rows⟩ := p
  obtain ⟨hc, hmin, hmax, hrows⟩ := h
  simp only at hc hmin hmax hrows
  have hcls : cls = t "PointProcess" ∨ cls = t "PitchTier" ∨ cls = t "DurationTier" := Or.inl hc
  unfold open1D
  rw [Long.longText_1d]
  rw [if_pos (Long.sniff_text cls _ hcls xmin)]
  have hL1 : '\n' ∉ t "Object class = \"" ++ cls ++ t "\"" := by subst hc; decide
  have h5 : '\n' ∉ t "nt = " ++ natDec rows.length ++ t " " := by
    have := nl_not_mem_natDec rows.length
    have d1 : '\n' ∉ t "nt = " := by decide
    have d2 : '\n' ∉ t " " := by decide
    simp [this, d1, d2]
  rw [Long.parseNormalHeader_lines _ _ _ _ _ xmin xmax (by decide) hL1 h5 (by decide) hmin hmax]
  rw [Long.objectType_cls cls hcls]
  simp only [bind, Except.bind]
  have hloop := Long.long1DLoop_rows (Long.rows1 0 rows) [] [] []
    (((Long.rows1 0 rows).map Long.Row1.text).flatten.length + 1) (by simp)
    (Long.rows1_good 0 rows hrows) (by have := Long.row1_fuel (Long.rows1 0 rows); omega)
  simp only [List.nil_append, List.length_nil] at hloop
  rw [hloop, Long.rows1_map 0 rows hrows]
  subst hc
  rfl

/-- the long text layout of a PitchTier / DurationTier with at least one point opens to the same object -/
theorem pointobj_long_2d (p : PO) (h : PO.Ok2 p) (hne : p.rows ≠ []) : open2D (p.longText true) = .ok p := by
  have h := Long.ok2_of h
  obtain ⟨cls, xmin, xmax, rows⟩ := p
  obtain ⟨hc, hmin, hmax, hrows⟩ := h
  simp only at hc hmin hmax hrows hne
  have hcls : cls = t "PointProcess" ∨ cls = t "PitchTier" ∨ cls = t "DurationTier" := Or.inr hc
  cases rows with
  | nil => exact absurd rfl hne
  | cons r0 rs =>
  obtain ⟨a, b, rfl, ha, hb⟩ := hrows r0 (by simp)
  have hrs : ∀ r ∈ rs, ∃ a b, r = [a, b] ∧ Long.LNumeral a ∧ Long.LNumeral b :=
    fun r hr => hrows r (by simp [hr])
  unfold open2D
  rw [Long.longText_2d]
  rw [if_pos (Long.sniff_text cls _ hcls xmin)]
  have hL1 : '\n' ∉ t "Object class = \"" ++ cls ++ t "\"" := by
    rcases hc with rfl | rfl <;> decide
  have h5 : '\n' ∉ t "points: size = " ++ natDec (rs.length + 1) ++ t " " := by
    have := nl_not_mem_natDec (rs.length + 1)
    have d1 : '\n' ∉ t "points: size = " := by decide
    have d2 : '\n' ∉ t " " := by decide
    simp [this, d1, d2]
  have h6 : '\n' ∉ t "points [" ++ natDec (0 + 1) ++ t "]:" := by decide
  rw [Long.parseNormalHeader_lines _ _ _ _ _ xmin xmax (by decide) hL1 h5 h6 hmin hmax]
  rw [Long.objectType_cls cls hcls]
  simp only [bind, Except.bind]
  have hgood : ∀ r ∈ Long.first2 [a, b] :: Long.rows2 1 rs, r.Good := by
    intro r hr
    rcases List.mem_cons.1 hr with rfl | hr
    · exact Long.first2_good a b ha hb
    · exact Long.rows2_good 1 rs hrs r hr
  have hloop := Long.long2DLoop_rows (Long.first2 [a, b] :: Long.rows2 1 rs) [] [] []
    ((((Long.first2 [a, b] :: Long.rows2 1 rs).map Long.Row2.text).flatten).length + 1) (by simp)
    hgood (by have := Long.row2_fuel (Long.first2 [a, b] :: Long.rows2 1 rs); omega)
  simp only [List.nil_append, List.length_nil] at hloop
  rw [hloop]
  have hmap : (Long.first2 [a, b] :: Long.rows2 1 rs).map (fun r => [stripList r.B, stripList r.D])
      = [a, b] :: rs := by
    rw [List.map_cons, Long.rows2_map 1 rs hrs]
    simp only [Long.first2, List.headD_cons, List.getD_cons_succ, List.getD_cons_zero,
      Long.stripList_blanks _ ha.1, Long.stripList_blanks _ hb.1]
  rw [hmap]
  rcases hc with rfl | rfl <;> rfl

/-- **the empty 2-D object in the long layout** (`points: size = 0` and nothing after it) opens to the empty
object.  Before /repo commit 3bc936d the header rows were counted from the end of `split("\n", 7)`, which
has one element fewer here, and `float("")` raised ValueError (former known finding C19-empty2d-long). -/
theorem pointobj_long_2d_empty (p : PO) (h : PO.Ok2 p) (he : p.rows = []) :
    open2D (p.longText true) = .ok p := by
  have h := Long.ok2_of h
  obtain ⟨cls, xmin, xmax, rows⟩ := p
  obtain ⟨hc, hmin, hmax, -⟩ := h
  simp only at hc hmin hmax he
  subst he
  have hcls : cls = t "PointProcess" ∨ cls = t "PitchTier" ∨ cls = t "DurationTier" := Or.inr hc
  have htxt : PO.longText ⟨cls, xmin, xmax, []⟩ true =
      t "File type = \"ooTextFile\"" ++ '\n' :: ((t "Object class = \"" ++ cls ++ t "\"") ++ '\n' :: ('\n' ::
        (Long.kv (t "xmin ") xmin ++ '\n' :: (Long.kv (t "xmax ") xmax ++ '\n' ::
          ((t "points: size = " ++ natDec 0 ++ t " ") ++ '\n' :: []))))) := by
    unfold PO.longText
    simp only [if_true]
    rw [join_append_sep _ _ (by simp)]
    have e1 : t "xmin = " = t "xmin " ++ '=' :: [' '] := by decide
    have e2 : t "xmax = " = t "xmax " ++ '=' :: [' '] := by decide
    have e3 : t " " = [' '] := by decide
    simp [Long.kv, longRows2D, e1, e2, e3]
  unfold open2D
  rw [htxt, if_pos (Long.sniff_text cls _ hcls xmin)]
  have hL1 : '\n' ∉ t "Object class = \"" ++ cls ++ t "\"" := by
    rcases hc with rfl | rfl <;> decide
  unfold parseNormalHeader
  rw [pySplitN_hit _ _ _ _ (by decide), pySplitN_hit _ _ _ _ hL1, Long.pySplitN_hit_nil,
    pySplitN_hit _ _ _ _ (Long.nl_not_mem_kv _ _ (by decide) hmin),
    pySplitN_hit _ _ _ _ (Long.nl_not_mem_kv _ _ (by decide) hmax),
    pySplitN_hit _ _ _ _ (by decide), pySplitN_no _ _ [] (by simp)]
  simp only [objectType, getIdx, List.getElem?_cons_succ, List.getElem?_cons_zero, List.length_cons, List.length_nil,
    bind, Except.bind, pure, Except.pure]
  unfold Long.kv
  rw [Long.lastAfterEq _ xmax (by decide) hmax, Long.lastAfterEq _ xmin (by decide) hmin]
  have hot := Long.objectType_cls cls hcls
  have h7 : ¬ (7 < 0 + 1 + 1 + 1 + 1 + 1 + 1 + 1) := by decide
  simp only [h7, if_false, hot, List.length_nil, long2DLoop, pyFind, findAt, Nat.not_lt_zero, List.drop_zero]
  rcases hc with rfl | rfl <;> rfl

/-- the long layout of a 2-D object opens to the same object, **for every number of points** -/
theorem pointobj_long_2d_all (p : PO) (h : PO.Ok2 p) : open2D (p.longText true) = .ok p := by
  by_cases he : p.rows = []
  · exact pointobj_long_2d_empty p h he
  · exact pointobj_long_2d p h he

#guard match open2D (PO.longText ⟨t "PitchTier", t "0", t "1.5", []⟩ true) with
  | .ok q => decide (q = ⟨t "PitchTier", t "0", t "1.5", []⟩)
  | _ => false
#guard match open2D (PO.longText ⟨t "DurationTier", t "0", t "1.5", []⟩ true) with
  | .ok q => decide (q = ⟨t "DurationTier", t "0", t "1.5", []⟩)
  | _ => false

#guard match open1D (PO.longText ⟨t "PointProcess", t "0", t "1.5", [[t "0.25"], [t "1e-05"]]⟩ false) with
  | .ok q => decide (q = ⟨t "PointProcess", t "0", t "1.5", [[t "0.25"], [t "1e-05"]]⟩)
  | _ => false
#guard match open1D (PO.longText ⟨t "PointProcess", t "0", t "1.5", []⟩ false) with
  | .ok q => decide (q = ⟨t "PointProcess", t "0", t "1.5", []⟩)
  | _ => false
#guard match open2D (PO.longText ⟨t "PitchTier", t "0", t "1.5", [[t "0.25", t "120"], [t "0.5", t "-3.5e2"]]⟩ true) with
  | .ok q => decide (q = ⟨t "PitchTier", t "0", t "1.5", [[t "0.25", t "120"], [t "0.5", t "-3.5e2"]]⟩)
  | _ => false
#guard match open2D (PO.longText ⟨t "DurationTier", t "0", t "1.5", [[t "0.25", t "1.0"]]⟩ true) with
  | .ok q => decide (q = ⟨t "DurationTier", t "0", t "1.5", [[t "0.25", t "1.0"]]⟩)
  | _ => false

/-- the class hypothesis of `PO.Ok1` / `PO.Ok2` is enforced by the code: the 1-D reader refuses a PitchTier text,
the 2-D reader a PointProcess text (praatio's WrongOption, raised by the constructors; replayed on /repo) -/
theorem pointobj_wrong_class_rejected :
    open1D (PO.text ⟨t "PitchTier", t "0", t "1", []⟩) = .error .wrongOption ∧
    open2D (PO.text ⟨t "PointProcess", t "0", t "1", []⟩) = .error .wrongOption :=
  ⟨Long.isErr_eq _ _ (by decide), Long.isErr_eq _ _ (by decide)⟩

end C19
