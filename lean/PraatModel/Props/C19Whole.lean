import PraatModel.Props.C19File
import PraatModel.Props.C19Read

/-! # C19 — the whole-file round trip at the numeral level (clause (e)) -/

deriving instance DecidableEq for Klatt.WSec

namespace C19
open Klatt

/-- save, then open, with the reader's hypotheses stated on the cleaned tree -/
theorem klatt_roundtrip_clean (xmin xmax : Txt) (secs : List WSec) (hw : File.WriterOk xmin xmax secs)
    (hr : Read.ReadOk xmin xmax (secs.map cleanWSec)) :
    openNormal (fileText xmin xmax secs) = .ok (secs.map fun w => cleanSec w.sec) := by
  rw [fileText_layout xmin xmax secs hw, openNormal_layout xmin xmax _ hr]
  simp [cleanWSec, List.map_map, Function.comp_def]

/-- save, then open, with the hypotheses split by consumer: `File.WriterOk` (what the writer/cleaner proof uses),
`Read.ReadOk` (what the reader proof uses) and `Read.PtsOk` (the point numerals inside containers).  All three
follow from `KlattOk` below, where every numeral condition is just "a string `float()` accepts and `strip()`
leaves alone". -/
theorem klatt_roundtrip_parts (xmin xmax : Txt) (secs : List WSec) (hw : File.WriterOk xmin xmax secs)
    (hr : Read.ReadOk xmin xmax secs) (hp : Read.PtsOk secs) :
    openNormal (fileText xmin xmax secs) = .ok (secs.map fun w => cleanSec w.sec) :=
  klatt_roundtrip_clean xmin xmax secs hw (Read.readOk_clean xmin xmax secs hr hp)

/-! ## the hypotheses in plain terms: `KlattOk` -/

/-- the numeral conditions of the reader / writer / cleaner proofs all follow from `Lit` -/
theorem fnumeral_of_lit {n : Txt} (h : Lit n) : Read.FNumeral n := Read.FNumeral.of_lit h

theorem pointOk_of_lit {n : Txt} (h : Lit n) : File.PointOk n :=
  File.PointOk.of_numeral (fnumeral_of_lit h).1.1 (h.not_mem '=' (by decide)) (h.not_mem 'm' (by decide))

theorem spanOk_of_lit {n : Txt} (h : Lit n) : File.SpanOk n := File.SpanOk.of_numeral (fnumeral_of_lit h).1.1

/-- a sub tier of the intermediate tier `iname`: named `iname [k]`, all numerals are numerals -/
structure SubOk (iname : Txt) (p : PT) : Prop where
  name : ∃ k, p.name = iname ++ t " [" ++ natDec k ++ t "]"
  xmin : Lit p.xmin
  xmax : Lit p.xmax
  pts : ∀ q ∈ p.pts, Lit q.1 ∧ Lit q.2

/-- a top-level tier -/
structure TopTierOk (p : PT) : Prop where
  /-- the name is one stripped line without `?`, `<`, `=` (every tier name of a KlattGrid is an identifier) … -/
  name_nl : '\n' ∉ p.name
  name_q : '?' ∉ p.name
  name_lt : '<' ∉ p.name
  name_eq : '=' ∉ p.name
  name_strip : stripList p.name = p.name
  /-- … and not one of the seven container names (the reader dispatches on the name) -/
  notCont : containerNames.contains p.name = false
  xmin : Lit p.xmin
  xmax : Lit p.xmax
  pts : ∀ q ∈ p.pts, Lit q.1 ∧ Lit q.2
  /-- `phonation`, `vocalTract`, `coupling`, `frication` are written without a `points: size` row: they carry no
  points (with points the file cannot be read back: `header_tier_with_points_rejected`) -/
  headerOnly : noPointsHeader.contains p.name = true → p.pts = []

/-- a container section -/
structure ContainerOk (name : Txt) (span : Option (Txt × Txt)) (its : List IT) : Prop where
  name : name ∈ containerNames
  /-- the container's own span: present exactly when it has a sub tier (below: it has) -/
  span : ∃ a b, span = some (a, b) ∧ Lit a ∧ Lit b
  /-- the intermediate tiers are distinct tiers named as in Praat, in Praat's order `formants`, `bandwidths`,
  `…_amplitudes` — the order of every object the reader returns, whatever the order in the file
  (`container_roundtrip_anyorder` in general, `container_order_normalised` on a whole file) -/
  order : (its.map (·.name)).Sublist canon
  subs : ∀ i ∈ its, ∀ p ∈ i.subs, SubOk i.name p
  /-- every intermediate tier has a sub tier — **not** a harmless hypothesis: Praat writes `formants: size = 0`
  for a branch without formants, and the reader fails on it (`klatt_zero_formants_counterexample`) -/
  nonempty : ∀ i ∈ its, i.subs ≠ []
  /-- sub tier names are distinct (`addTier` raises TierNameExistsError otherwise: `duplicate_subtier_rejected`) -/
  distinct : ∀ i ∈ its, hasDup (i.subs.map (·.name)) = false
  /-- there is an intermediate tier (Praat always writes the `formants: size = n` and `bandwidths: size = n`
  rows; a container section of three header rows only is not a KlattGrid section — the reader builds a
  container without a span from it, and `addTier` raises TypeError unless it is the first section) -/
  ne : its ≠ []

def SecOk (w : WSec) : Prop :=
  match w.sec with
  | .tier p => TopTierOk p
  | .cont n its => ContainerOk n w.span its

/-- **all hypotheses of `klatt_roundtrip`, about the tree that is saved** -/
structure KlattOk (xmin xmax : Txt) (secs : List WSec) : Prop where
  xmin : Lit xmin
  xmax : Lit xmax
  ok : ∀ w ∈ secs, SecOk w
  /-- section names are distinct (`Klattgrid.addTier` raises TierNameExistsError otherwise: `duplicate_section_rejected`) -/
  names : (secs.map (·.sec.name)).Nodup
  /-- the reader looks for the word "points" before anything else ("Not sure if this is needed") and raises
  ValueError when there is none: some section is a container or a tier with a `points: size` row
  (`no_points_row_rejected`) -/
  points : ∃ w ∈ secs, match w.sec with
    | .tier p => noPointsHeader.contains p.name = false
    | .cont _ _ => True

theorem subName_nameOk (nm : Txt) (hnm : nm ∈ canon) (k : Nat) : File.NameOk (nm ++ t " [" ++ natDec k ++ t "]") := by
  obtain ⟨h1, h2⟩ := File.canon_nameOk nm hnm
  have a1 : '=' ∉ t " [" := by decide
  have a2 : '=' ∉ t "]" := by decide
  have b1 : '\n' ∉ t " [" := by decide
  have b2 : '\n' ∉ t "]" := by decide
  exact ⟨by simp [h1, a1, a2, eq_not_mem_natDec], by simp [h2, b1, b2, nl_not_mem_natDec]⟩

theorem SubOk.ptOk {nm : Txt} {p : PT} (hnm : nm ∈ canon) (h : SubOk nm p) : File.PTOk p := by
  obtain ⟨k, hk⟩ := h.name
  refine ⟨by rw [hk]; exact subName_nameOk nm hnm k, spanOk_of_lit h.xmin, spanOk_of_lit h.xmax, ?_⟩
  intro q hq
  exact ⟨pointOk_of_lit (h.pts q hq).1, pointOk_of_lit (h.pts q hq).2⟩

theorem SubOk.shape {nm : Txt} {p : PT} (h : SubOk nm p) : PTShape nm p :=
  ⟨h.name, (fnumeral_of_lit h.xmin).1, (fnumeral_of_lit h.xmax).1,
    fun q hq => ⟨(fnumeral_of_lit (h.pts q hq).1).1, (fnumeral_of_lit (h.pts q hq).2).1⟩⟩

theorem containerNames_nameOk : ∀ nm ∈ containerNames, File.NameOk nm := by
  have : ∀ nm ∈ containerNames, '=' ∉ nm ∧ '\n' ∉ nm := by decide
  exact this

theorem KlattOk.writerOk {xmin xmax : Txt} {secs : List WSec} (h : KlattOk xmin xmax secs) : File.WriterOk xmin xmax secs := by
  refine ⟨spanOk_of_lit h.xmin, spanOk_of_lit h.xmax, ?_⟩
  intro w hw
  have hs := h.ok w hw
  obtain ⟨sec, span⟩ := w
  cases sec with
  | tier p =>
    have hs : TopTierOk p := hs
    refine ⟨⟨hs.name_eq, hs.name_nl⟩, spanOk_of_lit hs.xmin, spanOk_of_lit hs.xmax, ?_⟩
    intro q hq
    exact ⟨pointOk_of_lit (hs.pts q hq).1, pointOk_of_lit (hs.pts q hq).2⟩
  | cont n its =>
    have hs : ContainerOk n span its := hs
    refine ⟨containerNames_nameOk n hs.name, ?_, ?_⟩
    · intro ab hab
      obtain ⟨a, b, hsp, ha, hb⟩ := hs.span
      have hsp : span = some (a, b) := hsp
      subst hsp
      simp only [Option.mem_def, Option.some.injEq] at hab
      subst hab
      exact ⟨spanOk_of_lit ha, spanOk_of_lit hb⟩
    · intro i hi
      have hc : i.name ∈ canon := hs.order.subset (List.mem_map.2 ⟨i, hi, rfl⟩)
      exact File.ITOk.of_canon hc (fun p hp => (hs.subs i hi p hp).ptOk hc)

theorem ContainerOk.shape2 {n : Txt} {span : Option (Txt × Txt)} {its : List IT} (hs : ContainerOk n span its) : Shape2 its :=
  { nodup := hs.order.nodup canon_nodup
    canonical := fun i hi => hs.order.subset (List.mem_map.2 ⟨i, hi, rfl⟩)
    subs := fun i hi p hp => (hs.subs i hi p hp).shape
    spans := fun i hi p hp => ⟨(hs.subs i hi p hp).xmin.not_mem '=' (by decide), (hs.subs i hi p hp).xmax.not_mem '=' (by decide)⟩
    nonempty := hs.nonempty
    distinct := hs.distinct }

theorem KlattOk.readOk {xmin xmax : Txt} {secs : List WSec} (h : KlattOk xmin xmax secs) : Read.ReadOk xmin xmax secs := by
  refine ⟨⟨h.xmin.not_mem '\n' (by decide), h.xmin.not_mem '<' (by decide)⟩,
    ⟨h.xmax.not_mem '\n' (by decide), h.xmax.not_mem '<' (by decide)⟩, ?_, h.names, h.points⟩
  intro w hw
  have hs := h.ok w hw
  obtain ⟨sec, span⟩ := w
  cases sec with
  | tier p =>
    have hs : TopTierOk p := hs
    exact ⟨hs.name_nl, hs.name_q, hs.name_lt, hs.name_strip, hs.notCont, fnumeral_of_lit hs.xmin, fnumeral_of_lit hs.xmax,
      fun q hq => ⟨fnumeral_of_lit (hs.pts q hq).1, fnumeral_of_lit (hs.pts q hq).2⟩, hs.headerOnly⟩
  | cont n its =>
    have hs : ContainerOk n span its := hs
    obtain ⟨a, b, hsp, ha, hb⟩ := hs.span
    refine ⟨hs.name, ⟨a, b, hsp, fnumeral_of_lit ha, fnumeral_of_lit hb⟩, hs.shape2, hs.order, hs.ne, ?_⟩
    intro i hi p hp
    have := hs.subs i hi p hp
    exact ⟨this.xmin.not_mem '<' (by decide), this.xmax.not_mem '<' (by decide),
      fun q hq => ⟨(this.pts q hq).1.not_mem '<' (by decide), (this.pts q hq).2.not_mem '<' (by decide)⟩⟩

theorem KlattOk.ptsOk {xmin xmax : Txt} {secs : List WSec} (h : KlattOk xmin xmax secs) : Read.PtsOk secs := by
  intro w hw
  have hs := h.ok w hw
  obtain ⟨sec, span⟩ := w
  cases sec with
  | tier p => trivial
  | cont n its =>
    have hs : ContainerOk n span its := hs
    intro i hi p hp q hq
    have := (hs.subs i hi p hp).pts q hq
    exact ⟨fnumeral_of_lit this.1, fnumeral_of_lit this.2⟩


/-- **(e) `klatt_roundtrip`** — save, then open: `_openNormalKlattgrid (Klattgrid.save tree)` returns the
tree's sections in order — names, hierarchy (container → intermediate → sub tiers), spans, every point's
number and value — where each point numeral `n` comes back as `cz n`: the same string, except that a
zero-valued literal which `int()` rejects comes back as `0` (`0.0`, `0e0`, `.0`) or, when it starts with a
minus sign, as `-0` (`-0.0`, `-0e0`) — `_cleanNumericValues`; both read back as the same float including
the sign of zero (`cz_zero_forms`; before /repo commit bd8eb8f `-0.0` came back as `0`).

One hypothesis, `KlattOk`, about the tree that is saved.  **Numerals** (spans, times, values) are arbitrary
strings `float()` accepts and `strip()` leaves alone (`Lit`: integers, negative numbers, exponent forms such as
`1e-05`, `-0`, 17 significant digits, `inf`, `nan` — no condition on their characters: `fclass_chars`).
**Names**: top-level tiers have one-line stripped names without `?`, `<`, `=` that are not container names;
containers and intermediate tiers are named as in Praat, sub tiers `name [k]`; section names and sub tier
names are distinct (enforced by `addTier`).  **Structure**: intermediate tiers in Praat's order (the reader
returns that order whatever the file's: `container_roundtrip_anyorder`, `container_order_normalised`), each with at least one sub tier
(violated by a conformant KlattGrid with a branch of zero formants, on which the real reader fails:
`klatt_zero_formants_counterexample`, `klatt_roundtrip_empty_formants_counterexample`); header-only tiers
without points (`header_tier_with_points_rejected`); some `points` row in the file (`no_points_row_rejected`). -/
theorem klatt_roundtrip (xmin xmax : Txt) (secs : List WSec) (h : KlattOk xmin xmax secs) :
    openNormal (fileText xmin xmax secs) = .ok (secs.map fun w => cleanSec w.sec) :=
  klatt_roundtrip_parts xmin xmax secs h.writerOk h.readOk h.ptsOk

/-- what `cz` does to the zero forms: the sign of a negative zero is kept (former known finding C19-negzero) -/
theorem cz_zero_forms : cz (t "-0.0") = t "-0" ∧ cz (t "0.0") = t "0" ∧ cz (t "0") = t "0" ∧ cz (t "-0") = t "-0" ∧
    cz (t "-0e0") = t "-0" := by decide

/-- `cz` changes a numeral only into `0` or `-0`, the latter only when the numeral starts with `-` -/
theorem cz_spec (n : Txt) : cz n = n ∨ (cz n = t "0" ∧ n.head? ≠ some '-' ∧ fclass n = some FClass.zero) ∨
    (cz n = t "-0" ∧ n.head? = some '-' ∧ fclass n = some FClass.zero) := by
  unfold cz
  split
  · exact Or.inl rfl
  · split
    · rename_i hz
      unfold zeroForm
      split
      · exact Or.inr (Or.inr ⟨rfl, rfl, hz⟩)
      · rename_i hne
        refine Or.inr (Or.inl ⟨rfl, ?_, hz⟩)
        intro hh
        cases n with
        | nil => simp at hh
        | cons c cs => simp at hh; subst hh; exact hne cs rfl
    · exact Or.inl rfl

/-! ## non-vacuity: a small complete file -/

def exFile : List WSec :=
  [⟨.tier ⟨t "phonation", t "0", t "1", []⟩, none⟩,
   ⟨.tier ⟨t "pitch", t "0", t "1", [(t "0.5", t "-0.0"), (t "0.75", t "55")]⟩, none⟩,
   ⟨.cont (t "oral_formants") exIts, some (t "0", t "1")⟩,
   ⟨.tier ⟨t "gain", t "0", t "1", []⟩, none⟩]

#guard fileText (t "0") (t "1") exFile =
  t "File type = \"ooTextFile\"\nObject class = \"KlattGrid\"\n\nxmin = 0\nxmax = 1\nphonation? <exists>\nxmin = 0\nxmax = 1\npitch? <exists>\nxmin = 0\nxmax = 1\npoints: size = 2\npoints [1]:\n    number = 0.5\n    value = -0\npoints [2]:\n    number = 0.75\n    value = 55\noral_formants? <exists>\nxmin = 0\nxmax = 1\nformants: size = 2\nformants [1]:\n    xmin = 0\n    xmax = 1\n    points: size = 1\n    points [1]:\n        number = 0.5\n        value = 55\nformants [2]:\n    xmin = 0\n    xmax = 1\n    points: size = 0\nbandwidths: size = 1\nbandwidths [1]:\n    xmin = 0\n    xmax = 1\n    points: size = 1\n    points [1]:\n        number = 0.25\n        value = 60\ngain? <exists>\nxmin = 0\nxmax = 1\npoints: size = 0\n"

#guard (match openNormal (fileText (t "0") (t "1") exFile) with
        | .ok r => decide (r = exFile.map fun w => cleanSec w.sec) | .error _ => false)

set_option exponentiation.threshold 2000 in
theorem exFile_writerOk : File.WriterOk (t "0") (t "1") exFile := by decide

set_option exponentiation.threshold 2000 in
set_option maxRecDepth 100000 in
theorem fnumeral_examples : Read.FNumeral (t "0") ∧ Read.FNumeral (t "1") ∧ Read.FNumeral (t "0.5") ∧ Read.FNumeral (t "0.75") ∧
    Read.FNumeral (t "55") := by
  refine ⟨?_, ?_, ?_, ?_, ?_⟩ <;>
    exact ⟨⟨⟨by decide, by decide, by decide⟩, by decide, by decide⟩, by decide, by decide⟩

set_option exponentiation.threshold 2000 in
set_option maxRecDepth 100000 in
theorem exFile_clean : exFile.map cleanWSec =
    [⟨.tier ⟨t "phonation", t "0", t "1", []⟩, none⟩,
     ⟨.tier ⟨t "pitch", t "0", t "1", [(t "0.5", t "-0"), (t "0.75", t "55")]⟩, none⟩,
     ⟨.cont (t "oral_formants") exIts, some (t "0", t "1")⟩,
     ⟨.tier ⟨t "gain", t "0", t "1", []⟩, none⟩] := by decide +kernel

/-- the hypotheses of `klatt_roundtrip` are satisfiable -/
theorem exFile_readOk : Read.ReadOk (t "0") (t "1") (exFile.map cleanWSec) := by
  obtain ⟨f0, f1, f05, f075, f55⟩ := fnumeral_examples
  rw [exFile_clean]
  refine ⟨⟨by decide, by decide⟩, ⟨by decide, by decide⟩, ?_, by decide, ?_⟩
  · intro w hw
    simp only [List.mem_cons, List.not_mem_nil, or_false] at hw
    rcases hw with rfl | rfl | rfl | rfl
    · exact ⟨by decide, by decide, by decide, by decide, by decide, f0, f1, (by intro q hq; cases hq), (by intro _; rfl)⟩
    · refine ⟨by decide, by decide, by decide, by decide, by decide, f0, f1, ?_, by decide⟩
      intro q hq
      simp only [List.mem_cons, List.not_mem_nil, or_false] at hq
      rcases hq with rfl | rfl
      · exact ⟨f05, Read.fnumeral_negzero⟩
      · exact ⟨f075, f55⟩
    · refine ⟨by decide, ⟨t "0", t "1", rfl, f0, f1⟩, exIts_shape2, by decide, by decide, ?_⟩
      decide
    · exact ⟨by decide, by decide, by decide, by decide, by decide, f0, f1, (by intro q hq; cases hq), (by decide)⟩
  · exact ⟨_, List.mem_cons_of_mem _ (List.mem_cons_self), by decide⟩

/-- the whole-file round trip on the example: the `-0.0` comes back as `-0`, everything else verbatim -/
example : openNormal (fileText (t "0") (t "1") exFile) = .ok (exFile.map fun w => cleanSec w.sec) :=
  klatt_roundtrip_clean _ _ _ exFile_writerOk exFile_readOk

set_option exponentiation.threshold 2000 in
set_option maxRecDepth 100000 in
theorem fnumeral_examples2 : Read.FNumeral (t "-0.0") ∧ Read.FNumeral (t "0.25") ∧ Read.FNumeral (t "60") := by
  refine ⟨?_, ?_, ?_⟩ <;>
    exact ⟨⟨⟨by decide, by decide, by decide⟩, by decide, by decide⟩, by decide, by decide⟩

theorem exFile_readOk_raw : Read.ReadOk (t "0") (t "1") exFile := by
  obtain ⟨f0, f1, f05, f075, f55⟩ := fnumeral_examples
  obtain ⟨fz, _, _⟩ := fnumeral_examples2
  refine ⟨⟨by decide, by decide⟩, ⟨by decide, by decide⟩, ?_, by decide, ?_⟩
  · intro w hw
    simp only [exFile, List.mem_cons, List.not_mem_nil, or_false] at hw
    rcases hw with rfl | rfl | rfl | rfl
    · exact ⟨by decide, by decide, by decide, by decide, by decide, f0, f1, (by intro q hq; cases hq), (by intro _; rfl)⟩
    · refine ⟨by decide, by decide, by decide, by decide, by decide, f0, f1, ?_, by decide⟩
      intro q hq
      simp only [List.mem_cons, List.not_mem_nil, or_false] at hq
      rcases hq with rfl | rfl
      · exact ⟨f05, fz⟩
      · exact ⟨f075, f55⟩
    · refine ⟨by decide, ⟨t "0", t "1", rfl, f0, f1⟩, exIts_shape2, by decide, by decide, ?_⟩
      decide
    · exact ⟨by decide, by decide, by decide, by decide, by decide, f0, f1, (by intro q hq; cases hq), (by decide)⟩
  · exact ⟨_, List.mem_cons_of_mem _ (List.mem_cons_self), by decide⟩

theorem exFile_ptsOk : Read.PtsOk exFile := by
  obtain ⟨_, _, f05, _, f55⟩ := fnumeral_examples
  obtain ⟨_, f025, f60⟩ := fnumeral_examples2
  intro w hw
  simp only [exFile, List.mem_cons, List.not_mem_nil, or_false] at hw
  rcases hw with rfl | rfl | rfl | rfl
  · trivial
  · trivial
  · intro i hi p hp q hq
    simp only [exIts, List.mem_cons, List.not_mem_nil, or_false] at hi
    rcases hi with rfl | rfl <;> simp only [List.mem_cons, List.not_mem_nil, or_false] at hp
    · rcases hp with rfl | rfl
      · simp only [List.mem_cons, List.not_mem_nil, or_false] at hq; subst hq; exact ⟨f05, f55⟩
      · cases hq
    · subst hp
      simp only [List.mem_cons, List.not_mem_nil, or_false] at hq; subst hq; exact ⟨f025, f60⟩
  · trivial

/-- `klatt_roundtrip_parts` applies to the example: all hypotheses are about the saved tree and are satisfiable -/
example : openNormal (fileText (t "0") (t "1") exFile) = .ok (exFile.map fun w => cleanSec w.sec) :=
  klatt_roundtrip_parts _ _ _ exFile_writerOk exFile_readOk_raw exFile_ptsOk

set_option exponentiation.threshold 2000 in
set_option maxRecDepth 100000 in
theorem lit_examples : Lit (t "0") ∧ Lit (t "1") ∧ Lit (t "0.5") ∧ Lit (t "0.75") ∧ Lit (t "55") ∧ Lit (t "-0.0") ∧
    Lit (t "0.25") ∧ Lit (t "60") := by
  refine ⟨?_, ?_, ?_, ?_, ?_, ?_, ?_, ?_⟩ <;> exact ⟨by decide, by decide⟩

/-- the hypothesis of `klatt_roundtrip` is satisfiable: it holds of the example (which has a `-0.0`) -/
theorem exFile_klattOk : KlattOk (t "0") (t "1") exFile := by
  obtain ⟨f0, f1, f05, f075, f55, fz, f025, f60⟩ := lit_examples
  refine ⟨f0, f1, ?_, by decide, ⟨_, List.mem_cons_of_mem _ (List.mem_cons_self), by decide⟩⟩
  intro w hw
  simp only [exFile, List.mem_cons, List.not_mem_nil, or_false] at hw
  rcases hw with rfl | rfl | rfl | rfl
  · exact ⟨by decide, by decide, by decide, by decide, by decide, by decide, f0, f1, (by intro q hq; cases hq), (by intro _; rfl)⟩
  · refine ⟨by decide, by decide, by decide, by decide, by decide, by decide, f0, f1, ?_, by decide⟩
    intro q hq
    simp only [List.mem_cons, List.not_mem_nil, or_false] at hq
    rcases hq with rfl | rfl
    · exact ⟨f05, fz⟩
    · exact ⟨f075, f55⟩
  · refine ⟨by decide, ⟨t "0", t "1", rfl, f0, f1⟩, by decide, ?_, ?_, ?_, by decide⟩
    · intro i hi p hp
      simp only [exIts, List.mem_cons, List.not_mem_nil, or_false] at hi
      rcases hi with rfl | rfl <;> simp only [List.mem_cons, List.not_mem_nil, or_false] at hp
      · rcases hp with rfl | rfl
        · refine ⟨⟨1, by decide⟩, f0, f1, ?_⟩
          intro q hq
          simp only [List.mem_cons, List.not_mem_nil, or_false] at hq; subst hq; exact ⟨f05, f55⟩
        · exact ⟨⟨2, by decide⟩, f0, f1, by intro q hq; cases hq⟩
      · subst hp
        refine ⟨⟨1, by decide⟩, f0, f1, ?_⟩
        intro q hq
        simp only [List.mem_cons, List.not_mem_nil, or_false] at hq; subst hq; exact ⟨f025, f60⟩
    · intro i hi
      simp only [exIts, List.mem_cons, List.not_mem_nil, or_false] at hi
      rcases hi with rfl | rfl <;> simp
    · intro i hi
      simp only [exIts, List.mem_cons, List.not_mem_nil, or_false] at hi
      rcases hi with rfl | rfl <;> decide
  · exact ⟨by decide, by decide, by decide, by decide, by decide, by decide, f0, f1, (by intro q hq; cases hq), (by decide)⟩

/-- `klatt_roundtrip` applies to the example -/
example : openNormal (fileText (t "0") (t "1") exFile) = .ok (exFile.map fun w => cleanSec w.sec) :=
  klatt_roundtrip _ _ _ exFile_klattOk

/-! ## what the hypotheses of `klatt_roundtrip` exclude: replayed on the real code and on the model -/

def errIs (e : PyErr) (r : R (List Sec)) : Bool :=
  match r with
  | .error e' => e' == e
  | .ok _ => false

theorem errIs_eq (e : PyErr) (r : R (List Sec)) (h : errIs e r = true) : r = .error e := by
  cases r with
  | error e' => simp only [errIs, beq_iff_eq] at h; rw [h]
  | ok _ => simp [errIs] at h

def okIs (q : List Sec) (r : R (List Sec)) : Bool :=
  match r with
  | .ok q' => decide (q' = q)
  | .error _ => false

theorem okIs_eq (q : List Sec) (r : R (List Sec)) (h : okIs q r = true) : r = .ok q := by
  cases r with
  | error _ => simp [okIs] at h
  | ok q' => simp only [okIs, decide_eq_true_eq] at h; rw [h]

/-- a KlattGrid in Praat's layout whose nasal branch has no formants: Praat writes `formants: size = 0` and
`bandwidths: size = 0` (Create KlattGrid… with 0 nasal formants) -/
def zeroFormantsText : Txt :=
  t "File type = \"ooTextFile\"\nObject class = \"KlattGrid\"\n\nxmin = 0 \nxmax = 1 \npitch? <exists> \nxmin = 0 \nxmax = 1 \npoints: size = 1 \npoints [1]:\n    number = 0.5 \n    value = 100 \nnasal_formants? <exists> \nxmin = 0 \nxmax = 1 \nformants: size = 0 \nbandwidths: size = 0 \ngain? <exists> \nxmin = 0 \nxmax = 1 \npoints: size = 0 \n"

set_option exponentiation.threshold 2000 in
set_option maxRecDepth 100000 in
/-- **the reader fails on a conformant KlattGrid with zero formants in a branch** (genuine defect of
`_proccessContainerTierInput`, replayed on /repo: `openKlattgrid` raises `UnboundLocalError: cannot access local
variable 'subName'`): the slice of the `formants: size = 0` row is rejected by `_getSectionHeader` (ValueError,
`continue`), no sub tier is built, and `subName` — set only inside the loop — is read after it.  Expected: a
`nasal_formants` container whose `formants` and `bandwidths` tiers have no sub tiers. -/
theorem klatt_zero_formants_counterexample : openNormal zeroFormantsText = .error .unboundLocal :=
  errIs_eq _ _ (by decide +kernel)

/-- a tree built through the API: `nasal_formants` with a `formants` tier without sub tiers and one bandwidth -/
def emptyFormantsTree : List WSec :=
  [⟨.tier ⟨t "pitch", t "0", t "1.0", [(t "0.5", t "100.0")]⟩, none⟩,
   ⟨.cont (t "nasal_formants") [⟨t "formants", []⟩,
      ⟨t "bandwidths", [⟨t "bandwidths [1]", t "0", t "1.0", [(t "0.25", t "60.0")]⟩]⟩], some (t "0", t "1.0")⟩]

-- the file praatio writes for it, byte for byte
#guard fileText (t "0") (t "1.0") emptyFormantsTree = t "File type = \"ooTextFile\"\nObject class = \"KlattGrid\"\n\nxmin = 0\nxmax = 1.0\npitch? <exists>\nxmin = 0\nxmax = 1.0\npoints: size = 1\npoints [1]:\n    number = 0.5\n    value = 100.0\nnasal_formants? <exists>\nxmin = 0\nxmax = 1.0\nformants: size = 0\nbandwidths: size = 1\nbandwidths [1]:\n    xmin = 0\n    xmax = 1.0\n    points: size = 1\n    points [1]:\n        number = 0.25\n        value = 60.0\n"

set_option exponentiation.threshold 2000 in
set_option maxRecDepth 100000 in
/-- **save, then open fails for an intermediate tier without sub tiers**: the file `Klattgrid.save` writes for
`emptyFormantsTree` cannot be opened (`UnboundLocalError`; with the empty tier in second place the stale
`subName` of the previous tier is reused and `addTier` raises TierNameExistsError).  This is why
`ContainerOk.nonempty` is a hypothesis of `klatt_roundtrip`. -/
theorem klatt_roundtrip_empty_formants_counterexample :
    openNormal (fileText (t "0") (t "1.0") emptyFormantsTree) = .error .unboundLocal :=
  errIs_eq _ _ (by decide +kernel)

/-- `bandwidths` written before `formants` -/
def reorderedTree : List WSec :=
  [⟨.tier ⟨t "pitch", t "0", t "1.0", [(t "0.5", t "100.0")]⟩, none⟩,
   ⟨.cont (t "nasal_formants")
      [⟨t "bandwidths", [⟨t "bandwidths [1]", t "0", t "1.0", [(t "0.25", t "60.0")]⟩]⟩,
       ⟨t "formants", [⟨t "formants [1]", t "0", t "1.0", [(t "0.5", t "500.0")]⟩]⟩], some (t "0", t "1.0")⟩]

-- the file praatio writes for it, byte for byte
#guard fileText (t "0") (t "1.0") reorderedTree = t "File type = \"ooTextFile\"\nObject class = \"KlattGrid\"\n\nxmin = 0\nxmax = 1.0\npitch? <exists>\nxmin = 0\nxmax = 1.0\npoints: size = 1\npoints [1]:\n    number = 0.5\n    value = 100.0\nnasal_formants? <exists>\nxmin = 0\nxmax = 1.0\nbandwidths: size = 1\nbandwidths [1]:\n    xmin = 0\n    xmax = 1.0\n    points: size = 1\n    points [1]:\n        number = 0.25\n        value = 60.0\nformants: size = 1\nformants [1]:\n    xmin = 0\n    xmax = 1.0\n    points: size = 1\n    points [1]:\n        number = 0.5\n        value = 500.0\n"

set_option exponentiation.threshold 2000 in
set_option maxRecDepth 100000 in
/-- **the reader does not depend on the order of the intermediate tiers in the file, and returns Praat's
order**: `bandwidths` before `formants` in the file comes back as `formants`, `bandwidths` — every sub tier,
span and numeral intact (replayed on /repo: same result; a second save/open is then the identity).  Objects the
reader returns are therefore always in the order `ContainerOk.order` asks for. -/
theorem container_order_normalised :
    openNormal (fileText (t "0") (t "1.0") reorderedTree) = .ok
      [.tier ⟨t "pitch", t "0", t "1.0", [(t "0.5", t "100.0")]⟩,
       .cont (t "nasal_formants")
         [⟨t "formants", [⟨t "formants [1]", t "0", t "1.0", [(t "0.5", t "500.0")]⟩]⟩,
          ⟨t "bandwidths", [⟨t "bandwidths [1]", t "0", t "1.0", [(t "0.25", t "60.0")]⟩]⟩]] :=
  okIs_eq _ _ (by decide +kernel)

set_option exponentiation.threshold 2000 in
set_option maxRecDepth 100000 in
/-- a grid of header-only tiers has no `points` row, and the reader's `data.index("points")` raises ValueError
(replayed on /repo: `ValueError: substring not found`); no KlattGrid Praat writes is like that -/
theorem no_points_row_rejected :
    openNormal (fileText (t "0") (t "1.0") [⟨.tier ⟨t "phonation", t "0", t "1.0", []⟩, none⟩]) = .error .valueError :=
  errIs_eq _ _ (by decide +kernel)

#guard fileText (t "0") (t "1.0") [⟨.tier ⟨t "phonation", t "0", t "1.0", [(t "0.5", t "100.0")]⟩, none⟩, ⟨.tier ⟨t "gain", t "0", t "1.0", []⟩, none⟩]
  = t "File type = \"ooTextFile\"\nObject class = \"KlattGrid\"\n\nxmin = 0\nxmax = 1.0\nphonation? <exists>\nxmin = 0\nxmax = 1.0\npoints [1]:\n    number = 0.5\n    value = 100.0\ngain? <exists>\nxmin = 0\nxmax = 1.0\npoints: size = 0\n"

set_option exponentiation.threshold 2000 in
set_option maxRecDepth 100000 in
/-- a header-only tier (`phonation`) that carries a point is written without its `points: size` row, and
`_buildEntries` then fails on the `points [1]:` row (replayed on /repo: `IndexError: list index out of range`);
Praat's header-only tiers have no points, and `modifyValues` cannot add any -/
theorem header_tier_with_points_rejected :
    openNormal (fileText (t "0") (t "1.0")
      [⟨.tier ⟨t "phonation", t "0", t "1.0", [(t "0.5", t "100.0")]⟩, none⟩,
       ⟨.tier ⟨t "gain", t "0", t "1.0", []⟩, none⟩]) = .error .indexError :=
  errIs_eq _ _ (by decide +kernel)

set_option exponentiation.threshold 2000 in
set_option maxRecDepth 100000 in
/-- `KlattOk.names` is enforced by the code: two sections of one name are refused by `Klattgrid.addTier`
(praatio's TierNameExistsError, replayed on /repo) — no object the reader returns has them -/
theorem duplicate_section_rejected :
    openNormal (fileText (t "0") (t "1.0")
      [⟨.tier ⟨t "pitch", t "0", t "1.0", [(t "0.5", t "100.0")]⟩, none⟩,
       ⟨.tier ⟨t "pitch", t "0", t "1.0", [(t "0.5", t "100.0")]⟩, none⟩]) = .error .tierNameExists :=
  errIs_eq _ _ (by decide +kernel)

set_option exponentiation.threshold 2000 in
set_option maxRecDepth 100000 in
/-- `ContainerOk.distinct` is enforced by the code: two sub tiers of one name are refused by
`KlattIntermediateTier.addTier` (TierNameExistsError, replayed on /repo) -/
theorem duplicate_subtier_rejected :
    openNormal (fileText (t "0") (t "1.0")
      [⟨.tier ⟨t "pitch", t "0", t "1.0", [(t "0.5", t "100.0")]⟩, none⟩,
       ⟨.cont (t "nasal_formants")
          [⟨t "formants", [⟨t "formants [1]", t "0", t "1.0", []⟩, ⟨t "formants [1]", t "0", t "1.0", []⟩]⟩,
           ⟨t "bandwidths", [⟨t "bandwidths [1]", t "0", t "1.0", []⟩]⟩], some (t "0", t "1.0")⟩]) = .error .tierNameExists :=
  errIs_eq _ _ (by decide +kernel)

end C19
