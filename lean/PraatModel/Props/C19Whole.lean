import PraatModel.Props.C19File
import PraatModel.Props.C19Read

/-! # C19 — the whole-file round trip at the numeral level (clause (e)) -/

deriving instance DecidableEq for Klatt.WSec

namespace C19
open Klatt

/-- save, then open, with the reader's hypotheses stated on the cleaned tree -/
theorem klatt_roundtrip_clean (xmin xmax : Txt) (secs : List WSec) (hw : File.WriterOk xmin xmax secs)
    (hr : Read.ReadOk xmin xmax (secs.map cleanWSec)) :
    openNormal (fileText xmin xmax secs) = .ok (secs.map fun w => cleanSec w.sec) := by
  rw [fileText_layout xmin xmax secs hw, openNormal_layout xmin xmax _ hr]
  simp [cleanWSec, List.map_map, Function.comp_def]

/-- **(e) `klatt_roundtrip`** — save, then open: `_openNormalKlattgrid (Klattgrid.save tree)` returns the
tree's sections in order — names, hierarchy (container → intermediate → sub tiers), spans, every point's
number and value — where each point numeral `n` comes back as `cz n`: the same string, except that a
zero-valued literal which `int()` rejects comes back as `0` (`0.0`, `0e0`, `.0`) or, when it starts with a
minus sign, as `-0` (`-0.0`, `-0e0`) — `_cleanNumericValues`; both read back as the same float including
the sign of zero (`cz_zero_forms`; before /repo commit bd8eb8f `-0.0` came back as `0`).

Hypotheses, all about the tree that is saved: `File.WriterOk` (what the writer/cleaner proof needs: names
without `=`/newline, non-empty stripped one-line span numerals, point numerals without `=`, "min", "max"),
`Read.ReadOk` (what the reader proof needs: tiers with `?`-, `<`-free stripped names that are not container
names, containers named as in Praat with a span and canonical intermediate tiers `formants`, `bandwidths`,
`…_amplitudes` in that order, each with at least one sub tier `name [k]`, distinct section names, at least
one section with a `points` row, numerals that are float literals without `=`, `<`, `s`, `w`) and
`Read.PtsOk` (the same for the point numerals inside containers). -/
theorem klatt_roundtrip (xmin xmax : Txt) (secs : List WSec) (hw : File.WriterOk xmin xmax secs)
    (hr : Read.ReadOk xmin xmax secs) (hp : Read.PtsOk secs) :
    openNormal (fileText xmin xmax secs) = .ok (secs.map fun w => cleanSec w.sec) :=
  klatt_roundtrip_clean xmin xmax secs hw (Read.readOk_clean xmin xmax secs hr hp)

/-- what `cz` does to the zero forms: the sign of a negative zero is kept (former known finding C19-negzero) -/
theorem cz_zero_forms : cz (t "-0.0") = t "-0" ∧ cz (t "0.0") = t "0" ∧ cz (t "0") = t "0" ∧ cz (t "-0") = t "-0" ∧
    cz (t "-0e0") = t "-0" := by decide

/-- `cz` changes a numeral only into `0` or `-0`, the latter only when the numeral starts with `-` -/
theorem cz_spec (n : Txt) : cz n = n ∨ (cz n = t "0" ∧ n.head? ≠ some '-' ∧ fclass n = some FClass.zero) ∨
    (cz n = t "-0" ∧ n.head? = some '-' ∧ fclass n = some FClass.zero) := by
  unfold cz
  split
  · exact Or.inl rfl
  · split
    · rename_i hz
      unfold zeroForm
      split
      · exact Or.inr (Or.inr ⟨rfl, rfl, hz⟩)
      · rename_i hne
        refine Or.inr (Or.inl ⟨rfl, ?_, hz⟩)
        intro hh
        cases n with
        | nil => simp at hh
        | cons c cs => simp at hh; subst hh; exact hne cs rfl
    · exact Or.inl rfl

/-! ## non-vacuity: a small complete file -/

def exFile : List WSec :=
  [⟨.tier ⟨t "phonation", t "0", t "1", []⟩, none⟩,
   ⟨.tier ⟨t "pitch", t "0", t "1", [(t "0.5", t "-0.0"), (t "0.75", t "55")]⟩, none⟩,
   ⟨.cont (t "oral_formants") exIts, some (t "0", t "1")⟩,
   ⟨.tier ⟨t "gain", t "0", t "1", []⟩, none⟩]

#guard fileText (t "0") (t "1") exFile =
  t "File type = \"ooTextFile\"\nObject class = \"KlattGrid\"\n\nxmin = 0\nxmax = 1\nphonation? <exists>\nxmin = 0\nxmax = 1\npitch? <exists>\nxmin = 0\nxmax = 1\npoints: size = 2\npoints [1]:\n    number = 0.5\n    value = -0\npoints [2]:\n    number = 0.75\n    value = 55\noral_formants? <exists>\nxmin = 0\nxmax = 1\nformants: size = 2\nformants [1]:\n    xmin = 0\n    xmax = 1\n    points: size = 1\n    points [1]:\n        number = 0.5\n        value = 55\nformants [2]:\n    xmin = 0\n    xmax = 1\n    points: size = 0\nbandwidths: size = 1\nbandwidths [1]:\n    xmin = 0\n    xmax = 1\n    points: size = 1\n    points [1]:\n        number = 0.25\n        value = 60\ngain? <exists>\nxmin = 0\nxmax = 1\npoints: size = 0\n"

#guard (match openNormal (fileText (t "0") (t "1") exFile) with
        | .ok r => decide (r = exFile.map fun w => cleanSec w.sec) | .error _ => false)

set_option exponentiation.threshold 2000 in
theorem exFile_writerOk : File.WriterOk (t "0") (t "1") exFile := by decide

set_option exponentiation.threshold 2000 in
set_option maxRecDepth 100000 in
theorem fnumeral_examples : Read.FNumeral (t "0") ∧ Read.FNumeral (t "1") ∧ Read.FNumeral (t "0.5") ∧ Read.FNumeral (t "0.75") ∧
    Read.FNumeral (t "55") := by
  refine ⟨?_, ?_, ?_, ?_, ?_⟩ <;>
    exact ⟨⟨⟨by decide, by decide, by decide⟩, by decide, by decide⟩, by decide, by decide⟩

set_option exponentiation.threshold 2000 in
set_option maxRecDepth 100000 in
theorem exFile_clean : exFile.map cleanWSec =
    [⟨.tier ⟨t "phonation", t "0", t "1", []⟩, none⟩,
     ⟨.tier ⟨t "pitch", t "0", t "1", [(t "0.5", t "-0"), (t "0.75", t "55")]⟩, none⟩,
     ⟨.cont (t "oral_formants") exIts, some (t "0", t "1")⟩,
     ⟨.tier ⟨t "gain", t "0", t "1", []⟩, none⟩] := by decide +kernel

/-- the hypotheses of `klatt_roundtrip` are satisfiable -/
theorem exFile_readOk : Read.ReadOk (t "0") (t "1") (exFile.map cleanWSec) := by
  obtain ⟨f0, f1, f05, f075, f55⟩ := fnumeral_examples
  rw [exFile_clean]
  refine ⟨⟨by decide, by decide⟩, ⟨by decide, by decide⟩, ?_, by decide, ?_⟩
  · intro w hw
    simp only [List.mem_cons, List.not_mem_nil, or_false] at hw
    rcases hw with rfl | rfl | rfl | rfl
    · exact ⟨by decide, by decide, by decide, by decide, by decide, f0, f1, (by intro q hq; cases hq), (by intro _; rfl)⟩
    · refine ⟨by decide, by decide, by decide, by decide, by decide, f0, f1, ?_, by decide⟩
      intro q hq
      simp only [List.mem_cons, List.not_mem_nil, or_false] at hq
      rcases hq with rfl | rfl
      · exact ⟨f05, Read.fnumeral_negzero⟩
      · exact ⟨f075, f55⟩
    · refine ⟨by decide, ⟨t "0", t "1", rfl, f0, f1⟩, exIts_shape2, by decide, ?_⟩
      decide
    · exact ⟨by decide, by decide, by decide, by decide, by decide, f0, f1, (by intro q hq; cases hq), (by decide)⟩
  · exact ⟨_, List.mem_cons_of_mem _ (List.mem_cons_self), by decide⟩

/-- the whole-file round trip on the example: the `-0.0` comes back as `-0`, everything else verbatim -/
example : openNormal (fileText (t "0") (t "1") exFile) = .ok (exFile.map fun w => cleanSec w.sec) :=
  klatt_roundtrip_clean _ _ _ exFile_writerOk exFile_readOk

set_option exponentiation.threshold 2000 in
set_option maxRecDepth 100000 in
theorem fnumeral_examples2 : Read.FNumeral (t "-0.0") ∧ Read.FNumeral (t "0.25") ∧ Read.FNumeral (t "60") := by
  refine ⟨?_, ?_, ?_⟩ <;>
    exact ⟨⟨⟨by decide, by decide, by decide⟩, by decide, by decide⟩, by decide, by decide⟩

theorem exFile_readOk_raw : Read.ReadOk (t "0") (t "1") exFile := by
  obtain ⟨f0, f1, f05, f075, f55⟩ := fnumeral_examples
  obtain ⟨fz, _, _⟩ := fnumeral_examples2
  refine ⟨⟨by decide, by decide⟩, ⟨by decide, by decide⟩, ?_, by decide, ?_⟩
  · intro w hw
    simp only [exFile, List.mem_cons, List.not_mem_nil, or_false] at hw
    rcases hw with rfl | rfl | rfl | rfl
    · exact ⟨by decide, by decide, by decide, by decide, by decide, f0, f1, (by intro q hq; cases hq), (by intro _; rfl)⟩
    · refine ⟨by decide, by decide, by decide, by decide, by decide, f0, f1, ?_, by decide⟩
      intro q hq
      simp only [List.mem_cons, List.not_mem_nil, or_false] at hq
      rcases hq with rfl | rfl
      · exact ⟨f05, fz⟩
      · exact ⟨f075, f55⟩
    · refine ⟨by decide, ⟨t "0", t "1", rfl, f0, f1⟩, exIts_shape2, by decide, ?_⟩
      decide
    · exact ⟨by decide, by decide, by decide, by decide, by decide, f0, f1, (by intro q hq; cases hq), (by decide)⟩
  · exact ⟨_, List.mem_cons_of_mem _ (List.mem_cons_self), by decide⟩

theorem exFile_ptsOk : Read.PtsOk exFile := by
  obtain ⟨_, _, f05, _, f55⟩ := fnumeral_examples
  obtain ⟨_, f025, f60⟩ := fnumeral_examples2
  intro w hw
  simp only [exFile, List.mem_cons, List.not_mem_nil, or_false] at hw
  rcases hw with rfl | rfl | rfl | rfl
  · trivial
  · trivial
  · intro i hi p hp q hq
    simp only [exIts, List.mem_cons, List.not_mem_nil, or_false] at hi
    rcases hi with rfl | rfl <;> simp only [List.mem_cons, List.not_mem_nil, or_false] at hp
    · rcases hp with rfl | rfl
      · simp only [List.mem_cons, List.not_mem_nil, or_false] at hq; subst hq; exact ⟨f05, f55⟩
      · cases hq
    · subst hp
      simp only [List.mem_cons, List.not_mem_nil, or_false] at hq; subst hq; exact ⟨f025, f60⟩
  · trivial

/-- `klatt_roundtrip` applies to the example: all hypotheses are about the saved tree and are satisfiable -/
example : openNormal (fileText (t "0") (t "1") exFile) = .ok (exFile.map fun w => cleanSec w.sec) :=
  klatt_roundtrip _ _ _ exFile_writerOk exFile_readOk_raw exFile_ptsOk

end C19
