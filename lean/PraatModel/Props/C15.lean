import PraatModel.Lemmas.Sort
import PraatModel.Query

/-!
# C15 — queries and derived views agree with their definitions
-/
namespace C15

/-! ## 7. intervalOverlapCheck -/

theorem overlap_iff_excl (a b : Iv Int) :
    overlapCheck a b 0 false = true ↔ max a.s b.s < min a.e b.e := by
  obtain ⟨as, ae, al⟩ := a; obtain ⟨bs, be, bl⟩ := b
  simp only [overlapCheck, pyMax2_int, pyMin2_int, Tm.zero]
  simp
  omega

end C15
