import PraatModel.Lemmas.Sort
import PraatModel.Query

/-!
# C15 — queries and derived views agree with their definitions

Exact arithmetic (`Int` timestamps of any size, lists of any length).  Every theorem is about the model
functions of `Ops.lean` (section "queries"), `Tier.lean`/`Textgrid.lean` (`validate`) and `Query.lean`.

| clause | theorem(s) |
|---|---|
| 1 `find` | `find_eq_spec` (`findLabels_mem_exact`, `findLabels_mem_substr`, `findLabels_sorted`) |
| 2 `getNonEntries` | `nonEntries_tiling` (both formulations: unique cover of `[0, hi)` and the sorted tiling) |
| 3 `timestamps` | `timestamps_spec` (`itimestamps_spec`, `ptimestamps_spec`) |
| 4 `getValuesInIntervals` | `valuesInIntervals_spec`, `valuesInInterval_sublist`, `valuesInInterval_mem` |
| 5 `getValueAtTime` exact | `valueAt_exact_spec`, `valueAt_exact_next`; whole loop: `valuesAtPoints_exact_spec` |
| 6 `getValueAtTime` fuzzy | `valueAt_fuzzy_nearest` (full statement) |
| 7 `intervalOverlapCheck` | `overlap_iff` |
| 8 `invertIntervalList` | `invert_complement`, `invert_empty`, `invert_rejects` |
| 9 `__eq__` | `eq_refl`, `eq_symm` (`tgeq_irrefl_nospan`: the span hypothesis of the textgrid clause is needed) |
| 10 `__eq__` | `eq_discriminates`, `ieq_iff` |
| 11 `validate` | `validate_iff`, `wf_validate`, `pwf_validate` |
-/
namespace C15

/-! ## 7. `intervalOverlapCheck` -/

theorem overlap_iff_excl (a b : Iv Int) :
    overlapCheck a b 0 false = true ↔ max a.s b.s < min a.e b.e := by
  obtain ⟨as, ae, al⟩ := a; obtain ⟨bs, be, bl⟩ := b
  simp only [overlapCheck, pyMax2_int, pyMin2_int, Tm.zero]
  simp
  omega

theorem overlap_iff_incl (a b : Iv Int) :
    overlapCheck a b 0 true = true ↔ (max a.s b.s < min a.e b.e ∨ a.s = b.e ∨ a.e = b.s) := by
  obtain ⟨as, ae, al⟩ := a; obtain ⟨bs, be, bl⟩ := b
  simp only [overlapCheck, pyMax2_int, pyMin2_int, Tm.zero]
  simp
  omega

theorem overlap_iff_thr (a b : Iv Int) (thr : Int) (h : 0 < thr) :
    overlapCheck a b thr false = true ↔ thr ≤ min a.e b.e - max a.s b.s := by
  obtain ⟨as, ae, al⟩ := a; obtain ⟨bs, be, bl⟩ := b
  simp only [overlapCheck, pyMax2_int, pyMin2_int, Tm.zero]
  simp
  split <;> omega

/-- **overlap_iff** (all three clauses) -/
theorem overlap_iff (a b : Iv Int) :
    (overlapCheck a b 0 false = true ↔ max a.s b.s < min a.e b.e) ∧
    (overlapCheck a b 0 true = true ↔ (max a.s b.s < min a.e b.e ∨ a.s = b.e ∨ a.e = b.s)) ∧
    (∀ thr, 0 < thr → (overlapCheck a b thr false = true ↔ thr ≤ min a.e b.e - max a.s b.s)) :=
  ⟨overlap_iff_excl a b, overlap_iff_incl a b, overlap_iff_thr a b⟩

/-! ## 9. `__eq__` is reflexive and symmetric -/

theorem close9_symm (a b : Int) : Tm.close9 a b = Tm.close9 b a := by
  simp only [Tm.close9]
  have : (a - b).natAbs = (b - a).natAbs := by omega
  rw [this, Nat.max_comm]

theorem close14_symm (a b : Int) : Tm.close14 a b = Tm.close14 b a := by
  simp only [Tm.close14]
  have : (a - b).natAbs = (b - a).natAbs := by omega
  rw [this, Nat.max_comm]

theorem close14_self (a : Int) : Tm.close14 a a = true := by simp [Tm.close14]

theorem zip_self_all {β} (f : β × β → Bool) (l : List β) :
    (l.zip l).all f = l.all (fun a => f (a, a)) := by
  induction l with
  | nil => rfl
  | cons x xs ih => simp [List.zip_cons_cons, List.all_cons, ih]

theorem zip_all_symm {β γ} (f : β × γ → Bool) (g : γ × β → Bool) (h : ∀ a b, f (a, b) = g (b, a))
    (l : List β) (m : List γ) : (l.zip m).all f = (m.zip l).all g := by
  induction l generalizing m with
  | nil => simp
  | cons x xs ih =>
    cases m with
    | nil => simp
    | cons y ys => simp [List.zip_cons_cons, List.all_cons, h, ih]

theorem ieq_refl (t : ITier Int) : t.eq t = true := by
  simp [ITier.eq, zip_self_all, Int.close9_self]

theorem peq_refl (t : PTier Int) : t.eq t = true := by
  simp [PTier.eq, zip_self_all, Int.close9_self]

theorem ieq_symm (t u : ITier Int) : t.eq u = u.eq t := by
  unfold ITier.eq
  rw [zip_all_symm (l := t.es) (m := u.es) _
    (fun (p : Iv Int × Iv Int) => Tm.close9 p.1.s p.2.s && Tm.close9 p.1.e p.2.e && p.1.l == p.2.l)
    (by intro a b; simp only [close9_symm a.s, close9_symm a.e, BEq.comm (a := a.l)])]
  rw [close9_symm t.lo, close9_symm t.hi, BEq.comm (a := t.name), BEq.comm (a := t.es.length)]

theorem peq_symm (t u : PTier Int) : t.eq u = u.eq t := by
  unfold PTier.eq
  rw [zip_all_symm (l := t.ps) (m := u.ps) _
    (fun (p : Pt Int × Pt Int) => Tm.close9 p.1.t p.2.t && p.1.l == p.2.l)
    (by intro a b; simp only [close9_symm a.t, BEq.comm (a := a.l)])]
  rw [close9_symm t.lo, close9_symm t.hi, BEq.comm (a := t.name), BEq.comm (a := t.ps.length)]

theorem anyeq_refl (t : AnyTier Int) : t.eq t = true := by
  cases t <;> simp [AnyTier.eq, ieq_refl, peq_refl]

theorem anyeq_symm (t u : AnyTier Int) : t.eq u = u.eq t := by
  cases t <;> cases u <;> simp [AnyTier.eq, ieq_symm, peq_symm]

theorem optClose14_symm (a b : Option Int) : optClose14 a b = optClose14 b a := by
  cases a <;> cases b <;> simp [optClose14, close14_symm]

theorem tgeq_refl (g : Tg Int) (hlo : g.lo.isSome) (hhi : g.hi.isSome) : g.eq g = true := by
  obtain ⟨ts, lo, hi⟩ := g
  cases lo <;> cases hi <;> simp at hlo hhi
  simp [Tg.eq, optClose14, close14_self, zip_self_all, anyeq_refl]

theorem tgeq_symm (g h : Tg Int) : g.eq h = h.eq g := by
  unfold Tg.eq
  rw [zip_all_symm (l := g.tiers) (m := h.tiers) _ (fun (p : AnyTier Int × AnyTier Int) => p.1.eq p.2)
    (by intro a b; exact anyeq_symm a b)]
  rw [optClose14_symm g.lo, optClose14_symm g.hi, BEq.comm (a := g.names)]

/-! ## 10. what `__eq__` discriminates -/

theorem zip_all_labels {β} (l m : List β) (lab : β → String) (f : β × β → Bool)
    (hf : ∀ a b, f (a, b) = true → lab a = lab b) (hl : l.length = m.length)
    (h : (l.zip m).all f = true) : l.map lab = m.map lab := by
  induction l generalizing m with
  | nil => cases m with
    | nil => rfl
    | cons y ys => simp at hl
  | cons x xs ih =>
    cases m with
    | nil => simp at hl
    | cons y ys =>
      simp only [List.zip_cons_cons, List.all_cons, Bool.and_eq_true] at h
      simp only [List.map_cons, List.cons.injEq]
      exact ⟨hf _ _ h.1, ih ys (by simpa using hl) h.2⟩

theorem ieq_discriminates (t u : ITier Int) (h : t.eq u = true) :
    t.name = u.name ∧ Tm.close9 t.lo u.lo = true ∧ Tm.close9 t.hi u.hi = true ∧
    t.es.length = u.es.length ∧ t.es.map (·.l) = u.es.map (·.l) ∧
    ∀ p ∈ t.es.zip u.es, Tm.close9 p.1.s p.2.s = true ∧ Tm.close9 p.1.e p.2.e = true := by
  simp only [ITier.eq, Bool.and_eq_true, beq_iff_eq] at h
  obtain ⟨⟨⟨⟨h1, h2⟩, h3⟩, h4⟩, h5⟩ := h
  refine ⟨h1, h2, h3, h4, ?_, ?_⟩
  · refine zip_all_labels t.es u.es (·.l) _ ?_ h4 h5
    intro a b hab
    simp only [Bool.and_eq_true, beq_iff_eq] at hab
    exact hab.2
  · intro p hp
    have := List.all_eq_true.1 h5 p hp
    simp only [Bool.and_eq_true, beq_iff_eq] at this
    exact ⟨this.1.1, this.1.2⟩

theorem peq_discriminates (t u : PTier Int) (h : t.eq u = true) :
    t.name = u.name ∧ Tm.close9 t.lo u.lo = true ∧ Tm.close9 t.hi u.hi = true ∧
    t.ps.length = u.ps.length ∧ t.ps.map (·.l) = u.ps.map (·.l) ∧
    ∀ p ∈ t.ps.zip u.ps, Tm.close9 p.1.t p.2.t = true := by
  simp only [PTier.eq, Bool.and_eq_true, beq_iff_eq] at h
  obtain ⟨⟨⟨⟨h1, h2⟩, h3⟩, h4⟩, h5⟩ := h
  refine ⟨h1, h2, h3, h4, ?_, ?_⟩
  · refine zip_all_labels t.ps u.ps (·.l) _ ?_ h4 h5
    intro a b hab
    simp only [Bool.and_eq_true, beq_iff_eq] at hab
    exact hab.2
  · intro p hp
    have := List.all_eq_true.1 h5 p hp
    simp only [Bool.and_eq_true, beq_iff_eq] at this
    exact this.1

theorem eq_mixed (t : ITier Int) (u : PTier Int) :
    AnyTier.eq (.I t) (.P u) = false ∧ AnyTier.eq (.P u) (.I t) = false := ⟨rfl, rfl⟩

/-- the converse: `eq` is exactly these conditions -/
theorem ieq_iff (t u : ITier Int) :
    t.eq u = true ↔ t.name = u.name ∧ Tm.close9 t.lo u.lo = true ∧ Tm.close9 t.hi u.hi = true ∧
      t.es.length = u.es.length ∧
      ∀ p ∈ t.es.zip u.es, Tm.close9 p.1.s p.2.s = true ∧ Tm.close9 p.1.e p.2.e = true ∧ p.1.l = p.2.l := by
  simp only [ITier.eq, Bool.and_eq_true, beq_iff_eq, List.all_eq_true]
  grind

/-! ## 11. `validate` -/

/-- consecutive entries do not overlap (`x.e ≤ y.s` for neighbours `x`, `y`) -/
def AdjLe : List (Iv Int) → Prop
  | x :: y :: rest => x.e ≤ y.s ∧ AdjLe (y :: rest)
  | _ => True

def PAdjLe : List (Pt Int) → Prop
  | x :: y :: rest => x.t ≤ y.t ∧ PAdjLe (y :: rest)
  | _ => True

theorem adjLe_iff_disj (es : List (Iv Int)) (hp : Pos es) : AdjLe es ↔ Disj es := by
  induction es with
  | nil => simp [AdjLe, Disj]
  | cons x xs ih =>
    cases xs with
    | nil => simp [AdjLe, Disj]
    | cons y ys =>
      have ih' := ih (pos_tail hp)
      simp only [AdjLe, Disj, List.pairwise_cons] at ih' ⊢
      rw [ih']
      constructor
      · rintro ⟨h1, h2, h3⟩
        refine ⟨?_, h2, h3⟩
        intro z hz
        rcases List.mem_cons.1 hz with rfl | hz
        · exact h1
        · have := h2 z hz
          have := hp y (by simp)
          omega
      · rintro ⟨h1, h2, h3⟩
        exact ⟨h1 y (by simp), h2, h3⟩

theorem padjLe_iff_pairwise (ps : List (Pt Int)) : PAdjLe ps ↔ ps.Pairwise (fun a b => a.t ≤ b.t) := by
  induction ps with
  | nil => simp [PAdjLe]
  | cons x xs ih =>
    cases xs with
    | nil => simp [PAdjLe]
    | cons y ys =>
      simp only [PAdjLe, List.pairwise_cons] at ih ⊢
      rw [ih]
      constructor
      · rintro ⟨h1, h2, h3⟩
        refine ⟨?_, h2, h3⟩
        intro z hz
        rcases List.mem_cons.1 hz with rfl | hz
        · exact h1
        · have := h2 z hz
          omega
      · rintro ⟨h1, h2, h3⟩
        exact ⟨h1 y (by simp), h2, h3⟩

theorem ivalidate_go_iff (t : ITier Int) (prev : Option (Iv Int)) (es : List (Iv Int)) :
    ITier.validate.go t prev es = true ↔
      (∀ iv ∈ es, iv.s < iv.e ∧ t.lo ≤ iv.s ∧ iv.e ≤ t.hi) ∧
      AdjLe (prev.toList ++ es) := by
  induction es generalizing prev with
  | nil => cases prev <;> simp [ITier.validate.go, AdjLe]
  | cons x xs ih =>
    simp only [ITier.validate.go, Bool.and_eq_true, ih (some x), List.mem_cons, forall_eq_or_imp,
      Option.toList_some, List.singleton_append, decide_eq_true_eq, Bool.not_eq_true',
      decide_eq_false_iff_not, Int.not_lt]
    cases prev with
    | none => simp only [Option.toList_none, List.nil_append]; grind
    | some p => simp only [Option.toList_some, List.singleton_append, AdjLe, decide_eq_false_iff_not,
        Bool.not_eq_true', Int.not_lt]; grind

theorem ivalidate_iff (t : ITier Int) :
    t.validate = true ↔ (∀ iv ∈ t.es, iv.s < iv.e ∧ t.lo ≤ iv.s ∧ iv.e ≤ t.hi) ∧ AdjLe t.es := by
  unfold ITier.validate
  rw [ivalidate_go_iff]
  simp

theorem ivalidate_iff_disj (t : ITier Int) :
    t.validate = true ↔ (∀ iv ∈ t.es, iv.s < iv.e ∧ t.lo ≤ iv.s ∧ iv.e ≤ t.hi) ∧ Disj t.es := by
  rw [ivalidate_iff]
  constructor
  · rintro ⟨h1, h2⟩; exact ⟨h1, (adjLe_iff_disj _ (fun iv h => (h1 iv h).1)).1 h2⟩
  · rintro ⟨h1, h2⟩; exact ⟨h1, (adjLe_iff_disj _ (fun iv h => (h1 iv h).1)).2 h2⟩

theorem wf_validate (t : ITier Int) (h : t.WF) : t.validate = true :=
  (ivalidate_iff_disj t).2 ⟨fun iv hiv => ⟨h.pos iv hiv, h.inLo iv hiv, h.inHi iv hiv⟩, h.disj⟩

theorem pvalidate_go_iff (t : PTier Int) (prev : Option (Pt Int)) (ps : List (Pt Int)) :
    PTier.validate.go t prev ps = true ↔
      (∀ p ∈ ps, t.lo ≤ p.t ∧ p.t ≤ t.hi) ∧ PAdjLe (prev.toList ++ ps) := by
  induction ps generalizing prev with
  | nil => cases prev <;> simp [PTier.validate.go, PAdjLe]
  | cons x xs ih =>
    simp only [PTier.validate.go, Bool.and_eq_true, ih (some x), List.mem_cons, forall_eq_or_imp,
      Option.toList_some, List.singleton_append, Bool.not_eq_true',
      decide_eq_false_iff_not, Int.not_lt]
    cases prev with
    | none => simp only [Option.toList_none, List.nil_append]; grind
    | some p => simp only [Option.toList_some, List.singleton_append, PAdjLe, decide_eq_false_iff_not,
        Bool.not_eq_true', Int.not_lt]; grind

theorem pvalidate_iff (t : PTier Int) :
    t.validate = true ↔ (∀ p ∈ t.ps, t.lo ≤ p.t ∧ p.t ≤ t.hi) ∧ PAdjLe t.ps := by
  unfold PTier.validate
  rw [pvalidate_go_iff]
  simp

theorem pvalidate_iff_sorted (t : PTier Int) :
    t.validate = true ↔ (∀ p ∈ t.ps, t.lo ≤ p.t ∧ p.t ≤ t.hi) ∧ t.ps.Pairwise (fun a b => a.t ≤ b.t) := by
  rw [pvalidate_iff, padjLe_iff_pairwise]

theorem pwf_validate (t : PTier Int) (h : t.WF) : t.validate = true :=
  (pvalidate_iff_sorted t).2 ⟨fun p hp => ⟨h.inLo p hp, h.inHi p hp⟩, h.sorted.imp Pt.le_time⟩

theorem eraseDups_length_le (l : List String) : l.eraseDups.length ≤ l.length := by
  induction h : l.length using Nat.strongRecOn generalizing l with
  | _ n ih =>
    cases l with
    | nil => simp
    | cons a as =>
      rw [List.eraseDups_cons]
      have h1 := List.length_filter_le (fun b => !b == a) as
      have := ih _ (by simp at h; omega) (as.filter (fun b => !b == a)) rfl
      simp at h ⊢; omega

theorem eraseDups_length_iff (l : List String) : l.eraseDups.length = l.length ↔ l.Nodup := by
  induction h : l.length using Nat.strongRecOn generalizing l with
  | _ n ih =>
    subst h
    cases l with
    | nil => simp
    | cons a as =>
      rw [List.eraseDups_cons, List.nodup_cons]
      have h1 := List.length_filter_le (fun b => !b == a) as
      have h2 := eraseDups_length_le (as.filter (fun b => !b == a))
      simp only [List.length_cons] at ih ⊢
      constructor
      · intro he
        have hf : (as.filter (fun b => !b == a)).length = as.length := by omega
        have hall := List.length_filter_eq_length_iff.1 hf
        have hfe : as.filter (fun b => !b == a) = as := List.filter_eq_self.2 hall
        rw [hfe] at he
        refine ⟨?_, (ih as.length (by omega) as rfl).1 (by omega)⟩
        intro hm
        have := hall a hm
        simp at this
      · rintro ⟨hn, hd⟩
        have hfe : as.filter (fun b => !b == a) = as := by
          apply List.filter_eq_self.2
          intro b hb
          simp only [Bool.not_eq_true', beq_eq_false_iff_ne, ne_eq]
          rintro rfl; exact hn hb
        rw [hfe, (ih as.length (by omega) as rfl).2 hd]

theorem foldl_and_all {β} (c : β → Bool) (f : Bool → β → Bool) (hf : ∀ ok t, f ok t = (ok && c t))
    (b : Bool) (l : List β) : l.foldl f b = (b && l.all c) := by
  induction l generalizing b with
  | nil => simp
  | cons x xs ih => simp [List.foldl_cons, ih, hf, Bool.and_assoc]

theorem tgvalidate_iff (g : Tg Int) :
    g.validate = true ↔
      g.names.Nodup ∧ ∀ t ∈ g.tiers, g.lo = some t.lo ∧ g.hi = some t.hi ∧ t.validate = true := by
  unfold Tg.validate
  simp only []
  rw [foldl_and_all (fun t => decide (g.lo = some t.lo) && decide (g.hi = some t.hi) && t.validate) _
      (by intro ok t; cases g.lo <;> cases g.hi <;> simp [Bool.and_assoc] <;> rfl)]
  simp only [Bool.and_eq_true, decide_eq_true_eq, eraseDups_length_iff, List.all_eq_true, and_assoc]
/-! ## 1. `find` -/

theorem findLabels_mem_exact (ls : List String) (q : String) (i : Nat) :
    i ∈ findLabels ls q false ↔ ls[i]? = some q := by
  simp only [findLabels, List.mem_filterMap, Prod.exists, List.mem_zipIdx_iff_getElem?]
  constructor
  · rintro ⟨l, j, h1, h2⟩
    simp only [Bool.false_eq_true, if_false] at h2
    split at h2
    · rename_i h; simp at h2 h; subst h2; subst h; exact h1
    · cases h2
  · intro h; exact ⟨q, i, h, by simp⟩

theorem findLabels_mem_substr (ls : List String) (q : String) (i : Nat) :
    i ∈ findLabels ls q true ↔ ∃ l, ls[i]? = some l ∧ ((l.splitOn q).length > 1 ∨ q.isEmpty) := by
  simp only [findLabels, List.mem_filterMap, Prod.exists, List.mem_zipIdx_iff_getElem?]
  constructor
  · rintro ⟨l, j, h1, h2⟩
    simp only [if_true] at h2
    split at h2
    · rename_i h; simp at h2; subst h2; exact ⟨l, h1, by simpa using h⟩
    · cases h2
  · rintro ⟨l, h1, h2⟩
    refine ⟨l, i, h1, ?_⟩
    simp only [if_true]
    rw [if_pos (by simpa using h2)]

theorem filterMap_zipIdx_sorted {β} (f : β × Nat → Option Nat) (hf : ∀ p i, f p = some i → i = p.2)
    (ls : List β) (k : Nat) :
    ((ls.zipIdx k).filterMap f).Pairwise (· < ·) ∧ ∀ i ∈ (ls.zipIdx k).filterMap f, k ≤ i := by
  induction ls generalizing k with
  | nil => simp
  | cons x xs ih =>
    obtain ⟨h1, h2⟩ := ih (k + 1)
    rw [List.zipIdx_cons, List.filterMap_cons]
    split
    · exact ⟨h1, fun i hi => by have := h2 i hi; omega⟩
    · rename_i j hj
      have := hf _ _ hj
      simp only at this; subst this
      refine ⟨List.pairwise_cons.2 ⟨fun i hi => by have := h2 i hi; omega, h1⟩, ?_⟩
      intro i hi
      rcases List.mem_cons.1 hi with rfl | hi
      · omega
      · have := h2 i hi; omega

theorem findLabels_sorted (ls : List String) (q : String) (b : Bool) :
    (findLabels ls q b).Pairwise (· < ·) := by
  unfold findLabels
  refine (filterMap_zipIdx_sorted _ ?_ ls 0).1
  rintro ⟨l, j⟩ i h
  simp only at h
  split at h <;> split at h <;> simp_all

/-! ## 3. `timestamps`, 4. `getValuesInIntervals` -/

theorem sortTimes_pairwise (ts : List Int) : (sortTimes ts).Pairwise (· ≤ ·) := by
  have := List.pairwise_mergeSort (le := fun (a b : Int) => !decide (b < a))
    (by intro a b c; simp; omega) (by intro a b; simp; omega) ts
  exact this.imp (by intro a b h; simpa using h)

theorem mem_sortTimes (ts : List Int) (x : Int) : x ∈ sortTimes ts ↔ x ∈ ts := List.mem_mergeSort

theorem dedupSorted_spec (l : List Int) (h : l.Pairwise (· ≤ ·)) :
    (dedupSorted l).Pairwise (· < ·) ∧ ∀ x, x ∈ dedupSorted l ↔ x ∈ l := by
  induction l using dedupSorted.induct with
  | case1 x y rest hxy ih =>
    have hxy' : x = y := by simpa using hxy
    rw [dedupSorted, if_pos hxy]
    obtain ⟨h1, h2⟩ := ih (List.pairwise_cons.1 h).2
    refine ⟨h1, fun z => ?_⟩
    rw [h2 z]; subst hxy'; simp
  | case2 x y rest hxy ih =>
    have hxy' : x ≠ y := by simpa using hxy
    rw [dedupSorted, if_neg hxy]
    obtain ⟨hx, hrest⟩ := List.pairwise_cons.1 h
    obtain ⟨h1, h2⟩ := ih hrest
    refine ⟨List.pairwise_cons.2 ⟨?_, h1⟩, fun z => ?_⟩
    · intro z hz
      have hz' := (h2 z).1 hz
      have h3 := hx y (by simp)
      have h4 : y ≤ z := by
        rcases List.mem_cons.1 hz' with rfl | hz''
        · omega
        · exact (List.pairwise_cons.1 hrest).1 z hz''
      omega
    · simp only [List.mem_cons, h2 z]
  | case3 l hl =>
    have : dedupSorted l = l := by
      unfold dedupSorted
      split
      · rename_i x y rest; exact absurd rfl (hl x y rest)
      · rfl
    rw [this]
    refine ⟨?_, fun _ => Iff.rfl⟩
    match l, hl with
    | [], _ => simp
    | [x], _ => simp
    | x :: y :: rest, hl => exact absurd rfl (hl x y rest)

theorem itimestamps_spec (t : ITier Int) :
    t.timestamps.Pairwise (· < ·) ∧ ∀ x, x ∈ t.timestamps ↔ ∃ iv ∈ t.es, x = iv.s ∨ x = iv.e := by
  obtain ⟨h1, h2⟩ := dedupSorted_spec _ (sortTimes_pairwise (t.es.flatMap fun iv => [iv.s, iv.e]))
  refine ⟨h1, fun x => ?_⟩
  unfold ITier.timestamps
  rw [h2 x, mem_sortTimes]
  simp [List.mem_flatMap]

theorem ptimestamps_spec (t : PTier Int) :
    t.timestamps.Pairwise (· < ·) ∧ ∀ x, x ∈ t.timestamps ↔ ∃ p ∈ t.ps, x = p.t := by
  obtain ⟨h1, h2⟩ := dedupSorted_spec _ (sortTimes_pairwise (t.ps.map (·.t)))
  refine ⟨h1, fun x => ?_⟩
  unfold PTier.timestamps
  rw [h2 x, mem_sortTimes]
  simp [List.mem_map, eq_comm]

theorem valuesInInterval_eq (data : List (Int × Nat)) (s e : Int) :
    valuesInInterval data s e = data.filter (fun d => decide (s ≤ d.1 ∧ d.1 ≤ e)) := by
  unfold valuesInInterval
  congr 1; funext d; simp

theorem valuesInIntervals_spec (t : ITier Int) (data : List (Int × Nat)) :
    t.valuesInIntervals data =
      t.es.map (fun iv => (iv, data.filter (fun d => decide (iv.s ≤ d.1 ∧ d.1 ≤ iv.e)))) := by
  unfold ITier.valuesInIntervals
  simp only [valuesInInterval_eq]

theorem valuesInInterval_sublist (data : List (Int × Nat)) (s e : Int) :
    (valuesInInterval data s e).Sublist data := List.filter_sublist

theorem valuesInInterval_mem (data : List (Int × Nat)) (s e : Int) (d : Int × Nat) :
    d ∈ valuesInInterval data s e ↔ d ∈ data ∧ s ≤ d.1 ∧ d.1 ≤ e := by
  simp [valuesInInterval]

/-! ## 2. `getNonEntries` -/

/-- the blank intervals between consecutive entries (the middle part of `getNonEntries`) -/
def gapsOf (es : List (Iv Int)) : List (Iv Int) :=
  (es.zip es.tail).filterMap fun (x, y) => if x.e < y.s then some (⟨x.e, y.s, ""⟩ : Iv Int) else none

theorem gapsOf_cons2 (x y : Iv Int) (rest : List (Iv Int)) :
    gapsOf (x :: y :: rest) = (if x.e < y.s then [(⟨x.e, y.s, ""⟩ : Iv Int)] else []) ++ gapsOf (y :: rest) := by
  simp only [gapsOf, List.tail_cons, List.zip_cons_cons, List.filterMap_cons]
  split <;> simp_all

theorem first_le_of_disj {x : Iv Int} {xs : List (Iv Int)} (hp : Pos (x :: xs)) (hd : Disj (x :: xs)) :
    ∀ a ∈ x :: xs, x.s ≤ a.s ∧ x.e ≤ a.e := by
  intro a ha
  rcases List.mem_cons.1 ha with rfl | ha
  · omega
  · have := hd.cons.1 a ha
    have := hp a (by simp [ha])
    have := hp x (by simp)
    omega

theorem gaps_spec (es : List (Iv Int)) (hp : Pos es) (hd : Disj es) :
    (∀ n ∈ gapsOf es, n.l = "" ∧ n.s < n.e ∧ (∃ a ∈ es, a.e = n.s) ∧ (∃ b ∈ es, b.s = n.e) ∧
        ∀ iv ∈ es, iv.e ≤ n.s ∨ n.e ≤ iv.s) ∧
    Disj (gapsOf es) ∧
    (∀ x0, (∃ a ∈ es, a.s ≤ x0) → (∃ b ∈ es, x0 < b.e) → covers es x0 ∨ covers (gapsOf es) x0) := by
  induction es with
  | nil => simp [gapsOf, Disj]
  | cons x xs ih =>
    cases xs with
    | nil =>
      refine ⟨by simp [gapsOf], by simp [gapsOf, Disj], ?_⟩
      rintro x0 ⟨a, ha, h1⟩ ⟨b, hb, h2⟩
      simp only [List.mem_singleton] at ha hb
      rw [ha] at h1; rw [hb] at h2
      exact Or.inl ⟨x, by simp, h1, h2⟩
    | cons y rest =>
      obtain ⟨hdx, hdr⟩ := hd.cons
      obtain ⟨ih1, ih2, ih3⟩ := ih (pos_tail hp) hdr
      have hfy := first_le_of_disj (pos_tail hp) hdr
      have hxy := hdx y (by simp)
      have hpx := hp x (by simp)
      have hpy := hp y (by simp)
      rw [gapsOf_cons2]
      refine ⟨?_, ?_, ?_⟩
      · intro n hn
        rcases List.mem_append.1 hn with hn | hn
        · split at hn
          · rename_i hlt
            simp only [List.mem_singleton] at hn; subst hn
            refine ⟨rfl, hlt, ⟨x, by simp, rfl⟩, ⟨y, by simp, rfl⟩, ?_⟩
            intro iv hiv
            rcases List.mem_cons.1 hiv with rfl | hiv
            · left; exact Int.le_refl _
            · right; exact (hfy iv hiv).1
          · cases hn
        · obtain ⟨h1, h2, ⟨a, ha, hae⟩, ⟨b, hb, hbe⟩, h5⟩ := ih1 n hn
          refine ⟨h1, h2, ⟨a, by simp [ha], hae⟩, ⟨b, by simp [hb], hbe⟩, ?_⟩
          intro iv hiv
          rcases List.mem_cons.1 hiv with rfl | hiv
          · left
            have := hdx a ha
            have := hp a (by simp [ha])
            omega
          · exact h5 iv hiv
      · unfold Disj
        rw [List.pairwise_append]
        refine ⟨by split <;> simp, ih2, ?_⟩
        intro a ha b hb
        split at ha
        · simp only [List.mem_singleton] at ha; subst ha
          obtain ⟨_, _, ⟨c, hc, hce⟩, _, _⟩ := ih1 b hb
          have := (hfy c hc).1
          have := hp c (by simp [hc])
          show y.s ≤ b.s
          omega
        · cases ha
      · rintro x0 ⟨a, ha, h1⟩ ⟨b, hb, h2⟩
        have hfa := (first_le_of_disj hp hd a ha).1
        by_cases hx : x0 < x.e
        · exact Or.inl ⟨x, by simp, by omega, hx⟩
        · by_cases hy : x0 < y.s
          · right
            refine ⟨⟨x.e, y.s, ""⟩, ?_, by simp only; omega, hy⟩
            rw [if_pos (by omega)]; simp
          · have hb' : b ∈ y :: rest := by
              rcases List.mem_cons.1 hb with rfl | hb
              · omega
              · exact hb
            rcases ih3 x0 ⟨y, by simp, by omega⟩ ⟨b, hb', h2⟩ with ⟨c, hc, h⟩ | ⟨c, hc, h⟩
            · exact Or.inl ⟨c, List.mem_cons_of_mem _ hc, h⟩
            · exact Or.inr ⟨c, List.mem_append.2 (Or.inr hc), h⟩


theorem last_ge_of_disj (es : List (Iv Int)) (g : Iv Int) (hp : Pos es) (hd : Disj es)
    (hg : es.getLast? = some g) : g ∈ es ∧ ∀ a ∈ es, a.s ≤ g.s ∧ a.e ≤ g.e := by
  induction es with
  | nil => simp at hg
  | cons x xs ih =>
    cases xs with
    | nil => simp at hg; subst hg; simp
    | cons y rest =>
      rw [List.getLast?_cons_cons] at hg
      obtain ⟨h1, h2⟩ := ih (pos_tail hp) hd.cons.2 hg
      refine ⟨List.mem_cons_of_mem _ h1, ?_⟩
      intro a ha
      rcases List.mem_cons.1 ha with rfl | ha
      · have := hd.cons.1 g h1
        have := hp g (by simp [h1])
        have := hp a (by simp)
        omega
      · exact h2 a ha

theorem pairwise_total {β} {R : β → β → Prop} {l : List β} (h : l.Pairwise R) :
    ∀ a ∈ l, ∀ b ∈ l, a = b ∨ R a b ∨ R b a := by
  induction l with
  | nil => simp
  | cons x xs ih =>
    obtain ⟨h1, h2⟩ := List.pairwise_cons.1 h
    intro a ha b hb
    rcases List.mem_cons.1 ha with ha | ha <;> rcases List.mem_cons.1 hb with hb | hb
    · exact Or.inl (ha.trans hb.symm)
    · exact Or.inr (Or.inl (ha ▸ h1 b hb))
    · exact Or.inr (Or.inr (hb ▸ h1 a ha))
    · exact ih h2 a ha b hb

/-- consecutive entries touch -/
def Touch : List (Iv Int) → Prop
  | x :: y :: rest => x.e = y.s ∧ Touch (y :: rest)
  | _ => True

/-- a time-ordered list of positive, pairwise disjoint intervals inside `[lo, hi]` that covers every time of
`[lo, hi)` is a tiling: it starts at `lo`, ends at `hi`, and consecutive entries touch -/
theorem tiling_of_cover (L : List (Iv Int)) (lo hi : Int) (hlt : lo < hi) (hp : Pos L) (hd : Disj L)
    (hin : ∀ iv ∈ L, lo ≤ iv.s ∧ iv.e ≤ hi) (hcov : ∀ x, lo ≤ x → x < hi → covers L x) :
    L.head?.map (·.s) = some lo ∧ L.getLast?.map (·.e) = some hi ∧ Touch L := by
  induction L generalizing lo with
  | nil =>
    obtain ⟨iv, hiv, _⟩ := hcov lo (Int.le_refl _) hlt
    simp at hiv
  | cons x xs ih =>
    have hfirst := first_le_of_disj hp hd
    have hxs : x.s = lo := by
      obtain ⟨iv, hiv, h1, h2⟩ := hcov lo (Int.le_refl _) hlt
      have := (hfirst iv hiv).1
      have := (hin x (by simp)).1
      omega
    have hpx := hp x (by simp)
    cases xs with
    | nil =>
      refine ⟨by simp [hxs], ?_, trivial⟩
      simp only [List.getLast?_singleton, Option.map_some, Option.some.injEq]
      have := (hin x (by simp)).2
      by_cases h : x.e < hi
      · obtain ⟨iv, hiv, h1, h2⟩ := hcov x.e (by omega) h
        simp only [List.mem_singleton] at hiv; subst hiv; omega
      · omega
    | cons y rest =>
      have hxy := hd.cons.1 y (by simp)
      have hpy := hp y (by simp)
      have hyhi := (hin y (by simp)).2
      obtain ⟨i1, i2, i3⟩ := ih x.e (by omega) (pos_tail hp) hd.cons.2
        (fun iv hiv => ⟨hd.cons.1 iv hiv, (hin iv (by simp [hiv])).2⟩)
        (by
          intro z hz1 hz2
          obtain ⟨iv, hiv, h1, h2⟩ := hcov z (by omega) hz2
          rcases List.mem_cons.1 hiv with rfl | hiv
          · omega
          · exact ⟨iv, hiv, h1, h2⟩)
      refine ⟨by simp [hxs], ?_, ?_, i3⟩
      · rw [List.getLast?_cons_cons]; exact i2
      · simpa using i1.symm

/-- where the tiling of `getNonEntries` starts: at time 0 — or at the first entry's start if that is negative (the code
adds the leading blank `(0, firstStart)` only when `firstStart > 0`) -/
def tileStart (t : ITier Int) : Int :=
  match t.es.head? with
  | some f => min 0 f.s
  | none => 0

theorem tileStart_nonneg (t : ITier Int) (hwf : t.WF) (h0 : 0 ≤ t.lo) : tileStart t = 0 := by
  unfold tileStart
  cases h : t.es.head? with
  | none => rfl
  | some f =>
    have := hwf.inLo f (List.mem_of_mem_head? h)
    simp only; omega

/-- a tier without entries: the built-in `IndexError` (`self._entries[0]`), on the class and in the model — the
property speaks of "a tier with entries" only -/
theorem nonEntries_empty (t : ITier Int) (h : t.es = []) : t.getNonEntries = .error .IndexError := by
  simp [ITier.getNonEntries, h]

/-- **nonEntries_tiling** (both formulations), for EVERY well-formed tier with entries — also one that starts before
time 0 (the former hypothesis `0 ≤ t.lo` is gone: the tiling then starts at `tileStart t`, which is 0 unless the first
entry starts before 0; `nonEntries_tiling_nonneg` is the statement for tiers on non-negative times) -/
theorem nonEntries_tiling (t : ITier Int) (hwf : t.WF) (hne : t.es ≠ []) :
    ∃ ns, t.getNonEntries = .ok ns ∧
      (∀ n ∈ ns, n.l = "" ∧ n.s < n.e ∧ tileStart t ≤ n.s ∧ n.e ≤ t.hi) ∧
      (∀ n ∈ ns, ∀ iv ∈ t.es, n.e ≤ iv.s ∨ iv.e ≤ n.s) ∧
      Disj ns ∧
      (∀ x, tileStart t ≤ x → x < t.hi → covers (t.es ++ ns) x) ∧
      (∀ x, ∀ a ∈ t.es ++ ns, ∀ b ∈ t.es ++ ns, (a.s ≤ x ∧ x < a.e) → (b.s ≤ x ∧ x < b.e) → a = b) ∧
      Disj (sortIvs (t.es ++ ns)) ∧
      (sortIvs (t.es ++ ns)).head?.map (·.s) = some (tileStart t) ∧
      (sortIvs (t.es ++ ns)).getLast?.map (·.e) = some t.hi ∧
      Touch (sortIvs (t.es ++ ns)) := by
  obtain ⟨name, es, lo, hi⟩ := t
  simp only at hne ⊢
  have hp : Pos es := hwf.pos
  have hd : Disj es := hwf.disj
  have hlo : ∀ iv ∈ es, lo ≤ iv.s := hwf.inLo
  have hhi : ∀ iv ∈ es, iv.e ≤ hi := hwf.inHi
  obtain ⟨f, rest, rfl⟩ : ∃ f rest, es = f :: rest := by
    cases es with
    | nil => exact absurd rfl hne
    | cons f rest => exact ⟨f, rest, rfl⟩
  obtain ⟨g, hg⟩ : ∃ g, (f :: rest).getLast? = some g := ⟨_, List.getLast?_eq_some_getLast (by simp)⟩
  obtain ⟨hgm, hglast⟩ := last_ge_of_disj _ g hp hd hg
  have hfirst := first_le_of_disj hp hd
  obtain ⟨g1, g2, g3⟩ := gaps_spec (f :: rest) hp hd
  have hfm : f ∈ f :: rest := by simp
  have hpf := hp f hfm
  have hpg := hp g hgm
  have hz : tileStart ⟨name, f :: rest, lo, hi⟩ = min 0 f.s := rfl
  rw [hz]
  have hfg := (hglast f hfm).2
  -- the result of the call
  let pre : List (Iv Int) := if 0 < f.s then [⟨0, f.s, ""⟩] else []
  let post : List (Iv Int) := if g.e < hi then [⟨g.e, hi, ""⟩] else []
  have hcall : ITier.getNonEntries ⟨name, f :: rest, lo, hi⟩ = .ok (pre ++ gapsOf (f :: rest) ++ post) := by
    simp only [ITier.getNonEntries, hg, List.head?_cons]
    rfl
  have hpre : ∀ n ∈ pre, n = ⟨0, f.s, ""⟩ ∧ 0 < f.s := by
    intro n hn
    simp only [pre] at hn
    split at hn
    · simp at hn; exact ⟨hn, by assumption⟩
    · cases hn
  have hpost : ∀ n ∈ post, n = ⟨g.e, hi, ""⟩ ∧ g.e < hi := by
    intro n hn
    simp only [post] at hn
    split at hn
    · simp at hn; exact ⟨hn, by assumption⟩
    · cases hn
  -- every non-entry: blank, positive, inside [0, hi], clear of the entries
  have hns : ∀ n ∈ pre ++ gapsOf (f :: rest) ++ post,
      n.l = "" ∧ n.s < n.e ∧ min 0 f.s ≤ n.s ∧ n.e ≤ hi ∧ (n.e ≤ f.s ∨ g.e ≤ n.s ∨ n ∈ gapsOf (f :: rest)) := by
    intro n hn
    simp only [List.mem_append] at hn
    rcases hn with (hn | hn) | hn
    · obtain ⟨rfl, h⟩ := hpre n hn
      have := hhi f hfm
      exact ⟨rfl, h, by simp only; omega, by simp only; omega, Or.inl (Int.le_refl _)⟩
    · obtain ⟨h1, h2, ⟨a, ha, hae⟩, ⟨b, hb, hbe⟩, _⟩ := g1 n hn
      have := (hfirst a ha).1; have := hp a ha; have := hhi b hb; have := hp b hb
      exact ⟨h1, h2, by omega, by omega, Or.inr (Or.inr hn)⟩
    · obtain ⟨rfl, h⟩ := hpost n hn
      have := hlo g hgm
      exact ⟨rfl, h, by simp only; omega, Int.le_refl _, Or.inr (Or.inl (Int.le_refl _))⟩
  have hclear : ∀ n ∈ pre ++ gapsOf (f :: rest) ++ post, ∀ iv ∈ f :: rest, n.e ≤ iv.s ∨ iv.e ≤ n.s := by
    intro n hn iv hiv
    obtain ⟨_, _, _, _, h | h | h⟩ := hns n hn
    · left; have := (hfirst iv hiv).1; omega
    · right; have := (hglast iv hiv).2; omega
    · have := (g1 n h).2.2.2.2 iv hiv; omega
  have hdns : Disj (pre ++ gapsOf (f :: rest) ++ post) := by
    unfold Disj
    rw [List.pairwise_append, List.pairwise_append]
    refine ⟨⟨?_, g2, ?_⟩, ?_, ?_⟩
    · simp only [pre]; split <;> simp
    · intro a ha b hb
      obtain ⟨rfl, _⟩ := hpre a ha
      obtain ⟨_, _, ⟨c, hc, hce⟩, _, _⟩ := g1 b hb
      have := (hfirst c hc).1; have := hp c hc
      show f.s ≤ b.s
      omega
    · simp only [post]; split <;> simp
    · intro a ha b hb
      obtain ⟨rfl, _⟩ := hpost b hb
      show a.e ≤ g.e
      rcases List.mem_append.1 ha with ha | ha
      · obtain ⟨rfl, _⟩ := hpre a ha
        show f.s ≤ g.e
        have := (hglast f hfm).2
        omega
      · obtain ⟨_, _, _, ⟨c, hc, hce⟩, _⟩ := g1 a ha
        have := (hglast c hc).2; have := hp c hc
        omega
  have hcov : ∀ x, min 0 f.s ≤ x → x < hi → covers ((f :: rest) ++ (pre ++ gapsOf (f :: rest) ++ post)) x := by
    intro x hx0 hxhi
    by_cases h1 : x < f.s
    · have hf0 : 0 < f.s := by omega
      refine ⟨⟨0, f.s, ""⟩, ?_, by simp only; omega, h1⟩
      simp only [List.mem_append, pre]
      rw [if_pos hf0]; simp
    · by_cases h2 : g.e ≤ x
      · refine ⟨⟨g.e, hi, ""⟩, ?_, h2, hxhi⟩
        simp only [List.mem_append, post]
        rw [if_pos (by omega)]; simp
      · rcases g3 x ⟨f, hfm, by omega⟩ ⟨g, hgm, by omega⟩ with ⟨c, hc, h⟩ | ⟨c, hc, h⟩
        · exact ⟨c, List.mem_append.2 (Or.inl hc), h⟩
        · exact ⟨c, by simp only [List.mem_append]; exact Or.inr (Or.inl (Or.inr hc)), h⟩
  have hposall : Pos ((f :: rest) ++ (pre ++ gapsOf (f :: rest) ++ post)) := by
    intro iv hiv
    rcases List.mem_append.1 hiv with h | h
    · exact hp iv h
    · exact (hns iv h).2.1
  have hsd : SetDisj ((f :: rest) ++ (pre ++ gapsOf (f :: rest) ++ post)) := by
    unfold SetDisj
    rw [List.pairwise_append]
    refine ⟨hd.setDisj, hdns.setDisj, ?_⟩
    intro a ha b hb
    have := hclear b hb a ha
    omega
  have huniq : ∀ x, ∀ a ∈ (f :: rest) ++ (pre ++ gapsOf (f :: rest) ++ post),
      ∀ b ∈ (f :: rest) ++ (pre ++ gapsOf (f :: rest) ++ post),
      (a.s ≤ x ∧ x < a.e) → (b.s ≤ x ∧ x < b.e) → a = b := by
    intro x a ha b hb h1 h2
    rcases pairwise_total hsd a ha b hb with h | h | h
    · exact h
    · omega
    · omega
  have hdsort := disj_sortIvs _ hposall hsd
  have hpsort : Pos (sortIvs ((f :: rest) ++ (pre ++ gapsOf (f :: rest) ++ post))) :=
    pos_perm hposall (sortIvs_perm _).symm
  have hhi0 : min 0 f.s < hi := by have := hhi f hfm; omega
  obtain ⟨t1, t2, t3⟩ := tiling_of_cover _ (min 0 f.s) hi hhi0 hpsort hdsort
    (by
      intro iv hiv
      rw [mem_sortIvs] at hiv
      rcases List.mem_append.1 hiv with h | h
      · have := (hfirst iv h).1; have := hhi iv h; omega
      · have := hns iv h; omega)
    (by
      intro x hx0 hxhi
      obtain ⟨iv, hiv, h⟩ := hcov x hx0 hxhi
      exact ⟨iv, mem_sortIvs.2 hiv, h⟩)
  exact ⟨_, hcall, fun n hn => ⟨(hns n hn).1, (hns n hn).2.1, (hns n hn).2.2.1, (hns n hn).2.2.2.1⟩,
    hclear, hdns, hcov, huniq, hdsort, t1, t2, t3⟩

/-- **nonEntries_tiling on non-negative times** (`0 ≤ minTimestamp`, the usual case): the tiling starts at time 0 -/
theorem nonEntries_tiling_nonneg (t : ITier Int) (hwf : t.WF) (hne : t.es ≠ []) (h0 : 0 ≤ t.lo) :
    ∃ ns, t.getNonEntries = .ok ns ∧
      (∀ n ∈ ns, n.l = "" ∧ n.s < n.e ∧ 0 ≤ n.s ∧ n.e ≤ t.hi) ∧
      (∀ n ∈ ns, ∀ iv ∈ t.es, n.e ≤ iv.s ∨ iv.e ≤ n.s) ∧
      Disj ns ∧
      (∀ x, 0 ≤ x → x < t.hi → covers (t.es ++ ns) x) ∧
      (∀ x, ∀ a ∈ t.es ++ ns, ∀ b ∈ t.es ++ ns, (a.s ≤ x ∧ x < a.e) → (b.s ≤ x ∧ x < b.e) → a = b) ∧
      Disj (sortIvs (t.es ++ ns)) ∧
      (sortIvs (t.es ++ ns)).head?.map (·.s) = some 0 ∧
      (sortIvs (t.es ++ ns)).getLast?.map (·.e) = some t.hi ∧
      Touch (sortIvs (t.es ++ ns)) := by
  have h := nonEntries_tiling t hwf hne
  rw [tileStart_nonneg t hwf h0] at h
  exact h


/-! ## 8. `invertIntervalList` -/

/-- the differences between consecutive pairs (the comprehension at the end of `invertIntervalList`) -/
def gaps2 (L : List (Int × Int)) : List (Int × Int) :=
  (L.zip L.tail).filterMap fun (x, y) => if x.2 == y.1 then none else some (x.2, y.1)

def Chain2 (L : List (Int × Int)) : Prop := L.Pairwise (fun x y => x.2 ≤ y.1)
def covers2 (L : List (Int × Int)) (x : Int) : Prop := ∃ iv ∈ L, iv.1 ≤ x ∧ x < iv.2

theorem gaps2_cons2 (x y : Int × Int) (rest : List (Int × Int)) :
    gaps2 (x :: y :: rest) = (if x.2 = y.1 then [] else [(x.2, y.1)]) ++ gaps2 (y :: rest) := by
  simp only [gaps2, List.tail_cons, List.zip_cons_cons, List.filterMap_cons]
  by_cases h : x.2 = y.1 <;> simp [h]

theorem pfirst {x : Int × Int} {xs : List (Int × Int)} (hp : ∀ a ∈ x :: xs, a.1 ≤ a.2)
    (hd : Chain2 (x :: xs)) : ∀ a ∈ x :: xs, x.1 ≤ a.1 ∧ x.2 ≤ a.2 := by
  intro a ha
  rcases List.mem_cons.1 ha with rfl | ha
  · omega
  · have := (List.pairwise_cons.1 hd).1 a ha
    have := hp a (by simp [ha])
    have := hp x (by simp)
    omega

theorem plast (L : List (Int × Int)) (g : Int × Int) (hp : ∀ a ∈ L, a.1 ≤ a.2) (hd : Chain2 L)
    (hg : L.getLast? = some g) : g ∈ L ∧ ∀ a ∈ L, a.1 ≤ g.1 ∧ a.2 ≤ g.2 := by
  induction L with
  | nil => simp at hg
  | cons x xs ih =>
    cases xs with
    | nil => simp at hg; subst hg; simp
    | cons y rest =>
      rw [List.getLast?_cons_cons] at hg
      obtain ⟨h1, h2⟩ := ih (fun a ha => hp a (List.mem_cons_of_mem _ ha)) (List.pairwise_cons.1 hd).2 hg
      refine ⟨List.mem_cons_of_mem _ h1, ?_⟩
      intro a ha
      rcases List.mem_cons.1 ha with rfl | ha
      · have := (List.pairwise_cons.1 hd).1 g h1
        have := hp g (by simp [h1])
        have := hp a (by simp)
        omega
      · exact h2 a ha

theorem gaps2_spec (L : List (Int × Int)) (hp : ∀ a ∈ L, a.1 ≤ a.2) (hd : Chain2 L) :
    (∀ n ∈ gaps2 L, n.1 < n.2 ∧ (∃ a ∈ L, a.2 = n.1) ∧ (∃ b ∈ L, b.1 = n.2) ∧
        ∀ iv ∈ L, iv.2 ≤ n.1 ∨ n.2 ≤ iv.1) ∧
    (∀ x0, (∃ a ∈ L, a.1 ≤ x0) → (∃ b ∈ L, x0 < b.2) → covers2 L x0 ∨ covers2 (gaps2 L) x0) := by
  induction L with
  | nil => simp [gaps2]
  | cons x xs ih =>
    cases xs with
    | nil =>
      refine ⟨by simp [gaps2], ?_⟩
      rintro x0 ⟨a, ha, h1⟩ ⟨b, hb, h2⟩
      simp only [List.mem_singleton] at ha hb
      rw [ha] at h1; rw [hb] at h2
      exact Or.inl ⟨x, by simp, h1, h2⟩
    | cons y rest =>
      obtain ⟨hdx, hdr⟩ := List.pairwise_cons.1 hd
      have hp' : ∀ a ∈ y :: rest, a.1 ≤ a.2 := fun a ha => hp a (List.mem_cons_of_mem _ ha)
      obtain ⟨ih1, ih3⟩ := ih hp' hdr
      have hfy := pfirst hp' hdr
      have hxy := hdx y (by simp)
      have hpx := hp x (by simp)
      have hpy := hp y (by simp)
      rw [gaps2_cons2]
      refine ⟨?_, ?_⟩
      · intro n hn
        rcases List.mem_append.1 hn with hn | hn
        · split at hn
          · cases hn
          · rename_i hne
            simp only [List.mem_singleton] at hn; subst hn
            refine ⟨by simp only; omega, ⟨x, by simp, rfl⟩, ⟨y, by simp, rfl⟩, ?_⟩
            intro iv hiv
            rcases List.mem_cons.1 hiv with rfl | hiv
            · left; exact Int.le_refl _
            · right; exact (hfy iv hiv).1
        · obtain ⟨h2, ⟨a, ha, hae⟩, ⟨b, hb, hbe⟩, h5⟩ := ih1 n hn
          refine ⟨h2, ⟨a, by simp [ha], hae⟩, ⟨b, by simp [hb], hbe⟩, ?_⟩
          intro iv hiv
          rcases List.mem_cons.1 hiv with rfl | hiv
          · left
            have := hdx a ha
            have := hp a (by simp [ha])
            omega
          · exact h5 iv hiv
      · rintro x0 ⟨a, ha, h1⟩ ⟨b, hb, h2⟩
        have hfa := (pfirst hp hd a ha).1
        by_cases hx : x0 < x.2
        · exact Or.inl ⟨x, by simp, by omega, hx⟩
        · by_cases hy : x0 < y.1
          · right
            refine ⟨(x.2, y.1), ?_, by simp only; omega, hy⟩
            rw [if_neg (by omega)]; simp
          · have hb' : b ∈ y :: rest := by
              rcases List.mem_cons.1 hb with rfl | hb
              · omega
              · exact hb
            rcases ih3 x0 ⟨y, by simp, by omega⟩ ⟨b, hb', h2⟩ with ⟨c, hc, h⟩ | ⟨c, hc, h⟩
            · exact Or.inl ⟨c, List.mem_cons_of_mem _ hc, h⟩
            · exact Or.inr ⟨c, List.mem_append.2 (Or.inr hc), h⟩

theorem pairLe_of_chain (l : List (Int × Int)) (hpos : ∀ a ∈ l, a.1 < a.2) (hd : Chain2 l) :
    l.Pairwise (fun a b => pairLe a b = true) := by
  refine List.Pairwise.imp_of_mem ?_ hd
  intro a b ha hb h
  have := hpos a ha
  simp only [pairLe]
  rw [if_pos (by omega)]

theorem invert_empty (lo hi : Int) : invertIntervalList [] (some lo) (some hi) = .ok [(lo, hi)] := by
  simp [invertIntervalList]

theorem invert_rejects (l : List (Int × Int)) (lo hi : Option Int) (h : ∃ iv ∈ l, iv.2 ≤ iv.1) :
    invertIntervalList l lo hi = .error .ArgumentError := by
  obtain ⟨iv, hiv, h⟩ := h
  unfold invertIntervalList
  rw [if_pos]
  simp only [List.any_eq_true, Bool.not_eq_true', decide_eq_false_iff_not]
  exact ⟨iv, hiv, by omega⟩

/-- `invert_complement` for a list that is already in time order -/
theorem invert_complement_sorted (l : List (Int × Int)) (lo hi : Int) (hne : l ≠ [])
    (hpos : ∀ a ∈ l, a.1 < a.2) (hd : l.Pairwise (fun x y => x.2 ≤ y.1))
    (hlo : ∀ f, l.head? = some f → lo ≤ f.1) (hhi : ∀ g, l.getLast? = some g → g.2 ≤ hi) :
    ∃ inv, invertIntervalList l (some lo) (some hi) = .ok inv ∧
      (∀ n ∈ inv, n.1 < n.2 ∧ lo ≤ n.1 ∧ n.2 ≤ hi) ∧
      ∀ x, lo ≤ x → x < hi → (covers2 l x ∨ covers2 inv x) ∧ ¬ (covers2 l x ∧ covers2 inv x) := by
  obtain ⟨f, rest, rfl⟩ : ∃ f rest, l = f :: rest := by
    cases l with
    | nil => exact absurd rfl hne
    | cons f rest => exact ⟨f, rest, rfl⟩
  obtain ⟨g, hg⟩ : ∃ g, (f :: rest).getLast? = some g := ⟨_, List.getLast?_eq_some_getLast (by simp)⟩
  have hlo' := hlo f rfl
  have hhi' := hhi g hg
  have hpw : ∀ a ∈ f :: rest, a.1 ≤ a.2 := fun a ha => Int.le_of_lt (hpos a ha)
  obtain ⟨hgm, hglast⟩ := plast _ g hpw hd hg
  have hfirst := pfirst hpw hd
  have hfm : f ∈ f :: rest := by simp
  have hpf := hpos f hfm
  have hpg := hpos g hgm
  have hfg := (hglast f hfm).2
  let pre : List (Int × Int) := if lo < f.1 then [(lo, lo)] else []
  let post : List (Int × Int) := if g.2 < hi then [(hi, hi)] else []
  have hsort : (f :: rest).mergeSort pairLe = f :: rest :=
    List.mergeSort_of_pairwise (pairLe_of_chain _ hpos hd)
  have hcall : invertIntervalList (f :: rest) (some lo) (some hi) = .ok (gaps2 (pre ++ (f :: rest) ++ post)) := by
    unfold invertIntervalList
    rw [if_neg]
    · simp only [hsort, hg, List.head?_cons]
      rfl
    · simp only [List.any_eq_true, Bool.not_eq_true', decide_eq_false_iff_not, not_exists, not_and, Decidable.not_not]
      exact hpos
  have hpre : ∀ n ∈ pre, n = (lo, lo) ∧ lo < f.1 := by
    intro n hn
    simp only [pre] at hn
    split at hn
    · simp at hn; exact ⟨hn, by assumption⟩
    · cases hn
  have hpost : ∀ n ∈ post, n = (hi, hi) ∧ g.2 < hi := by
    intro n hn
    simp only [post] at hn
    split at hn
    · simp at hn; exact ⟨hn, by assumption⟩
    · cases hn
  have hLmem : ∀ a ∈ pre ++ (f :: rest) ++ post, a = (lo, lo) ∨ a ∈ f :: rest ∨ a = (hi, hi) := by
    intro a ha
    simp only [List.mem_append] at ha
    rcases ha with (ha | ha) | ha
    · exact Or.inl (hpre a ha).1
    · exact Or.inr (Or.inl ha)
    · exact Or.inr (Or.inr (hpost a ha).1)
  have hLp : ∀ a ∈ pre ++ (f :: rest) ++ post, a.1 ≤ a.2 ∧ lo ≤ a.1 ∧ a.2 ≤ hi := by
    intro a ha
    rcases hLmem a ha with rfl | h | rfl
    · simp only; omega
    · have := hpos a h; have := (hfirst a h).1; have := (hglast a h).2; omega
    · simp only; omega
  have hLd : Chain2 (pre ++ (f :: rest) ++ post) := by
    unfold Chain2
    rw [List.pairwise_append, List.pairwise_append]
    refine ⟨⟨?_, hd, ?_⟩, ?_, ?_⟩
    · simp only [pre]; split <;> simp
    · intro a ha b hb
      obtain ⟨rfl, _⟩ := hpre a ha
      have := (hfirst b hb).1
      show lo ≤ b.1
      omega
    · simp only [post]; split <;> simp
    · intro a ha b hb
      obtain ⟨rfl, _⟩ := hpost b hb
      show a.2 ≤ hi
      rcases List.mem_append.1 ha with ha | ha
      · obtain ⟨rfl, _⟩ := hpre a ha
        show lo ≤ hi
        omega
      · have := (hglast a ha).2; omega
  obtain ⟨g1, g3⟩ := gaps2_spec _ (fun a ha => (hLp a ha).1) hLd
  refine ⟨_, hcall, ?_, ?_⟩
  · intro n hn
    obtain ⟨h1, ⟨a, ha, hae⟩, ⟨b, hb, hbe⟩, _⟩ := g1 n hn
    have := hLp a ha; have := hLp b hb
    exact ⟨h1, by omega, by omega⟩
  · intro x hx0 hxhi
    constructor
    · have hA : ∃ a ∈ pre ++ (f :: rest) ++ post, a.1 ≤ x := by
        by_cases h : lo < f.1
        · refine ⟨(lo, lo), ?_, hx0⟩
          simp only [List.mem_append, pre]; rw [if_pos h]; simp
        · exact ⟨f, by simp, by omega⟩
      have hB : ∃ b ∈ pre ++ (f :: rest) ++ post, x < b.2 := by
        by_cases h : g.2 < hi
        · refine ⟨(hi, hi), ?_, hxhi⟩
          simp only [List.mem_append, post]; rw [if_pos h]; simp
        · exact ⟨g, by simp only [List.mem_append]; exact Or.inl (Or.inr hgm), by omega⟩
      rcases g3 x hA hB with ⟨c, hc, h⟩ | h
      · left
        rcases hLmem c hc with rfl | hc' | rfl
        · simp only at h; omega
        · exact ⟨c, hc', h⟩
        · simp only at h; omega
      · exact Or.inr h
    · rintro ⟨⟨a, ha, ha1, ha2⟩, ⟨n, hn, hn1, hn2⟩⟩
      have := (g1 n hn).2.2.2 a (by simp only [List.mem_append]; exact Or.inl (Or.inr ha))
      omega


theorem pairLe_trans (a b c : Int × Int) (h1 : pairLe a b = true) (h2 : pairLe b c = true) : pairLe a c = true := by
  simp only [pairLe] at *
  by_cases x1 : a.1 < b.1 <;> by_cases x2 : b.1 < a.1 <;> by_cases x3 : b.1 < c.1 <;> by_cases x4 : c.1 < b.1 <;>
    by_cases x5 : a.1 < c.1 <;> by_cases x6 : c.1 < a.1 <;>
    simp only [x1, x2, x3, x4, x5, x6, if_true, if_false, Bool.not_eq_true', decide_eq_false_iff_not,
      Bool.false_eq_true] at h1 h2 ⊢ <;> omega

theorem pairLe_total (a b : Int × Int) : (pairLe a b || pairLe b a) = true := by
  simp only [pairLe, Bool.or_eq_true]
  by_cases h1 : a.1 < b.1 <;> by_cases h2 : b.1 < a.1 <;>
    simp only [h1, h2, if_true, if_false, Bool.not_eq_true', decide_eq_false_iff_not, Bool.false_eq_true,
      or_false, false_or, or_true, true_or] <;> omega

/-- **the complement helper on a list of pairwise disjoint intervals inside the bounds, in ANY order** (the code sorts
the list itself; the former hypothesis "the list is in time order" is gone): the call succeeds, every returned interval
has positive length and lies inside `[lo, hi]`, and list and result partition `[lo, hi)`.  What remains:
`hpos` — enforced (`invert_rejects`: ArgumentError); `hne` — the empty list is `invert_empty`; `hd` (no two members
overlap) and `hlo`/`hhi` (members inside the bounds) are NOT enforced by the code and are needed: see
`invert_counterexample`. -/
theorem invert_complement (l : List (Int × Int)) (lo hi : Int) (hne : l ≠ [])
    (hpos : ∀ a ∈ l, a.1 < a.2) (hd : l.Pairwise (fun x y => x.2 ≤ y.1 ∨ y.2 ≤ x.1))
    (hlo : ∀ a ∈ l, lo ≤ a.1) (hhi : ∀ a ∈ l, a.2 ≤ hi) :
    ∃ inv, invertIntervalList l (some lo) (some hi) = .ok inv ∧
      (∀ n ∈ inv, n.1 < n.2 ∧ lo ≤ n.1 ∧ n.2 ≤ hi) ∧
      ∀ x, lo ≤ x → x < hi → (covers2 l x ∨ covers2 inv x) ∧ ¬ (covers2 l x ∧ covers2 inv x) := by
  have hperm : (l.mergeSort pairLe).Perm l := List.mergeSort_perm l pairLe
  have hmem : ∀ a, a ∈ l.mergeSort pairLe ↔ a ∈ l := fun a => hperm.mem_iff
  have hsorted : (l.mergeSort pairLe).Pairwise (fun a b => pairLe a b = true) :=
    List.pairwise_mergeSort (fun a b c => pairLe_trans a b c) pairLe_total l
  have hsd : (l.mergeSort pairLe).Pairwise (fun x y => x.2 ≤ y.1 ∨ y.2 ≤ x.1) :=
    hperm.symm.pairwise hd (fun hab => hab.symm)
  have hchain : (l.mergeSort pairLe).Pairwise (fun x y => x.2 ≤ y.1) := by
    refine List.Pairwise.imp_of_mem ?_ (hsorted.and hsd)
    intro a b ha hb hab
    obtain ⟨h1, h2⟩ := hab
    have := hpos a ((hmem a).1 ha)
    have := hpos b ((hmem b).1 hb)
    simp only [pairLe] at h1
    split at h1
    · omega
    · split at h1
      · simp at h1
      · omega
  have hss : (l.mergeSort pairLe).mergeSort pairLe = l.mergeSort pairLe := List.mergeSort_of_pairwise hsorted
  have hcall : invertIntervalList l (some lo) (some hi) = invertIntervalList (l.mergeSort pairLe) (some lo) (some hi) := by
    have hc1 : ¬ (l.any fun iv => !decide (iv.1 < iv.2)) = true := by
      simp only [List.any_eq_true, Bool.not_eq_true', decide_eq_false_iff_not, not_exists, not_and, Decidable.not_not]
      exact hpos
    have hc2 : ¬ ((l.mergeSort pairLe).any fun iv => !decide (iv.1 < iv.2)) = true := by
      simp only [List.any_eq_true, Bool.not_eq_true', decide_eq_false_iff_not, not_exists, not_and, Decidable.not_not]
      exact fun a ha => hpos a ((hmem a).1 ha)
    unfold invertIntervalList
    rw [if_neg hc1, if_neg hc2, hss]
  have hne' : l.mergeSort pairLe ≠ [] := by
    intro h
    rw [h] at hperm
    exact hne hperm.symm.eq_nil
  obtain ⟨inv, e, h1, h2⟩ := invert_complement_sorted (l.mergeSort pairLe) lo hi hne'
    (fun a ha => hpos a ((hmem a).1 ha)) hchain
    (fun f hf => hlo f ((hmem f).1 (List.mem_of_mem_head? hf)))
    (fun g hg => hhi g ((hmem g).1 (List.mem_of_getLast? hg)))
  have hcov : ∀ x, covers2 (l.mergeSort pairLe) x ↔ covers2 l x := by
    intro x
    constructor
    · rintro ⟨iv, hiv, h⟩; exact ⟨iv, (hmem iv).1 hiv, h⟩
    · rintro ⟨iv, hiv, h⟩; exact ⟨iv, (hmem iv).2 hiv, h⟩
  refine ⟨inv, hcall.trans e, h1, ?_⟩
  intro x hx1 hx2
  have := h2 x hx1 hx2
  rw [hcov x] at this
  exact this

/-- **FINDING (replayed on `utils.invertIntervalList`) — the excluded cases of `hd`, `hlo`, `hhi`.**  The property
speaks of "the complement of an interval list within bounds", for "all interval lists and bounds".
1. two members overlap: `invertIntervalList([(1,3),(2,5)], 0, 6)` returns `[(0,1),(3,2),(5,6)]` — the pair `(3, 2)` is not an
   interval (start after end); expected `[(0,1),(5,6)]`.
2. a member lies before the lower bound: `invertIntervalList([(1,2),(4,5)], 3, 6)` returns `[(2,4),(5,6)]` — `(2, 4)` sticks out
   of the bounds `[3, 6]`; expected `[(3,4),(5,6)]`.
3. a member lies beyond the upper bound: `invertIntervalList([(1,2),(4,5)], 0, 3)` returns `[(0,1),(2,4)]` — `(2, 4)` sticks out
   of `[0, 3]`; expected `[(0,1),(2,3)]`.
4. reversed bounds with an empty list: `invertIntervalList([], 5, 2)` returns `[(5,2)]`.
None of these raises.  (A list in a shuffled order is handled correctly: the function sorts, `invert_complement`.) -/
theorem invert_counterexample :
    invertIntervalList [((1 : Int), (3 : Int)), (2, 5)] (some 0) (some 6) = .ok [(0, 1), (3, 2), (5, 6)] ∧
    invertIntervalList [((1 : Int), (2 : Int)), (4, 5)] (some 3) (some 6) = .ok [(2, 4), (5, 6)] ∧
    invertIntervalList [((1 : Int), (2 : Int)), (4, 5)] (some 0) (some 3) = .ok [(0, 1), (2, 4)] ∧
    invertIntervalList ([] : List (Int × Int)) (some 5) (some 2) = .ok [(5, 2)] := by
  have s1 : [((1 : Int), (3 : Int)), (2, 5)].mergeSort pairLe = [(1, 3), (2, 5)] :=
    List.mergeSort_of_pairwise (by simp [pairLe])
  have s2 : [((1 : Int), (2 : Int)), (4, 5)].mergeSort pairLe = [(1, 2), (4, 5)] :=
    List.mergeSort_of_pairwise (by simp [pairLe])
  refine ⟨?_, ?_, ?_, invert_empty 5 2⟩
  · unfold invertIntervalList
    rw [if_neg (by simp), s1]
    simp
  · unfold invertIntervalList
    rw [if_neg (by simp), s2]
    simp
  · unfold invertIntervalList
    rw [if_neg (by simp), s2]
    simp

/-! ## 5. `getValueAtTime`, exact branch -/

/-- index form of "sorted by time" -/
theorem sorted_index (data : Array (Int × Nat)) (hs : data.toList.Pairwise (fun a b => a.1 ≤ b.1)) :
    ∀ i j (hi : i < data.size) (hj : j < data.size), i ≤ j → data[i].1 ≤ data[j].1 := by
  intro i j hi hj hij
  rcases Nat.lt_or_eq_of_le hij with h | h
  · have := List.pairwise_iff_getElem.1 hs i j (by simpa using hi) (by simpa using hj) h
    simpa using this
  · subst h; exact Int.le_refl _

theorem mem_toList_iff (data : Array (Int × Nat)) (row : Int × Nat) :
    row ∈ data.toList ↔ ∃ k, ∃ h : k < data.size, data[k] = row := by
  rw [List.mem_iff_getElem]
  simp

theorem valueAtExact_core (ts : Int) (data : Array (Int × Nat))
    (hs : ∀ i j (hi : i < data.size) (hj : j < data.size), i ≤ j → data[i].1 ≤ data[j].1)
    (fuel i : Nat) (hi : i ≤ data.size) (hfuel : data.size + 1 - i ≤ fuel)
    (hbefore : ∀ k (h : k < data.size), k < i → data[k].1 < ts) :
    (∀ row, (valueAtExact ts data fuel i).1 = some row → row ∈ data.toList ∧ row.1 = ts) ∧
    ((valueAtExact ts data fuel i).1 = none → ∀ row ∈ data.toList, row.1 ≠ ts) ∧
    i ≤ (valueAtExact ts data fuel i).2 ∧ (valueAtExact ts data fuel i).2 ≤ data.size ∧
    (∀ k (h : k < data.size), k < (valueAtExact ts data fuel i).2 → data[k].1 < ts) ∧
    (∀ k (h : k < data.size), k = (valueAtExact ts data fuel i).2 → ts ≤ data[k].1) := by
  induction fuel generalizing i with
  | zero => omega
  | succ fuel ih =>
    unfold valueAtExact
    cases hrow : data[i]? with
    | none =>
      have hsz : data.size ≤ i := by simpa using hrow
      simp only
      refine ⟨by simp, ?_, Nat.le_refl _, hi, hbefore, fun k h hk => by omega⟩
      intro _ row hrow
      obtain ⟨k, hk, rfl⟩ := (mem_toList_iff data row).1 hrow
      have := hbefore k hk (by omega)
      omega
    | some row =>
      obtain ⟨hlt, hrow'⟩ := Array.getElem?_eq_some_iff.1 hrow
      simp only
      by_cases hle : ts ≤ row.1
      · rw [if_pos hle]
        simp only
        refine ⟨?_, ?_, Nat.le_refl _, hi, hbefore, fun k h hk => by subst hk; rw [hrow']; exact hle⟩
        · intro r hr
          split at hr
          · rename_i heq
            simp only [Option.some.injEq] at hr; subst hr
            exact ⟨(mem_toList_iff data row).2 ⟨i, hlt, hrow'⟩, by simp at heq; omega⟩
          · cases hr
        · intro hnone r hr
          have hne : ts ≠ row.1 := by
            intro h; simp [h] at hnone
          obtain ⟨k, hk, rfl⟩ := (mem_toList_iff data r).1 hr
          by_cases hki : k < i
          · have := hbefore k hk hki; omega
          · have := hs i k hlt hk (by omega)
            rw [hrow'] at this; omega
      · rw [if_neg hle]
        have := ih (i + 1) (by omega) (by omega) (by
          intro k hk hki
          by_cases h : k < i
          · exact hbefore k hk h
          · have : k = i := by omega
            subst this; rw [hrow']; omega)
        obtain ⟨h1, h2, h3, h4, h5, h6⟩ := this
        exact ⟨h1, h2, by omega, h4, h5, h6⟩

/-- **valueAt_exact_spec** -/
theorem valueAt_exact_spec (ts : Int) (data : Array (Int × Nat))
    (hs : data.toList.Pairwise (fun a b => a.1 ≤ b.1))
    (fuel i : Nat) (hi : i ≤ data.size) (hfuel : fuel ≥ data.size + 1 - i)
    (hbefore : ∀ k (h : k < data.size), k < i → data[k].1 < ts) :
    (∀ row, (valueAtExact ts data fuel i).1 = some row → row ∈ data.toList ∧ row.1 = ts) ∧
    ((valueAtExact ts data fuel i).1 = none → ∀ row ∈ data.toList, row.1 ≠ ts) ∧
    i ≤ (valueAtExact ts data fuel i).2 ∧ (valueAtExact ts data fuel i).2 ≤ data.size ∧
    (∀ k (h : k < data.size), k < (valueAtExact ts data fuel i).2 → data[k].1 < ts) ∧
    (∀ k (h : k < data.size), k = (valueAtExact ts data fuel i).2 → ts ≤ data[k].1) :=
  valueAtExact_core ts data (sorted_index data hs) fuel i hi hfuel hbefore

/-- the invariant carries over to the next (larger or equal) point of `getValuesAtPoints` -/
theorem valueAt_exact_next (ts ts' : Int) (hts : ts ≤ ts') (data : Array (Int × Nat))
    (hs : data.toList.Pairwise (fun a b => a.1 ≤ b.1))
    (fuel i : Nat) (hi : i ≤ data.size) (hfuel : fuel ≥ data.size + 1 - i)
    (hbefore : ∀ k (h : k < data.size), k < i → data[k].1 < ts) :
    ∀ k (h : k < data.size), k < (valueAtExact ts data fuel i).2 → data[k].1 < ts' := by
  intro k hk hlt
  have := (valueAt_exact_spec ts data hs fuel i hi hfuel hbefore).2.2.2.2.1 k hk hlt
  omega

/-- single lookup from the start of the data -/
theorem valueAt_exact_zero (ts : Int) (data : Array (Int × Nat))
    (hs : data.toList.Pairwise (fun a b => a.1 ≤ b.1)) :
    (∀ row, (valueAtExact ts data (data.size + 1) 0).1 = some row → row ∈ data.toList ∧ row.1 = ts) ∧
    ((valueAtExact ts data (data.size + 1) 0).1 = none → ∀ row ∈ data.toList, row.1 ≠ ts) := by
  have := valueAt_exact_spec ts data hs (data.size + 1) 0 (Nat.zero_le _) (by omega) (by intro k _ h; omega)
  exact ⟨this.1, this.2.1⟩


/-! ## 6. `getValueAtTime`, fuzzy branch -/

theorem tabs_int (x : Int) : tabs x = (x.natAbs : Int) := by
  simp only [tabs, Tm.zero]; split <;> omega

theorem fuzzyLoop_core (ts : Int) (data : Array (Int × Nat))
    (hs : ∀ i j (hi : i < data.size) (hj : j < data.size), i ≤ j → data[i].1 ≤ data[j].1)
    (fuel i : Nat) (best : Int × Nat) (hi : i ≤ data.size) (hfuel : data.size + 1 - i ≤ fuel)
    (j : Nat) (hj : j < data.size) (hjb : data[j] = best) (hji : j ≤ i)
    (hopt : ∀ k (h : k < data.size), k < i → (best.1 - ts).natAbs ≤ (data[k].1 - ts).natAbs) :
    (valueAtFuzzyLoop ts data fuel i best).1 ∈ data.toList ∧
    (∀ row ∈ data.toList,
      ((valueAtFuzzyLoop ts data fuel i best).1.1 - ts).natAbs ≤ (row.1 - ts).natAbs) ∧
    0 ≤ (valueAtFuzzyLoop ts data fuel i best).2 ∧
    (valueAtFuzzyLoop ts data fuel i best).2 < (data.size : Int) := by
  induction fuel generalizing i best j with
  | zero => omega
  | succ fuel ih =>
    unfold valueAtFuzzyLoop
    cases hrow : data[i]? with
    | none =>
      have hsz : data.size ≤ i := by simpa using hrow
      simp only
      refine ⟨(mem_toList_iff data best).2 ⟨j, hj, hjb⟩, ?_, by omega, by omega⟩
      intro row hr
      obtain ⟨k, hk, rfl⟩ := (mem_toList_iff data row).1 hr
      exact hopt k hk (by omega)
    | some row =>
      obtain ⟨hlt, hrow'⟩ := Array.getElem?_eq_some_iff.1 hrow
      simp only [tabs_int]
      by_cases h1 : ((row.1 - ts).natAbs : Int) < ((best.1 - ts).natAbs : Int)
      · rw [if_pos h1]
        by_cases h0 : (((row.1 - ts).natAbs : Int) == Tm.zero) = true
        · rw [if_pos h0]
          have h0' : (row.1 - ts).natAbs = 0 := by
            simp only [Tm.zero, beq_iff_eq] at h0; omega
          refine ⟨(mem_toList_iff data row).2 ⟨i, hlt, hrow'⟩, ?_, by simp only; omega, by simp only; omega⟩
          intro r _
          simp only; omega
        · rw [if_neg h0]
          exact ih (i + 1) row (by omega) (by omega) i hlt hrow' (by omega) (by
            intro k hk hki
            by_cases h : k < i
            · have := hopt k hk h; omega
            · have : k = i := by omega
              subst this; rw [hrow']; omega)
      · rw [if_neg h1]
        by_cases h2 : ((best.1 - ts).natAbs : Int) < ((row.1 - ts).natAbs : Int)
        · rw [if_pos h2]
          simp only
          have hij : j ≠ i := by
            intro h; subst h; rw [hjb] at hrow'; subst hrow'; omega
          refine ⟨(mem_toList_iff data best).2 ⟨j, hj, hjb⟩, ?_, by omega, by omega⟩
          intro r hr
          obtain ⟨k, hk, rfl⟩ := (mem_toList_iff data r).1 hr
          by_cases hki : k < i
          · exact hopt k hk hki
          · have e1 := hs j i hj hlt hji
            have e2 := hs i k hlt hk (by omega)
            rw [hjb] at e1; rw [hrow'] at e1 e2
            omega
        · rw [if_neg h2]
          exact ih (i + 1) best (by omega) (by omega) j hj hjb (by omega) (by
            intro k hk hki
            by_cases h : k < i
            · exact hopt k hk h
            · have : k = i := by omega
              subst this; rw [hrow']; omega)

/-- **valueAt_fuzzy_nearest**: a single fuzzy lookup from the start of sorted, non-empty data returns a sample
that is nearest to `ts` among all samples -/
theorem valueAt_fuzzy_nearest (ts : Int) (data : Array (Int × Nat)) (hne : data.size ≠ 0)
    (hs : data.toList.Pairwise (fun a b => a.1 ≤ b.1)) :
    ∃ row j, valueAtFuzzy ts data 0 = .ok (row, j) ∧ row ∈ data.toList ∧
      (∀ r ∈ data.toList, (row.1 - ts).natAbs ≤ (r.1 - ts).natAbs) ∧ 0 ≤ j ∧ j < (data.size : Int) := by
  have h0 : 0 < data.size := Nat.pos_of_ne_zero hne
  have hcall : valueAtFuzzy ts data 0 = .ok (valueAtFuzzyLoop ts data (data.size + 1) 0 data[0]) := by
    unfold valueAtFuzzy
    simp only [Int.lt_irrefl, if_false, false_or, ge_iff_le, Int.toNat_zero]
    rw [if_neg (by omega)]
    rw [Array.getElem?_eq_getElem h0]
  have := fuzzyLoop_core ts data (sorted_index data hs) (data.size + 1) 0 data[0] (Nat.zero_le _) (by omega)
    0 h0 rfl (Nat.le_refl _) (by intro k _ h; omega)
  exact ⟨_, _, hcall, this⟩



/-! ## 5b. the multi-point loop of `getValuesAtPoints` (exact matching) -/

/-- the excluded case of `hne`: fuzzy matching against an EMPTY sample series has no nearest sample; the lookup raises
the built-in `IndexError` (`sortedDataTupleList[i][0]`), on the real function and in the model, for every start index.
(Exact matching returns "no sample" for every point: `valuesAtPoints_exact_spec` has no such hypothesis.)  Replayed:
`PointTier('P',[(1,'a')],0,10).getValuesAtPoints([], True)` raises IndexError; with `False` it returns `[()]`. -/
theorem valueAt_fuzzy_empty (ts : Int) (i : Int) :
    valueAtFuzzy ts (#[] : Array (Int × Nat)) i = .error .IndexError := by
  unfold valueAtFuzzy
  simp only [List.size_toArray, List.length_nil, Int.natCast_zero]
  rw [if_pos (by split <;> omega)]

def exactGo (sorted : Array (Int × Nat)) : List (Pt Int) → Nat → List (Option (Int × Nat)) → List (Option (Int × Nat))
  | [], _, out => out
  | p :: ps, idx, out =>
    exactGo sorted ps (valueAtExact p.t sorted (sorted.size + 1) idx).2
      (out ++ [(valueAtExact p.t sorted (sorted.size + 1) idx).1])

theorem exact_forIn (sorted : Array (Int × Nat)) (ps : List (Pt Int)) (idx : Nat) (out : List (Option (Int × Nat))) :
    ∃ k : Int, (forIn (m := Except Err) ps ((idx : Int), out) fun p s =>
      pure (ForInStep.yield
        (((valueAtExact p.t sorted (sorted.size + 1) s.fst.toNat).snd : Int),
          s.snd ++ [(valueAtExact p.t sorted (sorted.size + 1) s.fst.toNat).fst]))) =
      .ok (k, exactGo sorted ps idx out) := by
  induction ps generalizing idx out with
  | nil => exact ⟨idx, rfl⟩
  | cons p ps ih =>
    obtain ⟨k, hk⟩ := ih (valueAtExact p.t sorted (sorted.size + 1) idx).2
      (out ++ [(valueAtExact p.t sorted (sorted.size + 1) idx).1])
    refine ⟨k, ?_⟩
    simp only [List.forIn_cons, pure_bind, Int.toNat_natCast, exactGo]
    exact hk

theorem valuesAtPoints_exact_unfold (t : PTier Int) (data : List (Int × Nat)) :
    t.valuesAtPoints data false = .ok (exactGo (data.mergeSort sampleLe).toArray t.ps 0 []) := by
  unfold PTier.valuesAtPoints
  simp only [Bool.false_eq_true, if_false]
  obtain ⟨k, hk⟩ := exact_forIn (data.mergeSort sampleLe).toArray t.ps 0 []
  simp only [Int.natCast_zero] at hk
  rw [hk]
  rfl

theorem sampleLe_time {a b : Int × Nat} (h : sampleLe a b = true) : a.1 ≤ b.1 := by
  unfold sampleLe at h
  split at h
  · omega
  · split at h
    · simp at h
    · omega

theorem sampleLe_trans (a b c : Int × Nat) (h1 : sampleLe a b = true) (h2 : sampleLe b c = true) :
    sampleLe a c = true := by
  obtain ⟨a1, a2⟩ := a; obtain ⟨b1, b2⟩ := b; obtain ⟨c1, c2⟩ := c
  simp only [sampleLe] at *
  grind

theorem sampleLe_total (a b : Int × Nat) : (sampleLe a b || sampleLe b a) = true := by
  obtain ⟨a1, a2⟩ := a; obtain ⟨b1, b2⟩ := b
  simp only [sampleLe]
  grind

theorem sortedData (data : List (Int × Nat)) :
    (data.mergeSort sampleLe).toArray.toList.Pairwise (fun a b => a.1 ≤ b.1) := by
  have := List.pairwise_mergeSort sampleLe_trans sampleLe_total data
  exact this.imp sampleLe_time


/-- what one exact lookup must satisfy -/
def ExactOk (rows : List (Int × Nat)) (ts : Int) (o : Option (Int × Nat)) : Prop :=
  (∀ row, o = some row → row ∈ rows ∧ row.1 = ts) ∧ (o = none → ∀ row ∈ rows, row.1 ≠ ts)

theorem exactGo_spec (sorted : Array (Int × Nat)) (hs : sorted.toList.Pairwise (fun a b => a.1 ≤ b.1))
    (ps : List (Pt Int)) (idx : Nat) (out : List (Option (Int × Nat)))
    (hps : ps.Pairwise (fun a b => a.t ≤ b.t)) (hidx : idx ≤ sorted.size)
    (hbefore : ∀ p ∈ ps, ∀ k (h : k < sorted.size), k < idx → sorted[k].1 < p.t) :
    ∃ res, exactGo sorted ps idx out = out ++ res ∧ res.length = ps.length ∧
      ∀ pr ∈ ps.zip res, ExactOk sorted.toList pr.1.t pr.2 := by
  induction ps generalizing idx out with
  | nil => exact ⟨[], by simp [exactGo], rfl, by simp⟩
  | cons p ps ih =>
    obtain ⟨hp1, hp2⟩ := List.pairwise_cons.1 hps
    have hspec := valueAt_exact_spec p.t sorted hs (sorted.size + 1) idx hidx (by omega)
      (hbefore p (by simp))
    obtain ⟨s1, s2, s3, s4, s5, _⟩ := hspec
    obtain ⟨res, e1, e2, e3⟩ := ih (valueAtExact p.t sorted (sorted.size + 1) idx).2
      (out ++ [(valueAtExact p.t sorted (sorted.size + 1) idx).1]) hp2 s4
      (by
        intro q hq k hk hlt
        have := s5 k hk hlt
        have := hp1 q hq
        omega)
    refine ⟨(valueAtExact p.t sorted (sorted.size + 1) idx).1 :: res, ?_, by simp [e2], ?_⟩
    · simp only [exactGo, e1, List.append_assoc, List.singleton_append]
    · intro pr hpr
      simp only [List.zip_cons_cons, List.mem_cons] at hpr
      rcases hpr with rfl | hpr
      · exact ⟨s1, s2⟩
      · exact e3 pr hpr

/-- **getValuesAtPoints, exact matching**: for a point tier whose points are in time order (any well-formed
tier) and arbitrary data, the call succeeds with one answer per point; `some row` is a sample of the data at
exactly the point's time, `none` means the data has no sample at that time -/
theorem valuesAtPoints_exact_spec (t : PTier Int) (hps : t.ps.Pairwise (fun a b => a.t ≤ b.t))
    (data : List (Int × Nat)) :
    ∃ out, t.valuesAtPoints data false = .ok out ∧ out.length = t.ps.length ∧
      ∀ pr ∈ t.ps.zip out, ExactOk data pr.1.t pr.2 := by
  obtain ⟨res, e1, e2, e3⟩ := exactGo_spec (data.mergeSort sampleLe).toArray (sortedData data) t.ps 0 [] hps
    (Nat.zero_le _) (by intro _ _ k _ h; omega)
  refine ⟨res, ?_, e2, ?_⟩
  · rw [valuesAtPoints_exact_unfold, e1]; rfl
  · intro pr hpr
    have := e3 pr hpr
    simp only [ExactOk, List.mem_mergeSort] at this ⊢
    exact this

theorem valuesAtPoints_exact_wf (t : PTier Int) (hwf : t.WF) (data : List (Int × Nat)) :
    ∃ out, t.valuesAtPoints data false = .ok out ∧ out.length = t.ps.length ∧
      ∀ pr ∈ t.ps.zip out, ExactOk data pr.1.t pr.2 :=
  valuesAtPoints_exact_spec t (hwf.sorted.imp Pt.le_time) data


/-! ## the property clauses under their catalogue names -/

/-- **find_eq_spec** -/
theorem find_eq_spec (ls : List String) (q : String) :
    (∀ i, i ∈ findLabels ls q false ↔ ls[i]? = some q) ∧
    (∀ i, i ∈ findLabels ls q true ↔ ∃ l, ls[i]? = some l ∧ ((l.splitOn q).length > 1 ∨ q.isEmpty)) ∧
    (∀ b, (findLabels ls q b).Pairwise (· < ·)) :=
  ⟨findLabels_mem_exact ls q, findLabels_mem_substr ls q, findLabels_sorted ls q⟩

/-- **timestamps_spec** -/
theorem timestamps_spec :
    (∀ t : ITier Int, t.timestamps.Pairwise (· < ·) ∧
      ∀ x, x ∈ t.timestamps ↔ ∃ iv ∈ t.es, x = iv.s ∨ x = iv.e) ∧
    (∀ t : PTier Int, t.timestamps.Pairwise (· < ·) ∧ ∀ x, x ∈ t.timestamps ↔ ∃ p ∈ t.ps, x = p.t) :=
  ⟨itimestamps_spec, ptimestamps_spec⟩

/-- **eq_refl** -/
theorem eq_refl :
    (∀ t : ITier Int, t.eq t = true) ∧ (∀ t : PTier Int, t.eq t = true) ∧
    (∀ t : AnyTier Int, t.eq t = true) ∧
    (∀ g : Tg Int, g.lo.isSome → g.hi.isSome → g.eq g = true) :=
  ⟨ieq_refl, peq_refl, anyeq_refl, tgeq_refl⟩

/-- a textgrid without a span is not equal to itself (Python: `isclose(None, …)` is not reached; the model's
`optClose14` answers `false`) — the hypothesis of `tgeq_refl` is needed -/
theorem tgeq_irrefl_nospan (g : Tg Int) (h : g.lo = none ∨ g.hi = none) : g.eq g = false := by
  obtain ⟨ts, lo, hi⟩ := g
  simp only at h
  rcases h with rfl | rfl
  · simp [Tg.eq, optClose14]
  · cases lo <;> simp [Tg.eq, optClose14]

/-- **eq_symm** -/
theorem eq_symm :
    (∀ t u : ITier Int, t.eq u = u.eq t) ∧ (∀ t u : PTier Int, t.eq u = u.eq t) ∧
    (∀ t u : AnyTier Int, t.eq u = u.eq t) ∧ (∀ g h : Tg Int, g.eq h = h.eq g) :=
  ⟨ieq_symm, peq_symm, anyeq_symm, tgeq_symm⟩

/-- **eq_discriminates** -/
theorem eq_discriminates :
    (∀ t u : ITier Int, t.eq u = true →
      t.name = u.name ∧ Tm.close9 t.lo u.lo = true ∧ Tm.close9 t.hi u.hi = true ∧
      t.es.length = u.es.length ∧ t.es.map (·.l) = u.es.map (·.l) ∧
      ∀ p ∈ t.es.zip u.es, Tm.close9 p.1.s p.2.s = true ∧ Tm.close9 p.1.e p.2.e = true) ∧
    (∀ t u : PTier Int, t.eq u = true →
      t.name = u.name ∧ Tm.close9 t.lo u.lo = true ∧ Tm.close9 t.hi u.hi = true ∧
      t.ps.length = u.ps.length ∧ t.ps.map (·.l) = u.ps.map (·.l) ∧
      ∀ p ∈ t.ps.zip u.ps, Tm.close9 p.1.t p.2.t = true) ∧
    (∀ (t : ITier Int) (u : PTier Int), AnyTier.eq (.I t) (.P u) = false ∧ AnyTier.eq (.P u) (.I t) = false) :=
  ⟨ieq_discriminates, peq_discriminates, eq_mixed⟩

/-- **validate_iff** -/
theorem validate_iff :
    (∀ t : ITier Int, t.validate = true ↔
      (∀ iv ∈ t.es, iv.s < iv.e ∧ t.lo ≤ iv.s ∧ iv.e ≤ t.hi) ∧ AdjLe t.es) ∧
    (∀ t : ITier Int, t.validate = true ↔
      (∀ iv ∈ t.es, iv.s < iv.e ∧ t.lo ≤ iv.s ∧ iv.e ≤ t.hi) ∧ Disj t.es) ∧
    (∀ t : PTier Int, t.validate = true ↔ (∀ p ∈ t.ps, t.lo ≤ p.t ∧ p.t ≤ t.hi) ∧ PAdjLe t.ps) ∧
    (∀ t : PTier Int, t.validate = true ↔
      (∀ p ∈ t.ps, t.lo ≤ p.t ∧ p.t ≤ t.hi) ∧ t.ps.Pairwise (fun a b => a.t ≤ b.t)) ∧
    (∀ g : Tg Int, g.validate = true ↔
      g.names.Nodup ∧ ∀ t ∈ g.tiers, g.lo = some t.lo ∧ g.hi = some t.hi ∧ t.validate = true) :=
  ⟨ivalidate_iff, ivalidate_iff_disj, pvalidate_iff, pvalidate_iff_sorted, tgvalidate_iff⟩

/-! ## non-vacuity -/

def exTier : ITier Int := ⟨"T", [⟨10, 30, "a"⟩, ⟨30, 60, "b"⟩, ⟨80, 90, "a"⟩], 0, 100⟩
def exPts : PTier Int := ⟨"P", [⟨5, "x"⟩, ⟨40, "y"⟩, ⟨40, "z"⟩, ⟨70, "x"⟩], 0, 100⟩
def exData : Array (Int × Nat) := #[(0, 0), (5, 1), (30, 2), (38, 3), (43, 4), (70, 5), (70, 6), (99, 7)]

theorem exTier_wf : exTier.WF := by
  refine ⟨?_, ?_, ?_, ?_, ?_, ?_⟩ <;> simp [exTier, Pos, Disj, Stripped] <;> decide

theorem exPts_wf : exPts.WF := by
  refine ⟨?_, ?_, ?_, ?_, ?_⟩ <;> simp [exPts] <;> decide

theorem exData_sorted : exData.toList.Pairwise (fun a b => a.1 ≤ b.1) := by
  simp [exData]

/-- the hypotheses of `nonEntries_tiling` are satisfiable -/
theorem exTier_tiling : ∃ ns, exTier.getNonEntries = .ok ns ∧ Touch (sortIvs (exTier.es ++ ns)) := by
  obtain ⟨ns, h, _, _, _, _, _, _, _, _, ht⟩ := nonEntries_tiling exTier exTier_wf (by simp [exTier])
  exact ⟨ns, h, ht⟩

/-- a well-formed tier that starts before time 0 (outside the former hypothesis `0 ≤ t.lo`): the tiling starts at the
first entry's start, `-3`; the stretch `[-5, -3)` before it is not reported (replayed on the class:
`IntervalTier('T',[(-3,-1,'a'),(2,3,'b')],-5,5).getNonEntries()` gives `[(-1,2,''),(3,5,'')]`) -/
def negTier : ITier Int := ⟨"T", [⟨-3, -1, "a"⟩, ⟨2, 3, "b"⟩], -5, 5⟩
theorem negTier_wf : negTier.WF := by
  refine ⟨?_, ?_, ?_, ?_, ?_, ?_⟩ <;> simp [negTier, Pos, Disj, Stripped] <;> decide
example : tileStart negTier = -3 := by decide
#guard negTier.getNonEntries.toOption == some [⟨-1, 2, ""⟩, ⟨3, 5, ""⟩]
#guard (⟨"T", [⟨2, 3, "b"⟩], -5, 5⟩ : ITier Int).getNonEntries.toOption == some [⟨0, 2, ""⟩, ⟨3, 5, ""⟩]

#guard exTier.getNonEntries.toOption == some [⟨0, 10, ""⟩, ⟨60, 80, ""⟩, ⟨90, 100, ""⟩]
#guard (exTier.getNonEntries.toOption.map fun ns => sortIvs (exTier.es ++ ns)) ==
  some [⟨0, 10, ""⟩, ⟨10, 30, "a"⟩, ⟨30, 60, "b"⟩, ⟨60, 80, ""⟩, ⟨80, 90, "a"⟩, ⟨90, 100, ""⟩]
#guard findLabels (exTier.es.map (·.l)) "a" false == [0, 2]
#guard findLabels ["ab", "b", "cab"] "ab" true == [0, 2]
#guard exTier.timestamps == [10, 30, 60, 80, 90]
#guard exPts.timestamps == [5, 40, 70]
#guard exTier.valuesInIntervals exData.toList ==
  [(⟨10, 30, "a"⟩, [(30, 2)]), (⟨30, 60, "b"⟩, [(30, 2), (38, 3), (43, 4)]), (⟨80, 90, "a"⟩, [])]
#guard valueAtExact 70 exData (exData.size + 1) 0 == (some (70, 5), 5)
#guard valueAtExact 40 exData (exData.size + 1) 0 == (none, 4)
#guard (valueAtFuzzy 40 exData 0).toOption == some ((38, 3), 3)
#guard (valueAtFuzzy 41 exData 0).toOption == some ((43, 4), 4)
#guard (valueAtFuzzy 1000 exData 0).toOption == some ((99, 7), 7)
#guard (exPts.valuesAtPoints exData.toList false).toOption == some [some (5, 1), none, none, some (70, 5)]
#guard (exPts.valuesAtPoints exData.toList true).toOption == some [some (5, 1), some (38, 3), some (38, 3), some (70, 5)]
#guard overlapCheck (⟨0, 10, ""⟩ : Iv Int) ⟨10, 20, ""⟩ 0 false == false
#guard overlapCheck (⟨0, 10, ""⟩ : Iv Int) ⟨10, 20, ""⟩ 0 true == true
#guard overlapCheck (⟨0, 10, ""⟩ : Iv Int) ⟨7, 20, ""⟩ 3 false == true
#guard overlapCheck (⟨0, 10, ""⟩ : Iv Int) ⟨7, 20, ""⟩ 4 false == false
#guard (invertIntervalList [((10 : Int), (30 : Int)), (30, 60), (80, 90)] (some 0) (some 100)).toOption ==
  some [(0, 10), (60, 80), (90, 100)]
#guard (invertIntervalList [((10 : Int), (30 : Int))] (some 10) (some 30)).toOption == some []
#guard (invertIntervalList ([] : List (Int × Int)) (some 0) (some 5)).toOption == some [(0, 5)]
#guard (invertIntervalList [((3 : Int), (3 : Int))] (some 0) (some 5)).toOption == none
#guard exTier.validate && exPts.validate
#guard !(⟨"T", [⟨10, 30, "a"⟩, ⟨20, 60, "b"⟩], 0, 100⟩ : ITier Int).validate
#guard !(⟨"T", [⟨10, 30, "a"⟩], 0, 20⟩ : ITier Int).validate
#guard (⟨[.I exTier, .P exPts], some 0, some 100⟩ : Tg Int).validate
#guard !(⟨[.I exTier, .P exPts], some 0, some 90⟩ : Tg Int).validate
#guard !(⟨[.I exTier, .I exTier], some 0, some 100⟩ : Tg Int).validate
#guard exTier.eq exTier && !exTier.eq { exTier with name := "U" }
#guard !exTier.eq { exTier with es := exTier.es.take 2 }
#guard AnyTier.eq (.I exTier) (.P exPts) == false
#guard (⟨[.I exTier], some 0, some 100⟩ : Tg Int).eq ⟨[.I exTier], some 0, some 100⟩
#guard !(⟨[.I exTier], none, some 100⟩ : Tg Int).eq ⟨[.I exTier], none, some 100⟩

end C15
