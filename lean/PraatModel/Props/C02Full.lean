import PraatModel.Props.C02
import Std.Data.String.ToNat

/-!
# C02 for whole files — `Spec.decode (emit g) = some (rawOf g)` for both layouts, every textgrid, every label

`decode_short` / `decode_long`: for EVERY textgrid (any number of tiers, any entries, any names and labels — quotes,
newlines, `<flags>`, the formats' own keywords), the file written by `tgToShort` / `tgToLong` is accepted by the
independent reader `Spec.decode` (Spec/TextGridFormat.lean, written from Praat's manual), every declared size equals the
number of items that follow, no token is left over, and what is read is exactly `rawOf`: class names, tier names, rendered
spans, rendered times and the labels themselves.  `long_short_agree`: the two layouts decode to the same content.

The only hypothesis is about the numeral renderer `num` (CPython's `repr` / `"%d"`, a parameter of the emitters): every
rendered time is a numeral of the format (`decode_short'`: `Spec.isNumeral (num x).toList = true`; `NumTok` is what is
used, `NumTok.of_isNumeral` derives it).  Nothing is assumed about `Nat` rendering: `natTok`, `nat_toNat` (core's
`Nat.toNat?_repr`).

Route: (1) the tokenizer without fuel (`tok`, `tokens_fuel`); (2) `Seg l ts` — a piece of a file that contributes the
tokens `ts` whatever follows — closed under `++`; pieces: keyword + white space (`seg_kw`), numeral + white space
(`seg_num`), written text + white space (`seg_text`, from `C02.tokens_written_text`), `<exists>`, `[k]:`; (4) the emitters
are concatenations of pieces (`short_toList`, `long_toList`); (5) the reader's run over the token list
(`decodeD_fileToks`).
-/
namespace C02
open Spec

/-! ## 1. the tokenizer without fuel -/

theorem specText_length (cs : List Char) : ∀ t r, specText cs = some (t, r) → r.length ≤ cs.length := by
  fun_induction specText cs <;> intro t r h
  all_goals simp_all
  all_goals (rename_i ih; obtain ⟨a, ha, _⟩ := h; have := ih _ _ ha; omega)

/-- any fuel above the input length gives the same token list -/
theorem tokens_fuel_eq : ∀ (f f' : Nat) (l : List Char), l.length < f → l.length < f' → tokens f l = tokens f' l := by
  intro f
  induction f with
  | zero => intro f' l h; omega
  | succ f ih =>
    intro f' l h h'
    cases f' with
    | zero => omega
    | succ f' =>
      cases l with
      | nil => simp [tokens]
      | cons c cs =>
        simp only [List.length_cons] at h h'
        have hd : (cs.dropWhile fun d => !pyIsSpace d).length ≤ cs.length := (List.dropWhile_sublist _).length_le
        simp only [tokens]
        rw [ih f' cs (by omega) (by omega), ih f' (cs.dropWhile fun d => !pyIsSpace d) (by omega) (by omega)]
        split
        · rfl
        · split
          · cases hs : specText cs with
            | none => rfl
            | some p =>
              obtain ⟨t, r⟩ := p
              have := specText_length cs t r hs
              simp only
              rw [ih f' r (by omega) (by omega)]
          · rfl

/-- the tokenizer with exactly the fuel `Spec.decode` gives it -/
def tok (l : List Char) : Option (List Tok) := tokens (l.length + 1) l

theorem tokens_fuel (f : Nat) (l : List Char) (h : l.length < f) : tokens f l = tok l :=
  tokens_fuel_eq f (l.length + 1) l h (by omega)

theorem tok_nil : tok [] = some [] := rfl

theorem tok_space (c : Char) (cs : List Char) (h : pyIsSpace c = true) : tok (c :: cs) = tok cs := by
  unfold tok
  simp only [List.length_cons, tokens, h, if_true]

theorem tok_text (s : List Char) (r : Char) (rest : List Char) (hr : r ≠ q) :
    tok (q :: (escapeL s ++ q :: r :: rest)) = (tok (r :: rest)).map (Tok.text (String.ofList s) :: ·) := by
  unfold tok
  rw [List.length_cons, tokens_written_text _ s r rest hr, tokens_fuel _ _ (by simp; omega)]
  rfl

theorem takeWhile_word (w : List Char) (c : Char) (rest : List Char) (hw : ∀ d ∈ w, pyIsSpace d = false)
    (hc : pyIsSpace c = true) :
    (w ++ c :: rest).takeWhile (fun d => !pyIsSpace d) = w ∧ (w ++ c :: rest).dropWhile (fun d => !pyIsSpace d) = c :: rest := by
  induction w with
  | nil => simp [hc]
  | cons a as ih =>
    have ha := hw a (by simp)
    have := ih (fun d hd => hw d (by simp [hd]))
    simp [ha, this]

/-- a free-standing word (no white space inside, not opening a text) followed by white space -/
theorem tok_word (c0 : Char) (w : List Char) (c : Char) (rest : List Char) (h0 : pyIsSpace c0 = false) (h0q : c0 ≠ q)
    (hw : ∀ d ∈ w, pyIsSpace d = false) (hc : pyIsSpace c = true) :
    tok (c0 :: (w ++ c :: rest)) =
      if c0 == '<' && (c0 :: w).getLast? == some '>' then (tok rest).map (Tok.flag (String.ofList (c0 :: w)) :: ·)
      else if isNumeral (c0 :: w) then (tok rest).map (Tok.num (String.ofList (c0 :: w)) :: ·)
      else tok rest := by
  obtain ⟨h1, h2⟩ := takeWhile_word w c rest hw hc
  unfold tok
  rw [List.length_cons, tokens]
  simp only [h0, h0q, Bool.false_eq_true, if_false, h1, h2]
  rw [tokens_fuel _ _ (by simp; omega), tok_space c rest hc]
  rfl

/-! ## 2. self-contained pieces of a file -/

/-- `l` is a self-contained piece of a file: whatever follows it, it contributes exactly the tokens `ts` -/
def Seg (l : List Char) (ts : List Tok) : Prop := ∀ rest, tok (l ++ rest) = (tok rest).map (ts ++ ·)

theorem Seg.nil : Seg [] [] := by
  intro rest; cases h : tok rest <;> simp [h]

theorem Seg.append {a b : List Char} {ta tb : List Tok} (h1 : Seg a ta) (h2 : Seg b tb) : Seg (a ++ b) (ta ++ tb) := by
  intro rest
  rw [List.append_assoc, h1, h2]
  cases tok rest <;> simp

theorem Seg.ws (c : Char) (h : pyIsSpace c = true) : Seg [c] [] := by
  intro rest
  rw [List.singleton_append, tok_space c rest h]
  cases tok rest <;> simp

theorem Seg.tok_eq {l : List Char} {ts : List Tok} (h : Seg l ts) : tok l = some ts := by
  have := h []
  rw [List.append_nil, tok_nil] at this
  simpa using this

theorem Seg.flatMap {β : Type} (f : β → List Char) (g : β → List Tok) (xs : List β) (h : ∀ x ∈ xs, Seg (f x) (g x)) :
    Seg (xs.flatMap f) (xs.flatMap g) := by
  induction xs with
  | nil => exact Seg.nil
  | cons x xs ih =>
    rw [List.flatMap_cons, List.flatMap_cons]
    exact (h x (by simp)).append (ih fun y hy => h y (by simp [hy]))

theorem Seg.cast {l : List Char} {ts ts' : List Tok} (h : Seg l ts) (e : ts = ts') : Seg l ts' := e ▸ h

theorem seg_spaces (l : List Char) (h : l.all pyIsSpace = true) : Seg l [] := by
  induction l with
  | nil => exact Seg.nil
  | cons c cs ih =>
    simp only [List.all_cons, Bool.and_eq_true] at h
    exact ((Seg.ws c h.1).append (ih h.2)).cast rfl

/-- what a rendered numeral must satisfy to be a free-standing number token of the format (CPython's `repr` / `"%d"`
output does; sampled by the harness).  `NumTok.of_isNumeral` below: the last field implies the others. -/
structure NumTok (w : String) : Prop where
  ne : w.toList ≠ []
  noSpace : ∀ c ∈ w.toList, pyIsSpace c = false
  noQuote : w.toList.head? ≠ some q
  notFlag : w.toList.head? ≠ some '<'
  numeral : Spec.isNumeral w.toList = true

/-- a numeral and the white space after it -/
def numS (w : String) (c : Char) : List Char := w.toList ++ [c]
/-- a written text (opening quote, doubled quotes, closing quote) and the white space after it -/
def textS (s : String) (c : Char) : List Char := q :: (escapeL s.toList ++ [q, c])
/-- a keyword / punctuation word and the white space after it -/
def kw (w : List Char) (c : Char) : List Char := w ++ [c]

theorem seg_num (w : String) (c : Char) (hw : NumTok w) (hc : pyIsSpace c = true) : Seg (numS w c) [Tok.num w] := by
  intro rest
  unfold numS
  cases hl : w.toList with
  | nil => exact absurd hl hw.ne
  | cons c0 w' =>
    have h0 : pyIsSpace c0 = false := hw.noSpace c0 (by simp [hl])
    have h0q : c0 ≠ q := fun h => hw.noQuote (by simp [hl, h])
    have h0f : (c0 == '<') = false := by
      have : c0 ≠ '<' := fun h => hw.notFlag (by simp [hl, h])
      simpa using this
    have hn : isNumeral (c0 :: w') = true := hl ▸ hw.numeral
    have hs : String.ofList (c0 :: w') = w := by rw [← hl, String.ofList_toList]
    rw [show (c0 :: w' ++ [c]) ++ rest = c0 :: (w' ++ c :: rest) by simp,
      tok_word c0 w' c rest h0 h0q (fun d hd => hw.noSpace d (by simp [hl, hd])) hc]
    simp only [h0f, Bool.false_and, Bool.false_eq_true, if_false, hn, if_true, hs]
    rfl

/-- comment words: everything that is neither a number, nor a text, nor a flag -/
def cword (w : List Char) : Bool :=
  match w with
  | [] => false
  | c0 :: w' => !pyIsSpace c0 && c0 != q && w'.all (fun d => !pyIsSpace d) && !(c0 == '<' && w.getLast? == some '>') &&
      !isNumeral w

theorem seg_kw (w : List Char) (c : Char) (hw : cword w = true) (hc : pyIsSpace c = true) : Seg (kw w c) [] := by
  intro rest
  unfold kw
  cases w with
  | nil => simp [cword] at hw
  | cons c0 w' =>
    simp only [cword, Bool.and_eq_true, Bool.not_eq_true', bne_iff_ne, ne_eq, List.all_eq_true] at hw
    obtain ⟨⟨⟨⟨h0, h0q⟩, hw'⟩, hf⟩, hn⟩ := hw
    rw [show (c0 :: w' ++ [c]) ++ rest = c0 :: (w' ++ c :: rest) by simp, tok_word c0 w' c rest h0 h0q hw' hc]
    simp only [hf, Bool.false_eq_true, if_false, hn]
    cases tok rest <;> simp

theorem space_ne_q (c : Char) (hc : pyIsSpace c = true) : c ≠ q := by
  intro h; rw [h, C01.q_not_space] at hc; cases hc

theorem seg_text (s : String) (c : Char) (hc : pyIsSpace c = true) : Seg (textS s c) [Tok.text s] := by
  intro rest
  unfold textS
  rw [List.cons_append, List.append_assoc]
  show tok (q :: (escapeL s.toList ++ q :: c :: rest)) = _
  rw [tok_text _ c rest (space_ne_q c hc), tok_space c rest hc, String.ofList_toList]
  rfl

/-! ## 3. natural numbers (`size = …`, `[k]:`) and the flag -/

theorem digit_not_space (c : Char) (h : c.isDigit = true) : pyIsSpace c = false := by
  simp only [Char.isDigit, Bool.and_eq_true, decide_eq_true_eq, ge_iff_le, UInt32.le_iff_toNat_le] at h
  have h1 : 48 ≤ c.toNat := h.1
  have h2 : c.toNat ≤ 57 := h.2
  unfold pyIsSpace
  simp only [Bool.or_eq_false_iff, Bool.and_eq_false_iff, decide_eq_false_iff_not, beq_eq_false_iff_ne, ne_eq]
  omega

theorem digit_not_sign (c : Char) (h : c.isDigit = true) : isSign c = false := by
  simp only [Char.isDigit, Bool.and_eq_true, decide_eq_true_eq, ge_iff_le, UInt32.le_iff_toNat_le] at h
  have h1 : 48 ≤ c.toNat := h.1
  unfold isSign
  simp only [Bool.or_eq_false_iff, beq_eq_false_iff_ne, ne_eq]
  constructor <;> (intro hc; rw [hc] at h1; revert h1; decide)

theorem takeWhile_all {β : Type} (p : β → Bool) (l : List β) (h : ∀ x ∈ l, p x = true) :
    l.takeWhile p = l ∧ l.dropWhile p = [] := by
  induction l with
  | nil => simp
  | cons a as ih =>
    have ha := h a (by simp)
    have := ih (fun x hx => h x (by simp [hx]))
    simp [List.takeWhile, List.dropWhile, ha, this]

theorem isNumeral_digits (w : List Char) (hne : w ≠ []) (hd : ∀ c ∈ w, c.isDigit = true) : isNumeral w = true := by
  cases w with
  | nil => exact absurd rfl hne
  | cons c cs =>
    have hs := digit_not_sign c (hd c (by simp))
    obtain ⟨ht, hdr⟩ := takeWhile_all Char.isDigit (c :: cs) hd
    unfold isNumeral
    simp only [hs, Bool.false_eq_true, if_false, ht, hdr]
    rfl

theorem natTok (n : Nat) : NumTok (toString n) := by
  have hl : (toString n).toList = Nat.toDigits 10 n := Nat.toList_repr
  have hd : ∀ c ∈ (toString n).toList, c.isDigit = true := fun c hc =>
    Nat.isDigit_of_mem_toDigits (by omega) (by omega) (hl ▸ hc)
  have hne : (toString n).toList ≠ [] := by rw [hl]; exact Nat.toDigits_ne_nil
  have hhead : ∀ c, (toString n).toList.head? = some c → c.isDigit = true := fun c hc =>
    hd c (List.mem_of_head? hc)
  refine ⟨hne, fun c hc => digit_not_space c (hd c hc), fun h => ?_, fun h => ?_, isNumeral_digits _ hne hd⟩
  · exact absurd (hhead _ h) (by decide)
  · exact absurd (hhead _ h) (by decide)

theorem nat_toNat (n : Nat) : (toString n).toNat? = some n := Nat.toNat?_repr n

/-- `[k]:` (and `[]:`) are comment -/
def idxW (k : Nat) : List Char := '[' :: ((toString k).toList ++ [']', ':'])

theorem cword_idx (k : Nat) : cword (idxW k) = true := by
  have hk := natTok k
  have hsp : ∀ x ∈ (toString k).toList ++ [']', ':'], pyIsSpace x = false := by
    intro x hx
    rcases List.mem_append.1 hx with h | h
    · exact hk.noSpace x h
    · simp only [List.mem_cons, List.not_mem_nil, or_false] at h
      rcases h with h | h <;> (rw [h]; decide)
  have hnum : isNumeral (idxW k) = false := by
    unfold isNumeral idxW
    simp [isSign]
  unfold cword
  rw [hnum]
  unfold idxW
  simp only [Bool.and_eq_true, Bool.not_eq_true', bne_iff_ne, ne_eq, List.all_eq_true]
  refine ⟨⟨⟨⟨by decide, by decide⟩, hsp⟩, by simp⟩, trivial⟩

/-- `[k]:` and the white space after it -/
def idxS (k : Nat) (c : Char) : List Char := idxW k ++ [c]

theorem seg_idx (k : Nat) (c : Char) (hc : pyIsSpace c = true) : Seg (idxS k c) [] :=
  seg_kw _ c (cword_idx k) hc

def existsW : List Char := ['<', 'e', 'x', 'i', 's', 't', 's', '>']

theorem seg_exists (c : Char) (hc : pyIsSpace c = true) : Seg (kw existsW c) [Tok.flag "<exists>"] := by
  intro rest
  unfold kw existsW
  have := tok_word '<' ['e', 'x', 'i', 's', 't', 's', '>'] c rest (by decide) (by decide) (by decide) hc
  simp only [List.cons_append, List.nil_append] at this ⊢
  rw [this]
  have hs : String.ofList ['<', 'e', 'x', 'i', 's', 't', 's', '>'] = "<exists>" := by
    rw [← String.ofList_toList (s := "<exists>")]; rfl
  rw [hs]
  rfl

/-! ## 4. the emitters as concatenations of pieces -/

theorem foldl_toList {β : Type} (f : String → β → String) (p : β → List Char)
    (h : ∀ o t, (f o t).toList = o.toList ++ p t) (l : List β) (init : String) :
    (l.foldl f init).toList = init.toList ++ l.flatMap p := by
  induction l generalizing init with
  | nil => simp
  | cons a as ih => rw [List.foldl_cons, ih, h, List.flatMap_cons, List.append_assoc]

theorem escapeQuotes_toList (s : String) : (escapeQuotes s).toList = escapeL s.toList := by
  unfold escapeQuotes; rw [String.toList_ofList]

/-- an end of line standing alone (after the white space that closed the last token) -/
def nlS : List Char := ['\n']
def ind1 : List Char := [' ', ' ', ' ', ' ']
def ind2 : List Char := ind1 ++ ind1
def ind3 : List Char := ind1 ++ ind1 ++ ind1

/-- `File type = "ooTextFile"⏎Object class = "TextGrid"⏎⏎` -/
def fileHdr : List Char :=
  kw "File".toList ' ' ++ kw "type".toList ' ' ++ kw "=".toList ' ' ++ textS "ooTextFile" '\n' ++
  kw "Object".toList ' ' ++ kw "class".toList ' ' ++ kw "=".toList ' ' ++ textS "TextGrid" '\n' ++ nlS

section
variable {α : Type}

def ivShort (num : α → String) (e : Iv α) : List Char :=
  numS (num e.s) '\n' ++ numS (num e.e) '\n' ++ textS e.l '\n'
def ptShort (num : α → String) (p : Pt α) : List Char :=
  numS (num p.t) '\n' ++ textS p.l '\n'
def tierShort (num : α → String) : AnyTier α → List Char
  | .I t => textS "IntervalTier" '\n' ++ textS t.name '\n' ++ numS (num t.lo) '\n' ++ numS (num t.hi) '\n' ++
      numS (toString t.es.length) '\n' ++ t.es.flatMap (ivShort num)
  | .P t => textS "TextTier" '\n' ++ textS t.name '\n' ++ numS (num t.lo) '\n' ++ numS (num t.hi) '\n' ++
      numS (toString t.ps.length) '\n' ++ t.ps.flatMap (ptShort num)
def shortL (num : α → String) (g : Tg α) (lo hi : α) : List Char :=
  fileHdr ++ numS (num lo) '\n' ++ numS (num hi) '\n' ++ kw existsW '\n' ++ numS (toString g.tiers.length) '\n' ++
    g.tiers.flatMap (tierShort num)
end

section
variable {α : Type}

theorem short_toList (num : α → String) (g : Tg α) (lo hi : α) :
    (tgToShort num g lo hi).toList = shortL num g lo hi := by
  unfold tgToShort shortL
  simp only []
  rw [foldl_toList _ (tierShort num)]
  · simp only [String.toList_append, String.reduceToList, fileHdr, nlS, kw, numS, textS, existsW, escapeL, q, Char.reduceEq,
      ↓reduceIte, List.append_assoc, List.cons_append, List.nil_append]
  · intro o t
    cases t with
    | I t =>
      simp only [String.toList_append]
      rw [foldl_toList _ (ivShort num)]
      · simp only [String.reduceToList, tierShort, numS, textS, escapeL, q, Char.reduceEq,
          ↓reduceIte, List.append_assoc, List.cons_append, List.nil_append, escapeQuotes_toList, String.toList_empty]
      · intro o e
        simp only [String.toList_append, String.reduceToList, ivShort, numS, textS, q,
          List.append_assoc, List.cons_append, List.nil_append, escapeQuotes_toList]
    | P t =>
      simp only [String.toList_append]
      rw [foldl_toList _ (ptShort num)]
      · simp only [String.reduceToList, tierShort, numS, textS, escapeL, q, Char.reduceEq,
          ↓reduceIte, List.append_assoc, List.cons_append, List.nil_append, escapeQuotes_toList, String.toList_empty]
      · intro o e
        simp only [String.toList_append, String.reduceToList, ptShort, numS, textS, q,
          List.append_assoc, List.cons_append, List.nil_append, escapeQuotes_toList]

end

/-! ### the long layout -/

/-- `key = <numeral> ⏎` -/
def asgNum (key : List Char) (w : String) : List Char := kw key ' ' ++ kw "=".toList ' ' ++ numS w ' ' ++ nlS
/-- `key = "text" ⏎` -/
def asgText (key : List Char) (s : String) : List Char := kw key ' ' ++ kw "=".toList ' ' ++ textS s ' ' ++ nlS

section
variable {α : Type}

def ivLong (num : α → String) (e : Iv α) (j : Nat) : List Char :=
  ind2 ++ kw "intervals".toList ' ' ++ idxS (j + 1) '\n' ++ ind3 ++ asgNum "xmin".toList (num e.s) ++
  ind3 ++ asgNum "xmax".toList (num e.e) ++ ind3 ++ asgText "text".toList e.l
def ptLong (num : α → String) (p : Pt α) (j : Nat) : List Char :=
  ind2 ++ kw "points".toList ' ' ++ idxS (j + 1) '\n' ++ ind3 ++ asgNum "number".toList (num p.t) ++
  ind3 ++ asgText "mark".toList p.l
def commonLong (num : α → String) (i : Nat) (cls name : String) (tlo thi : α) : List Char :=
  ind1 ++ kw "item".toList ' ' ++ idxS (i + 1) '\n' ++ ind2 ++ asgText "class".toList cls ++
  ind2 ++ asgText "name".toList name ++ ind2 ++ asgNum "xmin".toList (num tlo) ++ ind2 ++ asgNum "xmax".toList (num thi)
def tierLong (num : α → String) (t : AnyTier α) (i : Nat) : List Char :=
  match t with
  | .I t => commonLong num i "IntervalTier" t.name t.lo t.hi ++ ind2 ++ kw "intervals:".toList ' ' ++
      asgNum "size".toList (toString t.es.length) ++ t.es.zipIdx.flatMap (fun x => ivLong num x.1 x.2)
  | .P t => commonLong num i "TextTier" t.name t.lo t.hi ++ ind2 ++ kw "points:".toList ' ' ++
      asgNum "size".toList (toString t.ps.length) ++ t.ps.zipIdx.flatMap (fun x => ptLong num x.1 x.2)
def longL (num : α → String) (g : Tg α) (lo hi : α) : List Char :=
  fileHdr ++ asgNum "xmin".toList (num lo) ++ asgNum "xmax".toList (num hi) ++ kw "tiers?".toList ' ' ++ kw existsW ' ' ++
    nlS ++ asgNum "size".toList (toString g.tiers.length) ++ kw "item".toList ' ' ++ kw "[]:".toList ' ' ++ nlS ++
    g.tiers.zipIdx.flatMap (fun x => tierLong num x.1 x.2)

/-- both sides to the same list of characters, in small steps (one big `simp only` call does not terminate here) -/
macro "long_norm" "[" ls:Lean.Parser.Tactic.simpLemma,* "]" : tactic => `(tactic| (
  try conv => lhs; simp only [String.toList_append, String.reduceToList, escapeQuotes_toList, String.toList_empty,
    List.append_assoc, List.cons_append, List.nil_append]
  try conv => rhs; simp only [$ls,*]
  try conv => rhs; simp only [asgNum, asgText, idxS, idxW]
  try conv => rhs; simp only [kw, numS, textS, nlS]
  try conv => rhs; simp only [String.reduceToList]
  try conv => rhs; simp only [escapeL, q, Char.reduceEq, ↓reduceIte]
  try conv => rhs; simp only [ind3, ind2, ind1]
  try conv => rhs; simp only [List.append_assoc, List.cons_append, List.nil_append]))

theorem long_toList (num : α → String) (g : Tg α) (lo hi : α) :
    (tgToLong num g lo hi).toList = longL num g lo hi := by
  unfold tgToLong longL
  simp only []
  rw [foldl_toList _ (fun x => tierLong num x.1 x.2)]
  · simp only [String.toList_append, String.reduceToList, fileHdr, asgNum, nlS, kw, numS, textS, existsW, escapeL, q,
      Char.reduceEq, ↓reduceIte, List.append_assoc, List.cons_append, List.nil_append]
  · intro o ⟨t, i⟩
    cases t with
    | I t =>
      simp only [String.toList_append]
      rw [foldl_toList _ (fun x => ivLong num x.1 x.2)]
      · long_norm [tierLong, commonLong]
      · intro o ⟨e, j⟩
        long_norm [ivLong]
    | P t =>
      simp only [String.toList_append]
      rw [foldl_toList _ (fun x => ptLong num x.1 x.2)]
      · long_norm [tierLong, commonLong]
      · intro o ⟨e, j⟩
        long_norm [ptLong]

end

theorem seg_nl : Seg nlS [] := seg_spaces _ (by decide)
theorem seg_ind1 : Seg ind1 [] := seg_spaces _ (by decide)
theorem seg_ind2 : Seg ind2 [] := seg_spaces _ (by decide)
theorem seg_ind3 : Seg ind3 [] := seg_spaces _ (by decide)

/- from here on the pieces are opaque: the piece lemmas apply by their head symbol only (unifying `"File".toList` with
`'[' :: …` would make the elaborator evaluate string literals) -/
attribute [local irreducible] kw numS textS idxS nlS ind1 ind2 ind3

/-! ## 5. the token list of a file, and the reader run over it -/

section
variable {α : Type}

def ivToks (num : α → String) (e : Iv α) : List Tok := [.num (num e.s), .num (num e.e), .text e.l]
def ptToks (num : α → String) (p : Pt α) : List Tok := [.num (num p.t), .text p.l]
def tierToks (num : α → String) : AnyTier α → List Tok
  | .I t => [.text "IntervalTier", .text t.name, .num (num t.lo), .num (num t.hi), .num (toString t.es.length)] ++
      t.es.flatMap (ivToks num)
  | .P t => [.text "TextTier", .text t.name, .num (num t.lo), .num (num t.hi), .num (toString t.ps.length)] ++
      t.ps.flatMap (ptToks num)
def fileToks (num : α → String) (g : Tg α) (lo hi : α) : List Tok :=
  [.text "ooTextFile", .text "TextGrid", .num (num lo), .num (num hi), .flag "<exists>", .num (toString g.tiers.length)] ++
    g.tiers.flatMap (tierToks num)

/-- what the file says, as the reader's raw record: class names, names, rendered spans, rendered entries -/
def tierRaw (num : α → String) : AnyTier α → RawTier
  | .I t => ⟨"IntervalTier", t.name, num t.lo, num t.hi, t.es.map fun e => [num e.s, num e.e, e.l]⟩
  | .P t => ⟨"TextTier", t.name, num t.lo, num t.hi, t.ps.map fun p => [num p.t, p.l]⟩
def rawOf (num : α → String) (g : Tg α) (lo hi : α) : RawTg := ⟨num lo, num hi, g.tiers.map (tierRaw num)⟩

end

theorem run_text_bind {β} (s : String) (ts : List Tok) (f : String → D β) :
    (Spec.text >>= f).run (.text s :: ts) = (f s).run ts := rfl
theorem run_num_bind {β} (s : String) (ts : List Tok) (f : String → D β) :
    (Spec.num >>= f).run (.num s :: ts) = (f s).run ts := rfl
theorem run_flag_bind {β} (s : String) (ts : List Tok) (f : String → D β) :
    (Spec.flag >>= f).run (.flag s :: ts) = (f s).run ts := rfl
theorem run_pure {β} (v : β) (ts : List Tok) : (pure v : D β).run ts = some (v, ts) := rfl

theorem run_bind_of {β δ} (p : D β) (k : β → D δ) (ts rest : List Tok) (v : β) (h : p.run ts = some (v, rest)) :
    (p >>= k).run ts = (k v).run rest := by
  rw [StateT.run_bind, h]; rfl

/-- `rep` over the tokens of a list of items, each of which the item parser reads back -/
theorem run_rep {β γ} (p : D β) (f : γ → List Tok) (g : γ → β) (xs : List γ)
    (hp : ∀ x ∈ xs, ∀ rest, p.run (f x ++ rest) = some (g x, rest)) (rest : List Tok) :
    (rep xs.length p).run (xs.flatMap f ++ rest) = some (xs.map g, rest) := by
  induction xs with
  | nil => rfl
  | cons x xs ih =>
    rw [List.length_cons, List.flatMap_cons, List.append_assoc, rep,
      run_bind_of _ _ _ _ _ (hp x (by simp) _),
      run_bind_of _ _ _ _ _ (ih fun y hy => hp y (by simp [hy]))]
    rfl

theorem run_rep_bind {β γ δ} (p : D β) (f : γ → List Tok) (g : γ → β) (xs : List γ)
    (hp : ∀ x ∈ xs, ∀ rest, p.run (f x ++ rest) = some (g x, rest)) (k : List β → D δ) (rest : List Tok) :
    (rep xs.length p >>= k).run (xs.flatMap f ++ rest) = (k (xs.map g)).run rest :=
  run_bind_of _ _ _ _ _ (run_rep p f g xs hp rest)

section
variable {α : Type}

theorem decodeD_fileToks (num : α → String) (g : Tg α) (lo hi : α) (rest : List Tok) :
    decodeD.run (fileToks num g lo hi ++ rest) = some (rawOf num g lo hi, rest) := by
  unfold decodeD fileToks
  simp only [List.cons_append, List.nil_append, run_text_bind, run_num_bind, run_flag_bind, ne_eq, not_true_eq_false,
    ↓reduceIte]
  rw [nat_toNat]
  simp only [pure_bind]
  rw [run_rep_bind _ (tierToks num) (tierRaw num)]
  · rfl
  · intro t _ rest
    cases t with
    | I t =>
      simp only [tierToks, List.cons_append, List.nil_append, run_text_bind, run_num_bind]
      rw [nat_toNat]
      simp only [pure_bind]
      rw [run_rep_bind _ (ivToks num) (fun e => [num e.s, num e.e, e.l])]
      · rfl
      · intro e _ rest
        simp only [ivToks, List.cons_append, List.nil_append, beq_self_eq_true, ↓reduceIte, run_text_bind, run_num_bind,
          run_pure]
    | P t =>
      simp only [tierToks, List.cons_append, List.nil_append, run_text_bind, run_num_bind]
      rw [nat_toNat]
      simp only [pure_bind]
      rw [run_rep_bind _ (ptToks num) (fun p => [num p.t, p.l])]
      · rfl
      · intro e _ rest
        have hne : ("TextTier" == "IntervalTier") = false := by decide
        simp only [ptToks, List.cons_append, List.nil_append, beq_self_eq_true, hne, Bool.false_eq_true, ↓reduceIte,
          run_text_bind, run_num_bind, run_pure]

end

/-! ## 6. the short layout -/

/-- splits a concatenation of pieces into its pieces; `hnum` is the hypothesis on the numeral renderer -/
macro "seg_auto" hnum:term : tactic => `(tactic| repeat (first
  | apply Seg.append
  | exact seg_nl
  | exact seg_ind1
  | exact seg_ind2
  | exact seg_ind3
  | exact seg_idx _ _ (by decide)
  | exact seg_text _ _ (by decide)
  | exact seg_num _ _ ($hnum _) (by decide)
  | exact seg_num _ _ (natTok _) (by decide)
  | exact seg_exists _ (by decide)
  | exact seg_kw _ _ (by decide +kernel) (by decide)))

theorem seg_fileHdr : Seg fileHdr [.text "ooTextFile", .text "TextGrid"] := by
  apply Seg.cast
  · unfold fileHdr; seg_auto natTok
  · rfl

section
variable {α : Type}

theorem seg_tierShort (num : α → String) (hnum : ∀ x, NumTok (num x)) (t : AnyTier α) :
    Seg (tierShort num t) (tierToks num t) := by
  have hiv : ∀ e : Iv α, Seg (ivShort num e) (ivToks num e) := by
    intro e
    apply Seg.cast
    · unfold ivShort; seg_auto hnum
    · rfl
  have hpt : ∀ p : Pt α, Seg (ptShort num p) (ptToks num p) := by
    intro p
    apply Seg.cast
    · unfold ptShort; seg_auto hnum
    · rfl
  cases t with
  | I t =>
    apply Seg.cast
    · simp only [tierShort]
      apply Seg.append ?hh (Seg.flatMap (ivShort num) (ivToks num) t.es fun e _ => hiv e)
      case hh => seg_auto hnum
    · rfl
  | P t =>
    apply Seg.cast
    · simp only [tierShort]
      apply Seg.append ?hh (Seg.flatMap (ptShort num) (ptToks num) t.ps fun p _ => hpt p)
      case hh => seg_auto hnum
    · rfl

theorem seg_short (num : α → String) (hnum : ∀ x, NumTok (num x)) (g : Tg α) (lo hi : α) :
    Seg (shortL num g lo hi) (fileToks num g lo hi) := by
  apply Seg.cast
  · unfold shortL
    apply Seg.append ?hh (Seg.flatMap (tierShort num) (tierToks num) g.tiers fun t _ => seg_tierShort num hnum t)
    case hh =>
      exact ((((seg_fileHdr.append (seg_num _ _ (hnum _) (by decide))).append (seg_num _ _ (hnum _) (by decide))).append
        (seg_exists _ (by decide))).append (seg_num _ _ (natTok _) (by decide)))
  · rfl

/-- from the pieces of a file to what `Spec.decode` returns -/
theorem decode_of_seg (num : α → String) (g : Tg α) (lo hi : α) (s : String)
    (h : Seg s.toList (fileToks num g lo hi)) : Spec.decode s = some (rawOf num g lo hi) := by
  have ht : tokens (s.length + 1) s.toList = some (fileToks num g lo hi) := by
    rw [← String.length_toList]; exact h.tok_eq
  have hd := decodeD_fileToks num g lo hi []
  rw [List.append_nil] at hd
  unfold Spec.decode
  rw [ht]
  simp only [hd]

/-- **C02, short layout, whole files**: whatever the textgrid (any number of tiers and entries, any names and labels —
quotes, newlines, the format's own keywords), the independent reader accepts the file `_tgToShortTextForm` writes, every
declared size equals the number of items that follow, nothing is left over, and the content read is exactly the
in-memory one.  NO hypothesis on names and labels (empty, multi-line, with surrounding blanks, carriage returns, the
keywords of C02's quantifier — `item [2]:`, `intervals [1]:`, `"IntervalTier"`, `text = "x"`, `ooTextFile short` — all
included).  The one hypothesis, `hnum`, is about the numeral renderer: its output is a numeral of the format
`[+-]?(d+(.d*)?|.d+)([eE][+-]?d+)?` (`NumTok.of_isNumeral`) — true of what `my_math.numToStr` writes for EVERY float it accepts,
negative ones and exponent notation (`1e-05`) included (for `inf` / `nan` it raises and no file is written); proved for
Python ints (`intTok`), sampled for `repr`. -/
theorem decode_short (num : α → String) (hnum : ∀ x, NumTok (num x)) (g : Tg α) (lo hi : α) :
    Spec.decode (tgToShort num g lo hi) = some (rawOf num g lo hi) :=
  decode_of_seg num g lo hi _ (short_toList num g lo hi ▸ seg_short num hnum g lo hi)

end

/-! ## 7. the long layout -/

theorem flatMap_zipIdx_fst {β γ : Type} (g : β → List γ) (l : List β) (k : Nat) :
    (l.zipIdx k).flatMap (fun x => g x.1) = l.flatMap g := by
  induction l generalizing k with
  | nil => rfl
  | cons a as ih => rw [List.zipIdx_cons, List.flatMap_cons, List.flatMap_cons, ih]

section
variable {α : Type}

theorem seg_ivLong (num : α → String) (hnum : ∀ x, NumTok (num x)) (e : Iv α) (j : Nat) :
    Seg (ivLong num e j) (ivToks num e) := by
  apply Seg.cast
  · unfold ivLong asgNum asgText; seg_auto hnum
  · rfl

theorem seg_ptLong (num : α → String) (hnum : ∀ x, NumTok (num x)) (p : Pt α) (j : Nat) :
    Seg (ptLong num p j) (ptToks num p) := by
  apply Seg.cast
  · unfold ptLong asgNum asgText; seg_auto hnum
  · rfl

theorem seg_tierLong (num : α → String) (hnum : ∀ x, NumTok (num x)) (t : AnyTier α) (i : Nat) :
    Seg (tierLong num t i) (tierToks num t) := by
  cases t with
  | I t =>
    apply Seg.cast
    · simp only [tierLong]
      unfold commonLong asgNum asgText
      apply Seg.append ?hh (Seg.flatMap (fun x : Iv α × Nat => ivLong num x.1 x.2) (fun x : Iv α × Nat => ivToks num x.1) t.es.zipIdx
        fun x _ => seg_ivLong num hnum x.1 x.2)
      case hh => seg_auto hnum
    · rw [flatMap_zipIdx_fst (ivToks num) t.es 0]; rfl
  | P t =>
    apply Seg.cast
    · simp only [tierLong]
      unfold commonLong asgNum asgText
      apply Seg.append ?hh (Seg.flatMap (fun x : Pt α × Nat => ptLong num x.1 x.2) (fun x : Pt α × Nat => ptToks num x.1) t.ps.zipIdx
        fun x _ => seg_ptLong num hnum x.1 x.2)
      case hh => seg_auto hnum
    · rw [flatMap_zipIdx_fst (ptToks num) t.ps 0]; rfl

theorem seg_long (num : α → String) (hnum : ∀ x, NumTok (num x)) (g : Tg α) (lo hi : α) :
    Seg (longL num g lo hi) (fileToks num g lo hi) := by
  apply Seg.cast
  · unfold longL fileHdr asgNum
    apply Seg.append ?hh (Seg.flatMap (fun x : AnyTier α × Nat => tierLong num x.1 x.2) (fun x : AnyTier α × Nat => tierToks num x.1)
      g.tiers.zipIdx fun x _ => seg_tierLong num hnum x.1 x.2)
    case hh => seg_auto hnum
  · rw [flatMap_zipIdx_fst (tierToks num) g.tiers 0]; rfl

/-- **C02, long layout, whole files** (same statement for `_tgToLongTextForm`): `xmin`, `item [3]:`, `intervals: size =`
… are all comment for the reader of the specification; what it reads is exactly the in-memory content -/
theorem decode_long (num : α → String) (hnum : ∀ x, NumTok (num x)) (g : Tg α) (lo hi : α) :
    Spec.decode (tgToLong num g lo hi) = some (rawOf num g lo hi) :=
  decode_of_seg num g lo hi _ (long_toList num g lo hi ▸ seg_long num hnum g lo hi)

/-- the two layouts of one textgrid decode to the same content -/
theorem long_short_agree (num : α → String) (hnum : ∀ x, NumTok (num x)) (g : Tg α) (lo hi : α) :
    Spec.decode (tgToLong num g lo hi) = Spec.decode (tgToShort num g lo hi) := by
  rw [decode_long num hnum, decode_short num hnum]

end

/-! ## 8. `NumTok` from `isNumeral` alone; signed integers -/

def numChar (c : Char) : Bool := c.isDigit || isSign c || c == '.' || c == 'e' || c == 'E'

def stripSign (w : List Char) : List Char := match w with | c :: cs => if isSign c then cs else w | [] => []
def fracSplit (r1 : List Char) : List Char × List Char × Bool :=
  match r1 with
  | '.' :: cs => (cs.takeWhile Char.isDigit, cs.dropWhile Char.isDigit, true)
  | _ => ([], r1, false)
def expOk (r2 : List Char) : Bool :=
  match r2 with
  | [] => true
  | e :: cs => if e == 'e' || e == 'E' then !(stripSign cs).isEmpty && (stripSign cs).all Char.isDigit else false

theorem isNumeral_eq (w : List Char) : isNumeral w =
    ((!((stripSign w).takeWhile Char.isDigit).isEmpty ||
      ((fracSplit ((stripSign w).dropWhile Char.isDigit)).2.2 && !(fracSplit ((stripSign w).dropWhile Char.isDigit)).1.isEmpty)) &&
     expOk (fracSplit ((stripSign w).dropWhile Char.isDigit)).2.1) := rfl

theorem numChar_digit (c : Char) (h : c.isDigit = true) : numChar c = true := by simp [numChar, h]
theorem numChar_sign (c : Char) (h : isSign c = true) : numChar c = true := by simp [numChar, h]

theorem stripSign_chars (w : List Char) (h : ∀ c ∈ stripSign w, numChar c = true) : ∀ c ∈ w, numChar c = true := by
  cases w with
  | nil => simp
  | cons a as =>
    unfold stripSign at h
    by_cases ha : isSign a = true
    · simp only [ha, if_true] at h
      intro c hc
      rcases List.mem_cons.1 hc with rfl | hc
      · exact numChar_sign _ ha
      · exact h c hc
    · simp only [ha] at h
      exact h

theorem digits_chars (p : List Char) (h : p.all Char.isDigit = true) : ∀ c ∈ p, numChar c = true := by
  intro c hc
  exact numChar_digit c (List.all_eq_true.1 h c hc)

theorem expOk_chars (r2 : List Char) (h : expOk r2 = true) : ∀ c ∈ r2, numChar c = true := by
  cases r2 with
  | nil => simp
  | cons e cs =>
    unfold expOk at h
    by_cases he : (e == 'e' || e == 'E') = true
    · simp only [he, if_true, Bool.and_eq_true] at h
      have hcs := stripSign_chars cs (digits_chars _ h.2)
      intro c hc
      rcases List.mem_cons.1 hc with rfl | hc
      · simp only [Bool.or_eq_true, beq_iff_eq] at he
        rcases he with rfl | rfl <;> decide
      · exact hcs c hc
    · simp [he] at h

theorem mem_takeWhile_imp {β : Type} (p : β → Bool) (l : List β) (x : β) (h : x ∈ l.takeWhile p) : p x = true := by
  induction l with
  | nil => simp at h
  | cons a as ih =>
    by_cases ha : p a = true
    · rw [List.takeWhile_cons_of_pos ha] at h
      rcases List.mem_cons.1 h with rfl | h
      · exact ha
      · exact ih h
    · rw [List.takeWhile_cons_of_neg ha] at h; simp at h

theorem takeDrop_chars (l : List Char) (h : ∀ c ∈ l.dropWhile Char.isDigit, numChar c = true) : ∀ c ∈ l, numChar c = true := by
  intro c hc
  rw [← List.takeWhile_append_dropWhile (p := Char.isDigit) (l := l)] at hc
  rcases List.mem_append.1 hc with hc | hc
  · exact numChar_digit c (mem_takeWhile_imp _ _ _ hc)
  · exact h c hc

theorem fracSplit_chars (r1 : List Char) (h : ∀ c ∈ (fracSplit r1).2.1, numChar c = true) : ∀ c ∈ r1, numChar c = true := by
  unfold fracSplit at h
  split at h
  · intro c hc
    rcases List.mem_cons.1 hc with rfl | hc
    · decide
    · exact takeDrop_chars _ h c hc
  · exact h

theorem isNumeral_chars (w : List Char) (h : isNumeral w = true) : ∀ c ∈ w, numChar c = true := by
  rw [isNumeral_eq, Bool.and_eq_true] at h
  exact stripSign_chars w (takeDrop_chars _ (fracSplit_chars _ (expOk_chars _ h.2)))


theorem numChar_not_space (c : Char) (h : numChar c = true) : pyIsSpace c = false := by
  simp only [numChar, isSign, Bool.or_eq_true, beq_iff_eq] at h
  rcases h with (((h | (h | h)) | h) | h) | h
  · exact digit_not_space c h
  all_goals (subst h; decide)

/-- being a numeral of the format is all that is needed -/
theorem NumTok.of_isNumeral (w : String) (h : isNumeral w.toList = true) : NumTok w := by
  have hc := isNumeral_chars _ h
  have hne : w.toList ≠ [] := by
    intro he; rw [he] at h; revert h; decide
  have hhead : ∀ c, w.toList.head? = some c → numChar c = true := fun c hc' => hc c (List.mem_of_head? hc')
  refine ⟨hne, fun c hcm => numChar_not_space c (hc c hcm), fun hq => ?_, fun hq => ?_, h⟩
  · exact absurd (hhead _ hq) (by decide)
  · exact absurd (hhead _ hq) (by decide)


theorem isNumeral_neg_digits (w : List Char) (hne : w ≠ []) (hd : ∀ c ∈ w, c.isDigit = true) : isNumeral ('-' :: w) = true := by
  obtain ⟨ht, hdr⟩ := takeWhile_all Char.isDigit w hd
  rw [isNumeral_eq]
  have hs : stripSign ('-' :: w) = w := rfl
  rw [hs, ht, hdr]
  cases w with
  | nil => exact absurd rfl hne
  | cons a as => rfl

/-- signed decimal integers (`toString` of an `Int`) are numerals of the format -/
theorem intTok (x : Int) : NumTok (toString x) := by
  cases x with
  | ofNat n => exact natTok n
  | negSucc n =>
    apply NumTok.of_isNumeral
    have hk := natTok (n + 1)
    have : (toString (Int.negSucc n)).toList = '-' :: (toString (n + 1)).toList := by
      show ("-" ++ Nat.repr (n + 1)).toList = _
      rw [String.toList_append]; rfl
    rw [this]
    exact isNumeral_neg_digits _ hk.ne (fun c hc => by
      have hl : (toString (n + 1)).toList = Nat.toDigits 10 (n + 1) := Nat.toList_repr
      exact Nat.isDigit_of_mem_toDigits (by omega) (by omega) (hl ▸ hc))

section
variable {α : Type}

/-- `decode_short` with the hypothesis on the renderer in its weakest form: every rendered time is a numeral of the format -/
theorem decode_short' (num : α → String) (hnum : ∀ x, isNumeral (num x).toList = true) (g : Tg α) (lo hi : α) :
    Spec.decode (tgToShort num g lo hi) = some (rawOf num g lo hi) :=
  decode_short num (fun x => NumTok.of_isNumeral _ (hnum x)) g lo hi

theorem decode_long' (num : α → String) (hnum : ∀ x, isNumeral (num x).toList = true) (g : Tg α) (lo hi : α) :
    Spec.decode (tgToLong num g lo hi) = some (rawOf num g lo hi) :=
  decode_long num (fun x => NumTok.of_isNumeral _ (hnum x)) g lo hi

end

/-! ## 9. non-vacuity -/

/-- a concrete numeral renderer satisfying the hypothesis of the theorems: signed decimal integers -/
def intNum (x : Int) : String := toString x

theorem intNum_tok : ∀ x, NumTok (intNum x) := intTok

/-- two tiers; names and labels with quotes, a newline, a flag look-alike, the formats' own keywords, an empty label -/
def demoTg : Tg Int :=
  ⟨[.I ⟨"a\"b", [⟨-2, 1, "x\""⟩, ⟨1, 2, ""⟩, ⟨2, 3, "<exists>"⟩, ⟨3, 4, "\"\n5\n\"item [2]:"⟩], -2, 4⟩,
    .P ⟨"n\nm \"", [⟨1, "\""⟩, ⟨2, "intervals: size = 7"⟩], -2, 4⟩], some (-2), some 4⟩

theorem demo_short : Spec.decode (tgToShort intNum demoTg (-2) 4) = some (rawOf intNum demoTg (-2) 4) :=
  decode_short intNum intNum_tok demoTg (-2) 4
theorem demo_long : Spec.decode (tgToLong intNum demoTg (-2) 4) = some (rawOf intNum demoTg (-2) 4) :=
  decode_long intNum intNum_tok demoTg (-2) 4

def rawList (r : RawTg) : List String × List (List String × List (List String)) :=
  ([r.xmin, r.xmax], r.tiers.map fun t => ([t.cls, t.name, t.xmin, t.xmax], t.entries))

#guard (Spec.decode (tgToShort intNum demoTg (-2) 4)).map rawList == some (rawList (rawOf intNum demoTg (-2) 4))
#guard (Spec.decode (tgToLong intNum demoTg (-2) 4)).map rawList == some (rawList (rawOf intNum demoTg (-2) 4))
#guard rawList (rawOf intNum demoTg (-2) 4) ==
  (["-2", "4"], [(["IntervalTier", "a\"b", "-2", "4"],
      [["-2", "1", "x\""], ["1", "2", ""], ["2", "3", "<exists>"], ["3", "4", "\"\n5\n\"item [2]:"]]),
    (["TextTier", "n\nm \"", "-2", "4"], [["1", "\""], ["2", "intervals: size = 7"]])])
-- the hypothesis on the numeral renderer is needed: a renderer that writes a space breaks the file
#guard (Spec.decode (tgToShort (fun x : Int => toString x.toNat ++ " 1") demoTg (-2) 4)).isNone

end C02
