import PraatModel.Ops

/-!
# Layer R — rounding can never create an overlap or a reversed interval

The clause "holds for arbitrary real-valued timestamps without rounding failures" of C05/C07/C08/C09 (and the
rebase part of C06) is proved here for the MODEL FUNCTIONS THEMSELVES (`shrinkIvs`/`rejoin`, `spaceAll`, `shiftClip`,
`getIvs`/`shiftIv`/`rebaseDelta`, and the point-tier loops), at a generic number type `α` whose `+`, `-`, `≤`, `<`
satisfy only laws that IEEE-754 round-to-nearest arithmetic on finite values satisfies (class `RoundedArith`).
No strict monotonicity is assumed: two distinct times may round together.  The results:

* whatever the rounding is, the list that each operation hands to the tier constructor is `WeakWF`
  (every entry has `s ≤ e`, entries are in order, touching allowed): NO OVERLAP, NO REVERSAL;
* the constructor (`mkITier`) accepts a `WeakWF` list iff it is `StrictIn` (every entry has `s < e`):
  the only way to a refusal is the COLLAPSE of an entry to zero length;
* which entries can collapse is characterised per operation: only whole entries that were shifted, i.e. two distinct
  input times `s < e` whose shifted images round together.

The laws are stated with `≤`/`<` only (never `=` or `==` on numbers), so `-0.0` vs `0.0` does not matter.
-/

namespace LayerR

/-- Laws of a rounded arithmetic.  Every law holds for IEEE-754 binary64 `+`/`-` with round-to-nearest on finite,
non-NaN values whose results do not overflow (rounding is a weakly monotone map that fixes representable numbers;
`b - b` is `+0.0`; `a + 0.0` compares equal to `a`).  There is NO strict monotonicity law: `x < y` does not give
`x + d < y + d`. -/
class RoundedArith (α : Type) [LT α] [LE α] [Add α] [Sub α] [Tm α] : Prop where
  /-- `≤` is a total preorder … -/
  le_refl : ∀ a : α, a ≤ a
  le_trans : ∀ {a b c : α}, a ≤ b → b ≤ c → a ≤ c
  le_total : ∀ a b : α, a ≤ b ∨ b ≤ a
  /-- … and `<` is its strict part -/
  lt_iff_not_le : ∀ {a b : α}, a < b ↔ ¬ b ≤ a
  /-- weak monotonicity of rounded addition and subtraction in each argument -/
  add_le_add_left : ∀ (a : α) {x y : α}, x ≤ y → a + x ≤ a + y
  add_le_add_right : ∀ (d : α) {x y : α}, x ≤ y → x + d ≤ y + d
  sub_le_sub_right : ∀ (b : α) {x y : α}, x ≤ y → x - b ≤ y - b
  sub_le_sub_left : ∀ (a : α) {x y : α}, x ≤ y → a - y ≤ a - x
  /-- `b - b` is an additive zero (exact for floats): `a + (b - b)` compares equal to `a` -/
  add_sub_self_le : ∀ a b : α, a + (b - b) ≤ a
  le_add_sub_self : ∀ a b : α, a ≤ a + (b - b)
  /-- adding `Tm.zero` is exact -/
  add_zero_le : ∀ a : α, a + Tm.zero ≤ a
  le_add_zero : ∀ a : α, a ≤ a + Tm.zero
  /-- the rounded sum of `x` and a non-negative number is not below `x` (`x` is representable and rounding is monotone) -/
  le_add_of_nonneg : ∀ (x : α) {d : α}, Tm.zero ≤ d → x ≤ x + d
  add_le_of_nonpos : ∀ (x : α) {d : α}, d ≤ Tm.zero → x + d ≤ x
  /-- sign of a rounded difference -/
  sub_nonneg : ∀ {a b : α}, a ≤ b → Tm.zero ≤ b - a
  sub_nonpos : ∀ {a b : α}, a ≤ b → a - b ≤ Tm.zero
  /-- the difference of two distinct numbers is not zero (gradual underflow: IEEE-754 with subnormals) -/
  sub_pos : ∀ {a b : α}, a < b → Tm.zero < b - a
  /-- rounded addition is commutative (stated with `≤`; use it in both directions) -/
  add_comm_le : ∀ a b : α, a + b ≤ b + a

/-! ## non-vacuity 1: exact integer arithmetic -/

instance : RoundedArith Int where
  le_refl := Int.le_refl
  le_trans := Int.le_trans
  le_total := Int.le_total
  lt_iff_not_le := by intros; omega
  add_le_add_left := by intros; omega
  add_le_add_right := by intros; omega
  sub_le_sub_right := by intros; omega
  sub_le_sub_left := by intros; omega
  add_sub_self_le := by intros; omega
  le_add_sub_self := by intros; omega
  add_zero_le := by intro a; show a + (0 : Int) ≤ a; omega
  le_add_zero := by intro a; show a ≤ a + (0 : Int); omega
  le_add_of_nonneg := by intro x d h; have h' : (0 : Int) ≤ d := h; omega
  add_le_of_nonpos := by intro x d h; have h' : d ≤ (0 : Int) := h; omega
  sub_nonneg := by intro a b h; show (0 : Int) ≤ b - a; omega
  sub_nonpos := by intro a b h; show a - b ≤ (0 : Int); omega
  sub_pos := by intro a b h; show (0 : Int) < b - a; omega
  add_comm_le := by intros; omega

/-! ## non-vacuity 2: a toy floating-point format in which addition really rounds

Representable numbers: the integers `-4 … 4` (spacing 1) and every even integer (spacing 2) — two "binades".
The exact sum/difference is rounded to the nearest representable number, ties to the multiple of 4 (the "even
mantissa").  All laws hold; strict monotonicity does not (`6 + 1 = 8 = 6 + 2`). -/

/-- round to nearest representable, ties to the multiple of four -/
def rnd (z : Int) : Int :=
  if -4 ≤ z ∧ z ≤ 4 then z
  else if z % 2 = 0 then z
  else if (z + 1) % 4 = 0 then z + 1 else z - 1

def Rep (z : Int) : Prop := (-4 ≤ z ∧ z ≤ 4) ∨ z % 2 = 0

theorem rnd_rep (z : Int) : Rep (rnd z) := by
  unfold rnd Rep; split
  · left; assumption
  · split
    · right; assumption
    · split <;> (right; omega)

theorem rnd_fix {z : Int} (h : Rep z) : rnd z = z := by
  unfold rnd; unfold Rep at h
  split
  · rfl
  · split
    · rfl
    · omega

theorem rnd_mono {x y : Int} (h : x ≤ y) : rnd x ≤ rnd y := by
  unfold rnd
  split <;> split <;> (try split) <;> (try split) <;> (try split) <;> (try split) <;> omega

/-- rounding is to a nearest representable number: the error is at most half the local spacing -/
theorem rnd_near (z : Int) : z - 1 ≤ rnd z ∧ rnd z ≤ z + 1 := by
  unfold rnd; split
  · omega
  · split
    · omega
    · split <;> omega

theorem rnd_zero : rnd 0 = 0 := by decide

structure Toy where
  val : Int
  rep : Rep val
deriving DecidableEq

namespace Toy
instance : LT Toy := ⟨fun a b => a.val < b.val⟩
instance : LE Toy := ⟨fun a b => a.val ≤ b.val⟩
instance : DecidableLT Toy := fun a b => inferInstanceAs (Decidable (a.val < b.val))
instance : DecidableLE Toy := fun a b => inferInstanceAs (Decidable (a.val ≤ b.val))
instance : BEq Toy := ⟨fun a b => a.val == b.val⟩
instance : Add Toy := ⟨fun a b => ⟨rnd (a.val + b.val), rnd_rep _⟩⟩
instance : Sub Toy := ⟨fun a b => ⟨rnd (a.val - b.val), rnd_rep _⟩⟩
instance : Tm Toy where
  zero := ⟨0, by unfold Rep; omega⟩
  close9 a b := a.val == b.val
  close9a a b := a.val == b.val
  close14 a b := a.val == b.val

theorem le_def (a b : Toy) : a ≤ b ↔ a.val ≤ b.val := Iff.rfl
theorem lt_def (a b : Toy) : a < b ↔ a.val < b.val := Iff.rfl
theorem add_val (a b : Toy) : (a + b).val = rnd (a.val + b.val) := rfl
theorem sub_val (a b : Toy) : (a - b).val = rnd (a.val - b.val) := rfl
theorem zero_val : (Tm.zero : Toy).val = 0 := rfl

/-- the toy format, made of representable integers -/
def of (z : Int) (h : Rep z := by unfold Rep; omega) : Toy := ⟨z, h⟩
end Toy

instance : RoundedArith Toy where
  le_refl a := Int.le_refl _
  le_trans := Int.le_trans
  le_total a b := Int.le_total _ _
  lt_iff_not_le := by intro a b; rw [Toy.lt_def, Toy.le_def]; omega
  add_le_add_left a x y h := by
    rw [Toy.le_def] at *; rw [Toy.add_val, Toy.add_val]; exact rnd_mono (by omega)
  add_le_add_right a x y h := by
    rw [Toy.le_def] at *; rw [Toy.add_val, Toy.add_val]; exact rnd_mono (by omega)
  sub_le_sub_right a x y h := by
    rw [Toy.le_def] at *; rw [Toy.sub_val, Toy.sub_val]; exact rnd_mono (by omega)
  sub_le_sub_left a x y h := by
    rw [Toy.le_def] at *; rw [Toy.sub_val, Toy.sub_val]; exact rnd_mono (by omega)
  add_sub_self_le a b := by
    rw [Toy.le_def, Toy.add_val, Toy.sub_val, Int.sub_self, rnd_zero, Int.add_zero, rnd_fix a.rep]
    exact Int.le_refl _
  le_add_sub_self a b := by
    rw [Toy.le_def, Toy.add_val, Toy.sub_val, Int.sub_self, rnd_zero, Int.add_zero, rnd_fix a.rep]
    exact Int.le_refl _
  add_zero_le a := by
    rw [Toy.le_def, Toy.add_val, Toy.zero_val, Int.add_zero, rnd_fix a.rep]; exact Int.le_refl _
  le_add_zero a := by
    rw [Toy.le_def, Toy.add_val, Toy.zero_val, Int.add_zero, rnd_fix a.rep]; exact Int.le_refl _
  le_add_of_nonneg x d h := by
    rw [Toy.le_def, Toy.zero_val] at h
    rw [Toy.le_def, Toy.add_val]
    have := rnd_mono (show x.val ≤ x.val + d.val by omega)
    rwa [rnd_fix x.rep] at this
  add_le_of_nonpos x d h := by
    rw [Toy.le_def, Toy.zero_val] at h
    rw [Toy.le_def, Toy.add_val]
    have := rnd_mono (show x.val + d.val ≤ x.val by omega)
    rwa [rnd_fix x.rep] at this
  sub_nonneg := by
    intro a b h
    rw [Toy.le_def] at h
    rw [Toy.le_def, Toy.zero_val, Toy.sub_val]
    have := rnd_mono (show (0 : Int) ≤ b.val - a.val by omega)
    rwa [rnd_zero] at this
  sub_nonpos := by
    intro a b h
    rw [Toy.le_def] at h
    rw [Toy.le_def, Toy.zero_val, Toy.sub_val]
    have := rnd_mono (show a.val - b.val ≤ (0 : Int) by omega)
    rwa [rnd_zero] at this
  sub_pos := by
    intro a b h
    rw [Toy.lt_def] at h
    rw [Toy.lt_def, Toy.zero_val, Toy.sub_val]
    have := rnd_mono (show (1 : Int) ≤ b.val - a.val by omega)
    rw [show rnd 1 = 1 by decide] at this
    omega
  add_comm_le a b := by
    rw [Toy.le_def, Toy.add_val, Toy.add_val, Int.add_comm]; exact Int.le_refl _

/-- the laws are not exact-only: in the toy format strict monotonicity of addition FAILS
(`1 < 2` but `6 + 1 = 8 = 6 + 2`), although every law of `RoundedArith` holds -/
theorem toy_not_strictly_monotone :
    ∃ a x y : Toy, x < y ∧ ¬ (a + x < a + y) ∧ ¬ (x + a < y + a) := by
  refine ⟨Toy.of 6, Toy.of 1, Toy.of 2, ?_, ?_, ?_⟩ <;> decide

/-! ## order toolkit (only the laws) -/

set_option linter.unusedSectionVars false

section Generic
variable {α : Type} [LT α] [LE α] [DecidableLT α] [DecidableLE α] [BEq α] [Add α] [Sub α] [Tm α] [RoundedArith α]

open RoundedArith

theorem not_le {a b : α} : ¬ a ≤ b ↔ b < a := lt_iff_not_le.symm
theorem not_lt {a b : α} : ¬ a < b ↔ b ≤ a := by
  rw [lt_iff_not_le]; exact Decidable.not_not
theorem le_of_lt {a b : α} (h : a < b) : a ≤ b := by
  rcases le_total a b with h' | h'
  · exact h'
  · exact absurd h' (lt_iff_not_le.1 h)
theorem lt_of_lt_of_le {a b c : α} (h1 : a < b) (h2 : b ≤ c) : a < c := by
  rw [lt_iff_not_le] at *; exact fun h => h1 (le_trans h2 h)
theorem lt_of_le_of_lt {a b c : α} (h1 : a ≤ b) (h2 : b < c) : a < c := by
  rw [lt_iff_not_le] at *; exact fun h => h2 (le_trans h h1)
theorem lt_irrefl (a : α) : ¬ a < a := fun h => lt_iff_not_le.1 h (le_refl a)

/-! ## weak well-formedness -/

/-- entries in order, touching allowed, zero length allowed: NO overlap, NO reversed interval -/
def WeakWF (es : List (Iv α)) : Prop :=
  (∀ iv ∈ es, iv.s ≤ iv.e) ∧ es.Pairwise (fun u v => u.e ≤ v.s)

/-- every entry has positive length -/
def StrictIn (es : List (Iv α)) : Prop := ∀ iv ∈ es, iv.s < iv.e

/-- point times weakly increasing -/
def SortedT (ps : List (Pt α)) : Prop := ps.Pairwise (fun p q => p.t ≤ q.t)

theorem WeakWF.nil : WeakWF ([] : List (Iv α)) := ⟨by simp, List.Pairwise.nil⟩

theorem weakWF_cons {x : Iv α} {xs : List (Iv α)} :
    WeakWF (x :: xs) ↔ x.s ≤ x.e ∧ (∀ y ∈ xs, x.e ≤ y.s) ∧ WeakWF xs := by
  simp only [WeakWF, List.mem_cons, forall_eq_or_imp, List.pairwise_cons]
  constructor
  · rintro ⟨⟨h1, h2⟩, h3, h4⟩; exact ⟨h1, h3, h2, h4⟩
  · rintro ⟨h1, h3, h2, h4⟩; exact ⟨⟨h1, h2⟩, h3, h4⟩

/-- the pairwise clause, with the per-entry facts available -/
theorem WeakWF.pairwise' {es : List (Iv α)} (h : WeakWF es) :
    es.Pairwise (fun u v => u.s ≤ u.e ∧ v.s ≤ v.e ∧ u.e ≤ v.s) :=
  h.2.imp_of_mem (fun hu hv huv => ⟨h.1 _ hu, h.1 _ hv, huv⟩)

/-- an entry-wise partial map that keeps `s ≤ e` and the order of any two ordered entries keeps `WeakWF` -/
theorem weakWF_filterMap (f : Iv α → Option (Iv α)) (es : List (Iv α)) (h : WeakWF es)
    (h1 : ∀ iv o, iv.s ≤ iv.e → f iv = some o → o.s ≤ o.e)
    (h2 : ∀ u v ou ov, u.s ≤ u.e → v.s ≤ v.e → u.e ≤ v.s → f u = some ou → f v = some ov → ou.e ≤ ov.s) :
    WeakWF (es.filterMap f) := by
  refine ⟨?_, ?_⟩
  · intro o ho
    obtain ⟨iv, hiv, hf⟩ := List.mem_filterMap.1 ho
    exact h1 iv o (h.1 iv hiv) hf
  · exact h.pairwise'.filterMap f (fun u v ⟨a1, a2, a3⟩ ou hu ov hv => h2 u v ou ov a1 a2 a3 hu hv)

theorem weakWF_map (f : Iv α → Iv α) (es : List (Iv α)) (h : WeakWF es)
    (h1 : ∀ iv, iv.s ≤ iv.e → (f iv).s ≤ (f iv).e)
    (h2 : ∀ u v, u.s ≤ u.e → v.s ≤ v.e → u.e ≤ v.s → (f u).e ≤ (f v).s) :
    WeakWF (es.map f) := by
  have := weakWF_filterMap (fun iv => some (f iv)) es h
    (fun iv o a b => by cases b; exact h1 iv a)
    (fun u v ou ov a b c d e => by cases d; cases e; exact h2 u v a b c)
  rwa [List.filterMap_eq_map'] at this

/-! ## the constructor: a `WeakWF` list is accepted iff no entry has collapsed -/

theorem pyMinList_append_some (xs : List α) (a : α) : ∃ m, pyMinList (xs ++ [a]) = some m := by
  cases xs <;> exact ⟨_, rfl⟩
theorem pyMaxList_append_some (xs : List α) (a : α) : ∃ m, pyMaxList (xs ++ [a]) = some m := by
  cases xs <;> exact ⟨_, rfl⟩

/-- label stripping does not touch the times -/
def stripIv (iv : Iv α) : Iv α := { iv with l := pyStrip iv.l }

theorem weakWF_strip {es : List (Iv α)} (h : WeakWF es) : WeakWF (es.map stripIv) :=
  weakWF_map stripIv es h (fun _ a => a) (fun _ _ _ _ c => c)

theorem strictIn_strip {es : List (Iv α)} : StrictIn (es.map stripIv) ↔ StrictIn es := by
  constructor
  · intro h iv hiv; exact h (stripIv iv) (List.mem_map_of_mem hiv)
  · intro h o ho
    obtain ⟨iv, hiv, rfl⟩ := List.mem_map.1 ho
    exact h iv hiv

theorem ivsAllPos_iff (es : List (Iv α)) : ivsAllPos es = true ↔ StrictIn es := by
  simp [ivsAllPos, StrictIn]

theorem ivsNoOverlap_of_pairwise (es : List (Iv α)) (h : es.Pairwise (fun u v => u.e ≤ v.s)) :
    ivsNoOverlap es = true := by
  induction es with
  | nil => rfl
  | cons x xs ih =>
    cases xs with
    | nil => rfl
    | cons y ys =>
      rw [List.pairwise_cons] at h
      simp only [ivsNoOverlap, Bool.and_eq_true, Bool.not_eq_true', decide_eq_false_iff_not]
      exact ⟨not_lt.2 (h.1 y (by simp)), ih h.2⟩

/-- a `WeakWF`, `StrictIn` list is already sorted in the tuple order `list.sort()` uses -/
theorem sortIvs_of_weakWF (es : List (Iv α)) (h : WeakWF es) (hs : StrictIn es) : sortIvs es = es := by
  apply List.mergeSort_of_pairwise
  refine h.2.imp_of_mem ?_
  intro u v hu _ huv
  have : u.s < v.s := lt_of_lt_of_le (hs u hu) huv
  simp [Iv.le, this]

/-- **constructor, acceptance**: on a `WeakWF` list in which no entry has collapsed, `IntervalTier(...)` succeeds and
keeps the entries in the given order (labels stripped) -/
theorem mkITier_ok_of_strict (name : String) (es : List (Iv α)) (lo hi : α) (h : WeakWF es) (hs : StrictIn es) :
    ∃ t, mkITier name es (some lo) (some hi) = .ok t ∧ t.es = es.map stripIv ∧ t.name = name := by
  have hw := weakWF_strip h
  have hs' := strictIn_strip.2 hs
  obtain ⟨m1, e1⟩ := pyMinList_append_some ((es.map stripIv).map (·.s)) lo
  obtain ⟨m2, e2⟩ := pyMaxList_append_some ((es.map stripIv).map (·.e)) hi
  refine ⟨⟨name, es.map stripIv, if m2 < m1 then m2 else m1, if m2 < m1 then m1 else m2⟩, ?_, rfl, rfl⟩
  unfold mkITier
  have e0 : es.map (fun iv => { iv with l := pyStrip iv.l }) = es.map stripIv := rfl
  simp only [e0, sortIvs_of_weakWF _ hw hs', Option.toList_some, e1, e2,
    (ivsAllPos_iff _).2 hs', ivsNoOverlap_of_pairwise _ hw.2]
  rfl

/-- **constructor, refusal**: if some entry has collapsed (`¬ s < e`), `IntervalTier(...)` raises
`TextgridStateError` -/
theorem mkITier_error_of_collapsed (name : String) (es : List (Iv α)) (lo hi : α)
    (hc : ∃ iv ∈ es, ¬ iv.s < iv.e) :
    mkITier name es (some lo) (some hi) = .error .TextgridStateError := by
  have e0 : es.map (fun iv => { iv with l := pyStrip iv.l }) = es.map stripIv := rfl
  obtain ⟨m1, e1⟩ := pyMinList_append_some ((sortIvs (es.map stripIv)).map (·.s)) lo
  obtain ⟨m2, e2⟩ := pyMaxList_append_some ((sortIvs (es.map stripIv)).map (·.e)) hi
  have hf : ivsAllPos (sortIvs (es.map stripIv)) = false := by
    rw [Bool.eq_false_iff]
    intro ht
    rw [ivsAllPos_iff] at ht
    obtain ⟨iv, hiv, hn⟩ := hc
    have : stripIv iv ∈ sortIvs (es.map stripIv) :=
      (List.mergeSort_perm _ _).mem_iff.2 (List.mem_map_of_mem hiv)
    exact hn (ht (stripIv iv) this)
  unfold mkITier
  simp only [e0, Option.toList_some, e1, e2, hf, Bool.false_and]
  rfl

/-- **the only way to a refusal is a collapse**: on a list without overlap or reversal the constructor raises
`TextgridStateError` exactly when some entry has `¬ s < e`, and succeeds otherwise -/
theorem mkITier_refuses_iff (name : String) (es : List (Iv α)) (lo hi : α) (h : WeakWF es) :
    (mkITier name es (some lo) (some hi) = .error .TextgridStateError ↔ ∃ iv ∈ es, ¬ iv.s < iv.e) ∧
    ((∃ t, mkITier name es (some lo) (some hi) = .ok t) ↔ StrictIn es) := by
  by_cases hs : StrictIn es
  · obtain ⟨t, ht, _⟩ := mkITier_ok_of_strict name es lo hi h hs
    refine ⟨⟨fun he => ?_, fun ⟨iv, hiv, hn⟩ => absurd (hs iv hiv) hn⟩, ⟨fun _ => hs, fun _ => ⟨t, ht⟩⟩⟩
    rw [ht] at he; cases he
  · have hc : ∃ iv ∈ es, ¬ iv.s < iv.e := by
      apply Classical.byContradiction
      intro hn
      apply hs
      intro iv hiv
      apply Classical.byContradiction
      intro h'
      exact hn ⟨iv, hiv, h'⟩
    have he := mkITier_error_of_collapsed name es lo hi hc
    refine ⟨⟨fun _ => hc, fun _ => he⟩, ⟨fun ⟨t, ht⟩ => ?_, fun h' => absurd h' hs⟩⟩
    rw [he] at ht; cases ht

/-! ## (a) eraseRegion with shrinking: `shrinkIvs a b` then `rejoin a` (shift `a + (x - b)`) -/

theorem shiftBack_mono (a b : α) {x y : α} (h : x ≤ y) : shiftBack a b x ≤ shiftBack a b y :=
  add_le_add_left a (sub_le_sub_right b h)

/-- the region end maps exactly onto the region start (both inequalities: "equal" for `<`/`≤`/`==` on floats),
so the two pieces of a straddling interval meet at `a` and the re-join test finds them -/
theorem shiftBack_end (a b : α) : shiftBack a b b ≤ a ∧ a ≤ shiftBack a b b :=
  ⟨add_sub_self_le a b, le_add_sub_self a b⟩

/-- a shifted time never lands before the region start -/
theorem shiftBack_ge (a b : α) {x : α} (h : b ≤ x) : a ≤ shiftBack a b x :=
  le_trans (shiftBack_end a b).2 (shiftBack_mono a b h)

/-- the loop body of `shrinkIvs`, as a named function (definitional unfolding of the model) -/
def shrinkOne (a b : α) (iv : Iv α) : Option (Iv α) :=
  if iv.e ≤ a then some iv
  else if b ≤ iv.s then some ⟨shiftBack a b iv.s, shiftBack a b iv.e, iv.l⟩
  else none

theorem shrinkIvs_eq (a b : α) (es : List (Iv α)) : shrinkIvs a b es = es.filterMap (shrinkOne a b) := rfl

theorem shrinkOne_cases {a b : α} {iv o : Iv α} (h : shrinkOne a b iv = some o) :
    (iv.e ≤ a ∧ o = iv) ∨
    (¬ iv.e ≤ a ∧ b ≤ iv.s ∧ o = ⟨shiftBack a b iv.s, shiftBack a b iv.e, iv.l⟩) := by
  unfold shrinkOne at h
  split at h
  · left; exact ⟨by assumption, by cases h; rfl⟩
  · split at h
    · right; exact ⟨by assumption, by assumption, by cases h; rfl⟩
    · cases h

/-- **shrink loop**: whatever the rounding, the shifted list has no overlap and no reversed interval -/
theorem shrinkIvs_weakWF (a b : α) (hab : a ≤ b) (es : List (Iv α)) (h : WeakWF es) :
    WeakWF (shrinkIvs a b es) := by
  rw [shrinkIvs_eq]
  apply weakWF_filterMap _ es h
  · intro iv o hiv ho
    rcases shrinkOne_cases ho with ⟨_, rfl⟩ | ⟨_, _, rfl⟩
    · exact hiv
    · exact shiftBack_mono a b hiv
  · intro u v ou ov hu hv huv h1 h2
    rcases shrinkOne_cases h1 with ⟨u1, rfl⟩ | ⟨u1, u2, rfl⟩ <;>
      rcases shrinkOne_cases h2 with ⟨v1, rfl⟩ | ⟨v1, v2, rfl⟩
    · exact huv
    · exact le_trans u1 (shiftBack_ge a b v2)
    · -- `b ≤ u.s ≤ u.e ≤ v.s ≤ v.e ≤ a ≤ b`: only possible when everything coincides
      have h3 : u.e ≤ b := le_trans huv (le_trans hv (le_trans v1 hab))
      exact le_trans (shiftBack_mono a b h3) (le_trans (shiftBack_end a b).1
        (le_trans hab (le_trans u2 (le_trans hu huv))))
    · exact shiftBack_mono a b huv

/-- the re-join step fuses two neighbours: it cannot create overlap or reversal either -/
theorem rejoin_weakWF (a : α) (es : List (Iv α)) (h : WeakWF es) : WeakWF (rejoin a es) := by
  induction es using rejoin.induct a with
  | case1 x y rest hc =>
    rw [rejoin, if_pos hc]
    obtain ⟨hx, hxr, hyr⟩ := weakWF_cons.1 h
    obtain ⟨hy, hyr', hr⟩ := weakWF_cons.1 hyr
    refine weakWF_cons.2 ⟨le_trans hx (le_trans (hxr y (by simp)) hy), hyr', hr⟩
  | case2 x y rest hc ih =>
    rw [rejoin, if_neg hc]
    obtain ⟨hx, hxr, hyr⟩ := weakWF_cons.1 h
    have ih' := ih hyr
    refine weakWF_cons.2 ⟨hx, ?_, ih'⟩
    -- every start in `rejoin a (y :: rest)` is a start of `y :: rest`
    have hstart : ∀ (l : List (Iv α)) (z : Iv α), z ∈ rejoin a l → ∃ w ∈ l, z.s = w.s := by
      intro l
      induction l using rejoin.induct a with
      | case1 x y rest h =>
        intro z hz
        rw [rejoin, if_pos h] at hz
        rcases List.mem_cons.1 hz with rfl | hz
        · exact ⟨x, by simp, rfl⟩
        · exact ⟨z, by simp [hz], rfl⟩
      | case2 x y rest h ih =>
        intro z hz
        rw [rejoin, if_neg h] at hz
        rcases List.mem_cons.1 hz with rfl | hz
        · exact ⟨z, by simp, rfl⟩
        · obtain ⟨w, hw, h1⟩ := ih z hz
          exact ⟨w, List.mem_cons_of_mem _ hw, h1⟩
      | case3 l h =>
        intro z hz
        have : rejoin a l = l := by
          unfold rejoin
          split
          · rename_i x y rest; exact absurd rfl (h x y rest)
          · rfl
        rw [this] at hz
        exact ⟨z, hz, rfl⟩
    intro z hz
    obtain ⟨w, hw, e⟩ := hstart _ z hz
    rw [e]; exact hxr w hw
  | case3 l hl =>
    have : rejoin a l = l := by
      unfold rejoin
      split
      · rename_i x y rest; exact absurd rfl (hl x y rest)
      · rfl
    rw [this]; exact h

/-- **(a)** the list `eraseRegion(doShrink=True)` hands to the constructor -/
theorem shrink_weakWF (a b : α) (hab : a ≤ b) (es : List (Iv α)) (h : WeakWF es) :
    WeakWF (rejoin a (shrinkIvs a b es)) :=
  rejoin_weakWF a _ (shrinkIvs_weakWF a b hab es h)

/-- **the straddler's two pieces meet and are re-joined**: `eraseRegion` (truncate) leaves `⟨s, a, l⟩` and `⟨b, e, l⟩` of
an entry that spanned the region; the second is shifted onto `a` exactly, the re-join test `== a` succeeds and the
two are fused.  (`hbeq`: `==` agrees with the order — true for floats, where `-0.0 == 0.0`, and for `Int`.) -/
theorem straddler_rejoined (hbeq : ∀ x y : α, (x == y) = true ↔ (x ≤ y ∧ y ≤ x))
    (a b s e : α) (l : String) (rest : List (Iv α)) (hab : a ≤ b) (hbe : b < e) :
    rejoin a (shrinkIvs a b (⟨s, a, l⟩ :: ⟨b, e, l⟩ :: rest)) =
      ⟨s, shiftBack a b e, l⟩ :: shrinkIvs a b rest := by
  have h1 : ¬ e ≤ a := not_le.2 (lt_of_le_of_lt hab hbe)
  have e1 : shrinkIvs a b (⟨s, a, l⟩ :: ⟨b, e, l⟩ :: rest) =
      ⟨s, a, l⟩ :: ⟨shiftBack a b b, shiftBack a b e, l⟩ :: shrinkIvs a b rest := by
    simp [shrinkIvs, le_refl, h1]
  have t1 : (a == a) = true := (hbeq a a).2 ⟨le_refl a, le_refl a⟩
  have t2 : (shiftBack a b b == a) = true := (hbeq _ _).2 (shiftBack_end a b)
  rw [e1, rejoin, if_pos (by simp [t1, t2])]

/-- which entries of the shrunk list can have collapsed: only shifted whole entries whose two (distinct) times were
rounded together -/
theorem shrinkIvs_collapse (a b : α) (es : List (Iv α)) (hs : StrictIn es) (o : Iv α)
    (ho : o ∈ shrinkIvs a b es) (hc : ¬ o.s < o.e) :
    ∃ iv ∈ es, b ≤ iv.s ∧ iv.s < iv.e ∧ o = ⟨shiftBack a b iv.s, shiftBack a b iv.e, iv.l⟩ ∧
      shiftBack a b iv.e ≤ shiftBack a b iv.s := by
  rw [shrinkIvs_eq] at ho
  obtain ⟨iv, hiv, hf⟩ := List.mem_filterMap.1 ho
  rcases shrinkOne_cases hf with ⟨_, rfl⟩ | ⟨_, h2, rfl⟩
  · exact absurd (hs o hiv) hc
  · exact ⟨iv, hiv, h2, hs iv hiv, rfl, not_lt.1 hc⟩

/-- the re-join step never collapses anything: a fused entry is at least as long as its parts -/
theorem rejoin_strictIn (a : α) (es : List (Iv α)) (h : WeakWF es) (hs : StrictIn es) : StrictIn (rejoin a es) := by
  induction es using rejoin.induct a with
  | case1 x y rest hc =>
    rw [rejoin, if_pos hc]
    obtain ⟨hx, hxr, hyr⟩ := weakWF_cons.1 h
    intro z hz
    rcases List.mem_cons.1 hz with rfl | hz
    · exact lt_of_lt_of_le (hs x (by simp)) (le_trans (hxr y (by simp)) (le_of_lt (hs y (by simp))))
    · exact hs z (by simp [hz])
  | case2 x y rest hc ih =>
    rw [rejoin, if_neg hc]
    obtain ⟨hx, hxr, hyr⟩ := weakWF_cons.1 h
    intro z hz
    rcases List.mem_cons.1 hz with rfl | hz
    · exact hs z (by simp)
    · exact ih hyr (fun i hi => hs i (List.mem_cons_of_mem _ hi)) z hz
  | case3 l hl =>
    have : rejoin a l = l := by
      unfold rejoin
      split
      · rename_i x y rest; exact absurd rfl (hl x y rest)
      · rfl
    rw [this]; exact hs

/-- the `doShrink` step of `eraseRegion`: the constructor refuses exactly when an entry of the shifted list has collapsed -/
theorem shrinkStep_refuses_iff (nt : ITier α) (a b : α) (hab : a ≤ b) (h : WeakWF nt.es) :
    (shrinkStep nt a b = .error .TextgridStateError ↔ ∃ o ∈ rejoin a (shrinkIvs a b nt.es), ¬ o.s < o.e) ∧
    ((∃ t', shrinkStep nt a b = .ok t') ↔ StrictIn (rejoin a (shrinkIvs a b nt.es))) :=
  mkITier_refuses_iff nt.name _ nt.lo (shiftBack a b nt.hi) (shrink_weakWF a b hab nt.es h)

/-- **no overlap from rounding — eraseRegion(doShrink)**.  For ANY arithmetic satisfying the `RoundedArith` laws and any
entry list without overlap: the shifted, re-joined list has no overlap and no reversed interval; the constructor call
of the shrink step fails only with `TextgridStateError` and only if a whole entry lying after the region, of positive
length, was shifted onto a single point (`a + (e - b) ≤ a + (s - b)` although `s < e`). -/
theorem no_overlap_from_rounding_erase (nt : ITier α) (a b : α) (hab : a ≤ b)
    (h : WeakWF nt.es) (hs : StrictIn nt.es) :
    WeakWF (rejoin a (shrinkIvs a b nt.es)) ∧
    ((∃ t', shrinkStep nt a b = .ok t') ∨
     (shrinkStep nt a b = .error .TextgridStateError ∧
      ∃ iv ∈ nt.es, b ≤ iv.s ∧ iv.s < iv.e ∧ shiftBack a b iv.e ≤ shiftBack a b iv.s)) := by
  refine ⟨shrink_weakWF a b hab nt.es h, ?_⟩
  have hr := shrinkStep_refuses_iff nt a b hab h
  by_cases hst2 : StrictIn (rejoin a (shrinkIvs a b nt.es))
  · exact .inl (hr.2.2 hst2)
  · right
    have hst : ¬ StrictIn (shrinkIvs a b nt.es) :=
      fun hst => hst2 (rejoin_strictIn a _ (shrinkIvs_weakWF a b hab nt.es h) hst)
    have hc : ∃ o ∈ shrinkIvs a b nt.es, ¬ o.s < o.e :=
      Classical.byContradiction fun hn =>
        hst (fun o ho => Classical.byContradiction fun h' => hn ⟨o, ho, h'⟩)
    obtain ⟨o, ho, hoc⟩ := hc
    obtain ⟨iv, hiv, h1, h2, _, h4⟩ := shrinkIvs_collapse a b nt.es hs o ho hoc
    refine ⟨hr.1.2 ?_, iv, hiv, h1, h2, h4⟩
    exact Classical.byContradiction fun hn =>
      hst2 (fun o ho => Classical.byContradiction fun h' => hn ⟨o, ho, h'⟩)

/-! ## (b) insertSpace: `spaceAll s d mode` (shift `x + d`, `0 ≤ d`) -/

/-- where an output entry of the loop body comes from -/
inductive SpaceKind (s d : α) (iv o : Iv α) : Prop
  /-- entry ends before the insertion point: unchanged -/
  | before (h : iv.e ≤ s) (e : o = iv)
  /-- WHOLE entry after the insertion point: both times shifted (the only kind that can collapse) -/
  | shifted (h1 : s < iv.e) (h2 : s ≤ iv.s) (e : o = ⟨iv.s + d, iv.e + d, iv.l⟩)
  /-- straddler, 'stretch' -/
  | stretched (h1 : iv.s < s) (h2 : s < iv.e) (e : o = ⟨iv.s, iv.e + d, iv.l⟩)
  /-- straddler, 'split': left piece -/
  | splitL (h1 : iv.s < s) (h2 : s < iv.e) (e : o = ⟨iv.s, s, iv.l⟩)
  /-- straddler, 'split': right piece, kept only if strictly positive after rounding (repair A21) -/
  | splitR (h1 : iv.s < s) (h2 : s < iv.e) (h3 : s + d < iv.e + d) (e : o = ⟨s + d, iv.e + d, iv.l⟩)
  /-- straddler, 'no_change' -/
  | same (h1 : iv.s < s) (h2 : s < iv.e) (e : o = iv)

theorem spaceOne_kind {s d : α} {mode : SpaceMode} {iv : Iv α} {x : List (Iv α)}
    (h : spaceOne s d mode iv = some x) : ∀ o ∈ x, SpaceKind s d iv o := by
  unfold spaceOne at h
  split at h
  · cases h; intro o ho; simp at ho; exact .before (by assumption) ho
  · rename_i h0
    split at h
    · cases h; intro o ho; simp at ho; exact .shifted (not_le.1 h0) (by assumption) ho
    · rename_i h1
      cases mode with
      | stretch => cases h; intro o ho; simp at ho; exact .stretched (not_le.1 h1) (not_le.1 h0) ho
      | split =>
        simp only at h
        split at h
        · cases h; intro o ho
          simp only [List.mem_cons, List.not_mem_nil, or_false] at ho
          rcases ho with ho | ho
          · exact .splitL (not_le.1 h1) (not_le.1 h0) ho
          · exact .splitR (not_le.1 h1) (not_le.1 h0) (by assumption) ho
        · cases h; intro o ho; simp at ho; exact .splitL (not_le.1 h1) (not_le.1 h0) ho
      | noChange => cases h; intro o ho; simp at ho; exact .same (not_le.1 h1) (not_le.1 h0) ho
      | error => cases h

/-- an output entry is not reversed -/
theorem SpaceKind.le {s d : α} (hd : Tm.zero ≤ d) {iv o : Iv α} (k : SpaceKind s d iv o) (hiv : iv.s ≤ iv.e) :
    o.s ≤ o.e := by
  cases k with
  | before h e => subst e; exact hiv
  | shifted h1 h2 e => subst e; exact add_le_add_right d hiv
  | stretched h1 h2 e => subst e; exact le_trans hiv (le_add_of_nonneg _ hd)
  | splitL h1 h2 e => subst e; exact le_of_lt h1
  | splitR h1 h2 h3 e => subst e; exact le_of_lt h3
  | same h1 h2 e => subst e; exact hiv

/-- an output entry does not start before its source -/
theorem SpaceKind.start_ge {s d : α} (hd : Tm.zero ≤ d) {iv o : Iv α} (k : SpaceKind s d iv o) : iv.s ≤ o.s := by
  cases k with
  | before h e => subst e; exact le_refl _
  | shifted h1 h2 e => subst e; exact le_add_of_nonneg _ hd
  | stretched h1 h2 e => subst e; exact le_refl _
  | splitL h1 h2 e => subst e; exact le_refl _
  | splitR h1 h2 h3 e => subst e; exact le_trans (le_of_lt h1) (le_add_of_nonneg _ hd)
  | same h1 h2 e => subst e; exact le_refl _

/-- an output entry of a source that begins after the insertion point begins at the shifted start -/
theorem SpaceKind.start_of_after {s d : α} {iv o : Iv α} (k : SpaceKind s d iv o) (hiv : iv.s ≤ iv.e)
    (h : s < iv.s) : o.s = iv.s + d := by
  cases k with
  | before h' e => exact absurd (le_trans hiv h') (not_le.2 h)
  | shifted h1 h2 e => subst e; rfl
  | stretched h1 h2 e => exact absurd (le_of_lt h1) (not_le.2 h)
  | splitL h1 h2 e => exact absurd (le_of_lt h1) (not_le.2 h)
  | splitR h1 h2 h3 e => exact absurd (le_of_lt h1) (not_le.2 h)
  | same h1 h2 e => exact absurd (le_of_lt h1) (not_le.2 h)

/-- an output entry ends no later than the shifted end of its source; if the source ends before the insertion point
it ends where the source ends -/
theorem SpaceKind.end_le {s d : α} (hd : Tm.zero ≤ d) {iv o : Iv α} (k : SpaceKind s d iv o) :
    o.e ≤ iv.e + d ∧ (iv.e ≤ s → o.e ≤ iv.e) := by
  cases k with
  | before h e => subst e; exact ⟨le_add_of_nonneg _ hd, fun _ => le_refl _⟩
  | shifted h1 h2 e => subst e; exact ⟨le_refl _, fun h => absurd h (not_le.2 h1)⟩
  | stretched h1 h2 e => subst e; exact ⟨le_refl _, fun h => absurd h (not_le.2 h2)⟩
  | splitL h1 h2 e => subst e; exact ⟨le_trans (le_of_lt h2) (le_add_of_nonneg _ hd), fun h => absurd h (not_le.2 h2)⟩
  | splitR h1 h2 h3 e => subst e; exact ⟨le_refl _, fun h => absurd h (not_le.2 h2)⟩
  | same h1 h2 e => subst e; exact ⟨le_add_of_nonneg _ hd, fun _ => le_refl _⟩

/-- pieces of two ordered sources are ordered -/
theorem space_cross {s d : α} (hd : Tm.zero ≤ d) {u v p q : Iv α} (hv : v.s ≤ v.e) (huv : u.e ≤ v.s)
    (kp : SpaceKind s d u p) (kq : SpaceKind s d v q) : p.e ≤ q.s := by
  by_cases h : u.e ≤ s
  · exact le_trans ((kp.end_le hd).2 h) (le_trans huv (kq.start_ge hd))
  · have h' : s < v.s := lt_of_lt_of_le (not_le.1 h) huv
    rw [kq.start_of_after hv h']
    exact le_trans (kp.end_le hd).1 (add_le_add_right d huv)

/-- the pieces of one source are in order -/
theorem spaceOne_weakWF {s d : α} (hd : Tm.zero ≤ d) {mode : SpaceMode} {iv : Iv α} {x : List (Iv α)}
    (h : spaceOne s d mode iv = some x) (hiv : iv.s ≤ iv.e) : WeakWF x := by
  refine ⟨fun o ho => (spaceOne_kind h o ho).le hd hiv, ?_⟩
  unfold spaceOne at h
  split at h
  · cases h; simp
  · split at h
    · cases h; simp
    · cases mode with
      | stretch => cases h; simp
      | split =>
        simp only at h
        split at h
        · cases h
          simp only [List.pairwise_cons, List.mem_cons, List.not_mem_nil, or_false, forall_eq, false_imp_iff,
            implies_true, List.Pairwise.nil, and_true]
          exact le_add_of_nonneg _ hd
        · cases h; simp
      | noChange => cases h; simp
      | error => cases h

theorem spaceAll_cons {s d : α} {mode : SpaceMode} {iv : Iv α} {rest out : List (Iv α)}
    (h : spaceAll s d mode (iv :: rest) = some out) :
    ∃ x xs, spaceOne s d mode iv = some x ∧ spaceAll s d mode rest = some xs ∧ out = x ++ xs := by
  unfold spaceAll at h
  cases hx : spaceOne s d mode iv with
  | none => simp [hx, bind, Option.bind] at h
  | some x =>
    cases hxs : spaceAll s d mode rest with
    | none => simp [hx, hxs, bind, Option.bind] at h
    | some xs =>
      simp only [hx, hxs, bind, Option.bind, pure, Option.some.injEq] at h
      exact ⟨x, xs, rfl, rfl, h.symm⟩

/-- every output entry of the loop is a piece of some input entry -/
theorem spaceAll_mem {s d : α} {mode : SpaceMode} {es out : List (Iv α)}
    (h : spaceAll s d mode es = some out) : ∀ o ∈ out, ∃ iv ∈ es, SpaceKind s d iv o := by
  induction es generalizing out with
  | nil => simp [spaceAll] at h; subst h; simp
  | cons iv rest ih =>
    obtain ⟨x, xs, h1, h2, rfl⟩ := spaceAll_cons h
    intro o ho
    rcases List.mem_append.1 ho with ho | ho
    · exact ⟨iv, by simp, spaceOne_kind h1 o ho⟩
    · obtain ⟨w, hw, k⟩ := ih h2 o ho
      exact ⟨w, List.mem_cons_of_mem _ hw, k⟩

/-- **(b)** the list `insertSpace` hands to the constructor (every collision mode; in 'error' mode the loop may stop
with `none` = `ArgumentError` instead): no overlap, no reversed interval, whatever the rounding -/
theorem space_weakWF (s d : α) (hd : Tm.zero ≤ d) (mode : SpaceMode) (es out : List (Iv α)) (h : WeakWF es)
    (ho : spaceAll s d mode es = some out) : WeakWF out := by
  induction es generalizing out with
  | nil => simp [spaceAll] at ho; subst ho; exact WeakWF.nil
  | cons iv rest ih =>
    obtain ⟨x, xs, h1, h2, rfl⟩ := spaceAll_cons ho
    obtain ⟨hiv, hivr, hr⟩ := weakWF_cons.1 h
    have hx := spaceOne_weakWF hd h1 hiv
    have hxs := ih _ hr h2
    refine ⟨?_, List.pairwise_append.2 ⟨hx.2, hxs.2, ?_⟩⟩
    · intro o ho
      rcases List.mem_append.1 ho with ho | ho
      · exact hx.1 o ho
      · exact hxs.1 o ho
    · intro p hp q hq
      obtain ⟨w, hw, kq⟩ := spaceAll_mem h2 q hq
      exact space_cross hd (hr.1 w hw) (hivr w hw) (spaceOne_kind h1 p hp) kq

/-- the loop stops (`ArgumentError`) only in 'error' mode, at an entry that straddles the insertion point -/
theorem spaceAll_none_iff (s d : α) (mode : SpaceMode) (es : List (Iv α)) :
    spaceAll s d mode es = none ↔ mode = .error ∧ ∃ iv ∈ es, iv.s < s ∧ s < iv.e := by
  induction es with
  | nil => simp [spaceAll]
  | cons iv rest ih =>
    have h1 : spaceOne s d mode iv = none ↔ mode = .error ∧ iv.s < s ∧ s < iv.e := by
      unfold spaceOne
      split
      · rename_i h; simp only [reduceCtorEq, false_iff]; exact fun ⟨_, _, h'⟩ => not_le.2 h' h
      · rename_i h0
        split
        · rename_i h; simp only [reduceCtorEq, false_iff]; exact fun ⟨_, h', _⟩ => not_le.2 h' h
        · rename_i h1
          cases mode with
          | stretch => simp
          | split => simp only; split <;> simp
          | noChange => simp
          | error => simp only [true_and, true_iff]; exact ⟨not_le.1 h1, not_le.1 h0⟩
    unfold spaceAll
    cases hx : spaceOne s d mode iv with
    | none =>
      simp only [bind, Option.bind, true_iff]
      obtain ⟨hm, hh⟩ := h1.1 hx
      exact ⟨hm, iv, by simp, hh⟩
    | some x =>
      have hx' : ¬ (mode = .error ∧ iv.s < s ∧ s < iv.e) := fun hh => by rw [h1.2 hh] at hx; cases hx
      cases hxs : spaceAll s d mode rest with
      | none =>
        simp only [bind, Option.bind, true_iff]
        obtain ⟨hm, w, hw, hh⟩ := ih.1 hxs
        exact ⟨hm, w, List.mem_cons_of_mem _ hw, hh⟩
      | some xs =>
        simp only [bind, Option.bind, pure, reduceCtorEq, false_iff]
        rintro ⟨hm, w, hw, hh⟩
        rcases List.mem_cons.1 hw with rfl | hw
        · exact hx' ⟨hm, hh⟩
        · have := ih.2 ⟨hm, w, hw, hh⟩
          rw [hxs] at this; cases this

/-- **collapse in insertSpace**: with input entries of positive length, every output entry has positive length EXCEPT
possibly whole entries lying after the insertion point whose two shifted times were rounded together.  In particular
both pieces of a split entry, a stretched entry and an unchanged entry are never the reason for a refusal. -/
theorem space_collapse (s d : α) (hd : Tm.zero ≤ d) (mode : SpaceMode) (es out : List (Iv α)) (hs : StrictIn es)
    (ho : spaceAll s d mode es = some out) (o : Iv α) (hmem : o ∈ out) (hc : ¬ o.s < o.e) :
    ∃ iv ∈ es, s ≤ iv.s ∧ iv.s < iv.e ∧ o = ⟨iv.s + d, iv.e + d, iv.l⟩ ∧ iv.e + d ≤ iv.s + d := by
  obtain ⟨iv, hiv, k⟩ := spaceAll_mem ho o hmem
  have hp := hs iv hiv
  cases k with
  | before h e => subst e; exact absurd hp hc
  | shifted h1 h2 e => subst e; exact ⟨iv, hiv, h2, hp, rfl, not_lt.1 hc⟩
  | stretched h1 h2 e => subst e; exact absurd (lt_of_lt_of_le hp (le_add_of_nonneg _ hd)) hc
  | splitL h1 h2 e => subst e; exact absurd h1 hc
  | splitR h1 h2 h3 e => subst e; exact absurd h3 hc
  | same h1 h2 e => subst e; exact absurd hp hc

/-- 'split' mode: every kept piece of the split entry has positive length -/
theorem split_pieces_strict (s d : α) (iv : Iv α) (h1 : iv.s < s) (h2 : s < iv.e) :
    ∃ x, spaceOne s d .split iv = some x ∧ ∀ o ∈ x, o.s < o.e := by
  have e1 : ¬ iv.e ≤ s := not_le.2 h2
  have e2 : ¬ s ≤ iv.s := not_le.2 h1
  unfold spaceOne
  simp only [e1, e2, if_false]
  split
  · rename_i h3
    exact ⟨_, rfl, by intro o ho; simp at ho; rcases ho with rfl | rfl; exact h1; exact h3⟩
  · exact ⟨_, rfl, by intro o ho; simp at ho; subst ho; exact h1⟩

/-- **repair A21**: the right-hand remainder of a split entry is dropped exactly when it is not strictly positive
after rounding; the left piece is always kept -/
theorem split_remainder (s d : α) (iv : Iv α) (h1 : iv.s < s) (h2 : s < iv.e) :
    (s + d < iv.e + d → spaceOne s d .split iv = some [⟨iv.s, s, iv.l⟩, ⟨s + d, iv.e + d, iv.l⟩]) ∧
    (¬ s + d < iv.e + d → spaceOne s d .split iv = some [⟨iv.s, s, iv.l⟩]) := by
  have e1 : ¬ iv.e ≤ s := not_le.2 h2
  have e2 : ¬ s ≤ iv.s := not_le.2 h1
  unfold spaceOne
  simp only [e1, e2, if_false]
  exact ⟨fun h => by simp [h], fun h => by simp [h]⟩

/-- in exact arithmetic the remainder is never dropped -/
theorem split_remainder_exact (s d : Int) (iv : Iv Int) (h1 : iv.s < s) (h2 : s < iv.e) :
    spaceOne s d .split iv = some [⟨iv.s, s, iv.l⟩, ⟨s + d, iv.e + d, iv.l⟩] :=
  (split_remainder s d iv h1 h2).1 (by omega)

theorem insertSpace_refuses_iff (t : ITier α) (s d : α) (hd : Tm.zero ≤ d) (mode : SpaceMode) (h : WeakWF t.es)
    (out : List (Iv α)) (ho : spaceAll s d mode t.es = some out) :
    (t.insertSpace s d mode = .error .TextgridStateError ↔ ∃ o ∈ out, ¬ o.s < o.e) ∧
    ((∃ t', t.insertSpace s d mode = .ok t') ↔ StrictIn out) := by
  have := mkITier_refuses_iff t.name out t.lo (t.hi + d) (space_weakWF s d hd mode t.es out h ho)
  unfold ITier.insertSpace
  rw [ho]
  exact this

/-- **no overlap from rounding — insertSpace**.  For ANY arithmetic satisfying the `RoundedArith` laws, any `0 ≤ d`, any
collision mode and any tier whose entries have positive length and do not overlap: either the call raises
`ArgumentError` ('error' mode, an entry straddles the insertion point), or the entry list handed to the constructor
has no overlap and no reversed interval, and then the call succeeds unless a whole entry after the insertion point
has collapsed (`e + d ≤ s + d` although `s < e`), in which case it raises `TextgridStateError`. -/
theorem no_overlap_from_rounding_insertSpace (t : ITier α) (s d : α) (hd : Tm.zero ≤ d) (mode : SpaceMode)
    (h : WeakWF t.es) (hs : StrictIn t.es) :
    (t.insertSpace s d mode = .error .ArgumentError ∧ mode = .error ∧ ∃ iv ∈ t.es, iv.s < s ∧ s < iv.e) ∨
    (∃ out, spaceAll s d mode t.es = some out ∧ WeakWF out ∧
      ((∃ t', t.insertSpace s d mode = .ok t') ∨
       (t.insertSpace s d mode = .error .TextgridStateError ∧
        ∃ iv ∈ t.es, s ≤ iv.s ∧ iv.s < iv.e ∧ iv.e + d ≤ iv.s + d))) := by
  cases ho : spaceAll s d mode t.es with
  | none =>
    left
    obtain ⟨hm, hw⟩ := (spaceAll_none_iff s d mode t.es).1 ho
    refine ⟨?_, hm, hw⟩
    unfold ITier.insertSpace; rw [ho]
  | some out =>
    right
    have hw := space_weakWF s d hd mode t.es out h ho
    have hr := insertSpace_refuses_iff t s d hd mode h out ho
    refine ⟨out, rfl, hw, ?_⟩
    by_cases hst : StrictIn out
    · exact .inl (hr.2.2 hst)
    · right
      have hc : ∃ o ∈ out, ¬ o.s < o.e :=
        Classical.byContradiction fun hn =>
          hst (fun o ho => Classical.byContradiction fun h' => hn ⟨o, ho, h'⟩)
      obtain ⟨o, hmem, hoc⟩ := hc
      obtain ⟨iv, hiv, h1, h2, _, h4⟩ := space_collapse s d hd mode t.es out hs ho o hmem hoc
      exact ⟨hr.1.2 ⟨o, hmem, hoc⟩, iv, hiv, h1, h2, h4⟩

/-! ## (c) editTimestamps: `shiftClip` (shift `o + x`, clipping at zero) -/

theorem shiftClip_cases {o lo hi : α} {iv out : Iv α} (h : (shiftClip o lo hi iv).2 = some out) :
    Tm.zero < o + iv.e ∧
    ((o + iv.s < Tm.zero ∧ out = ⟨Tm.zero, o + iv.e, iv.l⟩) ∨
     (¬ o + iv.s < Tm.zero ∧ out = ⟨o + iv.s, o + iv.e, iv.l⟩)) := by
  simp only [shiftClip] at h
  split at h
  · cases h
  · rename_i h0
    refine ⟨not_le.1 h0, ?_⟩
    cases h
    by_cases h1 : o + iv.s < Tm.zero
    · left; exact ⟨h1, by simp [h1]⟩
    · right; exact ⟨h1, by simp [h1]⟩

/-- **(c)** the list `IntervalTier.editTimestamps` hands to the constructor (any offset, positive or negative):
no overlap, no reversed interval, whatever the rounding -/
theorem edit_weakWF (o lo hi : α) (es : List (Iv α)) (h : WeakWF es) :
    WeakWF ((es.map (shiftClip o lo hi)).filterMap (·.2)) := by
  rw [List.filterMap_map]
  apply weakWF_filterMap _ es h
  · intro iv out hiv ho
    obtain ⟨h0, ⟨_, rfl⟩ | ⟨_, rfl⟩⟩ := shiftClip_cases ho
    · exact le_of_lt h0
    · exact add_le_add_left o hiv
  · intro u v ou ov hu hv huv h1 h2
    obtain ⟨u0, hu'⟩ := shiftClip_cases h1
    have hue : ou.e = o + u.e := by rcases hu' with ⟨_, rfl⟩ | ⟨_, rfl⟩ <;> rfl
    have hmono : o + u.e ≤ o + v.s := add_le_add_left o huv
    obtain ⟨v0, ⟨v1, rfl⟩ | ⟨v1, rfl⟩⟩ := shiftClip_cases h2
    · -- `v` is clipped at zero: then `o + u.e ≤ o + v.s < 0`, so `u` would have been dropped
      exact absurd (lt_of_le_of_lt hmono v1) (not_lt.2 (le_of_lt u0))
    · rw [hue]; exact hmono

/-- an entry that is clipped at zero keeps positive length; only an unclipped whole entry can collapse -/
theorem edit_collapse (o lo hi : α) (es : List (Iv α)) (hs : StrictIn es) (out : Iv α)
    (hmem : out ∈ (es.map (shiftClip o lo hi)).filterMap (·.2)) (hc : ¬ out.s < out.e) :
    ∃ iv ∈ es, iv.s < iv.e ∧ out = ⟨o + iv.s, o + iv.e, iv.l⟩ ∧ o + iv.e ≤ o + iv.s := by
  rw [List.filterMap_map] at hmem
  obtain ⟨iv, hiv, hf⟩ := List.mem_filterMap.1 hmem
  obtain ⟨h0, ⟨_, rfl⟩ | ⟨_, rfl⟩⟩ := shiftClip_cases hf
  · exact absurd h0 hc
  · exact ⟨iv, hiv, hs iv hiv, rfl, not_lt.1 hc⟩

theorem editTimestamps_refuses_iff (t : ITier α) (o : α) (rep : Report) (h : WeakWF t.es)
    (hrep : ¬ (rep = .error ∧ (t.es.map (shiftClip o t.lo t.hi)).any (·.1))) :
    (t.editTimestamps o rep = .error .TextgridStateError ↔
      ∃ out ∈ (t.es.map (shiftClip o t.lo t.hi)).filterMap (·.2), ¬ out.s < out.e) ∧
    ((∃ t', t.editTimestamps o rep = .ok t') ↔ StrictIn ((t.es.map (shiftClip o t.lo t.hi)).filterMap (·.2))) := by
  unfold ITier.editTimestamps
  simp only [hrep, if_false]
  exact mkITier_refuses_iff t.name _ _ _ (edit_weakWF o t.lo t.hi t.es h)

/-- **no overlap from rounding — editTimestamps**.  For ANY arithmetic satisfying the laws, any offset and any tier whose
entries have positive length and do not overlap: unless the out-of-bounds report is requested as an error and
triggered, the shifted and clipped entry list has no overlap and no reversed interval; the call succeeds unless a
whole (unclipped) entry has collapsed (`o + e ≤ o + s` although `s < e`) — then `TextgridStateError`. -/
theorem no_overlap_from_rounding_editTimestamps (t : ITier α) (o : α) (rep : Report)
    (h : WeakWF t.es) (hs : StrictIn t.es)
    (hrep : ¬ (rep = .error ∧ (t.es.map (shiftClip o t.lo t.hi)).any (·.1))) :
    WeakWF ((t.es.map (shiftClip o t.lo t.hi)).filterMap (·.2)) ∧
    ((∃ t', t.editTimestamps o rep = .ok t') ∨
     (t.editTimestamps o rep = .error .TextgridStateError ∧
      ∃ iv ∈ t.es, iv.s < iv.e ∧ o + iv.e ≤ o + iv.s)) := by
  refine ⟨edit_weakWF o t.lo t.hi t.es h, ?_⟩
  have hr := editTimestamps_refuses_iff t o rep h hrep
  by_cases hst : StrictIn ((t.es.map (shiftClip o t.lo t.hi)).filterMap (·.2))
  · exact .inl (hr.2.2 hst)
  · right
    have hc : ∃ out ∈ (t.es.map (shiftClip o t.lo t.hi)).filterMap (·.2), ¬ out.s < out.e :=
      Classical.byContradiction fun hn =>
        hst (fun x hx => Classical.byContradiction fun h' => hn ⟨x, hx, h'⟩)
    obtain ⟨x, hx, hxc⟩ := hc
    obtain ⟨iv, hiv, h1, _, h3⟩ := edit_collapse o t.lo t.hi t.es hs x hx hxc
    exact ⟨hr.1.2 ⟨x, hx, hxc⟩, iv, hiv, h1, h3⟩

/-! ## (d) crop with rebaseToZero: `getIvs a b m`, then `shiftIv (rebaseDelta …)` (shift `x - δ`) -/

theorem cropOne_cases {a b : α} {m : CropMode} {iv o : Iv α} (h : cropOne a b m iv = some o) :
    a < iv.e ∧ iv.s < b ∧
    (o = iv ∨ (o = ⟨iv.s, b, iv.l⟩ ∧ b < iv.e) ∨ (o = ⟨a, iv.e, iv.l⟩ ∧ iv.s < a) ∨
     (o = ⟨a, b, iv.l⟩ ∧ iv.s ≤ a ∧ b ≤ iv.e)) := by
  unfold cropOne at h
  split at h
  · cases h
  · rename_i h0
    have h0' : a < iv.e ∧ iv.s < b := ⟨not_le.1 fun h' => h0 (.inl h'), not_le.1 fun h' => h0 (.inr h')⟩
    refine ⟨h0'.1, h0'.2, ?_⟩
    split at h
    · cases h; exact .inl rfl
    · split at h
      · cases h; exact .inl rfl
      · split at h
        · rename_i h3
          split at h
          · cases h; exact .inr (.inl ⟨rfl, h3.2⟩)
          · cases h
        · split at h
          · rename_i h4
            split at h
            · cases h; exact .inr (.inr (.inl ⟨rfl, h4.1⟩))
            · cases h
          · split at h
            · rename_i h5
              split at h
              · cases h; exact .inl rfl
              · split at h
                · cases h; exact .inr (.inr (.inr ⟨rfl, h5.1, h5.2⟩))
                · cases h
            · cases h

/-- the selection loop (`utils.getIntervalsInInterval`, no arithmetic): order and direction are kept -/
theorem getIvs_weakWF (a b : α) (hab : a < b) (m : CropMode) (es : List (Iv α)) (h : WeakWF es) :
    WeakWF (getIvs a b m es) := by
  unfold getIvs
  have hend : ∀ {iv o : Iv α}, iv.s ≤ iv.e → cropOne a b m iv = some o → o.e ≤ iv.e ∧ iv.s ≤ o.s := by
    intro iv o _ ho
    obtain ⟨_, _, rfl | ⟨rfl, h1⟩ | ⟨rfl, h1⟩ | ⟨rfl, h1, h2⟩⟩ := cropOne_cases ho
    · exact ⟨le_refl _, le_refl _⟩
    · exact ⟨le_of_lt h1, le_refl _⟩
    · exact ⟨le_refl _, le_of_lt h1⟩
    · exact ⟨h2, h1⟩
  apply weakWF_filterMap _ es h
  · intro iv o hiv ho
    obtain ⟨h1, h2, rfl | ⟨rfl, _⟩ | ⟨rfl, _⟩ | ⟨rfl, _, _⟩⟩ := cropOne_cases ho
    · exact hiv
    · exact le_of_lt h2
    · exact le_of_lt h1
    · exact le_of_lt hab
  · intro u v ou ov hu hv huv h1 h2
    exact le_trans (hend hu h1).1 (le_trans huv (hend hv h2).2)

/-- truncation never produces an empty piece -/
theorem getIvs_strictIn (a b : α) (hab : a < b) (m : CropMode) (es : List (Iv α)) (hs : StrictIn es) :
    StrictIn (getIvs a b m es) := by
  intro o ho
  obtain ⟨iv, hiv, hf⟩ := List.mem_filterMap.1 ho
  obtain ⟨h1, h2, rfl | ⟨rfl, _⟩ | ⟨rfl, _⟩ | ⟨rfl, _, _⟩⟩ := cropOne_cases hf
  · exact hs o hiv
  · exact h2
  · exact h1
  · exact hab

theorem shiftIv_weakWF (δ : α) (es : List (Iv α)) (h : WeakWF es) : WeakWF (es.map (shiftIv δ)) :=
  weakWF_map (shiftIv δ) es h (fun _ a => sub_le_sub_right δ a) (fun _ _ _ _ c => sub_le_sub_right δ c)

/-- **(d)** the list `crop(..., rebaseToZero=True)` hands to the constructor: no overlap, no reversed interval -/
theorem crop_weakWF (a b : α) (hab : a < b) (m : CropMode) (es : List (Iv α)) (h : WeakWF es) :
    WeakWF ((getIvs a b m es).map (shiftIv (rebaseDelta a (getIvs a b m es)))) :=
  shiftIv_weakWF _ _ (getIvs_weakWF a b hab m es h)

/-- the rebased list of the repaired code: the shifted entries that kept a positive length -/
theorem rebaseIvs_weakWF (δ : α) (sel : List (Iv α)) (h : WeakWF (sel.map (shiftIv δ))) : WeakWF (rebaseIvs δ sel) := by
  unfold rebaseIvs
  exact ⟨fun iv hiv => h.1 iv (List.mem_filter.1 hiv).1, h.2.sublist List.filter_sublist⟩

theorem rebaseIvs_strictIn (δ : α) (sel : List (Iv α)) : StrictIn (rebaseIvs δ sel) := by
  intro iv hiv
  have := (List.mem_filter.1 hiv).2
  simpa using this

/-- what is left out is exactly what collapsed -/
theorem rebaseIvs_mem (δ : α) (sel : List (Iv α)) (o : Iv α) :
    o ∈ rebaseIvs δ sel ↔ o ∈ sel.map (shiftIv δ) ∧ o.s < o.e := by
  unfold rebaseIvs
  simp [List.mem_filter]

/-- since the repair in /repo, `crop(..., rebaseToZero=True)` never refuses because of rounding -/
theorem crop_rebase_ok (t : ITier α) (a b : α) (hab : a < b) (m : CropMode) (h : WeakWF t.es) :
    ∃ t', t.crop a b m true = .ok t' := by
  unfold ITier.crop
  simp only [not_le.2 hab, if_false, if_true]
  obtain ⟨t', ht, _⟩ := mkITier_ok_of_strict t.name _ Tm.zero (b - a)
    (rebaseIvs_weakWF _ _ (crop_weakWF a b hab m t.es h)) (rebaseIvs_strictIn _ _)
  exact ⟨t', ht⟩

/-- without rebasing no arithmetic is involved: cropping a tier without overlap always succeeds -/
theorem crop_norebase_ok (t : ITier α) (a b : α) (hab : a < b) (m : CropMode) (h : WeakWF t.es) (hs : StrictIn t.es) :
    ∃ t', t.crop a b m false = .ok t' := by
  unfold ITier.crop
  simp only [not_le.2 hab, if_false, Bool.false_eq_true]
  obtain ⟨t', ht, _⟩ := mkITier_ok_of_strict t.name _ a b (getIvs_weakWF a b hab m t.es h) (getIvs_strictIn a b hab m t.es hs)
  exact ⟨t', ht⟩

/-- **no overlap from rounding — crop with rebaseToZero**.  For ANY arithmetic satisfying the laws, any window `a < b`,
any mode and any tier whose entries do not overlap: the list handed to the constructor has no overlap, no reversed
and no empty interval, and the call succeeds; a selected (possibly truncated) piece is left out exactly when it
collapsed under the subtraction (`¬ s - δ < e - δ`) — before the repair that case raised `TextgridStateError`. -/
theorem no_overlap_from_rounding_crop (t : ITier α) (a b : α) (hab : a < b) (m : CropMode) (h : WeakWF t.es) :
    WeakWF (rebaseIvs (rebaseDelta a (getIvs a b m t.es)) (getIvs a b m t.es)) ∧
    StrictIn (rebaseIvs (rebaseDelta a (getIvs a b m t.es)) (getIvs a b m t.es)) ∧
    (∃ t', t.crop a b m true = .ok t') ∧
    (∀ iv ∈ getIvs a b m t.es,
      shiftIv (rebaseDelta a (getIvs a b m t.es)) iv ∈ rebaseIvs (rebaseDelta a (getIvs a b m t.es)) (getIvs a b m t.es) ∨
      ¬ iv.s - rebaseDelta a (getIvs a b m t.es) < iv.e - rebaseDelta a (getIvs a b m t.es)) := by
  refine ⟨rebaseIvs_weakWF _ _ (crop_weakWF a b hab m t.es h), rebaseIvs_strictIn _ _, crop_rebase_ok t a b hab m h, ?_⟩
  intro iv hiv
  by_cases hc : iv.s - rebaseDelta a (getIvs a b m t.es) < iv.e - rebaseDelta a (getIvs a b m t.es)
  · left
    exact (rebaseIvs_mem _ _ _).2 ⟨List.mem_map_of_mem hiv, hc⟩
  · exact .inr hc

/-! ## (e) point tiers: the times handed to the constructor stay weakly sorted -/

theorem sortedT_filterMap (f : Pt α → Option (Pt α)) (ps : List (Pt α)) (h : SortedT ps)
    (h2 : ∀ p q op oq, p.t ≤ q.t → f p = some op → f q = some oq → op.t ≤ oq.t) :
    SortedT (ps.filterMap f) :=
  List.Pairwise.filterMap f (fun p q hpq op hp oq hq => h2 p q op oq hpq hp hq) h

theorem sortedT_map (f : Pt α → Pt α) (ps : List (Pt α)) (h : SortedT ps)
    (h2 : ∀ p q, p.t ≤ q.t → (f p).t ≤ (f q).t) : SortedT (ps.map f) := by
  unfold SortedT
  rw [List.pairwise_map]
  exact h.imp (fun hpq => h2 _ _ hpq)

/-- the list `PointTier.insertSpace` builds -/
def pspaceList (s d : α) (ps : List (Pt α)) : List (Pt α) :=
  ps.map fun p => if p.t ≤ s then p else ⟨p.t + d, p.l⟩

theorem pinsertSpace_eq (t : PTier α) (s d : α) :
    t.insertSpace s d = t.new (ps := some (pspaceList s d t.ps)) (hi := some (t.hi + d)) := rfl

theorem pspace_sorted (s d : α) (hd : Tm.zero ≤ d) (ps : List (Pt α)) (h : SortedT ps) :
    SortedT (pspaceList s d ps) := by
  apply sortedT_map _ ps h
  intro p q hpq
  by_cases hp : p.t ≤ s <;> by_cases hq : q.t ≤ s <;> simp only [hp, hq, if_true, if_false]
  · exact hpq
  · exact le_trans hpq (le_add_of_nonneg _ hd)
  · exact absurd (le_trans hpq hq) hp
  · exact add_le_add_right d hpq

/-- the shrink loop of `PointTier.eraseRegion` -/
def peraseList (a b : α) (ps : List (Pt α)) : List (Pt α) :=
  ps.filterMap fun p =>
    if p.t < a then some p
    else if b < p.t then some ⟨shiftBack a b p.t, p.l⟩
    else none

theorem peraseRegion_eq (t : PTier α) (a b : α) :
    t.eraseRegion a b true = (do
      let nt ← t.new
      let ct ← nt.crop a b false
      let ps0 ← ct.ps.reverse.foldlM deletePt nt.ps
      if decide (clipLo true t.lo a < clipHi true t.hi b) then
        PTier.new { nt with ps := ps0 } (ps := some (peraseList (clipLo true t.lo a) (clipHi true t.hi b) ps0))
          (hi := some (shiftBack (clipLo true t.lo a) (clipHi true t.hi b) nt.hi))
      else pure { nt with ps := ps0 }) := rfl

theorem perase_sorted (a b : α) (hab : a ≤ b) (ps : List (Pt α)) (h : SortedT ps) :
    SortedT (peraseList a b ps) := by
  apply sortedT_filterMap _ ps h
  intro p q op oq hpq hp hq
  by_cases p1 : p.t < a
  · simp only [p1, if_true, Option.some.injEq] at hp; subst hp
    by_cases q1 : q.t < a
    · simp only [q1, if_true, Option.some.injEq] at hq; subst hq; exact hpq
    · by_cases q2 : b < q.t
      · simp only [q1, q2, if_true, if_false, Option.some.injEq] at hq; subst hq
        exact le_trans (le_of_lt p1) (shiftBack_ge a b (le_of_lt q2))
      · simp [q1, q2] at hq
  · by_cases p2 : b < p.t
    · simp only [p1, p2, if_true, if_false, Option.some.injEq] at hp; subst hp
      by_cases q1 : q.t < a
      · exact absurd (lt_of_lt_of_le (lt_of_le_of_lt hpq q1) hab) (not_lt.2 (le_of_lt p2))
      · by_cases q2 : b < q.t
        · simp only [q1, q2, if_true, if_false, Option.some.injEq] at hq; subst hq
          exact shiftBack_mono a b hpq
        · simp [q1, q2] at hq
    · simp [p1, p2] at hp

/-- the list `PointTier.editTimestamps` builds -/
def peditList (o : α) (ps : List (Pt α)) : List (Pt α) :=
  (ps.map fun p => (p.t + o, p.l)).filterMap fun x => if x.1 < Tm.zero then none else some ⟨x.1, x.2⟩

theorem peditTimestamps_eq (t : PTier α) (o : α) (rep : Report) :
    t.editTimestamps o rep =
      if rep = .error ∧ (t.ps.map fun p => (p.t + o, p.l)).any (fun x => decide (x.1 < t.lo) || decide (t.hi < x.1))
      then .error .OutOfBounds
      else mkPTier t.name (peditList o t.ps)
        (some (((peditList o t.ps).map (·.t)).foldl pyMin2 t.lo))
        (some (((peditList o t.ps).map (·.t)).foldl pyMax2 t.hi)) := rfl

theorem pedit_sorted (o : α) (ps : List (Pt α)) (h : SortedT ps) : SortedT (peditList o ps) := by
  unfold peditList
  rw [List.filterMap_map]
  apply sortedT_filterMap _ ps h
  intro p q op oq hpq hp hq
  simp only [Function.comp] at hp hq
  split at hp
  · cases hp
  · split at hq
    · cases hq
    · cases hp; cases hq; exact add_le_add_right o hpq

/-- the list `PointTier.crop(..., rebaseToZero=True)` builds -/
def pcropList (a b : α) (ps : List (Pt α)) : List (Pt α) :=
  (ps.filter fun p => decide (a ≤ p.t) && decide (p.t ≤ b)).map fun p => ⟨p.t - a, p.l⟩

theorem pcrop_eq (t : PTier α) (a b : α) (hab : a < b) :
    t.crop a b true = mkPTier t.name (pcropList a b t.ps) (some Tm.zero) (some (b - a)) := by
  unfold PTier.crop
  simp only [not_le.2 hab, if_false, if_true]
  rfl

theorem pcrop_sorted (a b : α) (ps : List (Pt α)) (h : SortedT ps) : SortedT (pcropList a b ps) := by
  unfold pcropList
  apply sortedT_map _ _ (List.Pairwise.filter _ h)
  intro p q hpq
  exact sub_le_sub_right a hpq

/-- **no overlap from rounding — point tiers**: in `insertSpace`, the shrink step of `eraseRegion`, `editTimestamps`
and `crop(rebaseToZero)` the times handed to the constructor are weakly increasing whenever the input times are:
rounding can merge two points into one time but can never swap two points. -/
theorem no_overlap_from_rounding_points (ps : List (Pt α)) (h : SortedT ps) :
    (∀ s d : α, Tm.zero ≤ d → SortedT (pspaceList s d ps)) ∧
    (∀ a b : α, a ≤ b → SortedT (peraseList a b ps)) ∧
    (∀ o : α, SortedT (peditList o ps)) ∧
    (∀ a b : α, SortedT (pcropList a b ps)) :=
  ⟨fun s d hd => pspace_sorted s d hd ps h, fun a b hab => perase_sorted a b hab ps h,
   fun o => pedit_sorted o ps h, fun a b => pcrop_sorted a b ps h⟩

end Generic

/-! ## (f) morph: `morphGo` (new start = previous NEW end + ORIGINAL gap, new end = new start + duration) -/

section Generic2
variable {α : Type} [LT α] [LE α] [DecidableLT α] [DecidableLE α] [BEq α] [Add α] [Sub α] [Tm α] [RoundedArith α]

open RoundedArith

/-- where the next new interval starts -/
def newStart (prev : Option (α × α)) (src : Iv α) : α :=
  match prev with
  | none => src.s
  | some (lastSrcEnd, lastNewEnd) => lastNewEnd + (src.s - lastSrcEnd)

/-- the duration the new interval gets -/
def morphDur (sel : String → Bool) (src tgt : Iv α) : α :=
  if sel src.l then tgt.e - tgt.s else src.e - src.s

theorem morphGo_cons (sel : String → Bool) (prev : Option (α × α)) (src tgt : Iv α) (ss ts : List (Iv α)) :
    morphGo sel prev (src :: ss) (tgt :: ts) =
      ⟨newStart prev src, newStart prev src + morphDur sel src tgt, src.l⟩ ::
        morphGo sel (some (src.e, newStart prev src + morphDur sel src tgt)) ss ts := by
  rcases prev with _ | ⟨a, b⟩ <;> rfl

theorem morphGo_nil_left (sel : String → Bool) (prev : Option (α × α)) (ts : List (Iv α)) :
    morphGo sel prev [] ts = [] := by
  unfold morphGo; rfl

theorem morphGo_nil_right (sel : String → Bool) (prev : Option (α × α)) (ss : List (Iv α)) :
    morphGo sel prev ss [] = [] := by
  cases ss <;> (unfold morphGo; rfl)

theorem morphDur_nonneg (sel : String → Bool) (src tgt : Iv α) (h1 : src.s ≤ src.e) (h2 : tgt.s ≤ tgt.e) :
    Tm.zero ≤ morphDur sel src tgt := by
  unfold morphDur; split
  · exact sub_nonneg h2
  · exact sub_nonneg h1

theorem morphDur_pos (sel : String → Bool) (src tgt : Iv α) (h1 : src.s < src.e) (h2 : tgt.s < tgt.e) :
    Tm.zero < morphDur sel src tgt := by
  unfold morphDur; split
  · exact sub_pos h2
  · exact sub_pos h1

/-- the loop of `morph`: every new interval ends no earlier than it starts and starts no earlier than the previous
new interval ended — whatever the rounding -/
theorem morphGo_weakWF_aux (sel : String → Bool) (ss : List (Iv α)) :
    ∀ (prev : Option (α × α)) (ts : List (Iv α)), WeakWF ss → (∀ tgt ∈ ts, tgt.s ≤ tgt.e) →
      (∀ p, prev = some p → ∀ src ∈ ss, p.1 ≤ src.s) →
      WeakWF (morphGo sel prev ss ts) ∧
      ∀ o ∈ morphGo sel prev ss ts, ∀ p, prev = some p → p.2 ≤ o.s := by
  induction ss with
  | nil => intro prev ts _ _ _; rw [morphGo_nil_left]; exact ⟨WeakWF.nil, by simp⟩
  | cons src ss ih =>
    intro prev ts hs ht hp
    cases ts with
    | nil => rw [morphGo_nil_right]; exact ⟨WeakWF.nil, by simp⟩
    | cons tgt ts =>
      rw [morphGo_cons]
      obtain ⟨h1, h2, h3⟩ := weakWF_cons.1 hs
      have hd := morphDur_nonneg sel src tgt h1 (ht tgt (by simp))
      have hse : newStart prev src ≤ newStart prev src + morphDur sel src tgt := le_add_of_nonneg _ hd
      obtain ⟨ihw, ihb⟩ := ih (some (src.e, newStart prev src + morphDur sel src tgt)) ts h3
        (fun x hx => ht x (List.mem_cons_of_mem _ hx))
        (fun p hp' x hx => by cases hp'; exact h2 x hx)
      have hns : ∀ p, prev = some p → p.2 ≤ newStart prev src := by
        intro p hp'
        subst hp'
        obtain ⟨p1, p2⟩ := p
        exact le_add_of_nonneg _ (sub_nonneg (hp (p1, p2) rfl src (by simp)))
      refine ⟨weakWF_cons.2 ⟨hse, fun y hy => ihb y hy _ rfl, ihw⟩, ?_⟩
      intro o ho p hp'
      rcases List.mem_cons.1 ho with rfl | ho
      · exact hns p hp'
      · exact le_trans (hns p hp') (le_trans hse (ihb o ho _ rfl))

/-- **(f)** the list `morph` hands to the constructor: no overlap, no reversed interval -/
theorem morph_weakWF (sel : String → Bool) (ss ts : List (Iv α)) (hs : WeakWF ss) (ht : ∀ tgt ∈ ts, tgt.s ≤ tgt.e) :
    WeakWF (morphGo sel none ss ts) :=
  (morphGo_weakWF_aux sel ss none ts hs ht (fun p hp => by cases hp)).1

/-- every new interval is `⟨x, x + dur⟩` for the duration of a (source, target) pair -/
theorem morphGo_mem (sel : String → Bool) (ss : List (Iv α)) :
    ∀ (prev : Option (α × α)) (ts : List (Iv α)), ∀ o ∈ morphGo sel prev ss ts,
      ∃ src ∈ ss, ∃ tgt ∈ ts, o.e = o.s + morphDur sel src tgt ∧ o.l = src.l := by
  induction ss with
  | nil => intro prev ts o ho; rw [morphGo_nil_left] at ho; cases ho
  | cons src ss ih =>
    intro prev ts o ho
    cases ts with
    | nil => rw [morphGo_nil_right] at ho; cases ho
    | cons tgt ts =>
      rw [morphGo_cons] at ho
      rcases List.mem_cons.1 ho with rfl | ho
      · exact ⟨src, by simp, tgt, by simp, rfl, rfl⟩
      · obtain ⟨a, ha, b, hb, h⟩ := ih _ ts o ho
        exact ⟨a, List.mem_cons_of_mem _ ha, b, List.mem_cons_of_mem _ hb, h⟩

/-- **collapse in morph**: a new interval of zero length arises only by ABSORPTION — its duration is strictly positive
(source and target intervals have positive length, and the difference of distinct numbers is not zero) but adding it
to the new start does not move the start (`x + dur ≤ x`) -/
theorem morph_collapse (sel : String → Bool) (prev : Option (α × α)) (ss ts : List (Iv α))
    (hs : StrictIn ss) (ht : StrictIn ts) (o : Iv α) (ho : o ∈ morphGo sel prev ss ts) (hc : ¬ o.s < o.e) :
    ∃ src ∈ ss, ∃ tgt ∈ ts, Tm.zero < morphDur sel src tgt ∧ o.e = o.s + morphDur sel src tgt ∧
      o.s + morphDur sel src tgt ≤ o.s := by
  obtain ⟨src, h1, tgt, h2, h3, _⟩ := morphGo_mem sel ss prev ts o ho
  refine ⟨src, h1, tgt, h2, morphDur_pos sel src tgt (hs src h1) (ht tgt h2), h3, ?_⟩
  rw [← h3]; exact not_lt.1 hc

theorem morph_refuses_iff (sel : String → Bool) (t u : ITier α) (hl : t.es.length = u.es.length) (hne : t.es ≠ [])
    (ht : WeakWF t.es) (hu : ∀ tgt ∈ u.es, tgt.s ≤ tgt.e) :
    (t.morph u sel = .error .TextgridStateError ↔ ∃ o ∈ morphGo sel none t.es u.es, ¬ o.s < o.e) ∧
    ((∃ t', t.morph u sel = .ok t') ↔ StrictIn (morphGo sel none t.es u.es)) := by
  have hw := morph_weakWF sel t.es u.es ht hu
  obtain ⟨oe, hoe⟩ : ∃ oe, t.es.getLast? = some oe := ⟨_, List.getLast?_eq_some_getLast hne⟩
  have hne' : morphGo sel none t.es u.es ≠ [] := by
    cases h1 : t.es with
    | nil => exact absurd h1 hne
    | cons a as =>
      cases h2 : u.es with
      | nil => rw [h1, h2] at hl; simp at hl
      | cons b bs => rw [morphGo_cons]; simp
  obtain ⟨ne, hne2⟩ : ∃ ne, (morphGo sel none t.es u.es).getLast? = some ne :=
    ⟨_, List.getLast?_eq_some_getLast hne'⟩
  have hemp : (t.es.isEmpty && u.es.isEmpty) = false := by
    cases h1 : t.es with
    | nil => exact absurd h1 hne
    | cons _ _ => rfl
  unfold ITier.morph
  simp only [hemp, Bool.false_eq_true, if_false, ne_eq, hl, not_true_eq_false, hne2, hoe]
  exact mkITier_refuses_iff t.name _ _ _ hw

/-- **no overlap from rounding — morph**.  For ANY arithmetic satisfying the laws, any source tier without overlap whose
entries have positive length and any target tier of the same length with entries of positive length: the re-timed
list has no overlap and no reversed interval; the call succeeds unless some strictly positive duration was absorbed
by the new start it was added to (`x + dur ≤ x`) — then `TextgridStateError`. -/
theorem no_overlap_from_rounding_morph (sel : String → Bool) (t u : ITier α) (hl : t.es.length = u.es.length)
    (hne : t.es ≠ []) (ht : WeakWF t.es) (hts : StrictIn t.es) (hus : StrictIn u.es) :
    WeakWF (morphGo sel none t.es u.es) ∧
    ((∃ t', t.morph u sel = .ok t') ∨
     (t.morph u sel = .error .TextgridStateError ∧
      ∃ o ∈ morphGo sel none t.es u.es, ∃ src ∈ t.es, ∃ tgt ∈ u.es,
        Tm.zero < morphDur sel src tgt ∧ o.s + morphDur sel src tgt ≤ o.s)) := by
  have hu : ∀ tgt ∈ u.es, tgt.s ≤ tgt.e := fun x hx => le_of_lt (hus x hx)
  refine ⟨morph_weakWF sel t.es u.es ht hu, ?_⟩
  have hr := morph_refuses_iff sel t u hl hne ht hu
  by_cases hst : StrictIn (morphGo sel none t.es u.es)
  · exact .inl (hr.2.2 hst)
  · right
    have hc : ∃ o ∈ morphGo sel none t.es u.es, ¬ o.s < o.e :=
      Classical.byContradiction fun hn =>
        hst (fun x hx => Classical.byContradiction fun h' => hn ⟨x, hx, h'⟩)
    obtain ⟨o, ho, hoc⟩ := hc
    obtain ⟨src, h1, tgt, h2, h3, _, h5⟩ := morph_collapse sel none t.es u.es hts hus o ho hoc
    exact ⟨hr.1.2 ⟨o, ho, hoc⟩, o, ho, src, h1, tgt, h2, h3, h5⟩

/-! ## (g) appendTier / appendTextgrid: shift of the appended entries by the end `h` of the first tier, concatenation -/

/-- a shifted (and possibly clipped) entry of the appended tier starts at or after `h` -/
theorem shiftClip_start_ge {h lo hi : α} {iv out : Iv α} (h0 : Tm.zero ≤ iv.s)
    (ho : (shiftClip h lo hi iv).2 = some out) : h ≤ out.s := by
  have hh : h ≤ h + iv.s := le_add_of_nonneg h h0
  obtain ⟨_, ⟨h1, rfl⟩ | ⟨_, rfl⟩⟩ := shiftClip_cases ho
  · exact le_of_lt (lt_of_le_of_lt hh h1)
  · exact hh

/-- **(g)** entries `A` that end by `h`, followed by the entries `B` (not starting before zero) shifted by `h`: no
overlap, no reversed interval.  This is the list of `IntervalTier.appendTier` (`h` = the first tier's end) and of the
concatenation `catTier` in `Textgrid.appendTextgrid` (`h` = the first textgrid's end); neither wrapper does any
arithmetic on entry times of its own. -/
theorem append_shift_weakWF (h lo hi : α) (A B : List (Iv α)) (hA : WeakWF A) (hAb : ∀ iv ∈ A, iv.e ≤ h)
    (hB : WeakWF B) (hB0 : ∀ iv ∈ B, Tm.zero ≤ iv.s) :
    WeakWF (A ++ (B.map (shiftClip h lo hi)).filterMap (·.2)) := by
  have hS := edit_weakWF h lo hi B hB
  refine ⟨?_, List.pairwise_append.2 ⟨hA.2, hS.2, ?_⟩⟩
  · intro o ho
    rcases List.mem_append.1 ho with ho | ho
    · exact hA.1 o ho
    · exact hS.1 o ho
  · intro p hp q hq
    rw [List.filterMap_map] at hq
    obtain ⟨iv, hiv, hf⟩ := List.mem_filterMap.1 hq
    exact le_trans (hAb p hp) (shiftClip_start_ge (hB0 iv hiv) hf)

theorem weakWF_append_strip {A B : List (Iv α)} (h : WeakWF (A ++ B)) : WeakWF (A ++ B.map stripIv) := by
  refine ⟨?_, List.pairwise_append.2 ⟨(List.pairwise_append.1 h.2).1, (weakWF_strip ⟨fun o ho => h.1 o (List.mem_append_right _ ho), (List.pairwise_append.1 h.2).2.1⟩).2, ?_⟩⟩
  · intro o ho
    rcases List.mem_append.1 ho with ho | ho
    · exact h.1 o (List.mem_append_left _ ho)
    · obtain ⟨iv, hiv, rfl⟩ := List.mem_map.1 ho
      exact h.1 iv (List.mem_append_right _ hiv)
  · intro p hp q hq
    obtain ⟨iv, hiv, rfl⟩ := List.mem_map.1 hq
    exact (List.pairwise_append.1 h.2).2.2 p hp iv hiv

/-- `appendTier`: the only step that can refuse is the shift of the appended tier (a sliver `s < e` with
`h + e ≤ h + s`); once the shift is accepted, sorting leaves the concatenation as it is and the final constructor
accepts it: B's entries are placed after A's end -/
theorem appendTier_refuses_iff (t u : ITier α) (ht : WeakWF t.es) (hts : StrictIn t.es)
    (htb : ∀ iv ∈ t.es, iv.e ≤ t.hi) (hu : WeakWF u.es) (hu0 : ∀ iv ∈ u.es, Tm.zero ≤ iv.s) :
    (t.appendTier u = .error .TextgridStateError ↔
      ∃ o ∈ (u.es.map (shiftClip t.hi u.lo u.hi)).filterMap (·.2), ¬ o.s < o.e) ∧
    ((∃ r, t.appendTier u = .ok r) ↔ StrictIn ((u.es.map (shiftClip t.hi u.lo u.hi)).filterMap (·.2))) ∧
    (∀ r, t.appendTier u = .ok r →
      r.es = (t.es ++ ((u.es.map (shiftClip t.hi u.lo u.hi)).filterMap (·.2)).map stripIv).map stripIv) := by
  have hrep : ¬ (Report.silence = .error ∧ (u.es.map (shiftClip t.hi u.lo u.hi)).any (·.1)) := fun h => by cases h.1
  have hedit := editTimestamps_refuses_iff u t.hi .silence hu hrep
  by_cases hst : StrictIn ((u.es.map (shiftClip t.hi u.lo u.hi)).filterMap (·.2))
  · -- the shift is accepted
    have hw := edit_weakWF t.hi u.lo u.hi u.es hu
    obtain ⟨u', hu', hes, _⟩ : ∃ u', u.editTimestamps t.hi .silence = .ok u' ∧
        u'.es = ((u.es.map (shiftClip t.hi u.lo u.hi)).filterMap (·.2)).map stripIv ∧ u'.name = u.name := by
      unfold ITier.editTimestamps
      simp only [hrep, if_false]
      exact mkITier_ok_of_strict u.name _ _ _ hw hst
    have hcat := weakWF_append_strip (append_shift_weakWF t.hi u.lo u.hi t.es u.es ht htb hu hu0)
    have hcs : StrictIn (t.es ++ ((u.es.map (shiftClip t.hi u.lo u.hi)).filterMap (·.2)).map stripIv) := by
      intro o ho
      rcases List.mem_append.1 ho with ho | ho
      · exact hts o ho
      · exact strictIn_strip.2 hst o ho
    obtain ⟨r, hr, hres, _⟩ := mkITier_ok_of_strict t.name _ t.lo (t.hi + u.hi) hcat hcs
    have happ : t.appendTier u = .ok r := by
      unfold ITier.appendTier
      rw [hu']
      simp only [bind, Except.bind, ITier.new, Option.getD_some, Option.getD_none, hes,
        sortIvs_of_weakWF _ hcat hcs]
      exact hr
    refine ⟨⟨fun he => ?_, fun ⟨o, ho, hn⟩ => absurd (hst o ho) hn⟩, ⟨fun _ => hst, fun _ => ⟨r, happ⟩⟩, ?_⟩
    · rw [happ] at he; cases he
    · intro r' hr'
      rw [happ] at hr'; cases hr'; exact hres
  · have hc : ∃ o ∈ (u.es.map (shiftClip t.hi u.lo u.hi)).filterMap (·.2), ¬ o.s < o.e :=
      Classical.byContradiction fun hn =>
        hst (fun x hx => Classical.byContradiction fun h' => hn ⟨x, hx, h'⟩)
    have herr : t.appendTier u = .error .TextgridStateError := by
      unfold ITier.appendTier
      rw [hedit.1.2 hc]
      rfl
    refine ⟨⟨fun _ => hc, fun _ => herr⟩, ⟨fun ⟨r, hr⟩ => ?_, fun h => absurd h hst⟩, ?_⟩
    · rw [herr] at hr; cases hr
    · intro r hr; rw [herr] at hr; cases hr

/-- **no overlap from rounding — appendTier**.  For ANY arithmetic satisfying the laws: if A's entries do not overlap, have
positive length and end by A's end, and B's entries do not overlap, have positive length and do not start before
zero, then the concatenated list has no overlap and no reversed interval, B's entries lie at or after A's end, and
`appendTier` succeeds unless a sliver of B collapsed under the shift (`h + e ≤ h + s` although `s < e`) — then
`TextgridStateError`. -/
theorem no_overlap_from_rounding_appendTier (t u : ITier α) (ht : WeakWF t.es) (hts : StrictIn t.es)
    (htb : ∀ iv ∈ t.es, iv.e ≤ t.hi) (hu : WeakWF u.es) (hus : StrictIn u.es) (hu0 : ∀ iv ∈ u.es, Tm.zero ≤ iv.s) :
    WeakWF (t.es ++ (u.es.map (shiftClip t.hi u.lo u.hi)).filterMap (·.2)) ∧
    (∀ o ∈ (u.es.map (shiftClip t.hi u.lo u.hi)).filterMap (·.2), t.hi ≤ o.s) ∧
    ((∃ r, t.appendTier u = .ok r) ∨
     (t.appendTier u = .error .TextgridStateError ∧
      ∃ iv ∈ u.es, iv.s < iv.e ∧ t.hi + iv.e ≤ t.hi + iv.s)) := by
  refine ⟨append_shift_weakWF t.hi u.lo u.hi t.es u.es ht htb hu hu0, ?_, ?_⟩
  · intro o ho
    rw [List.filterMap_map] at ho
    obtain ⟨iv, hiv, hf⟩ := List.mem_filterMap.1 ho
    exact shiftClip_start_ge (hu0 iv hiv) hf
  · have hr := appendTier_refuses_iff t u ht hts htb hu hu0
    by_cases hst : StrictIn ((u.es.map (shiftClip t.hi u.lo u.hi)).filterMap (·.2))
    · exact .inl (hr.2.1.2 hst)
    · right
      have hc : ∃ o ∈ (u.es.map (shiftClip t.hi u.lo u.hi)).filterMap (·.2), ¬ o.s < o.e :=
        Classical.byContradiction fun hn =>
          hst (fun x hx => Classical.byContradiction fun h' => hn ⟨x, hx, h'⟩)
      obtain ⟨x, hx, hxc⟩ := hc
      obtain ⟨iv, hiv, h1, _, h3⟩ := edit_collapse t.hi u.lo u.hi u.es hus x hx hxc
      exact ⟨hr.1.2 ⟨x, hx, hxc⟩, iv, hiv, h1, h3⟩

/-- `PointTier.appendTier`: every point of the shifted tier B lies at or after A's end, hence after every point of A:
rounding cannot move a point of B before a point of A (and `pedit_sorted`: it cannot swap two points of B) -/
theorem pappendTier_cross (t u u' : PTier α) (htb : ∀ p ∈ t.ps, p.t ≤ t.hi) (hu0 : ∀ p ∈ u.ps, Tm.zero ≤ p.t)
    (h : u.editTimestamps t.hi .silence = .ok u') :
    (∀ q ∈ u'.ps, t.hi ≤ q.t) ∧ ∀ p ∈ t.ps, ∀ q ∈ u'.ps, p.t ≤ q.t := by
  have h1 : ∀ q ∈ u'.ps, t.hi ≤ q.t := by
    rw [peditTimestamps_eq] at h
    have hrep : ¬ (Report.silence = .error ∧
        (u.ps.map fun p => (p.t + t.hi, p.l)).any (fun x => decide (x.1 < u.lo) || decide (u.hi < x.1))) :=
      fun h => by cases h.1
    simp only [hrep, if_false] at h
    unfold mkPTier at h
    dsimp only at h
    split at h
    · cases h
      intro q hq
      have hq' := (List.mergeSort_perm _ _).mem_iff.1 hq
      obtain ⟨q0, hq0, rfl⟩ := List.mem_map.1 hq'
      unfold peditList at hq0
      rw [List.filterMap_map] at hq0
      obtain ⟨p, hp, hf⟩ := List.mem_filterMap.1 hq0
      simp only [Function.comp] at hf
      split at hf
      · cases hf
      · cases hf
        exact le_trans (le_add_of_nonneg t.hi (hu0 p hp)) (add_comm_le _ _)
    · cases h
  exact ⟨h1, fun p hp q hq => le_trans (htb p hp) (h1 q hq)⟩

end Generic2

/-! ## the characterisation is tight: under the laws a collapse (and hence a refusal) really can happen

In the toy format `1 + 6 = 7 ↦ 8 = 2 + 6`: the entry `⟨1, 2⟩` shifted by `6` collapses to `⟨8, 8⟩`, and the
constructor refuses — no overlap, no reversal, only a sliver that rounded to nothing. -/

def toyTier : ITier Toy := ⟨"T", [⟨Toy.of 0, Toy.of 1, "a"⟩, ⟨Toy.of 1, Toy.of 2, "b"⟩], Toy.of 0, Toy.of 4⟩

theorem toyTier_wf : WeakWF toyTier.es ∧ StrictIn toyTier.es := by
  refine ⟨⟨?_, ?_⟩, ?_⟩ <;> simp [toyTier, StrictIn] <;> decide

theorem toy_space_out :
    spaceAll (Toy.of 0) (Toy.of 6) .split toyTier.es =
      some [⟨Toy.of 6, Toy.of 8, "a"⟩, ⟨Toy.of 8, Toy.of 8, "b"⟩] := by decide

/-- a tier with positive, non-overlapping entries whose `insertSpace` is refused because a sliver collapsed -/
theorem toy_insertSpace_collapse :
    toyTier.insertSpace (Toy.of 0) (Toy.of 6) .split = .error .TextgridStateError :=
  (insertSpace_refuses_iff toyTier (Toy.of 0) (Toy.of 6) (by decide) .split toyTier_wf.1 _ toy_space_out).1.2
    ⟨⟨Toy.of 8, Toy.of 8, "b"⟩, by simp, by decide⟩

/-- the A21 branch is reachable under the laws: splitting `⟨0, 2⟩` at `1` with `d = 6` gives `1 + 6 ↦ 8 = 2 + 6`,
the right-hand remainder is not strictly positive and is dropped -/
theorem toy_split_remainder_dropped :
    spaceOne (Toy.of 1) (Toy.of 6) .split ⟨Toy.of 0, Toy.of 2, "a"⟩ = some [⟨Toy.of 0, Toy.of 1, "a"⟩] := by decide

/-- morph: the duration `1` is absorbed by the new start `8` (`8 + 1 = 9 ↦ 8`): the re-timed entry collapses and the
constructor refuses -/
def toyMorphSrc : ITier Toy := ⟨"T", [⟨Toy.of 8, Toy.of 10, "a"⟩], Toy.of 0, Toy.of 10⟩
def toyMorphTgt : ITier Toy := ⟨"U", [⟨Toy.of 0, Toy.of 1, "a"⟩], Toy.of 0, Toy.of 10⟩

theorem toy_morph_collapse :
    toyMorphSrc.morph toyMorphTgt (fun _ => true) = .error .TextgridStateError :=
  (morph_refuses_iff (fun _ => true) toyMorphSrc toyMorphTgt rfl (by simp [toyMorphSrc])
    (by refine ⟨?_, ?_⟩ <;> simp [toyMorphSrc] <;> decide) (by simp [toyMorphTgt]; decide)).1.2
    ⟨⟨Toy.of 8, Toy.of 8, "a"⟩, by decide, by decide⟩

end LayerR

