import PraatModel.Textgrid
import PraatModel.Lemmas.Tier

/-!
# C12 — a textgrid is an ordered map of uniquely named tiers; C13 — mutators are all-or-nothing

`Tg Int` with `addTier / removeTier / renameTier / replaceTier` is compared with a plain ordered-list
specification (`Spec`, `specStep`): same names, same order, same tiers, same span, same exception
(`step_refines_spec`, `run_refines_spec`).  The ingredients are stated separately: `addTier_dup`, `addTier_spec`,
`pyListInsert_spec`, `names_nodup_step/run`, `span_widens`, `addTier_span`, `covered_run`,
`removeTier_spec`, `renameTier_spec`, `replaceTier_spec`; `mutator_atomic` is the C13 statement of the pure model.

`renameTier` re-runs the tier constructor (`oldTier.new(newName, …)`).  The specification does the same, so the
refinement theorem needs no hypothesis about it; `renameTier_spec` takes the successful re-validation as a
hypothesis, and `renew_of_wf` / `renameTier_wf` discharge it for well-formed tiers (that is the only use of
`Lemmas.Tier`).

The textgrid-level `crop / eraseRegion / insertSpace / editTimestamps` are shown to be the tier-level
operation applied to each tier, in order, under the same names (`tgop_tiers`, `tgop_names`, `tgop_ok`);
`mergeTiers_spec` describes `mergeTiers`.  A `#guard`-evaluated run closes the file.
-/
namespace C12

/-! ## `list.insert` -/

/-- Python's clamping of an insertion index into a list of length `n` -/
def clampIdx (n : Nat) (i : Int) : Nat :=
  (if i < 0 then max 0 (i + (n : Int)) else min i (n : Int)).toNat

theorem clampIdx_le (n : Nat) (i : Int) : clampIdx n i ≤ n := by
  unfold clampIdx; split <;> omega

theorem pyListInsert_eq {β} (l : List β) (i : Int) (x : β) :
    pyListInsert l i x = l.take (clampIdx l.length i) ++ x :: l.drop (clampIdx l.length i) := by
  have h : (if i < 0 then (if i + (l.length : Int) < 0 then 0 else i + (l.length : Int))
        else (if i > (l.length : Int) then (l.length : Int) else i)).toNat = clampIdx l.length i := by
    unfold clampIdx; split <;> split <;> omega
  unfold pyListInsert
  simp only [h]

theorem pyListInsert_length {β} (l : List β) (i : Int) (x : β) :
    (pyListInsert l i x).length = l.length + 1 := by
  have := clampIdx_le l.length i
  rw [pyListInsert_eq]; simp; omega

theorem pyListInsert_get {β} (l : List β) (i : Int) (x : β) :
    (pyListInsert l i x)[clampIdx l.length i]? = some x := by
  have := clampIdx_le l.length i
  rw [pyListInsert_eq, List.getElem?_append_right (by rw [List.length_take]; omega)]
  simp [Nat.min_eq_left this]

theorem pyListInsert_eraseIdx {β} (l : List β) (i : Int) (x : β) :
    (pyListInsert l i x).eraseIdx (clampIdx l.length i) = l := by
  have := clampIdx_le l.length i
  rw [pyListInsert_eq, List.eraseIdx_append_of_length_le (by rw [List.length_take]; omega)]
  simp [Nat.min_eq_left this]

theorem insertIdx_take_drop {β} (l : List β) (k : Nat) (x : β) (h : k ≤ l.length) : l.insertIdx k x = l.take k ++ x :: l.drop k := by
  induction l generalizing k with
  | nil => 
    have : k = 0 := by simpa using h
    subst this; simp
  | cons a l ih =>
    cases k with
    | zero => simp
    | succ k => 
      simp [List.insertIdx_succ_cons, ih k (by simpa using h)]

theorem pyListInsert_insertIdx {β} (l : List β) (i : Int) (x : β) :
    pyListInsert l i x = l.insertIdx (clampIdx l.length i) x := by
  rw [pyListInsert_eq, insertIdx_take_drop _ _ _ (clampIdx_le _ _)]

theorem mem_pyListInsert {β} (l : List β) (i : Int) (x y : β) :
    y ∈ pyListInsert l i x ↔ y = x ∨ y ∈ l := by
  rw [pyListInsert_eq]
  constructor
  · intro h
    rcases List.mem_append.1 h with h | h
    · exact Or.inr (List.mem_of_mem_take h)
    · rcases List.mem_cons.1 h with h | h
      · exact Or.inl h
      · exact Or.inr (List.mem_of_mem_drop h)
  · rintro (h | h)
    · simp [h]
    · rw [← List.take_append_drop (clampIdx l.length i) l] at h
      rcases List.mem_append.1 h with h | h
      · exact List.mem_append_left _ h
      · exact List.mem_append_right _ (List.mem_cons_of_mem _ h)

theorem pyListInsert_nat {β} (l : List β) (k : Nat) (x : β) :
    pyListInsert l (k : Int) x = l.take k ++ x :: l.drop k := by
  rw [pyListInsert_eq]
  by_cases h : k ≤ l.length
  · have : clampIdx l.length (k : Int) = k := by unfold clampIdx; split <;> omega
    rw [this]
  · have : clampIdx l.length (k : Int) = l.length := by unfold clampIdx; split <;> omega
    rw [this, List.take_of_length_le (by omega : l.length ≤ k), List.drop_of_length_le (by omega : l.length ≤ k)]
    simp
/-! ## operations, runs, and the ordered-list specification -/

inductive TgOp
  | add (t : AnyTier Int) (idx : Option Int) (rep : Report)
  | remove (n : String)
  | rename (old new : String)
  | replace (n : String) (t : AnyTier Int) (rep : Report)

def step (g : Tg Int) : TgOp → Except Err (Tg Int)
  | .add t idx rep => g.addTier t idx rep
  | .remove n => g.removeTier n
  | .rename o n => g.renameTier o n
  | .replace n t rep => g.replaceTier n t rep

def run (g : Tg Int) : List TgOp → Tg Int
  | [] => g
  | op :: ops =>
    match step g op with
    | .ok g' => run g' ops
    | .error _ => run g ops

structure Spec where
  tiers : List (AnyTier Int)
  lo : Option Int
  hi : Option Int

def Spec.names (s : Spec) : List String := s.tiers.map (·.name)

def widenLo (o : Option Int) (x : Int) : Int :=
  match o with | none => x | some l => min l x
def widenHi (o : Option Int) (x : Int) : Int :=
  match o with | none => x | some h => max h x

def spanChanges (lo hi : Option Int) (t : AnyTier Int) : Bool :=
  lo.any (fun l => decide (t.lo < l)) || hi.any (fun h => decide (h < t.hi))

def subst (l : List (AnyTier Int)) (n : String) (t : AnyTier Int) : List (AnyTier Int) :=
  l.map fun u => if u.name = n then t else u

/-- Python's `dict[name] = tier` (append) or `list.insert(idx, …)` -/
def insAt (l : List (AnyTier Int)) (idx : Option Int) (t : AnyTier Int) : List (AnyTier Int) :=
  match idx with
  | none => l ++ [t]
  | some i => pyListInsert l i t

def Spec.widen (s : Spec) (tiers : List (AnyTier Int)) (t : AnyTier Int) : Spec :=
  ⟨tiers, some (widenLo s.lo t.lo), some (widenHi s.hi t.hi)⟩

def specStep (s : Spec) : TgOp → Except Err Spec
  | .add t idx rep =>
    if t.name ∈ s.names then .error .TierNameExistsError
    else if rep = .error ∧ spanChanges s.lo s.hi t then .error .TextgridStateAutoModified
    else .ok (s.widen (insAt s.tiers idx t) t)
  | .remove n =>
    if n ∈ s.names then .ok { s with tiers := s.tiers.filter (fun u => u.name ≠ n) }
    else .error .KeyError
  | .rename old new =>
    match s.tiers.find? (fun u => u.name == old) with
    | none => .error .KeyError
    | some t =>
      if new ≠ old ∧ new ∈ s.names then .error .TierNameExistsError
      else do
        let t' ← t.renew (name := some new)
        pure (s.widen (subst s.tiers old t') t')
  | .replace n t rep =>
    if n ∉ s.names then .error .ValueError
    else if t.name ≠ n ∧ t.name ∈ s.names then .error .TierNameExistsError
    else if rep = .error ∧ spanChanges s.lo s.hi t then .error .TextgridStateAutoModified
    else .ok (s.widen (subst s.tiers n t) t)

def abs (g : Tg Int) : Spec := ⟨g.tiers, g.lo, g.hi⟩

theorem addTier_dup (g : Tg Int) (t : AnyTier Int) (idx : Option Int) (rep : Report)
    (h : t.name ∈ g.names) : g.addTier t idx rep = .error .TierNameExistsError := by
  unfold Tg.addTier
  rw [if_pos (List.contains_iff_mem.2 h)]

theorem spanChanges_iff (lo hi : Option Int) (t : AnyTier Int) :
    spanChanges lo hi t = true ↔ (∃ l, lo = some l ∧ t.lo < l) ∨ (∃ h, hi = some h ∧ h < t.hi) := by
  cases lo <;> cases hi <;> simp [spanChanges]

/-- `addTier` on a fresh name, in one equation -/
theorem addTier_fresh (g : Tg Int) (t : AnyTier Int) (idx : Option Int) (rep : Report)
    (hn : t.name ∉ g.names) :
    g.addTier t idx rep =
      if rep = .error ∧ spanChanges g.lo g.hi t = true then .error .TextgridStateAutoModified
      else .ok ⟨insAt g.tiers idx t,
                some (widenLo g.lo t.lo), some (widenHi g.hi t.hi)⟩ := by
  unfold Tg.addTier
  rw [if_neg (by rw [List.contains_iff_mem]; exact hn)]
  obtain ⟨tiers, lo, hi⟩ := g
  have m1 : ∀ a b : Int, (if a < b then a else b) = min b a := by intro a b; split <;> omega
  have m2 : ∀ a b : Int, (if a < b then b else a) = max a b := by intro a b; split <;> omega
  cases idx <;> cases lo <;> cases hi <;> simp [spanChanges, widenLo, widenHi, m1, m2, insAt]


theorem addTier_inv {g g' : Tg Int} {t : AnyTier Int} {idx : Option Int} {rep : Report}
    (h : g.addTier t idx rep = .ok g') :
    t.name ∉ g.names ∧ ¬ (rep = .error ∧ spanChanges g.lo g.hi t = true) ∧
    g' = ⟨insAt g.tiers idx t,
          some (widenLo g.lo t.lo), some (widenHi g.hi t.hi)⟩ := by
  by_cases hn : t.name ∈ g.names
  · rw [addTier_dup g t idx rep hn] at h; cases h
  · rw [addTier_fresh g t idx rep hn] at h
    split at h
    · cases h
    · rename_i hc
      exact ⟨hn, hc, (Except.ok.inj h).symm⟩

/-! ### names, positions, filtering and substitution in a list of tiers -/

def namesOf (l : List (AnyTier Int)) : List String := l.map (·.name)

def idxOf (l : List (AnyTier Int)) (n : String) : Option Nat := (namesOf l).findIdx? (· == n)

theorem idxOf_cons (a : AnyTier Int) (l : List (AnyTier Int)) (n : String) :
    idxOf (a :: l) n = if a.name = n then some 0 else (idxOf l n).map (· + 1) := by
  simp [idxOf, namesOf, List.findIdx?_cons]

theorem idxOf_none_iff (l : List (AnyTier Int)) (n : String) : idxOf l n = none ↔ n ∉ namesOf l := by
  simp only [idxOf, List.findIdx?_eq_none_iff]
  constructor
  · intro h hm; simpa using h n hm
  · intro h x hx; simp; rintro rfl; exact h hx

theorem idxOf_isSome_iff (l : List (AnyTier Int)) (n : String) : (∃ k, idxOf l n = some k) ↔ n ∈ namesOf l := by
  cases h : idxOf l n with
  | none => simpa using (idxOf_none_iff l n).1 h
  | some k =>
    have : ¬ (n ∉ namesOf l) := fun hn => by rw [(idxOf_none_iff l n).2 hn] at h; cases h
    simpa using this

def dropName (l : List (AnyTier Int)) (n : String) : List (AnyTier Int) := l.filter (·.name != n)

theorem dropName_of_not_mem {l : List (AnyTier Int)} {n : String} (h : n ∉ namesOf l) : dropName l n = l := by
  apply List.filter_eq_self.2
  intro u hu
  simp only [bne_iff_ne, ne_eq]
  rintro rfl
  exact h (List.mem_map_of_mem hu)

theorem subst_of_not_mem {l : List (AnyTier Int)} {n : String} (t : AnyTier Int) (h : n ∉ namesOf l) :
    subst l n t = l := by
  unfold subst
  conv => rhs; rw [← List.map_id l]
  apply List.map_congr_left
  intro u hu
  rw [if_neg]; rfl
  rintro rfl
  exact h (List.mem_map_of_mem hu)

theorem mem_names_dropName {l : List (AnyTier Int)} {n m : String} :
    m ∈ namesOf (dropName l n) ↔ m ≠ n ∧ m ∈ namesOf l := by
  simp only [namesOf, dropName, List.mem_map, List.mem_filter, bne_iff_ne, ne_eq]
  constructor
  · rintro ⟨u, ⟨hu, hne⟩, rfl⟩; exact ⟨hne, u, hu, rfl⟩
  · rintro ⟨hne, u, hu, rfl⟩; exact ⟨u, ⟨hu, hne⟩, rfl⟩

theorem nodup_dropName {l : List (AnyTier Int)} (n : String) (h : (namesOf l).Nodup) :
    (namesOf (dropName l n)).Nodup :=
  h.sublist (List.Sublist.map _ List.filter_sublist)

/-- removing the tier called `n` and re-inserting a tier at its old position is substitution in place -/
theorem insert_dropName {l : List (AnyTier Int)} {n : String} {k : Nat} (t : AnyTier Int)
    (hnd : (namesOf l).Nodup) (hk : idxOf l n = some k) :
    pyListInsert (dropName l n) (k : Int) t = subst l n t := by
  rw [pyListInsert_nat]
  induction l generalizing k with
  | nil => simp [idxOf, namesOf] at hk
  | cons a l ih =>
    rw [idxOf_cons] at hk
    have hnd' : (namesOf l).Nodup := (List.nodup_cons.1 hnd).2
    have ha : a.name ∉ namesOf l := (List.nodup_cons.1 hnd).1
    by_cases han : a.name = n
    · rw [if_pos han] at hk; cases hk
      subst han
      have : dropName (a :: l) a.name = l := by
        simp only [dropName, List.filter_cons, bne_self_eq_false, Bool.false_eq_true, if_false]
        exact dropName_of_not_mem ha
      rw [this]
      simp [subst]
      exact (subst_of_not_mem t ha).symm
    · rw [if_neg han] at hk
      cases hj : idxOf l n with
      | none => rw [hj] at hk; cases hk
      | some j =>
        rw [hj] at hk; cases hk
        have : dropName (a :: l) n = a :: dropName l n := by
          simp [dropName, han]
        rw [this]
        have := ih hnd' hj
        simp only [List.take_succ_cons, List.drop_succ_cons, List.cons_append]
        rw [this]
        simp [subst, han]

theorem subst_eq_set {l : List (AnyTier Int)} {n : String} {k : Nat} (t : AnyTier Int)
    (hnd : (namesOf l).Nodup) (hk : idxOf l n = some k) : subst l n t = l.set k t := by
  induction l generalizing k with
  | nil => simp [idxOf, namesOf] at hk
  | cons a l ih =>
    rw [idxOf_cons] at hk
    have hnd' : (namesOf l).Nodup := (List.nodup_cons.1 hnd).2
    have ha : a.name ∉ namesOf l := (List.nodup_cons.1 hnd).1
    by_cases han : a.name = n
    · rw [if_pos han] at hk; cases hk
      subst han
      have := subst_of_not_mem t ha
      simp only [subst] at this
      simp [subst, this]
    · rw [if_neg han] at hk
      cases hj : idxOf l n with
      | none => rw [hj] at hk; cases hk
      | some j =>
        rw [hj] at hk; cases hk
        have := ih hnd' hj
        simp only [subst] at this
        simp [subst, han, this]

theorem dropName_eq_eraseIdx {l : List (AnyTier Int)} {n : String} {k : Nat}
    (hnd : (namesOf l).Nodup) (hk : idxOf l n = some k) : dropName l n = l.eraseIdx k := by
  induction l generalizing k with
  | nil => simp [idxOf, namesOf] at hk
  | cons a l ih =>
    rw [idxOf_cons] at hk
    have hnd' : (namesOf l).Nodup := (List.nodup_cons.1 hnd).2
    have ha : a.name ∉ namesOf l := (List.nodup_cons.1 hnd).1
    by_cases han : a.name = n
    · rw [if_pos han] at hk; cases hk
      subst han
      simp only [dropName, List.filter_cons, bne_self_eq_false, Bool.false_eq_true, if_false, List.eraseIdx_zero, List.tail_cons]
      exact dropName_of_not_mem ha
    · rw [if_neg han] at hk
      cases hj : idxOf l n with
      | none => rw [hj] at hk; cases hk
      | some j =>
        rw [hj] at hk; cases hk
        have := ih hnd' hj
        simp only [dropName] at this
        simp [dropName, han, this]

theorem idxOf_spec {l : List (AnyTier Int)} {n : String} {k : Nat} (hk : idxOf l n = some k) :
    ∃ u, l[k]? = some u ∧ u.name = n ∧ ∀ j, j < k → ∀ v, l[j]? = some v → v.name ≠ n := by
  induction l generalizing k with
  | nil => simp [idxOf, namesOf] at hk
  | cons a l ih =>
    rw [idxOf_cons] at hk
    by_cases han : a.name = n
    · rw [if_pos han] at hk; cases hk
      exact ⟨a, rfl, han, by intro j hj; omega⟩
    · rw [if_neg han] at hk
      cases hj : idxOf l n with
      | none => rw [hj] at hk; cases hk
      | some j =>
        rw [hj] at hk; cases hk
        obtain ⟨u, h1, h2, h3⟩ := ih hj
        refine ⟨u, by simpa using h1, h2, ?_⟩
        intro i hi v hv
        cases i with
        | zero => simp at hv; subst hv; exact han
        | succ i =>
          have hi' : i + 1 < j + 1 := hi
          exact h3 i (by omega) v (by simpa using hv)

/-! ### constructors keep the name they are given -/

theorem mkITier_name {n : String} {es : List (Iv Int)} {lo hi : Option Int} {t : ITier Int}
    (h : mkITier n es lo hi = .ok t) : t.name = n := by
  unfold mkITier at h
  simp only at h
  split at h
  · split at h
    · cases h; rfl
    · cases h
  · cases h

theorem mkPTier_name {n : String} {ps : List (Pt Int)} {lo hi : Option Int} {t : PTier Int}
    (h : mkPTier n ps lo hi = .ok t) : t.name = n := by
  unfold mkPTier at h
  simp only at h
  split at h
  · cases h; rfl
  · cases h

theorem map_ok {β γ} {f : β → γ} {x : Except Err β} {y : γ} (h : f <$> x = .ok y) :
    ∃ z, x = .ok z ∧ y = f z := by
  cases x with
  | error e => cases h
  | ok z => exact ⟨z, rfl, (Except.ok.inj h).symm⟩

theorem renew_name {t t' : AnyTier Int} {n : String} {lo hi : Option Int}
    (h : t.renew (name := some n) (lo := lo) (hi := hi) = .ok t') : t'.name = n := by
  cases t with
  | I t =>
    obtain ⟨z, hz, rfl⟩ := map_ok h
    exact mkITier_name hz
  | P t =>
    obtain ⟨z, hz, rfl⟩ := map_ok h
    exact mkPTier_name hz

/-! ### the four mutators, each in one equation -/

theorem removeTier_eq (g : Tg Int) (n : String) :
    g.removeTier n = if n ∈ g.names then .ok ⟨dropName g.tiers n, g.lo, g.hi⟩ else .error .KeyError := by
  unfold Tg.removeTier
  by_cases h : n ∈ g.names
  · rw [if_pos (List.contains_iff_mem.2 h), if_pos h]; rfl
  · rw [if_neg (by rw [List.contains_iff_mem]; exact h), if_neg h]

theorem replaceTier_eq (g : Tg Int) (n : String) (t : AnyTier Int) (rep : Report) (hnd : g.names.Nodup) :
    g.replaceTier n t rep =
      if n ∉ g.names then .error .ValueError
      else if t.name ≠ n ∧ t.name ∈ g.names then .error .TierNameExistsError
      else if rep = .error ∧ spanChanges g.lo g.hi t = true then .error .TextgridStateAutoModified
      else .ok ⟨subst g.tiers n t, some (widenLo g.lo t.lo), some (widenHi g.hi t.hi)⟩ := by
  unfold Tg.replaceTier
  have hi : g.indexOf n = idxOf g.tiers n := rfl
  rw [hi]
  cases hk : idxOf g.tiers n with
  | none =>
    have : n ∉ g.names := (idxOf_none_iff _ _).1 hk
    simp [this]
  | some k =>
    have hm : n ∈ g.names := (idxOf_isSome_iff _ _).1 ⟨k, hk⟩
    rw [if_neg (fun h => h hm), removeTier_eq, if_pos hm]
    simp only [bind, Except.bind]
    by_cases hc : t.name ≠ n ∧ t.name ∈ g.names
    · rw [if_pos hc, addTier_dup]
      exact mem_names_dropName.2 hc
    · rw [if_neg hc, addTier_fresh _ _ _ _ (fun h => hc (mem_names_dropName.1 h))]
      simp only [insAt, insert_dropName t hnd hk]

theorem find_name {l : List (AnyTier Int)} {n : String} {t : AnyTier Int}
    (h : l.find? (·.name == n) = some t) : t ∈ l ∧ t.name = n := by
  have := List.find?_some h
  exact ⟨List.mem_of_find?_eq_some h, by simpa using this⟩

theorem find_none {l : List (AnyTier Int)} {n : String}
    (h : l.find? (·.name == n) = none) : n ∉ namesOf l := by
  intro hm
  obtain ⟨u, hu, rfl⟩ := List.mem_map.1 hm
  have := List.find?_eq_none.1 h u hu
  simp at this

theorem renameTier_absent (g : Tg Int) (old new : String) (h : old ∉ g.names) :
    g.renameTier old new = .error .KeyError := by
  unfold Tg.renameTier Tg.getTier
  cases hf : g.tiers.find? (·.name == old) with
  | none => rfl
  | some t =>
    exact absurd (List.mem_map.2 ⟨t, (find_name hf).1, (find_name hf).2⟩) h

theorem renameTier_eq (g : Tg Int) (old new : String) (t : AnyTier Int) (hnd : g.names.Nodup)
    (hf : g.tiers.find? (·.name == old) = some t) :
    g.renameTier old new =
      if new ≠ old ∧ new ∈ g.names then .error .TierNameExistsError
      else (do
        let t' ← t.renew (name := some new)
        pure ⟨subst g.tiers old t', some (widenLo g.lo t'.lo), some (widenHi g.hi t'.hi)⟩) := by
  have hm : old ∈ g.names := List.mem_map.2 ⟨t, (find_name hf).1, (find_name hf).2⟩
  obtain ⟨k, hk⟩ := (idxOf_isSome_iff _ _).2 hm
  have hi : g.indexOf old = some k := hk
  unfold Tg.renameTier Tg.getTier
  simp only [hf, hi, Option.getD_some, bind, Except.bind]
  have hb : ((new != old && g.names.contains new) = true) ↔ (new ≠ old ∧ new ∈ g.names) := by
    rw [Bool.and_eq_true, bne_iff_ne, List.contains_iff_mem]
  by_cases hc : new ≠ old ∧ new ∈ g.names
  · rw [if_pos hc]
    have this : (new != old && g.names.contains new) = true := hb.2 hc
    simp only [this, if_true, throw, throwThe, MonadExceptOf.throw]
  · rw [if_neg hc]
    have this : (new != old && g.names.contains new) = false := by
      rw [← Bool.not_eq_true]; exact fun h => hc (hb.1 h)
    simp only [this, Bool.false_eq_true, if_false, pure, Except.pure, removeTier_eq, if_pos hm]
    cases hr : t.renew (name := some new) with
    | error e => rfl
    | ok t' =>
      simp only
      have hn : t'.name = new := renew_name hr
      have hfresh : t'.name ∉ (⟨dropName g.tiers old, g.lo, g.hi⟩ : Tg Int).names := by
        rw [hn]
        intro h
        have := mem_names_dropName.1 h
        exact hc this
      rw [addTier_fresh _ _ _ _ hfresh]
      simp [insAt, insert_dropName t' hnd hk]

/-! ### more list facts: uniqueness of names under insertion and substitution, look-up by position -/

theorem nodup_insAt {l : List (AnyTier Int)} (idx : Option Int) {t : AnyTier Int}
    (h : (namesOf l).Nodup) (ht : t.name ∉ namesOf l) : (namesOf (insAt l idx t)).Nodup := by
  cases idx with
  | none =>
    simp only [insAt, namesOf, List.map_append, List.map_cons, List.map_nil]
    apply List.nodup_append.2
    refine ⟨h, by simp, ?_⟩
    intro a ha b hb
    simp only [List.mem_singleton] at hb
    subst hb
    rintro rfl
    exact ht ha
  | some i =>
    simp only [insAt, pyListInsert_eq, namesOf, List.map_append, List.map_cons]
    rw [List.perm_middle.nodup_iff, ← List.map_append, List.take_append_drop]
    exact List.nodup_cons.2 ⟨ht, h⟩

theorem nodup_subst {l : List (AnyTier Int)} {n : String} {t : AnyTier Int}
    (h : (namesOf l).Nodup) (hc : ¬ (t.name ≠ n ∧ t.name ∈ namesOf l)) : (namesOf (subst l n t)).Nodup := by
  by_cases hn : n ∈ namesOf l
  · obtain ⟨k, hk⟩ := (idxOf_isSome_iff _ _).2 hn
    rw [← insert_dropName t h hk]
    exact nodup_insAt (some (k : Int)) (nodup_dropName n h) (fun hm => hc (mem_names_dropName.1 hm))
  · rw [subst_of_not_mem t hn]; exact h

theorem idxOf_of_getElem {l : List (AnyTier Int)} {k : Nat} {u : AnyTier Int}
    (h : (namesOf l).Nodup) (hu : l[k]? = some u) : idxOf l u.name = some k := by
  induction l generalizing k with
  | nil => simp at hu
  | cons a l ih =>
    have hnd' : (namesOf l).Nodup := (List.nodup_cons.1 h).2
    have ha : a.name ∉ namesOf l := (List.nodup_cons.1 h).1
    rw [idxOf_cons]
    cases k with
    | zero =>
      simp at hu; subst hu; simp
    | succ k =>
      have hu' : l[k]? = some u := by simpa using hu
      have : a.name ≠ u.name := by
        intro e; rw [e] at ha
        exact ha (List.mem_map.2 ⟨u, List.mem_of_getElem? hu', rfl⟩)
      rw [if_neg this, ih hnd' hu']
      rfl

theorem find_eq_getElem {l : List (AnyTier Int)} {n : String} {k : Nat} (hk : idxOf l n = some k) :
    l.find? (·.name == n) = l[k]? := by
  induction l generalizing k with
  | nil => simp [idxOf, namesOf] at hk
  | cons a l ih =>
    rw [idxOf_cons] at hk
    by_cases han : a.name = n
    · rw [if_pos han] at hk; cases hk
      simp [han]
    · rw [if_neg han] at hk
      cases hj : idxOf l n with
      | none => rw [hj] at hk; cases hk
      | some j =>
        rw [hj] at hk; cases hk
        simp [han, ih hj]

theorem idxOf_lt {l : List (AnyTier Int)} {n : String} {k : Nat} (hk : idxOf l n = some k) : k < l.length := by
  obtain ⟨u, hu, _⟩ := idxOf_spec hk
  exact (List.getElem?_eq_some_iff.1 hu).1

/-! ## C12, part 1: the four mutators -/

/-- (2) a duplicate name is rejected — `addTier_dup` above.  (3) a fresh name is accepted unless the caller
asked for an exception on a span change; the tier lands where `list.insert` puts it -/
theorem addTier_spec (g : Tg Int) (t : AnyTier Int) (idx : Option Int) (rep : Report)
    (hn : t.name ∉ g.names) (hr : ¬ (rep = .error ∧ spanChanges g.lo g.hi t = true)) :
    ∃ g', g.addTier t idx rep = .ok g' ∧
      g'.tiers = (match idx with | none => g.tiers ++ [t] | some i => pyListInsert g.tiers i t) ∧
      g'.lo = some (widenLo g.lo t.lo) ∧ g'.hi = some (widenHi g.hi t.hi) := by
  rw [addTier_fresh g t idx rep hn, if_neg hr]
  refine ⟨_, rfl, ?_, rfl, rfl⟩
  cases idx <;> rfl

/-- the only other outcome on a fresh name -/
theorem addTier_report (g : Tg Int) (t : AnyTier Int) (idx : Option Int)
    (hn : t.name ∉ g.names) (hr : spanChanges g.lo g.hi t = true) :
    g.addTier t idx .error = .error .TextgridStateAutoModified := by
  rw [addTier_fresh g t idx .error hn, if_pos ⟨rfl, hr⟩]

/-- `list.insert(i, x)`: one element more, `x` sits at the clamped index `k`, the rest is the old list in order -/
theorem pyListInsert_spec {β} (l : List β) (i : Int) (x : β) :
    let k := (if i < 0 then max 0 (i + (l.length : Int)) else min i (l.length : Int)).toNat
    k ≤ l.length ∧ (pyListInsert l i x).length = l.length + 1 ∧
    (pyListInsert l i x)[k]? = some x ∧ (pyListInsert l i x).eraseIdx k = l :=
  ⟨clampIdx_le _ _, pyListInsert_length _ _ _, pyListInsert_get _ _ _, pyListInsert_eraseIdx _ _ _⟩

/-- (1) names stay pairwise different -/
theorem names_nodup_step {g g' : Tg Int} {op : TgOp} (hnd : g.names.Nodup) (h : step g op = .ok g') :
    g'.names.Nodup := by
  cases op with
  | add t idx rep =>
    obtain ⟨hn, _, rfl⟩ := addTier_inv h
    exact nodup_insAt idx hnd hn
  | remove n =>
    simp only [step, removeTier_eq] at h
    split at h
    · cases h; exact nodup_dropName n hnd
    · cases h
  | rename old new =>
    simp only [step] at h
    cases hf : g.tiers.find? (·.name == old) with
    | none => rw [renameTier_absent g old new (find_none hf)] at h; cases h
    | some t =>
      rw [renameTier_eq g old new t hnd hf] at h
      split at h
      · cases h
      · rename_i hc
        cases hr : t.renew (name := some new) with
        | error e => rw [hr] at h; cases h
        | ok t' =>
          rw [hr] at h
          cases h
          exact nodup_subst hnd (by rw [renew_name hr]; exact hc)
  | replace n t rep =>
    simp only [step, replaceTier_eq g n t rep hnd] at h
    split at h
    · cases h
    · split at h
      · cases h
      · rename_i hc
        split at h
        · cases h
        · cases h; exact nodup_subst hnd hc

theorem names_nodup_run_from {g : Tg Int} (hnd : g.names.Nodup) (ops : List TgOp) : (run g ops).names.Nodup := by
  induction ops generalizing g with
  | nil => exact hnd
  | cons op ops ih =>
    simp only [run]
    cases h : step g op with
    | error e => exact ih hnd
    | ok g' => exact ih (names_nodup_step hnd h)

theorem names_nodup_run (ops : List TgOp) : (run ⟨[], none, none⟩ ops).names.Nodup :=
  names_nodup_run_from (by simp [Tg.names]) ops

/-! ### (4) the span only widens -/

theorem widenLo_le (o : Option Int) (x : Int) : widenLo o x ≤ x ∧ ∀ l, o = some l → widenLo o x ≤ l := by
  cases o with
  | none => exact ⟨Int.le_refl _, by intro l h; cases h⟩
  | some l => exact ⟨Int.min_le_right _ _, by intro l' h; cases h; exact Int.min_le_left _ _⟩

theorem le_widenHi (o : Option Int) (x : Int) : x ≤ widenHi o x ∧ ∀ h, o = some h → h ≤ widenHi o x := by
  cases o with
  | none => exact ⟨Int.le_refl _, by intro l h; cases h⟩
  | some l => exact ⟨Int.le_max_right _ _, by intro l' h; cases h; exact Int.le_max_left _ _⟩

/-- after `addTier` the span is exactly the hull of the old span and the tier's span -/
theorem addTier_span {g g' : Tg Int} {t : AnyTier Int} {idx : Option Int} {rep : Report}
    (h : g.addTier t idx rep = .ok g') :
    g'.lo = some (match g.lo with | none => t.lo | some l => min l t.lo) ∧
    g'.hi = some (match g.hi with | none => t.hi | some h => max h t.hi) := by
  obtain ⟨_, _, rfl⟩ := addTier_inv h
  constructor
  · cases g.lo <;> rfl
  · cases g.hi <;> rfl

/-- `renameTier` / `replaceTier`, when they succeed, are a removal followed by an `addTier` at some index
(no hypothesis on the textgrid) -/
theorem renameTier_inv {g g' : Tg Int} {old new : String} (h : g.renameTier old new = .ok g') :
    ∃ t' i, (⟨dropName g.tiers old, g.lo, g.hi⟩ : Tg Int).addTier t' (some i) .warning = .ok g' := by
  unfold Tg.renameTier at h
  simp only [bind, Except.bind, throw, throwThe, MonadExceptOf.throw, removeTier_eq] at h
  repeat' split at h
  all_goals first
    | (cases h; done)
    | (rename_i hq _ _ _
       split at hq
       · cases hq; exact ⟨_, _, h⟩
       · cases hq)

theorem replaceTier_inv {g g' : Tg Int} {n : String} {t : AnyTier Int} {rep : Report}
    (h : g.replaceTier n t rep = .ok g') :
    ∃ i, (⟨dropName g.tiers n, g.lo, g.hi⟩ : Tg Int).addTier t (some i) rep = .ok g' := by
  unfold Tg.replaceTier at h
  simp only [bind, Except.bind, removeTier_eq] at h
  repeat' split at h
  all_goals first
    | (cases h; done)
    | (rename_i hq
       split at hq
       · cases hq; exact ⟨_, h⟩
       · cases hq)

/-- what one successful step does to the tier list and the span: tiers are only dropped and the span is kept, or
one tier `t` comes in and the span becomes the hull with `t`'s span -/
theorem step_shape {g g' : Tg Int} {op : TgOp} (h : step g op = .ok g') :
    ((∀ u ∈ g'.tiers, u ∈ g.tiers) ∧ g'.lo = g.lo ∧ g'.hi = g.hi) ∨
    ∃ t ∈ g'.tiers, (∀ u ∈ g'.tiers, u = t ∨ u ∈ g.tiers) ∧
      g'.lo = some (widenLo g.lo t.lo) ∧ g'.hi = some (widenHi g.hi t.hi) := by
  have key : ∀ (l : List (AnyTier Int)) (t : AnyTier Int) (idx : Option Int) (rep : Report),
      (∀ u ∈ l, u ∈ g.tiers) → (⟨l, g.lo, g.hi⟩ : Tg Int).addTier t idx rep = .ok g' →
      ∃ t ∈ g'.tiers, (∀ u ∈ g'.tiers, u = t ∨ u ∈ g.tiers) ∧
        g'.lo = some (widenLo g.lo t.lo) ∧ g'.hi = some (widenHi g.hi t.hi) := by
    intro l t idx rep hl h
    obtain ⟨_, _, rfl⟩ := addTier_inv h
    have hm : ∀ u, u ∈ insAt l idx t ↔ u = t ∨ u ∈ l := by
      intro u
      cases idx with
      | none => simp [insAt, or_comm]
      | some i => exact mem_pyListInsert _ _ _ _
    refine ⟨t, (hm t).2 (Or.inl rfl), ?_, rfl, rfl⟩
    intro u hu
    rcases (hm u).1 hu with h | h
    · exact Or.inl h
    · exact Or.inr (hl u h)
  have hdrop : ∀ n, ∀ u ∈ dropName g.tiers n, u ∈ g.tiers := fun n u hu => (List.mem_filter.1 hu).1
  cases op with
  | add t idx rep => exact Or.inr (key g.tiers t idx rep (fun _ hu => hu) h)
  | remove n =>
    simp only [step, removeTier_eq] at h
    split at h
    · cases h; exact Or.inl ⟨hdrop n, rfl, rfl⟩
    · cases h
  | rename old new =>
    obtain ⟨t', i, h⟩ := renameTier_inv h
    exact Or.inr (key _ t' _ _ (hdrop old) h)
  | replace n t rep =>
    obtain ⟨i, h⟩ := replaceTier_inv h
    exact Or.inr (key _ t _ _ (hdrop n) h)

/-- (4) the span never shrinks -/
theorem span_widens {g g' : Tg Int} {op : TgOp} (h : step g op = .ok g') :
    (∀ l, g.lo = some l → ∃ l', g'.lo = some l' ∧ l' ≤ l) ∧
    (∀ hi, g.hi = some hi → ∃ hi', g'.hi = some hi' ∧ hi ≤ hi') := by
  rcases step_shape h with ⟨_, h1, h2⟩ | ⟨t, _, _, h1, h2⟩
  · exact ⟨fun l hl => ⟨l, by rw [h1, hl], Int.le_refl _⟩, fun x hx => ⟨x, by rw [h2, hx], Int.le_refl _⟩⟩
  · exact ⟨fun l hl => ⟨_, h1, (widenLo_le _ _).2 l hl⟩, fun x hx => ⟨_, h2, (le_widenHi _ _).2 x hx⟩⟩

/-- every tier lies inside the textgrid's span -/
def Covered (g : Tg Int) : Prop :=
  ∀ t ∈ g.tiers, (∃ l, g.lo = some l ∧ l ≤ t.lo) ∧ (∃ h, g.hi = some h ∧ t.hi ≤ h)

/-- … and it always covers every tier -/
theorem covered_step {g g' : Tg Int} {op : TgOp} (hc : Covered g) (h : step g op = .ok g') : Covered g' := by
  have old : ∀ u ∈ g.tiers, (∃ l, g'.lo = some l ∧ l ≤ u.lo) ∧ (∃ x, g'.hi = some x ∧ u.hi ≤ x) := by
    obtain ⟨w1, w2⟩ := span_widens h
    intro u hm
    obtain ⟨⟨l, hl, hl'⟩, ⟨x, hx, hx'⟩⟩ := hc u hm
    obtain ⟨l', e1, e2⟩ := w1 l hl
    obtain ⟨x', e3, e4⟩ := w2 x hx
    exact ⟨⟨l', e1, by omega⟩, ⟨x', e3, by omega⟩⟩
  rcases step_shape h with ⟨hs, _, _⟩ | ⟨t, _, hs, e1, e2⟩
  · intro u hu; exact old u (hs u hu)
  · intro u hu
    rcases hs u hu with rfl | hm
    · exact ⟨⟨_, e1, (widenLo_le _ _).1⟩, ⟨_, e2, (le_widenHi _ _).1⟩⟩
    · exact old u hm

theorem covered_run (ops : List TgOp) : Covered (run ⟨[], none, none⟩ ops) := by
  suffices ∀ g : Tg Int, Covered g → Covered (run g ops) from
    this _ (by intro t ht; cases ht)
  induction ops with
  | nil => intro g hc; exact hc
  | cons op ops ih =>
    intro g hc
    simp only [run]
    cases h : step g op with
    | error e => exact ih g hc
    | ok g' => exact ih g' (covered_step hc h)

/-! ### (5) remove, rename, replace by position -/

theorem mkITier_err {n : String} {es : List (Iv Int)} {lo hi : Option Int} {e : Err}
    (h : mkITier n es lo hi = .error e) : e = .TextgridStateError ∨ e = .Timeless := by
  unfold mkITier at h
  simp only at h
  split at h
  · split at h
    · cases h
    · cases h; exact Or.inl rfl
  · cases h; exact Or.inr rfl

theorem mkPTier_err {n : String} {ps : List (Pt Int)} {lo hi : Option Int} {e : Err}
    (h : mkPTier n ps lo hi = .error e) : e = .TextgridStateError ∨ e = .Timeless := by
  unfold mkPTier at h
  simp only at h
  split at h
  · cases h
  · cases h; exact Or.inr rfl

theorem map_err {β γ} {f : β → γ} {x : Except Err β} {e : Err} (h : f <$> x = .error e) : x = .error e := by
  cases x with
  | error e' => simpa [Functor.map, Except.map] using h
  | ok z => cases h

theorem renew_err {t : AnyTier Int} {n : Option String} {lo hi : Option Int} {e : Err}
    (h : t.renew n lo hi = .error e) : e = .TextgridStateError ∨ e = .Timeless := by
  cases t with
  | I t => exact mkITier_err (map_err h)
  | P t => exact mkPTier_err (map_err h)

/-- position and look-up of the tier that was put at position `k` -/
theorem set_lookup {l : List (AnyTier Int)} {k : Nat} {t : AnyTier Int} (hk : k < l.length)
    (hnd : (namesOf (l.set k t)).Nodup) :
    idxOf (l.set k t) t.name = some k ∧ (l.set k t).find? (·.name == t.name) = some t := by
  have hget : (l.set k t)[k]? = some t := by simp [hk]
  have hi := idxOf_of_getElem hnd hget
  exact ⟨hi, by rw [find_eq_getElem hi, hget]⟩

/-- `removeTier`: `KeyError` exactly for an absent name; otherwise exactly the tier at the name's position goes,
the others keep their order; the span is untouched -/
theorem removeTier_spec (g : Tg Int) (n : String) (hnd : g.names.Nodup) :
    (g.removeTier n = .error .KeyError ↔ n ∉ g.names) ∧
    (∀ e, g.removeTier n = .error e → e = .KeyError) ∧
    (∀ k, g.indexOf n = some k → g.removeTier n = .ok ⟨g.tiers.eraseIdx k, g.lo, g.hi⟩) := by
  rw [removeTier_eq]
  refine ⟨?_, ?_, ?_⟩
  · by_cases h : n ∈ g.names
    · rw [if_pos h]; simp [h]
    · rw [if_neg h]; simp [h]
  · intro e h
    split at h
    · cases h
    · cases h; rfl
  · intro k hk
    have hk' : idxOf g.tiers n = some k := hk
    rw [if_pos (show n ∈ g.names from (idxOf_isSome_iff _ _).1 ⟨k, hk'⟩), dropName_eq_eraseIdx hnd hk']

/-- `renameTier` of a present name: `TierNameExistsError` exactly on a clash with another tier; otherwise,
if the renamed copy `t'` re-validates (hypothesis `hr`), it takes the old tier's position, every other position
is unchanged, and `new` now maps to `t'` -/
theorem renameTier_spec (g : Tg Int) (old new : String) (hnd : g.names.Nodup) (hold : old ∈ g.names) :
    (g.renameTier old new = .error .TierNameExistsError ↔ new ≠ old ∧ new ∈ g.names) ∧
    (∀ k t t', g.indexOf old = some k → g.tiers[k]? = some t →
      ¬ (new ≠ old ∧ new ∈ g.names) → t.renew (name := some new) = .ok t' →
      ∃ g', g.renameTier old new = .ok g' ∧ g'.tiers = g.tiers.set k t' ∧ t'.name = new ∧
        g'.indexOf new = some k ∧ g'.getTier new = .ok t' ∧
        g'.lo = some (widenLo g.lo t'.lo) ∧ g'.hi = some (widenHi g.hi t'.hi)) := by
  obtain ⟨k, hk⟩ := (idxOf_isSome_iff _ _).2 hold
  obtain ⟨t, ht, _, _⟩ := idxOf_spec hk
  have hf : g.tiers.find? (·.name == old) = some t := by rw [find_eq_getElem hk, ht]
  rw [renameTier_eq g old new t hnd hf]
  constructor
  · by_cases hc : new ≠ old ∧ new ∈ g.names
    · rw [if_pos hc]; simp [hc]
    · rw [if_neg hc]
      cases hr : t.renew (name := some new) with
      | error e =>
        rcases renew_err hr with rfl | rfl <;>
          simp only [bind, Except.bind, hc, iff_false] <;> intro h <;> cases h
      | ok t' => simp only [bind, Except.bind, pure, Except.pure, hc, iff_false]; intro h; cases h
  · intro k' t0 t' hk' ht0 hc hr
    have hkk : k' = k := by
      have : idxOf g.tiers old = some k' := hk'
      rw [hk] at this; cases this; rfl
    subst hkk
    rw [ht] at ht0; cases ht0
    rw [if_neg hc, hr]
    simp only [bind, Except.bind, pure, Except.pure]
    have hn : t'.name = new := renew_name hr
    have hs := subst_eq_set t' hnd hk
    refine ⟨_, rfl, hs, hn, ?_, ?_, rfl, rfl⟩
    · have := (set_lookup (t := t') (idxOf_lt hk) (by rw [← hs]; exact nodup_subst hnd (by rw [hn]; exact hc))).1
      rw [hn] at this
      show idxOf (subst g.tiers old t') new = some k'
      rw [hs]; exact this
    · have := (set_lookup (t := t') (idxOf_lt hk) (by rw [← hs]; exact nodup_subst hnd (by rw [hn]; exact hc))).2
      rw [hn] at this
      show Tg.getTier ⟨subst g.tiers old t', _, _⟩ new = .ok t'
      simp only [Tg.getTier, hs, this]

/-- `replaceTier`: `ValueError` exactly for an absent name; otherwise, unless the new tier's name clashes with
another tier or an exception on a span change was requested, the new tier sits at the old one's position -/
theorem replaceTier_spec (g : Tg Int) (n : String) (t : AnyTier Int) (rep : Report) (hnd : g.names.Nodup) :
    (g.replaceTier n t rep = .error .ValueError ↔ n ∉ g.names) ∧
    (n ∈ g.names → t.name ≠ n → t.name ∈ g.names → g.replaceTier n t rep = .error .TierNameExistsError) ∧
    (∀ k, g.indexOf n = some k → ¬ (t.name ≠ n ∧ t.name ∈ g.names) →
      ¬ (rep = .error ∧ spanChanges g.lo g.hi t = true) →
      ∃ g', g.replaceTier n t rep = .ok g' ∧ g'.tiers = g.tiers.set k t ∧
        g'.indexOf t.name = some k ∧ g'.getTier t.name = .ok t ∧
        g'.lo = some (widenLo g.lo t.lo) ∧ g'.hi = some (widenHi g.hi t.hi)) := by
  rw [replaceTier_eq g n t rep hnd]
  refine ⟨?_, ?_, ?_⟩
  · by_cases h : n ∈ g.names
    · rw [if_neg (fun h' => h' h)]
      simp only [h, not_true_eq_false, iff_false]
      intro h'
      split at h'
      · cases h'
      · split at h' <;> cases h'
    · rw [if_pos h]; simp [h]
  · intro h1 h2 h3
    rw [if_neg (fun h' => h' h1), if_pos ⟨h2, h3⟩]
  · intro k hk hc hr
    have hk' : idxOf g.tiers n = some k := hk
    have hm : n ∈ g.names := (idxOf_isSome_iff _ _).1 ⟨k, hk'⟩
    rw [if_neg (fun h' => h' hm), if_neg hc, if_neg hr]
    have hs := subst_eq_set t hnd hk'
    have hl := set_lookup (t := t) (idxOf_lt hk') (by rw [← hs]; exact nodup_subst hnd hc)
    refine ⟨_, rfl, hs, ?_, ?_, rfl, rfl⟩
    · show idxOf (subst g.tiers n t) t.name = some k
      rw [hs]; exact hl.1
    · show Tg.getTier ⟨subst g.tiers n t, _, _⟩ t.name = .ok t
      simp only [Tg.getTier, hs, hl.2]

/-! ### (6) refinement of the ordered-list specification -/

def specRun (s : Spec) : List TgOp → Spec
  | [] => s
  | op :: ops =>
    match specStep s op with
    | .ok s' => specRun s' ops
    | .error _ => specRun s ops

/-- **main theorem**: one operation of the textgrid and of the ordered-list specification agree — the same
exception, or success with the same names, order, tiers and span -/
theorem step_refines_spec (g : Tg Int) (op : TgOp) (hnd : g.names.Nodup) :
    (step g op).map abs = specStep (abs g) op := by
  have e1 : (abs g).names = g.names := rfl
  have e2 : (abs g).tiers = g.tiers := rfl
  have e3 : (abs g).lo = g.lo := rfl
  have e4 : (abs g).hi = g.hi := rfl
  cases op with
  | add t idx rep =>
    simp only [step, specStep, e1, e2, e3, e4]
    by_cases hn : t.name ∈ g.names
    · rw [addTier_dup g t idx rep hn, if_pos hn]; rfl
    · rw [addTier_fresh g t idx rep hn, if_neg hn]
      by_cases hr : rep = .error ∧ spanChanges g.lo g.hi t = true
      · rw [if_pos hr, if_pos hr]; rfl
      · rw [if_neg hr, if_neg hr]; rfl
  | remove n =>
    simp only [step, specStep, e1, e2, removeTier_eq]
    have : g.tiers.filter (fun u => decide (u.name ≠ n)) = dropName g.tiers n := by
      unfold dropName; congr 1; funext u; by_cases h : u.name = n <;> simp [h]
    rw [this]
    by_cases hn : n ∈ g.names
    · rw [if_pos hn, if_pos hn]; rfl
    · rw [if_neg hn, if_neg hn]; rfl
  | rename old new =>
    simp only [step, specStep, e1, e2]
    cases hf : g.tiers.find? (·.name == old) with
    | none => rw [renameTier_absent g old new (find_none hf)]; rfl
    | some t =>
      rw [renameTier_eq g old new t hnd hf]
      simp only
      by_cases hc : new ≠ old ∧ new ∈ g.names
      · rw [if_pos hc, if_pos hc]; rfl
      · rw [if_neg hc, if_neg hc]
        cases t.renew (name := some new) <;> rfl
  | replace n t rep =>
    simp only [step, specStep, e1, e2, e3, e4, replaceTier_eq g n t rep hnd]
    by_cases hn : n ∉ g.names
    · rw [if_pos hn, if_pos hn]; rfl
    · rw [if_neg hn, if_neg hn]
      by_cases hc : t.name ≠ n ∧ t.name ∈ g.names
      · rw [if_pos hc, if_pos hc]; rfl
      · rw [if_neg hc, if_neg hc]
        by_cases hr : rep = .error ∧ spanChanges g.lo g.hi t = true
        · rw [if_pos hr, if_pos hr]; rfl
        · rw [if_neg hr, if_neg hr]; rfl

theorem run_refines_spec_from (g : Tg Int) (ops : List TgOp) (hnd : g.names.Nodup) :
    abs (run g ops) = specRun (abs g) ops := by
  induction ops generalizing g with
  | nil => rfl
  | cons op ops ih =>
    have hs := step_refines_spec g op hnd
    simp only [run, specRun]
    cases h : step g op with
    | error e =>
      rw [h] at hs
      rw [← hs]
      exact ih g hnd
    | ok g' =>
      rw [h] at hs
      rw [← hs]
      exact ih g' (names_nodup_step hnd h)

/-- any sequence of operations on an empty textgrid: names, order, tiers and span are those of the list model -/
theorem run_refines_spec (ops : List TgOp) :
    abs (run ⟨[], none, none⟩ ops) = specRun ⟨[], none, none⟩ ops :=
  run_refines_spec_from _ ops (by simp [Tg.names])

/-! ## C13 (pure model): a failing mutator leaves the textgrid as it was -/

theorem mutator_atomic (g : Tg Int) (op : TgOp) (e : Err) (h : step g op = .error e) : run g [op] = g := by
  simp only [run, h]

/-- … and a run is the fold of the successful steps only -/
theorem run_cons (g : Tg Int) (op : TgOp) (ops : List TgOp) :
    run g (op :: ops) = run (match step g op with | .ok g' => g' | .error _ => g) ops := by
  simp only [run]; cases step g op <;> rfl

/-! ## C12, part 2: textgrid-level crop / eraseRegion / insertSpace / editTimestamps

### every tier-level operation keeps the tier's name -/

theorem bind_ok {β γ} {x : Except Err β} {f : β → Except Err γ} {y : γ} (h : x >>= f = .ok y) :
    ∃ z, x = .ok z ∧ f z = .ok y := by
  cases x with
  | error e => cases h
  | ok z => exact ⟨z, rfl, h⟩

theorem pure_ok {β} {x y : β} (h : (pure x : Except Err β) = .ok y) : x = y := Except.ok.inj h

theorem ITier.new_name {t t' : ITier Int} {n : Option String} {es : Option (List (Iv Int))} {lo hi : Option Int}
    (h : t.new n es lo hi = .ok t') : t'.name = n.getD t.name := mkITier_name h

theorem PTier.new_name {t t' : PTier Int} {n : Option String} {ps : Option (List (Pt Int))} {lo hi : Option Int}
    (h : t.new n ps lo hi = .ok t') : t'.name = n.getD t.name := mkPTier_name h

theorem ITier.crop_name {t t' : ITier Int} {a b : Int} {m : CropMode} {r : Bool}
    (h : t.crop a b m r = .ok t') : t'.name = t.name := by
  unfold ITier.crop at h
  split at h
  · cases h
  · simp only at h
    split at h <;> exact mkITier_name h

theorem PTier.crop_name {t t' : PTier Int} {a b : Int} {r : Bool}
    (h : t.crop a b r = .ok t') : t'.name = t.name := by
  unfold PTier.crop at h
  split at h
  · cases h
  · simp only at h
    split at h <;> exact mkPTier_name h

theorem insertEntry_name {t t' : ITier Int} {x : Iv Int} {m : InsMode}
    (h : t.insertEntry x m = .ok t') : t'.name = t.name := by
  unfold ITier.insertEntry at h
  simp only [bind, Except.bind, pure, Except.pure, throw, throwThe, MonadExceptOf.throw] at h
  repeat' split at h
  all_goals first | (cases h; done) | (cases h; rfl)

theorem eraseCore_name {nt r : ITier Int} {ml : List (Iv Int)} {a b : Int} {mode : EraseMode}
    (h : eraseCore nt ml a b mode = .ok r) : r.name = nt.name := by
  unfold eraseCore at h
  simp only [bind, Except.bind, pure, Except.pure, throw, throwThe, MonadExceptOf.throw] at h
  repeat' split at h
  all_goals first
    | (cases h; done)
    | (cases h; rfl)
    | (rename_i v1 hq1 _ _ v hq; cases h; rw [insertEntry_name hq, insertEntry_name hq1]; done)
    | (rename_i hq _; cases h; rw [insertEntry_name hq]; done)
    | (rename_i hq; cases h; rw [insertEntry_name hq]; done)

theorem ITier.eraseRegion_name {t t' : ITier Int} {a b : Int} {m : EraseMode} {sh : Bool}
    (h : t.eraseRegion a b m sh = .ok t') : t'.name = t.name := by
  unfold ITier.eraseRegion at h
  obtain ⟨mt, _, h⟩ := bind_ok h
  obtain ⟨nt, hn, h⟩ := bind_ok h
  obtain ⟨nt1, hc, h⟩ := bind_ok h
  dsimp only at h
  split at h
  · rw [shrinkStep] at h
    rw [ITier.new_name h, eraseCore_name hc, ITier.new_name hn]; rfl
  · have := pure_ok h; subst this; rw [eraseCore_name hc, ITier.new_name hn]; rfl

theorem PTier.eraseRegion_name {t t' : PTier Int} {a b : Int} {sh : Bool}
    (h : t.eraseRegion a b sh = .ok t') : t'.name = t.name := by
  unfold PTier.eraseRegion at h
  obtain ⟨nt, hn, h⟩ := bind_ok h
  obtain ⟨ct, _, h⟩ := bind_ok h
  obtain ⟨ps0, _, h⟩ := bind_ok h
  dsimp only at h
  split at h
  · rw [PTier.new_name h]; rw [PTier.new_name hn]; rfl
  · have := pure_ok h; subst this; rw [PTier.new_name hn]; rfl

theorem ITier.insertSpace_name {t t' : ITier Int} {s d : Int} {m : SpaceMode}
    (h : t.insertSpace s d m = .ok t') : t'.name = t.name := by
  unfold ITier.insertSpace at h
  split at h
  · cases h
  · exact ITier.new_name h

theorem PTier.insertSpace_name {t t' : PTier Int} {s d : Int}
    (h : t.insertSpace s d = .ok t') : t'.name = t.name := PTier.new_name h

theorem ITier.editTimestamps_name {t t' : ITier Int} {o : Int} {rep : Report}
    (h : t.editTimestamps o rep = .ok t') : t'.name = t.name := by
  unfold ITier.editTimestamps at h
  simp only at h
  split at h
  · cases h
  · exact mkITier_name h

theorem PTier.editTimestamps_name {t t' : PTier Int} {o : Int} {rep : Report}
    (h : t.editTimestamps o rep = .ok t') : t'.name = t.name := by
  unfold PTier.editTimestamps at h
  simp only at h
  split at h
  · cases h
  · exact mkPTier_name h

theorem AnyTier.crop_name {t t' : AnyTier Int} {a b : Int} {m : CropMode} {r : Bool}
    (h : t.crop a b m r = .ok t') : t'.name = t.name ∧ t'.isInterval = t.isInterval := by
  cases t with
  | I t => obtain ⟨z, hz, rfl⟩ := map_ok h; exact ⟨ITier.crop_name hz, rfl⟩
  | P t => obtain ⟨z, hz, rfl⟩ := map_ok h; exact ⟨PTier.crop_name hz, rfl⟩

theorem AnyTier.eraseRegion_name {t t' : AnyTier Int} {a b : Int} {m : EraseMode} {sh : Bool}
    (h : t.eraseRegion a b m sh = .ok t') : t'.name = t.name ∧ t'.isInterval = t.isInterval := by
  cases t with
  | I t => obtain ⟨z, hz, rfl⟩ := map_ok h; exact ⟨ITier.eraseRegion_name hz, rfl⟩
  | P t => obtain ⟨z, hz, rfl⟩ := map_ok h; exact ⟨PTier.eraseRegion_name hz, rfl⟩

theorem AnyTier.insertSpace_name {t t' : AnyTier Int} {s d : Int} {m : SpaceMode}
    (h : t.insertSpace s d m = .ok t') : t'.name = t.name ∧ t'.isInterval = t.isInterval := by
  cases t with
  | I t => obtain ⟨z, hz, rfl⟩ := map_ok h; exact ⟨ITier.insertSpace_name hz, rfl⟩
  | P t => obtain ⟨z, hz, rfl⟩ := map_ok h; exact ⟨PTier.insertSpace_name hz, rfl⟩

theorem AnyTier.editTimestamps_name {t t' : AnyTier Int} {o : Int} {rep : Report}
    (h : t.editTimestamps o rep = .ok t') : t'.name = t.name ∧ t'.isInterval = t.isInterval := by
  cases t with
  | I t => obtain ⟨z, hz, rfl⟩ := map_ok h; exact ⟨ITier.editTimestamps_name hz, rfl⟩
  | P t => obtain ⟨z, hz, rfl⟩ := map_ok h; exact ⟨PTier.editTimestamps_name hz, rfl⟩

/-! ### folding `addTier` over per-tier results -/

/-- the loop `for tier in tiers: newTG.addTier(f(tier))`: if it succeeds, every `f(tier)` succeeded and the
results were appended in order -/
theorem foldlM_addTier (f : AnyTier Int → Except Err (AnyTier Int)) (rep : Report) :
    ∀ (l : List (AnyTier Int)) (acc g' : Tg Int),
      l.foldlM (fun acc t => do let t' ← f t; acc.addTier t' none rep) acc = .ok g' →
      ∃ ts, l.mapM f = .ok ts ∧ g'.tiers = acc.tiers ++ ts ∧
        (l ≠ [] → ∃ lo hi, g'.lo = some lo ∧ g'.hi = some hi) ∧ (l = [] → g' = acc) := by
  intro l
  induction l with
  | nil =>
    intro acc g' h
    have : acc = g' := pure_ok h
    subst this
    exact ⟨[], rfl, by simp, by simp, fun _ => rfl⟩
  | cons a l ih =>
    intro acc g' h
    rw [List.foldlM_cons] at h
    obtain ⟨acc1, h1, h2⟩ := bind_ok h
    obtain ⟨t', h3, h4⟩ := bind_ok h1
    obtain ⟨ts, e1, e2, e3, e4⟩ := ih acc1 g' h2
    obtain ⟨_, _, rfl⟩ := addTier_inv h4
    refine ⟨t' :: ts, ?_, ?_, ?_, by simp⟩
    · rw [List.mapM_cons, h3, e1]; rfl
    · rw [e2]; simp [insAt]
    · intro _
      by_cases hl : l = []
      · rw [e4 hl]; exact ⟨_, _, rfl, rfl⟩
      · exact e3 hl

/-- conversely: with pairwise different names, a name-preserving `f` that succeeds on every tier, and a reporting
mode other than "error", the loop succeeds -/
theorem foldlM_addTier_ok (f : AnyTier Int → Except Err (AnyTier Int)) (rep : Report) (hrep : rep ≠ .error)
    (hf : ∀ t t', f t = .ok t' → t'.name = t.name) :
    ∀ (l ts : List (AnyTier Int)) (acc : Tg Int), (acc.names ++ namesOf l).Nodup → l.mapM f = .ok ts →
      ∃ g', l.foldlM (fun acc t => do let t' ← f t; acc.addTier t' none rep) acc = .ok g' := by
  intro l
  induction l with
  | nil => intro ts acc _ _; exact ⟨acc, rfl⟩
  | cons a l ih =>
    intro ts acc hnd hm
    rw [List.mapM_cons] at hm
    obtain ⟨t', h1, hm⟩ := bind_ok hm
    obtain ⟨ts', h2, _⟩ := bind_ok hm
    have hn : t'.name = a.name := hf a t' h1
    have hfresh : t'.name ∉ acc.names := by
      rw [hn]; intro hmem
      have := (List.nodup_append.1 hnd).2.2 _ hmem a.name (by simp [namesOf])
      exact this rfl
    rw [List.foldlM_cons]
    have hadd := addTier_fresh acc t' none rep hfresh
    rw [if_neg (fun h => hrep h.1)] at hadd
    have : (do let t' ← f a; acc.addTier t' none rep) = .ok ⟨insAt acc.tiers none t', some (widenLo acc.lo t'.lo), some (widenHi acc.hi t'.hi)⟩ := by
      rw [h1]; exact hadd
    rw [this]
    apply ih ts' _ _ h2
    show (namesOf (acc.tiers ++ [t']) ++ namesOf l).Nodup
    have : namesOf (acc.tiers ++ [t']) ++ namesOf l = acc.names ++ namesOf (a :: l) := by
      simp [namesOf, Tg.names, hn]
    rw [this]; exact hnd

theorem mapM_names (f : AnyTier Int → Except Err (AnyTier Int))
    (hf : ∀ t t', f t = .ok t' → t'.name = t.name ∧ t'.isInterval = t.isInterval) :
    ∀ (l ts : List (AnyTier Int)), l.mapM f = .ok ts →
      namesOf ts = namesOf l ∧ ts.map (·.isInterval) = l.map (·.isInterval) := by
  intro l
  induction l with
  | nil => intro ts h; have : [] = ts := pure_ok h; subst this; exact ⟨rfl, rfl⟩
  | cons a l ih =>
    intro ts h
    rw [List.mapM_cons] at h
    obtain ⟨t', h1, h⟩ := bind_ok h
    obtain ⟨ts', h2, h⟩ := bind_ok h
    have : t' :: ts' = ts := pure_ok h
    subst this
    obtain ⟨e1, e2⟩ := ih ts' h2
    simp only [namesOf] at e1
    simp [namesOf, (hf a t' h1).1, (hf a t' h1).2, e1, e2]

/-- position by position: `ts[i] = f(l[i])` -/
theorem mapM_getElem (f : AnyTier Int → Except Err (AnyTier Int)) :
    ∀ (l ts : List (AnyTier Int)), l.mapM f = .ok ts →
      ts.length = l.length ∧ ∀ (i : Nat) (t : AnyTier Int), l[i]? = some t → ∃ t', ts[i]? = some t' ∧ f t = .ok t' := by
  intro l
  induction l with
  | nil => intro ts h; have : [] = ts := pure_ok h; subst this; exact ⟨rfl, by simp⟩
  | cons a l ih =>
    intro ts h
    rw [List.mapM_cons] at h
    obtain ⟨t', h1, h⟩ := bind_ok h
    obtain ⟨ts', h2, h⟩ := bind_ok h
    have : t' :: ts' = ts := pure_ok h
    subst this
    obtain ⟨e1, e2⟩ := ih ts' h2
    refine ⟨by simp [e1], ?_⟩
    intro i t hi
    cases i with
    | zero => simp at hi; subst hi; exact ⟨t', rfl, h1⟩
    | succ i => simpa using e2 i t (by simpa using hi)

/-! ### (7) the four textgrid-level operations -/

/-- the per-tier step of `Textgrid.editTimestamps`: empty tiers are passed through untouched -/
def editOne (o : Int) (rep : Report) (t : AnyTier Int) : Except Err (AnyTier Int) :=
  if t.isEmpty then pure t else t.editTimestamps o rep

theorem editOne_name {o : Int} {rep : Report} {t t' : AnyTier Int} (h : editOne o rep t = .ok t') :
    t'.name = t.name ∧ t'.isInterval = t.isInterval := by
  unfold editOne at h
  split at h
  · rw [← pure_ok h]; exact ⟨rfl, rfl⟩
  · exact AnyTier.editTimestamps_name h

theorem editTimestamps_eq (g : Tg Int) (o : Int) (rep : Report) :
    g.editTimestamps o rep =
      g.tiers.foldlM (fun acc t => do let t' ← editOne o rep t; acc.addTier t' none rep) (Tg.ofSpan g.lo g.hi) := by
  unfold Tg.editTimestamps
  congr 1
  funext acc t
  unfold editOne
  split <;> rfl

theorem crop_tiers {g g' : Tg Int} {a b : Int} {m : CropMode} {r : Bool} (h : g.crop a b m r = .ok g') :
    ∃ ts, g.tiers.mapM (·.crop a b m r) = .ok ts ∧ g'.tiers = ts := by
  unfold Tg.crop at h
  split at h
  · cases h
  · obtain ⟨ts, e1, e2, _⟩ := foldlM_addTier (·.crop a b m r) _ _ _ _ h
    refine ⟨ts, e1, ?_⟩
    rw [e2]; cases r <;> rfl

theorem eraseRegion_tiers {g g' : Tg Int} {a b : Int} {sh : Bool} (h : g.eraseRegion a b sh = .ok g') :
    ∃ ts, g.tiers.mapM (·.eraseRegion a b .truncate sh) = .ok ts ∧ g'.tiers = ts ∧
      g'.hi = Tg.eraseHi g.lo g.hi a b sh := by
  unfold Tg.eraseRegion at h
  split at h
  · cases h
  · obtain ⟨g1, h1, h2⟩ := bind_ok h
    obtain ⟨ts, e1, e2, _⟩ := foldlM_addTier (·.eraseRegion a b .truncate sh) _ _ _ _ h1
    have := pure_ok h2
    subst this
    exact ⟨ts, e1, by rw [e2]; rfl, rfl⟩

theorem insertSpace_tiers {g g' : Tg Int} {s d : Int} {m : SpaceMode} (h : g.insertSpace s d m = .ok g') :
    ∃ ts, g.tiers.mapM (·.insertSpace s d m) = .ok ts ∧ g'.tiers = ts := by
  unfold Tg.insertSpace at h
  obtain ⟨ts, e1, e2, _⟩ := foldlM_addTier (·.insertSpace s d m) _ _ _ _ h
  exact ⟨ts, e1, by rw [e2]; rfl⟩

theorem editTimestamps_tiers {g g' : Tg Int} {o : Int} {rep : Report} (h : g.editTimestamps o rep = .ok g') :
    ∃ ts, g.tiers.mapM (editOne o rep) = .ok ts ∧ g'.tiers = ts := by
  rw [editTimestamps_eq] at h
  obtain ⟨ts, e1, e2, _⟩ := foldlM_addTier (editOne o rep) _ _ _ _ h
  exact ⟨ts, e1, by rw [e2]; rfl⟩

/-- **tiers**: the result's tier list is the tier-level operation applied to each tier, in order
(`mapM_getElem` reads this position by position) -/
theorem tgop_tiers (g g' : Tg Int) :
    (∀ a b m r, g.crop a b m r = .ok g' → g.tiers.mapM (·.crop a b m r) = .ok g'.tiers) ∧
    (∀ a b sh, g.eraseRegion a b sh = .ok g' → g.tiers.mapM (·.eraseRegion a b .truncate sh) = .ok g'.tiers) ∧
    (∀ s d m, g.insertSpace s d m = .ok g' → g.tiers.mapM (·.insertSpace s d m) = .ok g'.tiers) ∧
    (∀ o rep, g.editTimestamps o rep = .ok g' → g.tiers.mapM (editOne o rep) = .ok g'.tiers) := by
  refine ⟨?_, ?_, ?_, ?_⟩
  · intro a b m r h; obtain ⟨ts, e1, e2⟩ := crop_tiers h; rw [e2]; exact e1
  · intro a b sh h; obtain ⟨ts, e1, e2, _⟩ := eraseRegion_tiers h; rw [e2]; exact e1
  · intro s d m h; obtain ⟨ts, e1, e2⟩ := insertSpace_tiers h; rw [e2]; exact e1
  · intro o rep h; obtain ⟨ts, e1, e2⟩ := editTimestamps_tiers h; rw [e2]; exact e1

/-- **names**: same names in the same order (and the same tier classes); no hypothesis on `g` is needed -/
theorem tgop_names (g g' : Tg Int) :
    (∀ a b m r, g.crop a b m r = .ok g' →
      g'.names = g.names ∧ g'.tiers.map (·.isInterval) = g.tiers.map (·.isInterval)) ∧
    (∀ a b sh, g.eraseRegion a b sh = .ok g' →
      g'.names = g.names ∧ g'.tiers.map (·.isInterval) = g.tiers.map (·.isInterval)) ∧
    (∀ s d m, g.insertSpace s d m = .ok g' →
      g'.names = g.names ∧ g'.tiers.map (·.isInterval) = g.tiers.map (·.isInterval)) ∧
    (∀ o rep, g.editTimestamps o rep = .ok g' →
      g'.names = g.names ∧ g'.tiers.map (·.isInterval) = g.tiers.map (·.isInterval)) := by
  obtain ⟨h1, h2, h3, h4⟩ := tgop_tiers g g'
  refine ⟨?_, ?_, ?_, ?_⟩
  · intro a b m r h
    exact mapM_names _ (fun _ _ => AnyTier.crop_name) _ _ (h1 a b m r h)
  · intro a b sh h
    exact mapM_names _ (fun _ _ => AnyTier.eraseRegion_name) _ _ (h2 a b sh h)
  · intro s d m h
    exact mapM_names _ (fun _ _ => AnyTier.insertSpace_name) _ _ (h3 s d m h)
  · intro o rep h
    exact mapM_names _ (fun _ _ => editOne_name) _ _ (h4 o rep h)

/-- **success**: on pairwise different names the textgrid-level operation succeeds as soon as the arguments are
admissible and every tier-level operation does (for `editTimestamps`: unless reportingMode = "error") -/
theorem tgop_ok (g : Tg Int) (hnd : g.names.Nodup) (ts : List (AnyTier Int)) :
    (∀ a b m r, a < b → g.tiers.mapM (·.crop a b m r) = .ok ts → ∃ g', g.crop a b m r = .ok g' ∧ g'.tiers = ts) ∧
    (∀ a b sh, a < b → g.tiers.mapM (·.eraseRegion a b .truncate sh) = .ok ts →
      ∃ g', g.eraseRegion a b sh = .ok g' ∧ g'.tiers = ts) ∧
    (∀ s d m, g.tiers.mapM (·.insertSpace s d m) = .ok ts → ∃ g', g.insertSpace s d m = .ok g' ∧ g'.tiers = ts) ∧
    (∀ o rep, rep ≠ .error → g.tiers.mapM (editOne o rep) = .ok ts →
      ∃ g', g.editTimestamps o rep = .ok g' ∧ g'.tiers = ts) := by
  have hnd' : ∀ lo hi, ((Tg.ofSpan lo hi : Tg Int).names ++ namesOf g.tiers).Nodup := by
    intro lo hi; exact hnd
  refine ⟨?_, ?_, ?_, ?_⟩
  · intro a b m r hab hm
    have hrep : (if m = .lax then Report.silence else Report.warning) ≠ .error := by split <;> simp
    have hg0 : ((if r = true then Tg.ofSpan (some (Tm.zero : Int)) (some (b - a)) else Tg.ofSpan (some a) (some b) : Tg Int).names
        ++ namesOf g.tiers).Nodup := by split <;> exact hnd' _ _
    obtain ⟨g', hg'⟩ := foldlM_addTier_ok (·.crop a b m r) _ hrep (fun _ _ h => (AnyTier.crop_name h).1) _ ts _ hg0 hm
    have : g.crop a b m r = .ok g' := by
      unfold Tg.crop; rw [if_neg (by omega)]; exact hg'
    obtain ⟨ts', e1, e2⟩ := crop_tiers this
    rw [hm] at e1; cases e1
    exact ⟨g', this, e2⟩
  · intro a b sh hab hm
    obtain ⟨g1, hg1⟩ := foldlM_addTier_ok (·.eraseRegion a b .truncate sh) .warning (by simp)
      (fun _ _ h => (AnyTier.eraseRegion_name h).1) _ ts _ (hnd' g.lo g.hi) hm
    have : g.eraseRegion a b sh = .ok { g1 with hi := Tg.eraseHi g.lo g.hi a b sh } := by
      unfold Tg.eraseRegion; rw [if_neg (by omega)]
      simp only [bind, Except.bind] at hg1 ⊢
      rw [hg1]; rfl
    obtain ⟨ts', e1, e2, _⟩ := eraseRegion_tiers this
    rw [hm] at e1; cases e1
    exact ⟨_, this, e2⟩
  · intro s d m hm
    obtain ⟨g', hg'⟩ := foldlM_addTier_ok (·.insertSpace s d m) .warning (by simp)
      (fun _ _ h => (AnyTier.insertSpace_name h).1) _ ts _ (hnd' g.lo (g.hi.map (· + d))) hm
    have : g.insertSpace s d m = .ok g' := hg'
    obtain ⟨ts', e1, e2⟩ := insertSpace_tiers this
    rw [hm] at e1; cases e1
    exact ⟨g', this, e2⟩
  · intro o rep hrep hm
    obtain ⟨g', hg'⟩ := foldlM_addTier_ok (editOne o rep) rep hrep
      (fun _ _ h => (editOne_name h).1) _ ts _ (hnd' g.lo g.hi) hm
    have : g.editTimestamps o rep = .ok g' := by rw [editTimestamps_eq]; exact hg'
    obtain ⟨ts', e1, e2⟩ := editTimestamps_tiers this
    rw [hm] at e1; cases e1
    exact ⟨g', this, e2⟩

/-! ### mergeTiers -/

def fuseI : List (ITier Int) → Except Err (Option (ITier Int))
  | [] => pure none
  | f :: rest => some <$> rest.foldlM (fun acc t => acc.union t) f

def fuseP : List (PTier Int) → Except Err (Option (PTier Int))
  | [] => pure none
  | f :: rest => some <$> rest.foldlM (fun acc t => acc.union t) f

def asI : AnyTier Int → Option (ITier Int) | .I t => some t | .P _ => none
def asP : AnyTier Int → Option (PTier Int) | .P t => some t | .I _ => none

/-- the unselected tiers, in order, when `preserveOtherTiers` -/
def keepTiers (g : Tg Int) (selNames : List String) : Bool → Except Err (Tg Int)
  | true => (g.tiers.filter fun t => !selNames.contains t.name).foldlM
      (fun acc t => acc.addTier t none .warning) (Tg.ofSpan g.lo g.hi)
  | false => pure (Tg.ofSpan g.lo g.hi)

def addOpt (g : Tg Int) : Option (AnyTier Int) → Except Err (Tg Int)
  | none => pure g
  | some t => g.addTier t none .warning

/-- what `mergeTiers` does once the two fused tiers are known: optionally keep the unselected tiers, then add the
fused interval tier, then the fused point tier -/
def mergeRest (g : Tg Int) (selNames : List String) (preserve : Bool)
    (it : Option (ITier Int)) (pt : Option (PTier Int)) : Except Err (Tg Int) :=
  keepTiers g selNames preserve >>= fun g1 =>
  addOpt g1 (it.map AnyTier.I) >>= fun g2 =>
  addOpt g2 (pt.map AnyTier.P)

theorem mapM_pure_id (l : List (AnyTier Int)) : l.mapM (pure : AnyTier Int → Except Err (AnyTier Int)) = .ok l := by
  induction l with
  | nil => rfl
  | cons a l ih => rw [List.mapM_cons, ih]; rfl

theorem addOpt_tiers {g g' : Tg Int} {o : Option (AnyTier Int)} (h : addOpt g o = .ok g') :
    g'.tiers = g.tiers ++ o.toList := by
  cases o with
  | none => rw [← pure_ok h]; simp
  | some t =>
    have h : g.addTier t none .warning = .ok g' := h
    obtain ⟨_, _, rfl⟩ := addTier_inv h; rfl

theorem mergeRest_tiers {g g' : Tg Int} {sn : List String} {preserve : Bool}
    {it : Option (ITier Int)} {pt : Option (PTier Int)} (h : mergeRest g sn preserve it pt = .ok g') :
    g'.tiers = (if preserve then g.tiers.filter (fun t => !sn.contains t.name) else [])
        ++ (it.map AnyTier.I).toList ++ (pt.map AnyTier.P).toList := by
  unfold mergeRest at h
  obtain ⟨g1, h1, h⟩ := bind_ok h
  obtain ⟨g2, h2, h⟩ := bind_ok h
  have e1 : g1.tiers = (if preserve then g.tiers.filter (fun t => !sn.contains t.name) else []) := by
    cases preserve with
    | false => rw [← pure_ok h1]; rfl
    | true =>
      obtain ⟨ts, e1, e2, _⟩ := foldlM_addTier pure .warning _ _ _ h1
      rw [mapM_pure_id] at e1; cases e1
      rw [e2]; rfl
  rw [addOpt_tiers h, addOpt_tiers h2, e1]

/-- `mergeTiers`: the selected tiers are looked up by name (a missing name is a `KeyError`), the interval tiers among
them are fused left to right by `union`, likewise the point tiers; the result lists the unselected tiers (if kept) in
their old order, then the fused interval tier, then the fused point tier -/
theorem mergeTiers_spec {g g' : Tg Int} {sel : Option (List String)} {preserve : Bool}
    (h : g.mergeTiers sel preserve = .ok g') :
    ∃ selTiers it pt,
      (sel.getD g.names).mapM g.getTier = .ok selTiers ∧
      fuseI (selTiers.filterMap asI) = .ok it ∧
      fuseP (selTiers.filterMap asP) = .ok pt ∧
      g'.tiers = (if preserve then g.tiers.filter (fun t => !(sel.getD g.names).contains t.name) else [])
        ++ (it.map AnyTier.I).toList ++ (pt.map AnyTier.P).toList := by
  unfold Tg.mergeTiers at h
  simp only at h
  obtain ⟨selTiers, h1, h⟩ := bind_ok h
  generalize hI : (List.filterMap _ selTiers : List (ITier Int)) = li at h
  generalize hP : (List.filterMap _ selTiers : List (PTier Int)) = lp at h
  have hI' : selTiers.filterMap asI = li := by
    rw [← hI]; congr 1; funext x; cases x <;> rfl
  have hP' : selTiers.filterMap asP = lp := by
    rw [← hP]; congr 1; funext x; cases x <;> rfl
  refine ⟨selTiers, ?_⟩
  rw [hI', hP']
  suffices ∃ it pt, fuseI li = .ok it ∧ fuseP lp = .ok pt ∧ mergeRest g (sel.getD g.names) preserve it pt = .ok g' by
    obtain ⟨it, pt, a1, a2, a3⟩ := this
    exact ⟨it, pt, h1, a1, a2, mergeRest_tiers a3⟩
  cases li with
  | nil =>
    cases lp with
    | nil => exact ⟨none, none, rfl, rfl, by cases preserve <;> exact h⟩
    | cons f rest =>
      have h : (some <$> rest.foldlM (fun acc t => acc.union t) f) >>= _ = .ok g' := h
      obtain ⟨pt, hp, h⟩ := bind_ok h
      exact ⟨none, pt, rfl, hp, by cases preserve <;> cases pt <;> exact h⟩
  | cons fi resti =>
    have h : (some <$> resti.foldlM (fun acc t => acc.union t) fi) >>= _ = .ok g' := h
    obtain ⟨it, hi, h⟩ := bind_ok h
    cases lp with
    | nil => exact ⟨it, none, hi, rfl, by cases preserve <;> cases it <;> exact h⟩
    | cons f rest =>
      have h : (some <$> rest.foldlM (fun acc t => acc.union t) f) >>= _ = .ok g' := h
      obtain ⟨pt, hp, h⟩ := bind_ok h
      exact ⟨it, pt, hi, hp, by cases preserve <;> cases it <;> cases pt <;> exact h⟩

/-! ### renaming a well-formed tier: the re-validation hypothesis of `renameTier_spec` discharged -/

def AnyWF : AnyTier Int → Prop
  | .I t => t.WF
  | .P t => t.WF

/-- the same tier under another name -/
def setName (t : AnyTier Int) (n : String) : AnyTier Int :=
  match t with
  | .I t => .I { t with name := n }
  | .P t => .P { t with name := n }

/-- `tier.new(name=n)` on a well-formed tier changes the name and nothing else -/
theorem renew_of_wf {t : AnyTier Int} (h : AnyWF t) (n : String) :
    t.renew (name := some n) = .ok (setName t n) := by
  cases t with
  | I t =>
    have h : t.WF := h
    have : t.new (name := some n) = .ok { t with name := n } := by
      unfold ITier.new
      simp only [Option.getD_none, Option.getD_some]
      rw [mkITier_of_wf n t.es t.lo t.hi h.span h.pos h.disj h.stripped]
      rw [hullMin_eq_of_le _ _ (by intro x hx; obtain ⟨iv, hiv, rfl⟩ := List.mem_map.1 hx; exact h.inLo iv hiv)]
      rw [hullMax_eq_of_ge _ _ (by intro x hx; obtain ⟨iv, hiv, rfl⟩ := List.mem_map.1 hx; exact h.inHi iv hiv)]
    simp only [AnyTier.renew, this]; rfl
  | P t =>
    have h : t.WF := h
    have : t.new (name := some n) = .ok { t with name := n } := by
      unfold PTier.new
      simp only [Option.getD_none, Option.getD_some]
      obtain ⟨t', e, _, e1, e2, e3, e4⟩ := mkPTier_wf n t.ps t.lo t.hi h.sorted h.stripped h.inLo h.inHi h.span
      rw [e]
      obtain ⟨n', ps', lo', hi'⟩ := t'
      simp only at e1 e2 e3 e4
      subst e1 e2 e3 e4
      rfl
    simp only [AnyTier.renew, this]; rfl

theorem setName_span (t : AnyTier Int) (n : String) : (setName t n).lo = t.lo ∧ (setName t n).hi = t.hi := by
  cases t <;> exact ⟨rfl, rfl⟩

/-- renaming a well-formed tier inside a textgrid whose span covers its tiers: only the name at that position changes -/
theorem renameTier_wf (g : Tg Int) (old new : String) (k : Nat) (t : AnyTier Int)
    (hnd : g.names.Nodup) (hcov : Covered g) (hk : g.indexOf old = some k) (ht : g.tiers[k]? = some t)
    (hwf : AnyWF t) (hc : ¬ (new ≠ old ∧ new ∈ g.names)) :
    g.renameTier old new = .ok ⟨g.tiers.set k (setName t new), g.lo, g.hi⟩ := by
  have hold : old ∈ g.names := (idxOf_isSome_iff _ _).1 ⟨k, hk⟩
  obtain ⟨g', e, e1, _, _, _, e2, e3⟩ :=
    (renameTier_spec g old new hnd hold).2 k t (setName t new) hk ht hc (renew_of_wf hwf new)
  obtain ⟨⟨l, hl, hl'⟩, ⟨x, hx, hx'⟩⟩ := hcov t (List.mem_of_getElem? ht)
  rw [e]
  obtain ⟨ts, lo, hi⟩ := g'
  simp only at e1 e2 e3
  rw [(setName_span t new).1, hl] at e2
  rw [(setName_span t new).2, hx] at e3
  have m1 : widenLo (some l) t.lo = l := by simp only [widenLo]; omega
  have m2 : widenHi (some x) t.hi = x := by simp only [widenHi]; omega
  rw [m1] at e2; rw [m2] at e3
  rw [e1, e2, e3, hl, hx]

/-! ## a concrete run (non-vacuity) -/

def tA : AnyTier Int := .I ⟨"a", [⟨0, 5, "x"⟩], 0, 10⟩
def tB : AnyTier Int := .P ⟨"b", [⟨3, "p"⟩], 0, 10⟩
def tC : AnyTier Int := .I ⟨"c", [⟨2, 4, "y"⟩, ⟨6, 12, "z"⟩], 0, 12⟩
def tA' : AnyTier Int := .P ⟨"a", [⟨1, "q"⟩, ⟨9, "r"⟩], 0, 10⟩
def tE : AnyTier Int := .I ⟨"e", [], -3, 8⟩

def demoOps : List TgOp :=
  [ .add tA none .warning,          -- [a]           span 0..10
    .add tB (some (-7)) .warning,   -- [b, a]        index far below -len: front
    .add tC (some 99) .error,       -- rejected: the span would grow and "error" was requested
    .add tC (some 99) .warning,     -- [b, a, c]     index beyond the end: back; span 0..12
    .add tA none .warning,          -- rejected: duplicate name
    .rename "a" "d",                -- [b, d, c]
    .rename "b" "c",                -- rejected: clash
    .remove "zz",                   -- rejected: no such tier
    .replace "b" tA' .warning,      -- [a, d, c]     a new tier under a free name at the position of "b"
    .add tE (some (-1)) .warning,   -- [a, d, e, c]  index -1: before the last; span -3..12
    .rename "e" "e",                -- [a, d, e, c]  renaming to itself is allowed
    .replace "d" tC .silence,       -- rejected: "c" is another tier's name
    .remove "d" ]                   -- [a, e, c]

def errOf {β} : Except Err β → Option Err
  | .ok _ => none
  | .error e => some e

def empty : Tg Int := ⟨[], none, none⟩

#guard (run empty demoOps).names = ["a", "e", "c"]
#guard ((run empty demoOps).lo, (run empty demoOps).hi) = (some (-3), some 12)
#guard (run empty (demoOps.take 2)).names = ["b", "a"]
#guard (run empty (demoOps.take 4)).names = ["b", "a", "c"]
#guard (run empty (demoOps.take 6)).names = ["b", "d", "c"]
#guard (run empty (demoOps.take 9)).names = ["a", "d", "c"]
#guard (run empty (demoOps.take 10)).names = ["a", "d", "e", "c"]
#guard (run empty (demoOps.take 10)).tiers.map (·.isInterval) = [false, true, true, true]
#guard errOf (step (run empty (demoOps.take 2)) (.add tC (some 99) .error)) = some .TextgridStateAutoModified
#guard errOf (step (run empty (demoOps.take 4)) (.add tA none .warning)) = some .TierNameExistsError
#guard errOf (step (run empty (demoOps.take 6)) (.rename "b" "c")) = some .TierNameExistsError
#guard errOf (step (run empty (demoOps.take 6)) (.remove "zz")) = some .KeyError
#guard errOf (step (run empty (demoOps.take 6)) (.rename "zz" "y")) = some .KeyError
#guard errOf (step (run empty (demoOps.take 6)) (.replace "zz" tA .warning)) = some .ValueError
#guard errOf (step (run empty (demoOps.take 11)) (.replace "d" tC .silence)) = some .TierNameExistsError
-- the specification computes the same thing
#guard (specRun ⟨[], none, none⟩ demoOps).names = ["a", "e", "c"]
#guard ((specRun ⟨[], none, none⟩ demoOps).lo, (specRun ⟨[], none, none⟩ demoOps).hi) = (some (-3), some 12)
-- textgrid-level operations keep the names
#guard ((run empty demoOps).crop 1 7 .truncated false).toOption.map (·.names) = some ["a", "e", "c"]
#guard ((run empty demoOps).eraseRegion 1 3 true).toOption.map (·.names) = some ["a", "e", "c"]
#guard ((run empty demoOps).insertSpace 2 5 .stretch).toOption.map (·.names) = some ["a", "e", "c"]
#guard ((run empty demoOps).editTimestamps 4 .warning).toOption.map (·.names) = some ["a", "e", "c"]
#guard ((run empty (demoOps.take 4)).mergeTiers none true).toOption.map (·.names) = some ["a", "b"]

end C12
