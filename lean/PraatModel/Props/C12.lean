import PraatModel.Textgrid

/-!
# C12 — a textgrid is an ordered map of uniquely named tiers; C13 — mutators are all-or-nothing

`Tg Int` with `addTier / removeTier / renameTier / replaceTier` is compared with a plain ordered-list
specification (`Spec`, `specStep`): same names, same order, same tiers, same span, same exception.
The textgrid-level `crop / eraseRegion / insertSpace / editTimestamps` are shown to be the tier-level
operation applied to each tier, in order, under the same names.
-/
namespace C12

/-! ## `list.insert` -/

/-- Python's clamping of an insertion index into a list of length `n` -/
def clampIdx (n : Nat) (i : Int) : Nat :=
  (if i < 0 then max 0 (i + (n : Int)) else min i (n : Int)).toNat

theorem clampIdx_le (n : Nat) (i : Int) : clampIdx n i ≤ n := by
  unfold clampIdx; split <;> omega

theorem pyListInsert_eq {β} (l : List β) (i : Int) (x : β) :
    pyListInsert l i x = l.take (clampIdx l.length i) ++ x :: l.drop (clampIdx l.length i) := by
  have h : (if i < 0 then (if i + (l.length : Int) < 0 then 0 else i + (l.length : Int))
        else (if i > (l.length : Int) then (l.length : Int) else i)).toNat = clampIdx l.length i := by
    unfold clampIdx; split <;> split <;> omega
  unfold pyListInsert
  simp only [h]

theorem pyListInsert_length {β} (l : List β) (i : Int) (x : β) :
    (pyListInsert l i x).length = l.length + 1 := by
  have := clampIdx_le l.length i
  rw [pyListInsert_eq]; simp; omega

theorem pyListInsert_get {β} (l : List β) (i : Int) (x : β) :
    (pyListInsert l i x)[clampIdx l.length i]? = some x := by
  have := clampIdx_le l.length i
  rw [pyListInsert_eq, List.getElem?_append_right (by rw [List.length_take]; omega)]
  simp [Nat.min_eq_left this]

theorem pyListInsert_eraseIdx {β} (l : List β) (i : Int) (x : β) :
    (pyListInsert l i x).eraseIdx (clampIdx l.length i) = l := by
  have := clampIdx_le l.length i
  rw [pyListInsert_eq, List.eraseIdx_append_of_length_le (by rw [List.length_take]; omega)]
  simp [Nat.min_eq_left this]

theorem insertIdx_take_drop {β} (l : List β) (k : Nat) (x : β) (h : k ≤ l.length) : l.insertIdx k x = l.take k ++ x :: l.drop k := by
  induction l generalizing k with
  | nil => 
    have : k = 0 := by simpa using h
    subst this; simp
  | cons a l ih =>
    cases k with
    | zero => simp
    | succ k => 
      simp [List.insertIdx_succ_cons, ih k (by simpa using h)]

theorem pyListInsert_insertIdx {β} (l : List β) (i : Int) (x : β) :
    pyListInsert l i x = l.insertIdx (clampIdx l.length i) x := by
  rw [pyListInsert_eq, insertIdx_take_drop _ _ _ (clampIdx_le _ _)]

theorem mem_pyListInsert {β} (l : List β) (i : Int) (x y : β) :
    y ∈ pyListInsert l i x ↔ y = x ∨ y ∈ l := by
  rw [pyListInsert_eq]
  constructor
  · intro h
    rcases List.mem_append.1 h with h | h
    · exact Or.inr (List.mem_of_mem_take h)
    · rcases List.mem_cons.1 h with h | h
      · exact Or.inl h
      · exact Or.inr (List.mem_of_mem_drop h)
  · rintro (h | h)
    · simp [h]
    · rw [← List.take_append_drop (clampIdx l.length i) l] at h
      rcases List.mem_append.1 h with h | h
      · exact List.mem_append_left _ h
      · exact List.mem_append_right _ (List.mem_cons_of_mem _ h)

theorem pyListInsert_nat {β} (l : List β) (k : Nat) (x : β) :
    pyListInsert l (k : Int) x = l.take k ++ x :: l.drop k := by
  rw [pyListInsert_eq]
  by_cases h : k ≤ l.length
  · have : clampIdx l.length (k : Int) = k := by unfold clampIdx; split <;> omega
    rw [this]
  · have : clampIdx l.length (k : Int) = l.length := by unfold clampIdx; split <;> omega
    rw [this, List.take_of_length_le (by omega : l.length ≤ k), List.drop_of_length_le (by omega : l.length ≤ k)]
    simp
/-! ## operations, runs, and the ordered-list specification -/

inductive TgOp
  | add (t : AnyTier Int) (idx : Option Int) (rep : Report)
  | remove (n : String)
  | rename (old new : String)
  | replace (n : String) (t : AnyTier Int) (rep : Report)

def step (g : Tg Int) : TgOp → Except Err (Tg Int)
  | .add t idx rep => g.addTier t idx rep
  | .remove n => g.removeTier n
  | .rename o n => g.renameTier o n
  | .replace n t rep => g.replaceTier n t rep

def run (g : Tg Int) : List TgOp → Tg Int
  | [] => g
  | op :: ops =>
    match step g op with
    | .ok g' => run g' ops
    | .error _ => run g ops

structure Spec where
  tiers : List (AnyTier Int)
  lo : Option Int
  hi : Option Int

def Spec.names (s : Spec) : List String := s.tiers.map (·.name)

def widenLo (o : Option Int) (x : Int) : Int :=
  match o with | none => x | some l => min l x
def widenHi (o : Option Int) (x : Int) : Int :=
  match o with | none => x | some h => max h x

def spanChanges (lo hi : Option Int) (t : AnyTier Int) : Bool :=
  lo.any (fun l => decide (t.lo < l)) || hi.any (fun h => decide (h < t.hi))

def subst (l : List (AnyTier Int)) (n : String) (t : AnyTier Int) : List (AnyTier Int) :=
  l.map fun u => if u.name = n then t else u

/-- Python's `dict[name] = tier` (append) or `list.insert(idx, …)` -/
def insAt (l : List (AnyTier Int)) (idx : Option Int) (t : AnyTier Int) : List (AnyTier Int) :=
  match idx with
  | none => l ++ [t]
  | some i => pyListInsert l i t

def Spec.widen (s : Spec) (tiers : List (AnyTier Int)) (t : AnyTier Int) : Spec :=
  ⟨tiers, some (widenLo s.lo t.lo), some (widenHi s.hi t.hi)⟩

def specStep (s : Spec) : TgOp → Except Err Spec
  | .add t idx rep =>
    if t.name ∈ s.names then .error .TierNameExistsError
    else if rep = .error ∧ spanChanges s.lo s.hi t then .error .TextgridStateAutoModified
    else .ok (s.widen (insAt s.tiers idx t) t)
  | .remove n =>
    if n ∈ s.names then .ok { s with tiers := s.tiers.filter (fun u => u.name ≠ n) }
    else .error .KeyError
  | .rename old new =>
    match s.tiers.find? (fun u => u.name == old) with
    | none => .error .KeyError
    | some t =>
      if new ≠ old ∧ new ∈ s.names then .error .TierNameExistsError
      else do
        let t' ← t.renew (name := some new)
        pure (s.widen (subst s.tiers old t') t')
  | .replace n t rep =>
    if n ∉ s.names then .error .ValueError
    else if t.name ≠ n ∧ t.name ∈ s.names then .error .TierNameExistsError
    else if rep = .error ∧ spanChanges s.lo s.hi t then .error .TextgridStateAutoModified
    else .ok (s.widen (subst s.tiers n t) t)

def abs (g : Tg Int) : Spec := ⟨g.tiers, g.lo, g.hi⟩

theorem addTier_dup (g : Tg Int) (t : AnyTier Int) (idx : Option Int) (rep : Report)
    (h : t.name ∈ g.names) : g.addTier t idx rep = .error .TierNameExistsError := by
  unfold Tg.addTier
  rw [if_pos (List.contains_iff_mem.2 h)]

theorem spanChanges_iff (lo hi : Option Int) (t : AnyTier Int) :
    spanChanges lo hi t = true ↔ (∃ l, lo = some l ∧ t.lo < l) ∨ (∃ h, hi = some h ∧ h < t.hi) := by
  cases lo <;> cases hi <;> simp [spanChanges]

/-- `addTier` on a fresh name, in one equation -/
theorem addTier_fresh (g : Tg Int) (t : AnyTier Int) (idx : Option Int) (rep : Report)
    (hn : t.name ∉ g.names) :
    g.addTier t idx rep =
      if rep = .error ∧ spanChanges g.lo g.hi t = true then .error .TextgridStateAutoModified
      else .ok ⟨insAt g.tiers idx t,
                some (widenLo g.lo t.lo), some (widenHi g.hi t.hi)⟩ := by
  unfold Tg.addTier
  rw [if_neg (by rw [List.contains_iff_mem]; exact hn)]
  obtain ⟨tiers, lo, hi⟩ := g
  have m1 : ∀ a b : Int, (if a < b then a else b) = min b a := by intro a b; split <;> omega
  have m2 : ∀ a b : Int, (if a < b then b else a) = max a b := by intro a b; split <;> omega
  cases idx <;> cases lo <;> cases hi <;> simp [spanChanges, widenLo, widenHi, m1, m2, insAt]


theorem addTier_inv {g g' : Tg Int} {t : AnyTier Int} {idx : Option Int} {rep : Report}
    (h : g.addTier t idx rep = .ok g') :
    t.name ∉ g.names ∧ ¬ (rep = .error ∧ spanChanges g.lo g.hi t = true) ∧
    g' = ⟨insAt g.tiers idx t,
          some (widenLo g.lo t.lo), some (widenHi g.hi t.hi)⟩ := by
  by_cases hn : t.name ∈ g.names
  · rw [addTier_dup g t idx rep hn] at h; cases h
  · rw [addTier_fresh g t idx rep hn] at h
    split at h
    · cases h
    · rename_i hc
      exact ⟨hn, hc, (Except.ok.inj h).symm⟩

/-! ### names, positions, filtering and substitution in a list of tiers -/

def namesOf (l : List (AnyTier Int)) : List String := l.map (·.name)

def idxOf (l : List (AnyTier Int)) (n : String) : Option Nat := (namesOf l).findIdx? (· == n)

theorem idxOf_cons (a : AnyTier Int) (l : List (AnyTier Int)) (n : String) :
    idxOf (a :: l) n = if a.name = n then some 0 else (idxOf l n).map (· + 1) := by
  simp [idxOf, namesOf, List.findIdx?_cons]

theorem idxOf_none_iff (l : List (AnyTier Int)) (n : String) : idxOf l n = none ↔ n ∉ namesOf l := by
  simp only [idxOf, List.findIdx?_eq_none_iff]
  constructor
  · intro h hm; simpa using h n hm
  · intro h x hx; simp; rintro rfl; exact h hx

theorem idxOf_isSome_iff (l : List (AnyTier Int)) (n : String) : (∃ k, idxOf l n = some k) ↔ n ∈ namesOf l := by
  cases h : idxOf l n with
  | none => simpa using (idxOf_none_iff l n).1 h
  | some k =>
    have : ¬ (n ∉ namesOf l) := fun hn => by rw [(idxOf_none_iff l n).2 hn] at h; cases h
    simpa using this

def dropName (l : List (AnyTier Int)) (n : String) : List (AnyTier Int) := l.filter (·.name != n)

theorem dropName_of_not_mem {l : List (AnyTier Int)} {n : String} (h : n ∉ namesOf l) : dropName l n = l := by
  apply List.filter_eq_self.2
  intro u hu
  simp only [bne_iff_ne, ne_eq]
  rintro rfl
  exact h (List.mem_map_of_mem hu)

theorem subst_of_not_mem {l : List (AnyTier Int)} {n : String} (t : AnyTier Int) (h : n ∉ namesOf l) :
    subst l n t = l := by
  unfold subst
  conv => rhs; rw [← List.map_id l]
  apply List.map_congr_left
  intro u hu
  rw [if_neg]; rfl
  rintro rfl
  exact h (List.mem_map_of_mem hu)

theorem mem_names_dropName {l : List (AnyTier Int)} {n m : String} :
    m ∈ namesOf (dropName l n) ↔ m ≠ n ∧ m ∈ namesOf l := by
  simp only [namesOf, dropName, List.mem_map, List.mem_filter, bne_iff_ne, ne_eq]
  constructor
  · rintro ⟨u, ⟨hu, hne⟩, rfl⟩; exact ⟨hne, u, hu, rfl⟩
  · rintro ⟨hne, u, hu, rfl⟩; exact ⟨u, ⟨hu, hne⟩, rfl⟩

theorem nodup_dropName {l : List (AnyTier Int)} (n : String) (h : (namesOf l).Nodup) :
    (namesOf (dropName l n)).Nodup :=
  h.sublist (List.Sublist.map _ List.filter_sublist)

/-- removing the tier called `n` and re-inserting a tier at its old position is substitution in place -/
theorem insert_dropName {l : List (AnyTier Int)} {n : String} {k : Nat} (t : AnyTier Int)
    (hnd : (namesOf l).Nodup) (hk : idxOf l n = some k) :
    pyListInsert (dropName l n) (k : Int) t = subst l n t := by
  rw [pyListInsert_nat]
  induction l generalizing k with
  | nil => simp [idxOf, namesOf] at hk
  | cons a l ih =>
    rw [idxOf_cons] at hk
    have hnd' : (namesOf l).Nodup := (List.nodup_cons.1 hnd).2
    have ha : a.name ∉ namesOf l := (List.nodup_cons.1 hnd).1
    by_cases han : a.name = n
    · rw [if_pos han] at hk; cases hk
      subst han
      have : dropName (a :: l) a.name = l := by
        simp only [dropName, List.filter_cons, bne_self_eq_false, Bool.false_eq_true, if_false]
        exact dropName_of_not_mem ha
      rw [this]
      simp [subst]
      exact (subst_of_not_mem t ha).symm
    · rw [if_neg han] at hk
      cases hj : idxOf l n with
      | none => rw [hj] at hk; cases hk
      | some j =>
        rw [hj] at hk; cases hk
        have : dropName (a :: l) n = a :: dropName l n := by
          simp [dropName, han]
        rw [this]
        have := ih hnd' hj
        simp only [List.take_succ_cons, List.drop_succ_cons, List.cons_append]
        rw [this]
        simp [subst, han]

theorem subst_eq_set {l : List (AnyTier Int)} {n : String} {k : Nat} (t : AnyTier Int)
    (hnd : (namesOf l).Nodup) (hk : idxOf l n = some k) : subst l n t = l.set k t := by
  induction l generalizing k with
  | nil => simp [idxOf, namesOf] at hk
  | cons a l ih =>
    rw [idxOf_cons] at hk
    have hnd' : (namesOf l).Nodup := (List.nodup_cons.1 hnd).2
    have ha : a.name ∉ namesOf l := (List.nodup_cons.1 hnd).1
    by_cases han : a.name = n
    · rw [if_pos han] at hk; cases hk
      subst han
      have := subst_of_not_mem t ha
      simp only [subst] at this
      simp [subst, this]
    · rw [if_neg han] at hk
      cases hj : idxOf l n with
      | none => rw [hj] at hk; cases hk
      | some j =>
        rw [hj] at hk; cases hk
        have := ih hnd' hj
        simp only [subst] at this
        simp [subst, han, this]

theorem dropName_eq_eraseIdx {l : List (AnyTier Int)} {n : String} {k : Nat}
    (hnd : (namesOf l).Nodup) (hk : idxOf l n = some k) : dropName l n = l.eraseIdx k := by
  induction l generalizing k with
  | nil => simp [idxOf, namesOf] at hk
  | cons a l ih =>
    rw [idxOf_cons] at hk
    have hnd' : (namesOf l).Nodup := (List.nodup_cons.1 hnd).2
    have ha : a.name ∉ namesOf l := (List.nodup_cons.1 hnd).1
    by_cases han : a.name = n
    · rw [if_pos han] at hk; cases hk
      subst han
      simp only [dropName, List.filter_cons, bne_self_eq_false, Bool.false_eq_true, if_false, List.eraseIdx_zero, List.tail_cons]
      exact dropName_of_not_mem ha
    · rw [if_neg han] at hk
      cases hj : idxOf l n with
      | none => rw [hj] at hk; cases hk
      | some j =>
        rw [hj] at hk; cases hk
        have := ih hnd' hj
        simp only [dropName] at this
        simp [dropName, han, this]

theorem idxOf_spec {l : List (AnyTier Int)} {n : String} {k : Nat} (hk : idxOf l n = some k) :
    ∃ u, l[k]? = some u ∧ u.name = n ∧ ∀ j, j < k → ∀ v, l[j]? = some v → v.name ≠ n := by
  induction l generalizing k with
  | nil => simp [idxOf, namesOf] at hk
  | cons a l ih =>
    rw [idxOf_cons] at hk
    by_cases han : a.name = n
    · rw [if_pos han] at hk; cases hk
      exact ⟨a, rfl, han, by intro j hj; omega⟩
    · rw [if_neg han] at hk
      cases hj : idxOf l n with
      | none => rw [hj] at hk; cases hk
      | some j =>
        rw [hj] at hk; cases hk
        obtain ⟨u, h1, h2, h3⟩ := ih hj
        refine ⟨u, by simpa using h1, h2, ?_⟩
        intro i hi v hv
        cases i with
        | zero => simp at hv; subst hv; exact han
        | succ i =>
          have hi' : i + 1 < j + 1 := hi
          exact h3 i (by omega) v (by simpa using hv)

/-! ### constructors keep the name they are given -/

theorem mkITier_name {n : String} {es : List (Iv Int)} {lo hi : Option Int} {t : ITier Int}
    (h : mkITier n es lo hi = .ok t) : t.name = n := by
  unfold mkITier at h
  simp only at h
  split at h
  · split at h
    · cases h; rfl
    · cases h
  · cases h

theorem mkPTier_name {n : String} {ps : List (Pt Int)} {lo hi : Option Int} {t : PTier Int}
    (h : mkPTier n ps lo hi = .ok t) : t.name = n := by
  unfold mkPTier at h
  simp only at h
  split at h
  · cases h; rfl
  · cases h

theorem map_ok {β γ} {f : β → γ} {x : Except Err β} {y : γ} (h : f <$> x = .ok y) :
    ∃ z, x = .ok z ∧ y = f z := by
  cases x with
  | error e => cases h
  | ok z => exact ⟨z, rfl, (Except.ok.inj h).symm⟩

theorem renew_name {t t' : AnyTier Int} {n : String} {lo hi : Option Int}
    (h : t.renew (name := some n) (lo := lo) (hi := hi) = .ok t') : t'.name = n := by
  cases t with
  | I t =>
    obtain ⟨z, hz, rfl⟩ := map_ok h
    exact mkITier_name hz
  | P t =>
    obtain ⟨z, hz, rfl⟩ := map_ok h
    exact mkPTier_name hz

/-! ### the four mutators, each in one equation -/

theorem removeTier_eq (g : Tg Int) (n : String) :
    g.removeTier n = if n ∈ g.names then .ok ⟨dropName g.tiers n, g.lo, g.hi⟩ else .error .KeyError := by
  unfold Tg.removeTier
  by_cases h : n ∈ g.names
  · rw [if_pos (List.contains_iff_mem.2 h), if_pos h]; rfl
  · rw [if_neg (by rw [List.contains_iff_mem]; exact h), if_neg h]

theorem replaceTier_eq (g : Tg Int) (n : String) (t : AnyTier Int) (rep : Report) (hnd : g.names.Nodup) :
    g.replaceTier n t rep =
      if n ∉ g.names then .error .ValueError
      else if t.name ≠ n ∧ t.name ∈ g.names then .error .TierNameExistsError
      else if rep = .error ∧ spanChanges g.lo g.hi t = true then .error .TextgridStateAutoModified
      else .ok ⟨subst g.tiers n t, some (widenLo g.lo t.lo), some (widenHi g.hi t.hi)⟩ := by
  unfold Tg.replaceTier
  have hi : g.indexOf n = idxOf g.tiers n := rfl
  rw [hi]
  cases hk : idxOf g.tiers n with
  | none =>
    have : n ∉ g.names := (idxOf_none_iff _ _).1 hk
    simp [this]
  | some k =>
    have hm : n ∈ g.names := (idxOf_isSome_iff _ _).1 ⟨k, hk⟩
    rw [if_neg (fun h => h hm), removeTier_eq, if_pos hm]
    simp only [bind, Except.bind]
    by_cases hc : t.name ≠ n ∧ t.name ∈ g.names
    · rw [if_pos hc, addTier_dup]
      exact mem_names_dropName.2 hc
    · rw [if_neg hc, addTier_fresh _ _ _ _ (fun h => hc (mem_names_dropName.1 h))]
      simp only [insAt, insert_dropName t hnd hk]

theorem find_name {l : List (AnyTier Int)} {n : String} {t : AnyTier Int}
    (h : l.find? (·.name == n) = some t) : t ∈ l ∧ t.name = n := by
  have := List.find?_some h
  exact ⟨List.mem_of_find?_eq_some h, by simpa using this⟩

theorem find_none {l : List (AnyTier Int)} {n : String}
    (h : l.find? (·.name == n) = none) : n ∉ namesOf l := by
  intro hm
  obtain ⟨u, hu, rfl⟩ := List.mem_map.1 hm
  have := List.find?_eq_none.1 h u hu
  simp at this

theorem renameTier_absent (g : Tg Int) (old new : String) (h : old ∉ g.names) :
    g.renameTier old new = .error .KeyError := by
  unfold Tg.renameTier Tg.getTier
  cases hf : g.tiers.find? (·.name == old) with
  | none => rfl
  | some t =>
    exact absurd (List.mem_map.2 ⟨t, (find_name hf).1, (find_name hf).2⟩) h

theorem renameTier_eq (g : Tg Int) (old new : String) (t : AnyTier Int) (hnd : g.names.Nodup)
    (hf : g.tiers.find? (·.name == old) = some t) :
    g.renameTier old new =
      if new ≠ old ∧ new ∈ g.names then .error .TierNameExistsError
      else (do
        let t' ← t.renew (name := some new)
        pure ⟨subst g.tiers old t', some (widenLo g.lo t'.lo), some (widenHi g.hi t'.hi)⟩) := by
  have hm : old ∈ g.names := List.mem_map.2 ⟨t, (find_name hf).1, (find_name hf).2⟩
  obtain ⟨k, hk⟩ := (idxOf_isSome_iff _ _).2 hm
  have hi : g.indexOf old = some k := hk
  unfold Tg.renameTier Tg.getTier
  simp only [hf, hi, Option.getD_some, bind, Except.bind]
  have hb : ((new != old && g.names.contains new) = true) ↔ (new ≠ old ∧ new ∈ g.names) := by
    rw [Bool.and_eq_true, bne_iff_ne, List.contains_iff_mem]
  by_cases hc : new ≠ old ∧ new ∈ g.names
  · rw [if_pos hc]
    have this : (new != old && g.names.contains new) = true := hb.2 hc
    simp only [this, if_true, throw, throwThe, MonadExceptOf.throw]
  · rw [if_neg hc]
    have this : (new != old && g.names.contains new) = false := by
      rw [← Bool.not_eq_true]; exact fun h => hc (hb.1 h)
    simp only [this, Bool.false_eq_true, if_false, pure, Except.pure, removeTier_eq, if_pos hm]
    cases hr : t.renew (name := some new) with
    | error e => rfl
    | ok t' =>
      simp only
      have hn : t'.name = new := renew_name hr
      have hfresh : t'.name ∉ (⟨dropName g.tiers old, g.lo, g.hi⟩ : Tg Int).names := by
        rw [hn]
        intro h
        have := mem_names_dropName.1 h
        exact hc this
      rw [addTier_fresh _ _ _ _ hfresh]
      simp [insAt, insert_dropName t' hnd hk]

/-! ### more list facts: uniqueness of names under insertion and substitution, look-up by position -/

theorem nodup_insAt {l : List (AnyTier Int)} (idx : Option Int) {t : AnyTier Int}
    (h : (namesOf l).Nodup) (ht : t.name ∉ namesOf l) : (namesOf (insAt l idx t)).Nodup := by
  cases idx with
  | none =>
    simp only [insAt, namesOf, List.map_append, List.map_cons, List.map_nil]
    apply List.nodup_append.2
    refine ⟨h, by simp, ?_⟩
    intro a ha b hb
    simp only [List.mem_singleton] at hb
    subst hb
    rintro rfl
    exact ht ha
  | some i =>
    simp only [insAt, pyListInsert_eq, namesOf, List.map_append, List.map_cons]
    rw [List.perm_middle.nodup_iff, ← List.map_append, List.take_append_drop]
    exact List.nodup_cons.2 ⟨ht, h⟩

theorem nodup_subst {l : List (AnyTier Int)} {n : String} {t : AnyTier Int}
    (h : (namesOf l).Nodup) (hc : ¬ (t.name ≠ n ∧ t.name ∈ namesOf l)) : (namesOf (subst l n t)).Nodup := by
  by_cases hn : n ∈ namesOf l
  · obtain ⟨k, hk⟩ := (idxOf_isSome_iff _ _).2 hn
    rw [← insert_dropName t h hk]
    exact nodup_insAt (some (k : Int)) (nodup_dropName n h) (fun hm => hc (mem_names_dropName.1 hm))
  · rw [subst_of_not_mem t hn]; exact h

theorem idxOf_of_getElem {l : List (AnyTier Int)} {k : Nat} {u : AnyTier Int}
    (h : (namesOf l).Nodup) (hu : l[k]? = some u) : idxOf l u.name = some k := by
  induction l generalizing k with
  | nil => simp at hu
  | cons a l ih =>
    have hnd' : (namesOf l).Nodup := (List.nodup_cons.1 h).2
    have ha : a.name ∉ namesOf l := (List.nodup_cons.1 h).1
    rw [idxOf_cons]
    cases k with
    | zero =>
      simp at hu; subst hu; simp
    | succ k =>
      have hu' : l[k]? = some u := by simpa using hu
      have : a.name ≠ u.name := by
        intro e; rw [e] at ha
        exact ha (List.mem_map.2 ⟨u, List.mem_of_getElem? hu', rfl⟩)
      rw [if_neg this, ih hnd' hu']
      rfl

theorem find_eq_getElem {l : List (AnyTier Int)} {n : String} {k : Nat} (hk : idxOf l n = some k) :
    l.find? (·.name == n) = l[k]? := by
  induction l generalizing k with
  | nil => simp [idxOf, namesOf] at hk
  | cons a l ih =>
    rw [idxOf_cons] at hk
    by_cases han : a.name = n
    · rw [if_pos han] at hk; cases hk
      simp [han]
    · rw [if_neg han] at hk
      cases hj : idxOf l n with
      | none => rw [hj] at hk; cases hk
      | some j =>
        rw [hj] at hk; cases hk
        simp [han, ih hj]

theorem idxOf_lt {l : List (AnyTier Int)} {n : String} {k : Nat} (hk : idxOf l n = some k) : k < l.length := by
  obtain ⟨u, hu, _⟩ := idxOf_spec hk
  exact (List.getElem?_eq_some_iff.1 hu).1

/-! ## C12, part 1: the four mutators -/

/-- (2) a duplicate name is rejected — `addTier_dup` above.  (3) a fresh name is accepted unless the caller
asked for an exception on a span change; the tier lands where `list.insert` puts it -/
theorem addTier_spec (g : Tg Int) (t : AnyTier Int) (idx : Option Int) (rep : Report)
    (hn : t.name ∉ g.names) (hr : ¬ (rep = .error ∧ spanChanges g.lo g.hi t = true)) :
    ∃ g', g.addTier t idx rep = .ok g' ∧
      g'.tiers = (match idx with | none => g.tiers ++ [t] | some i => pyListInsert g.tiers i t) ∧
      g'.lo = some (widenLo g.lo t.lo) ∧ g'.hi = some (widenHi g.hi t.hi) := by
  rw [addTier_fresh g t idx rep hn, if_neg hr]
  refine ⟨_, rfl, ?_, rfl, rfl⟩
  cases idx <;> rfl

/-- the only other outcome on a fresh name -/
theorem addTier_report (g : Tg Int) (t : AnyTier Int) (idx : Option Int)
    (hn : t.name ∉ g.names) (hr : spanChanges g.lo g.hi t = true) :
    g.addTier t idx .error = .error .TextgridStateAutoModified := by
  rw [addTier_fresh g t idx .error hn, if_pos ⟨rfl, hr⟩]

/-- `list.insert(i, x)`: one element more, `x` sits at the clamped index `k`, the rest is the old list in order -/
theorem pyListInsert_spec {β} (l : List β) (i : Int) (x : β) :
    let k := (if i < 0 then max 0 (i + (l.length : Int)) else min i (l.length : Int)).toNat
    k ≤ l.length ∧ (pyListInsert l i x).length = l.length + 1 ∧
    (pyListInsert l i x)[k]? = some x ∧ (pyListInsert l i x).eraseIdx k = l :=
  ⟨clampIdx_le _ _, pyListInsert_length _ _ _, pyListInsert_get _ _ _, pyListInsert_eraseIdx _ _ _⟩

/-- (1) names stay pairwise different -/
theorem names_nodup_step {g g' : Tg Int} {op : TgOp} (hnd : g.names.Nodup) (h : step g op = .ok g') :
    g'.names.Nodup := by
  cases op with
  | add t idx rep =>
    obtain ⟨hn, _, rfl⟩ := addTier_inv h
    exact nodup_insAt idx hnd hn
  | remove n =>
    simp only [step, removeTier_eq] at h
    split at h
    · cases h; exact nodup_dropName n hnd
    · cases h
  | rename old new =>
    simp only [step] at h
    cases hf : g.tiers.find? (·.name == old) with
    | none => rw [renameTier_absent g old new (find_none hf)] at h; cases h
    | some t =>
      rw [renameTier_eq g old new t hnd hf] at h
      split at h
      · cases h
      · rename_i hc
        cases hr : t.renew (name := some new) with
        | error e => rw [hr] at h; cases h
        | ok t' =>
          rw [hr] at h
          cases h
          exact nodup_subst hnd (by rw [renew_name hr]; exact hc)
  | replace n t rep =>
    simp only [step, replaceTier_eq g n t rep hnd] at h
    split at h
    · cases h
    · split at h
      · cases h
      · rename_i hc
        split at h
        · cases h
        · cases h; exact nodup_subst hnd hc

theorem names_nodup_run_from {g : Tg Int} (hnd : g.names.Nodup) (ops : List TgOp) : (run g ops).names.Nodup := by
  induction ops generalizing g with
  | nil => exact hnd
  | cons op ops ih =>
    simp only [run]
    cases h : step g op with
    | error e => exact ih hnd
    | ok g' => exact ih (names_nodup_step hnd h)

theorem names_nodup_run (ops : List TgOp) : (run ⟨[], none, none⟩ ops).names.Nodup :=
  names_nodup_run_from (by simp [Tg.names]) ops

/-! ### (4) the span only widens -/

theorem widenLo_le (o : Option Int) (x : Int) : widenLo o x ≤ x ∧ ∀ l, o = some l → widenLo o x ≤ l := by
  cases o with
  | none => exact ⟨Int.le_refl _, by intro l h; cases h⟩
  | some l => exact ⟨Int.min_le_right _ _, by intro l' h; cases h; exact Int.min_le_left _ _⟩

theorem le_widenHi (o : Option Int) (x : Int) : x ≤ widenHi o x ∧ ∀ h, o = some h → h ≤ widenHi o x := by
  cases o with
  | none => exact ⟨Int.le_refl _, by intro l h; cases h⟩
  | some l => exact ⟨Int.le_max_right _ _, by intro l' h; cases h; exact Int.le_max_left _ _⟩

/-- after `addTier` the span is exactly the hull of the old span and the tier's span -/
theorem addTier_span {g g' : Tg Int} {t : AnyTier Int} {idx : Option Int} {rep : Report}
    (h : g.addTier t idx rep = .ok g') :
    g'.lo = some (match g.lo with | none => t.lo | some l => min l t.lo) ∧
    g'.hi = some (match g.hi with | none => t.hi | some h => max h t.hi) := by
  obtain ⟨_, _, rfl⟩ := addTier_inv h
  constructor
  · cases g.lo <;> rfl
  · cases g.hi <;> rfl

/-- what one successful step does to the span: nothing, or the hull with one tier's span -/
theorem step_span {g g' : Tg Int} {op : TgOp} (hnd : g.names.Nodup) (h : step g op = .ok g') :
    (g'.lo = g.lo ∧ g'.hi = g.hi) ∨
    ∃ t ∈ g'.tiers, g'.lo = some (widenLo g.lo t.lo) ∧ g'.hi = some (widenHi g.hi t.hi) := by
  cases op with
  | add t idx rep =>
    obtain ⟨_, _, rfl⟩ := addTier_inv h
    refine Or.inr ⟨t, ?_, rfl, rfl⟩
    cases idx with
    | none => simp [insAt]
    | some i => exact (mem_pyListInsert _ _ _ _).2 (Or.inl rfl)
  | remove n =>
    simp only [step, removeTier_eq] at h
    split at h
    · cases h; exact Or.inl ⟨rfl, rfl⟩
    · cases h
  | rename old new =>
    simp only [step] at h
    cases hf : g.tiers.find? (·.name == old) with
    | none => rw [renameTier_absent g old new (find_none hf)] at h; cases h
    | some t =>
      rw [renameTier_eq g old new t hnd hf] at h
      split at h
      · cases h
      · cases hr : t.renew (name := some new) with
        | error e => rw [hr] at h; cases h
        | ok t' =>
          rw [hr] at h
          cases h
          refine Or.inr ⟨t', ?_, rfl, rfl⟩
          refine List.mem_map.2 ⟨t, (find_name hf).1, ?_⟩
          rw [if_pos (find_name hf).2]
  | replace n t rep =>
    simp only [step, replaceTier_eq g n t rep hnd] at h
    split at h
    · cases h
    · rename_i hm
      split at h
      · cases h
      · split at h
        · cases h
        · cases h
          refine Or.inr ⟨t, ?_, rfl, rfl⟩
          obtain ⟨u, hu, hn⟩ := List.mem_map.1 (Classical.not_not.1 hm)
          refine List.mem_map.2 ⟨u, hu, ?_⟩
          rw [if_pos hn]

theorem span_widens {g g' : Tg Int} {op : TgOp} (hnd : g.names.Nodup) (h : step g op = .ok g') :
    (∀ l, g.lo = some l → ∃ l', g'.lo = some l' ∧ l' ≤ l) ∧
    (∀ hi, g.hi = some hi → ∃ hi', g'.hi = some hi' ∧ hi ≤ hi') := by
  rcases step_span hnd h with ⟨h1, h2⟩ | ⟨t, _, h1, h2⟩
  · exact ⟨fun l hl => ⟨l, by rw [h1, hl], Int.le_refl _⟩, fun x hx => ⟨x, by rw [h2, hx], Int.le_refl _⟩⟩
  · exact ⟨fun l hl => ⟨_, h1, (widenLo_le _ _).2 l hl⟩, fun x hx => ⟨_, h2, (le_widenHi _ _).2 x hx⟩⟩

/-- every tier lies inside the textgrid's span -/
def Covered (g : Tg Int) : Prop :=
  ∀ t ∈ g.tiers, (∃ l, g.lo = some l ∧ l ≤ t.lo) ∧ (∃ h, g.hi = some h ∧ t.hi ≤ h)

theorem covered_step {g g' : Tg Int} {op : TgOp} (hnd : g.names.Nodup) (hc : Covered g)
    (h : step g op = .ok g') : Covered g' := by
  have hsub : ∀ u ∈ g'.tiers, u ∈ g.tiers ∨
      (g'.lo = some (widenLo g.lo u.lo) ∧ g'.hi = some (widenHi g.hi u.hi)) := by
    cases op with
    | add t idx rep =>
      obtain ⟨_, _, rfl⟩ := addTier_inv h
      intro u hu
      have : u = t ∨ u ∈ g.tiers := by
        cases idx with
        | none => simpa [insAt, or_comm] using hu
        | some i => exact (mem_pyListInsert _ _ _ _).1 hu
      rcases this with rfl | hu
      · exact Or.inr ⟨rfl, rfl⟩
      · exact Or.inl hu
    | remove n =>
      simp only [step, removeTier_eq] at h
      split at h
      · cases h; intro u hu; exact Or.inl ((List.mem_filter.1 hu).1)
      · cases h
    | rename old new =>
      simp only [step] at h
      cases hf : g.tiers.find? (·.name == old) with
      | none => rw [renameTier_absent g old new (find_none hf)] at h; cases h
      | some t =>
        rw [renameTier_eq g old new t hnd hf] at h
        split at h
        · cases h
        · cases hr : t.renew (name := some new) with
          | error e => rw [hr] at h; cases h
          | ok t' =>
            rw [hr] at h
            cases h
            intro u hu
            obtain ⟨v, hv, rfl⟩ := List.mem_map.1 hu
            split
            · exact Or.inr ⟨rfl, rfl⟩
            · exact Or.inl hv
    | replace n t rep =>
      simp only [step, replaceTier_eq g n t rep hnd] at h
      split at h
      · cases h
      · split at h
        · cases h
        · split at h
          · cases h
          · cases h
            intro u hu
            obtain ⟨v, hv, rfl⟩ := List.mem_map.1 hu
            split
            · exact Or.inr ⟨rfl, rfl⟩
            · exact Or.inl hv
  obtain ⟨w1, w2⟩ := span_widens hnd h
  intro u hu
  rcases hsub u hu with hm | ⟨e1, e2⟩
  · obtain ⟨⟨l, hl, hl'⟩, ⟨x, hx, hx'⟩⟩ := hc u hm
    obtain ⟨l', e1, e2⟩ := w1 l hl
    obtain ⟨x', e3, e4⟩ := w2 x hx
    exact ⟨⟨l', e1, by omega⟩, ⟨x', e3, by omega⟩⟩
  · exact ⟨⟨_, e1, (widenLo_le _ _).1⟩, ⟨_, e2, (le_widenHi _ _).1⟩⟩

theorem covered_run (ops : List TgOp) : Covered (run ⟨[], none, none⟩ ops) := by
  suffices ∀ g : Tg Int, g.names.Nodup → Covered g → Covered (run g ops) from
    this _ (by simp [Tg.names]) (by intro t ht; cases ht)
  induction ops with
  | nil => intro g _ hc; exact hc
  | cons op ops ih =>
    intro g hnd hc
    simp only [run]
    cases h : step g op with
    | error e => exact ih g hnd hc
    | ok g' => exact ih g' (names_nodup_step hnd h) (covered_step hnd hc h)

/-! ### (5) remove, rename, replace by position -/

theorem mkITier_err {n : String} {es : List (Iv Int)} {lo hi : Option Int} {e : Err}
    (h : mkITier n es lo hi = .error e) : e = .TextgridStateError ∨ e = .Timeless := by
  unfold mkITier at h
  simp only at h
  split at h
  · split at h
    · cases h
    · cases h; exact Or.inl rfl
  · cases h; exact Or.inr rfl

theorem mkPTier_err {n : String} {ps : List (Pt Int)} {lo hi : Option Int} {e : Err}
    (h : mkPTier n ps lo hi = .error e) : e = .TextgridStateError ∨ e = .Timeless := by
  unfold mkPTier at h
  simp only at h
  split at h
  · cases h
  · cases h; exact Or.inr rfl

theorem map_err {β γ} {f : β → γ} {x : Except Err β} {e : Err} (h : f <$> x = .error e) : x = .error e := by
  cases x with
  | error e' => simpa [Functor.map, Except.map] using h
  | ok z => cases h

theorem renew_err {t : AnyTier Int} {n : Option String} {lo hi : Option Int} {e : Err}
    (h : t.renew n lo hi = .error e) : e = .TextgridStateError ∨ e = .Timeless := by
  cases t with
  | I t => exact mkITier_err (map_err h)
  | P t => exact mkPTier_err (map_err h)

/-- position and look-up of the tier that was put at position `k` -/
theorem set_lookup {l : List (AnyTier Int)} {k : Nat} {t : AnyTier Int} (hk : k < l.length)
    (hnd : (namesOf (l.set k t)).Nodup) :
    idxOf (l.set k t) t.name = some k ∧ (l.set k t).find? (·.name == t.name) = some t := by
  have hget : (l.set k t)[k]? = some t := by simp [hk]
  have hi := idxOf_of_getElem hnd hget
  exact ⟨hi, by rw [find_eq_getElem hi, hget]⟩

/-- `removeTier`: `KeyError` exactly for an absent name; otherwise exactly the tier at the name's position goes,
the others keep their order; the span is untouched -/
theorem removeTier_spec (g : Tg Int) (n : String) (hnd : g.names.Nodup) :
    (g.removeTier n = .error .KeyError ↔ n ∉ g.names) ∧
    (∀ e, g.removeTier n = .error e → e = .KeyError) ∧
    (∀ k, g.indexOf n = some k → g.removeTier n = .ok ⟨g.tiers.eraseIdx k, g.lo, g.hi⟩) := by
  rw [removeTier_eq]
  refine ⟨?_, ?_, ?_⟩
  · by_cases h : n ∈ g.names
    · rw [if_pos h]; simp [h]
    · rw [if_neg h]; simp [h]
  · intro e h
    split at h
    · cases h
    · cases h; rfl
  · intro k hk
    have hk' : idxOf g.tiers n = some k := hk
    rw [if_pos (show n ∈ g.names from (idxOf_isSome_iff _ _).1 ⟨k, hk'⟩), dropName_eq_eraseIdx hnd hk']

/-- `renameTier` of a present name: `TierNameExistsError` exactly on a clash with another tier; otherwise,
if the renamed copy `t'` re-validates (hypothesis `hr`), it takes the old tier's position, every other position
is unchanged, and `new` now maps to `t'` -/
theorem renameTier_spec (g : Tg Int) (old new : String) (hnd : g.names.Nodup) (hold : old ∈ g.names) :
    (g.renameTier old new = .error .TierNameExistsError ↔ new ≠ old ∧ new ∈ g.names) ∧
    (∀ k t t', g.indexOf old = some k → g.tiers[k]? = some t →
      ¬ (new ≠ old ∧ new ∈ g.names) → t.renew (name := some new) = .ok t' →
      ∃ g', g.renameTier old new = .ok g' ∧ g'.tiers = g.tiers.set k t' ∧ t'.name = new ∧
        g'.indexOf new = some k ∧ g'.getTier new = .ok t' ∧
        g'.lo = some (widenLo g.lo t'.lo) ∧ g'.hi = some (widenHi g.hi t'.hi)) := by
  obtain ⟨k, hk⟩ := (idxOf_isSome_iff _ _).2 hold
  obtain ⟨t, ht, _, _⟩ := idxOf_spec hk
  have hf : g.tiers.find? (·.name == old) = some t := by rw [find_eq_getElem hk, ht]
  rw [renameTier_eq g old new t hnd hf]
  constructor
  · by_cases hc : new ≠ old ∧ new ∈ g.names
    · rw [if_pos hc]; simp [hc]
    · rw [if_neg hc]
      cases hr : t.renew (name := some new) with
      | error e =>
        rcases renew_err hr with rfl | rfl <;>
          simp only [bind, Except.bind, hc, iff_false] <;> intro h <;> cases h
      | ok t' => simp only [bind, Except.bind, pure, Except.pure, hc, iff_false]; intro h; cases h
  · intro k' t0 t' hk' ht0 hc hr
    have hkk : k' = k := by
      have : idxOf g.tiers old = some k' := hk'
      rw [hk] at this; cases this; rfl
    subst hkk
    rw [ht] at ht0; cases ht0
    rw [if_neg hc, hr]
    simp only [bind, Except.bind, pure, Except.pure]
    have hn : t'.name = new := renew_name hr
    have hs := subst_eq_set t' hnd hk
    refine ⟨_, rfl, hs, hn, ?_, ?_, rfl, rfl⟩
    · have := (set_lookup (t := t') (idxOf_lt hk) (by rw [← hs]; exact nodup_subst hnd (by rw [hn]; exact hc))).1
      rw [hn] at this
      show idxOf (subst g.tiers old t') new = some k'
      rw [hs]; exact this
    · have := (set_lookup (t := t') (idxOf_lt hk) (by rw [← hs]; exact nodup_subst hnd (by rw [hn]; exact hc))).2
      rw [hn] at this
      show Tg.getTier ⟨subst g.tiers old t', _, _⟩ new = .ok t'
      simp only [Tg.getTier, hs, this]

/-- `replaceTier`: `ValueError` exactly for an absent name; otherwise, unless the new tier's name clashes with
another tier or an exception on a span change was requested, the new tier sits at the old one's position -/
theorem replaceTier_spec (g : Tg Int) (n : String) (t : AnyTier Int) (rep : Report) (hnd : g.names.Nodup) :
    (g.replaceTier n t rep = .error .ValueError ↔ n ∉ g.names) ∧
    (n ∈ g.names → t.name ≠ n → t.name ∈ g.names → g.replaceTier n t rep = .error .TierNameExistsError) ∧
    (∀ k, g.indexOf n = some k → ¬ (t.name ≠ n ∧ t.name ∈ g.names) →
      ¬ (rep = .error ∧ spanChanges g.lo g.hi t = true) →
      ∃ g', g.replaceTier n t rep = .ok g' ∧ g'.tiers = g.tiers.set k t ∧
        g'.indexOf t.name = some k ∧ g'.getTier t.name = .ok t ∧
        g'.lo = some (widenLo g.lo t.lo) ∧ g'.hi = some (widenHi g.hi t.hi)) := by
  rw [replaceTier_eq g n t rep hnd]
  refine ⟨?_, ?_, ?_⟩
  · by_cases h : n ∈ g.names
    · rw [if_neg (fun h' => h' h)]
      simp only [h, not_true_eq_false, iff_false]
      intro h'
      split at h'
      · cases h'
      · split at h' <;> cases h'
    · rw [if_pos h]; simp [h]
  · intro h1 h2 h3
    rw [if_neg (fun h' => h' h1), if_pos ⟨h2, h3⟩]
  · intro k hk hc hr
    have hk' : idxOf g.tiers n = some k := hk
    have hm : n ∈ g.names := (idxOf_isSome_iff _ _).1 ⟨k, hk'⟩
    rw [if_neg (fun h' => h' hm), if_neg hc, if_neg hr]
    have hs := subst_eq_set t hnd hk'
    have hl := set_lookup (t := t) (idxOf_lt hk') (by rw [← hs]; exact nodup_subst hnd hc)
    refine ⟨_, rfl, hs, ?_, ?_, rfl, rfl⟩
    · show idxOf (subst g.tiers n t) t.name = some k
      rw [hs]; exact hl.1
    · show Tg.getTier ⟨subst g.tiers n t, _, _⟩ t.name = .ok t
      simp only [Tg.getTier, hs, hl.2]

/-! ### (6) refinement of the ordered-list specification -/

def specRun (s : Spec) : List TgOp → Spec
  | [] => s
  | op :: ops =>
    match specStep s op with
    | .ok s' => specRun s' ops
    | .error _ => specRun s ops

/-- **main theorem**: one operation of the textgrid and of the ordered-list specification agree — the same
exception, or success with the same names, order, tiers and span -/
theorem step_refines_spec (g : Tg Int) (op : TgOp) (hnd : g.names.Nodup) :
    (step g op).map abs = specStep (abs g) op := by
  have e1 : (abs g).names = g.names := rfl
  have e2 : (abs g).tiers = g.tiers := rfl
  have e3 : (abs g).lo = g.lo := rfl
  have e4 : (abs g).hi = g.hi := rfl
  cases op with
  | add t idx rep =>
    simp only [step, specStep, e1, e2, e3, e4]
    by_cases hn : t.name ∈ g.names
    · rw [addTier_dup g t idx rep hn, if_pos hn]; rfl
    · rw [addTier_fresh g t idx rep hn, if_neg hn]
      by_cases hr : rep = .error ∧ spanChanges g.lo g.hi t = true
      · rw [if_pos hr, if_pos hr]; rfl
      · rw [if_neg hr, if_neg hr]; rfl
  | remove n =>
    simp only [step, specStep, e1, e2, removeTier_eq]
    have : g.tiers.filter (fun u => decide (u.name ≠ n)) = dropName g.tiers n := by
      unfold dropName; congr 1; funext u; by_cases h : u.name = n <;> simp [h]
    rw [this]
    by_cases hn : n ∈ g.names
    · rw [if_pos hn, if_pos hn]; rfl
    · rw [if_neg hn, if_neg hn]; rfl
  | rename old new =>
    simp only [step, specStep, e1, e2]
    cases hf : g.tiers.find? (·.name == old) with
    | none => rw [renameTier_absent g old new (find_none hf)]; rfl
    | some t =>
      rw [renameTier_eq g old new t hnd hf]
      simp only
      by_cases hc : new ≠ old ∧ new ∈ g.names
      · rw [if_pos hc, if_pos hc]; rfl
      · rw [if_neg hc, if_neg hc]
        cases t.renew (name := some new) <;> rfl
  | replace n t rep =>
    simp only [step, specStep, e1, e2, e3, e4, replaceTier_eq g n t rep hnd]
    by_cases hn : n ∉ g.names
    · rw [if_pos hn, if_pos hn]; rfl
    · rw [if_neg hn, if_neg hn]
      by_cases hc : t.name ≠ n ∧ t.name ∈ g.names
      · rw [if_pos hc, if_pos hc]; rfl
      · rw [if_neg hc, if_neg hc]
        by_cases hr : rep = .error ∧ spanChanges g.lo g.hi t = true
        · rw [if_pos hr, if_pos hr]; rfl
        · rw [if_neg hr, if_neg hr]; rfl

theorem run_refines_spec_from (g : Tg Int) (ops : List TgOp) (hnd : g.names.Nodup) :
    abs (run g ops) = specRun (abs g) ops := by
  induction ops generalizing g with
  | nil => rfl
  | cons op ops ih =>
    have hs := step_refines_spec g op hnd
    simp only [run, specRun]
    cases h : step g op with
    | error e =>
      rw [h] at hs
      rw [← hs]
      exact ih g hnd
    | ok g' =>
      rw [h] at hs
      rw [← hs]
      exact ih g' (names_nodup_step hnd h)

/-- any sequence of operations on an empty textgrid: names, order, tiers and span are those of the list model -/
theorem run_refines_spec (ops : List TgOp) :
    abs (run ⟨[], none, none⟩ ops) = specRun ⟨[], none, none⟩ ops :=
  run_refines_spec_from _ ops (by simp [Tg.names])

/-! ## C13 (pure model): a failing mutator leaves the textgrid as it was -/

theorem mutator_atomic (g : Tg Int) (op : TgOp) (e : Err) (h : step g op = .error e) : run g [op] = g := by
  simp only [run, h]

/-- … and a run is the fold of the successful steps only -/
theorem run_cons (g : Tg Int) (op : TgOp) (ops : List TgOp) :
    run g (op :: ops) = run (match step g op with | .ok g' => g' | .error _ => g) ops := by
  simp only [run]; cases step g op <;> rfl

end C12
